//! Deliberately dumb shim: one request per line on stdin, one canonical result line on stdout.
//! Every request runs the REAL weechess code in-process under `catch_unwind`.
#![feature(generic_const_exprs)]
#![allow(incomplete_features)]

use std::io::{BufRead, Write};
use std::panic::{catch_unwind, AssertUnwindSafe};

use rand::SeedableRng;
use rand_chacha::ChaCha8Rng;
use weechess_core::notation::{into_notation, lan::Lan, try_from_notation, Fen, San};
use weechess_core::{
    AttackGenerator, BitBoard, Color, Move, MoveGenerator, MoveQuery, MovePerformError, Piece,
    PieceIndex, Side, Square, State, ZobristHasher,
};
use weechess_engine::eval::Evaluator;
use weechess_engine::searcher::{verif, Searcher, StatusEvent};

fn unhex(s: &str) -> Option<String> {
    if s == "-" {
        return Some(String::new());
    }
    let b: Option<Vec<u8>> = (0..s.len())
        .step_by(2)
        .map(|i| s.get(i..i + 2).and_then(|h| u8::from_str_radix(h, 16).ok()))
        .collect();
    String::from_utf8(b?).ok()
}

fn fen_of(state: &State) -> String {
    into_notation::<_, Fen>(state).to_string()
}

fn parse_fen(s: &str) -> Option<State> {
    try_from_notation::<State, Fen>(s).ok()
}

fn piece_of(code: u32) -> Piece {
    match code {
        0 => Piece::None,
        1 => Piece::Pawn,
        2 => Piece::Knight,
        3 => Piece::Bishop,
        4 => Piece::Rook,
        5 => Piece::Queen,
        _ => Piece::King,
    }
}

fn piece_code(p: Piece) -> u32 {
    p as u8 as u32
}

fn opt_piece_code(p: Option<Piece>) -> u32 {
    p.map(piece_code).unwrap_or(0)
}

fn color_of(s: &str) -> Color {
    if s == "w" {
        Color::White
    } else {
        Color::Black
    }
}

fn bb(b: BitBoard) -> u64 {
    b.into()
}

fn err_name(e: &MovePerformError) -> &'static str {
    match e {
        MovePerformError::AmbiguousMove => "ambiguous",
        MovePerformError::IllegalEnPassant => "illegalep",
        MovePerformError::UnknownMove => "unknown",
    }
}

fn accessors(m: &Move) -> String {
    format!(
        "{} {} {} {} {} {} {} {} {} {}",
        m.as_raw(),
        piece_code(m.piece()),
        if m.color() == Color::White { "w" } else { "b" },
        Into::<u32>::into(m.origin()),
        Into::<u32>::into(m.destination()),
        opt_piece_code(m.capture()),
        opt_piece_code(m.promotion()),
        m.is_en_passant() as u8,
        m.is_double_pawn() as u8,
        match m.castle_side() {
            None => "-",
            Some(Side::King) => "K",
            Some(Side::Queen) => "Q",
        }
    )
}

fn query_str(q: &MoveQuery) -> String {
    let o = |x: Option<usize>| x.map(|v| v.to_string()).unwrap_or("-".into());
    format!(
        "{} {} {} {} {} {} {} {}",
        q.piece.map(|p| piece_code(p).to_string()).unwrap_or("-".into()),
        o(q.origin_rank.map(|r| r.index())),
        o(q.origin_file.map(|f| f.index())),
        o(q.dest_rank.map(|r| r.index())),
        o(q.dest_file.map(|f| f.index())),
        q.promotion.map(|p| piece_code(p).to_string()).unwrap_or("-".into()),
        match q.castle {
            None => "-",
            Some(Side::King) => "K",
            Some(Side::Queen) => "Q",
        },
        match q.is_capture {
            None => "-",
            Some(true) => "1",
            Some(false) => "0",
        }
    )
}

fn opt_usize(s: &str) -> Option<usize> {
    if s == "-" {
        None
    } else {
        s.parse().ok()
    }
}

fn entry_str(e: Option<(u8, u32, usize, usize, i32)>) -> String {
    match e {
        None => "none".into(),
        Some((k, m, d, md, ev)) => format!("{}:{}:{}:{}:{}", k, m, d, md, ev),
    }
}

fn handle(line: &str) -> String {
    let parts: Vec<&str> = line.split(' ').collect();
    match parts[0] {
        "moves" => {
            let Some(state) = parse_fen(&parts[1..].join(" ")) else {
                return "badfen".into();
            };
            let set = MoveGenerator::compute_legal_moves(&state);
            let mut out = format!("{}", set.moves().len());
            for r in set.moves() {
                let a = accessors(&r.0);
                let attrs = a.splitn(2, ' ').nth(1).unwrap().replace(' ', ",");
                out.push_str(&format!(" {}:{}:{}", into_notation::<_, Lan>(&r.0), r.0.as_raw(), attrs));
            }
            out
        }
        "succ" => {
            // all successors as FEN, in generation order
            let Some(state) = parse_fen(&parts[1..].join(" ")) else {
                return "badfen".into();
            };
            let set = MoveGenerator::compute_legal_moves(&state);
            let v: Vec<String> = set.moves().iter().map(|r| fen_of(&r.1).replace(' ', "_")).collect();
            if v.is_empty() {
                "0".into()
            } else {
                format!("{} {}", v.len(), v.join(" "))
            }
        }
        "apply" => {
            // apply <raw> <fen...>
            let raw: u32 = parts[1].parse().unwrap();
            let Some(state) = parse_fen(&parts[2..].join(" ")) else {
                return "badfen".into();
            };
            match State::by_performing_move(&state, &Move::from_raw(raw)) {
                Ok(s) => fen_of(&s),
                Err(e) => format!("err {}", err_name(&e)),
            }
        }
        "coords" => {
            // coords <from> <to> <promo code|-> <fen...>
            let from: u8 = parts[1].parse().unwrap();
            let to: u8 = parts[2].parse().unwrap();
            let Some(state) = parse_fen(&parts[4..].join(" ")) else {
                return "badfen".into();
            };
            let mut q = MoveQuery::new();
            q.set_origin(Square::try_from(from).unwrap());
            q.set_destination(Square::try_from(to).unwrap());
            if parts[3] != "-" {
                q.set_promotion(piece_of(parts[3].parse().unwrap()));
            }
            match State::by_performing_moves(&state, &[q]) {
                Ok(s) => fen_of(&s),
                Err(e) => format!("err {}", err_name(&e)),
            }
        }
        "attacks" => {
            // attacks <order> <fen...>; order letters: a/A all attacks W/B, p/P pawn attacks W/B,
            // c/C is_check W/B, s state.is_check, k clone the state and continue on the clone
            let Some(state) = parse_fen(&parts[2..].join(" ")) else {
                return "badfen".into();
            };
            let mut cur = state;
            let mut out: Vec<String> = vec![];
            for ch in parts[1].chars() {
                match ch {
                    'a' => out.push(format!("a{}", bb(cur.board().colored_attacks(Color::White)))),
                    'A' => out.push(format!("A{}", bb(cur.board().colored_attacks(Color::Black)))),
                    'p' => out.push(format!("p{}", bb(cur.board().colored_pawn_attacks(Color::White)))),
                    'P' => out.push(format!("P{}", bb(cur.board().colored_pawn_attacks(Color::Black)))),
                    'c' => out.push(format!("c{}", cur.board().is_check(Color::White) as u8)),
                    'C' => out.push(format!("C{}", cur.board().is_check(Color::Black) as u8)),
                    's' => out.push(format!("s{}", cur.is_check() as u8)),
                    'k' => {
                        let c = cur.clone();
                        cur = c;
                    }
                    _ => {}
                }
            }
            out.join(" ")
        }
        "checkafter" => {
            // checkafter <fen...>: for every legal move, in generation order, what the SUCCESSOR OBJECT built by
            // make-move answers: State::is_check, Board::is_check for both colours (never re-read from FEN)
            let Some(state) = parse_fen(&parts[1..].join(" ")) else {
                return "badfen".into();
            };
            let set = MoveGenerator::compute_legal_moves(&state);
            let v: Vec<String> = set
                .moves()
                .iter()
                .map(|r| {
                    let n = &r.1;
                    format!(
                        "{}{}{}",
                        n.is_check() as u8,
                        n.board().is_check(Color::White) as u8,
                        n.board().is_check(Color::Black) as u8
                    )
                })
                .collect();
            format!("{} {}", v.len(), v.join(" "))
        }
        "attacksafter" => {
            // attacksafter <fen...>: the predecessor is queried first (attack sets of both colours, check flags, legal moves);
            // then for every legal move, in generation order, what the SUCCESSOR OBJECT built by the public make-move answers:
            // all attacks and pawn attacks of both colours and the three check flags
            let Some(state) = parse_fen(&parts[1..].join(" ")) else {
                return "badfen".into();
            };
            let _ = state.board().colored_attacks(Color::White);
            let _ = state.board().colored_attacks(Color::Black);
            let _ = state.board().colored_pawn_attacks(Color::White);
            let _ = state.board().colored_pawn_attacks(Color::Black);
            let _ = state.is_check();
            let set = MoveGenerator::compute_legal_moves(&state);
            let v: Vec<String> = set
                .moves()
                .iter()
                .map(|r| match State::by_performing_move(&state, &r.0) {
                    Ok(n) => format!(
                        "{},{},{},{},{}{}{}",
                        bb(n.board().colored_attacks(Color::White)),
                        bb(n.board().colored_attacks(Color::Black)),
                        bb(n.board().colored_pawn_attacks(Color::White)),
                        bb(n.board().colored_pawn_attacks(Color::Black)),
                        n.is_check() as u8,
                        n.board().is_check(Color::White) as u8,
                        n.board().is_check(Color::Black) as u8
                    ),
                    Err(_) => "perform-error".into(),
                })
                .collect();
            format!("{} {}", v.len(), v.join(" "))
        }
        "slider" => {
            let sq = Square::try_from(parts[2].parse::<u8>().unwrap()).unwrap();
            let occ = BitBoard::from(parts[3].parse::<u64>().unwrap());
            let r = match parts[1] {
                "r" => AttackGenerator::compute_rook_attacks(sq, occ),
                "b" => AttackGenerator::compute_bishop_attacks(sq, occ),
                _ => AttackGenerator::compute_queen_attacks(sq, occ),
            };
            format!("{}", bb(r))
        }
        "leaper" => {
            let sq = Square::try_from(parts[2].parse::<u8>().unwrap()).unwrap();
            let r = match parts[1] {
                "n" => AttackGenerator::compute_knight_attacks(sq),
                "k" => AttackGenerator::compute_king_attacks(sq),
                "pw" => AttackGenerator::compute_pawn_attacks(sq, Color::White),
                _ => AttackGenerator::compute_pawn_attacks(sq, Color::Black),
            };
            format!("{}", bb(r))
        }
        "fen" => {
            let Some(s) = unhex(parts[1]) else {
                return "badhex".into();
            };
            match try_from_notation::<State, Fen>(&s) {
                Ok(st) => format!("ok {}", fen_of(&st)),
                Err(()) => "err".into(),
            }
        }
        "san" => {
            let Some(s) = unhex(parts[1]) else {
                return "badhex".into();
            };
            match try_from_notation::<MoveQuery, San>(&s) {
                Ok(q) => format!("ok {}", query_str(&q)),
                Err(()) => "err".into(),
            }
        }
        "sanmatch" => {
            // sanmatch <hex san> <intended raw, ignored> <fen...> → raws of the legal moves matching the parsed query
            let Some(s) = unhex(parts[1]) else {
                return "badhex".into();
            };
            let Some(state) = parse_fen(&parts[3..].join(" ")) else {
                return "badfen".into();
            };
            match try_from_notation::<MoveQuery, San>(&s) {
                Ok(q) => {
                    let set = MoveGenerator::compute_legal_moves(&state);
                    let v: Vec<String> = set.filter(q).map(|r| r.0.as_raw().to_string()).collect();
                    let first = set.find(&q).map(|r| r.0.as_raw().to_string()).unwrap_or("-".into());
                    format!("ok first={} all={}", first, v.join(","))
                }
                Err(()) => "err".into(),
            }
        }
        "lan" => {
            let m = Move::from_raw(parts[1].parse().unwrap());
            format!("{}", into_notation::<_, Lan>(&m))
        }
        "hash" => {
            let seed: u64 = parts[1].parse().unwrap();
            let Some(state) = parse_fen(&parts[2..].join(" ")) else {
                return "badfen".into();
            };
            let hasher = ZobristHasher::with(&mut ChaCha8Rng::seed_from_u64(seed));
            format!("{}", hasher.hash(&state))
        }
        "objafter" => {
            // objafter <seed> <fen...>: for every legal move, in generation order, what the SUCCESSOR OBJECT built by make-move
            // (never re-read from FEN) hashes to under the seeded hasher and evaluates to from White's view at ply 1
            let seed: u64 = parts[1].parse().unwrap();
            let Some(state) = parse_fen(&parts[2..].join(" ")) else {
                return "badfen".into();
            };
            let hasher = ZobristHasher::with(&mut ChaCha8Rng::seed_from_u64(seed));
            let set = MoveGenerator::compute_legal_moves(&state);
            let v: Vec<String> = set
                .moves()
                .iter()
                .map(|r| {
                    let e = Evaluator::default().evaluate(&r.1, Color::White, 1);
                    format!("{}:{}", hasher.hash(&r.1), i32::from(e))
                })
                .collect();
            format!("{} {}", v.len(), v.join(" "))
        }
        "playline" => {
            // playline <seed> <fen with _> <raw>*: the moves are made one after the other on the OBJECT with the public make-move
            // (never re-read from FEN), every object on the way is QUERIED the way a game queries it (legal moves, attacks of both
            // colours) before the next move is made; per ply `fen;raw,raw,…;hash;evalW;evalB` of the object reached and
            // ` REREAD-DIFFERS …` if the object re-read from its own FEN answers anything differently
            let seed: u64 = parts[1].parse().unwrap();
            let Some(mut cur) = parse_fen(&parts[2].replace('_', " ")) else {
                return "badfen".into();
            };
            let hasher = ZobristHasher::with(&mut ChaCha8Rng::seed_from_u64(seed));
            let descr = |s: &State| -> String {
                let set = MoveGenerator::compute_legal_moves(s);
                let ms: Vec<String> = set.moves().iter().map(|r| r.0.as_raw().to_string()).collect();
                let fen = into_notation::<_, Fen>(s).to_string().replace(' ', "_");
                format!(
                    "{};{};{};{};{}",
                    fen,
                    ms.join(","),
                    hasher.hash(s),
                    i32::from(Evaluator::default().evaluate(s, Color::White, 1)),
                    i32::from(Evaluator::default().evaluate(s, Color::Black, 1))
                )
            };
            let mut out: Vec<String> = vec![];
            for tok in &parts[3..] {
                let raw: u32 = tok.parse().unwrap();
                // the predecessor is queried before the move is made
                let _ = cur.board().colored_attacks(Color::White);
                let _ = cur.board().colored_attacks(Color::Black);
                let set = MoveGenerator::compute_legal_moves(&cur);
                let Some(r) = set.moves().iter().find(|r| r.0.as_raw() == raw) else {
                    out.push("nomove".into());
                    break;
                };
                let Ok(next) = State::by_performing_move(&cur, &r.0) else {
                    out.push("perform-error".into());
                    break;
                };
                let d = descr(&next);
                let fen = into_notation::<_, Fen>(&next).to_string();
                let d2 = match parse_fen(&fen) {
                    Some(s2) => descr(&s2),
                    None => "badfen".into(),
                };
                out.push(if d == d2 { d } else { format!("{} REREAD-DIFFERS {}", d, d2) });
                cur = next;
            }
            out.join(" | ")
        }
        "eval" => {
            // eval <w|b> <ply> <fen...>
            let Some(state) = parse_fen(&parts[3..].join(" ")) else {
                return "badfen".into();
            };
            let e = Evaluator::default().evaluate(&state, color_of(parts[1]), parts[2].parse().unwrap());
            format!("{}", i32::from(e))
        }
        "estimate" => {
            let raw: u32 = parts[1].parse().unwrap();
            let Some(state) = parse_fen(&parts[2..].join(" ")) else {
                return "badfen".into();
            };
            let e = Evaluator::default().estimate(&state, &Move::from_raw(raw));
            format!("{}", i32::from(e))
        }
        "perft" => {
            let d: usize = parts[1].parse().unwrap();
            let Some(state) = parse_fen(&parts[2..].join(" ")) else {
                return "badfen".into();
            };
            format!("{}", Searcher::new().perft(&state, d, |_, _, _, _| {}))
        }
        "mveq" => {
            // mveq <ctorA> <7 args> <ctorB> <7 args>: `==`, agreement of `Hash`, and membership in a HashSet of the two
            // constructed moves (castle: `castle <color> <K|Q> - - - -` so that both halves have 7 tokens)
            fn build(p: &[&str]) -> Move {
                if p[0] == "castle" {
                    return Move::by_castling(color_of(p[1]), if p[2] == "K" { Side::King } else { Side::Queen });
                }
                let pi = PieceIndex::new(color_of(p[1]), piece_of(p[2].parse().unwrap()));
                let from = Square::try_from(p[3].parse::<u8>().unwrap()).unwrap();
                let to = Square::try_from(p[4].parse::<u8>().unwrap()).unwrap();
                let cap = piece_of(p[5].parse().unwrap());
                let pro = piece_of(p[6].parse().unwrap());
                match p[0] {
                    "move" => Move::by_moving(pi, from, to),
                    "cap" => Move::by_capturing(pi, from, to, cap),
                    "promo" => Move::by_promoting(pi, from, to, pro),
                    "cappromo" => Move::by_capture_promoting(pi, from, to, cap, pro),
                    _ => Move::by_en_passant(pi, from, to),
                }
            }
            use std::collections::hash_map::DefaultHasher;
            use std::hash::{Hash, Hasher};
            let a = build(&parts[1..8]);
            let b = build(&parts[8..15]);
            let h = |m: &Move| {
                let mut s = DefaultHasher::new();
                m.hash(&mut s);
                s.finish()
            };
            let mut set = std::collections::HashSet::new();
            set.insert(a);
            set.insert(b);
            format!("eq={} hasheq={} set={}", (a == b) as u8, (h(&a) == h(&b)) as u8, set.len())
        }
        "mv" => {
            // mv <ctor> <color w|b> <piece> <from> <to> <cap> <promo> | mv castle <color> <K|Q>
            let m = if parts[1] == "castle" {
                Move::by_castling(
                    color_of(parts[2]),
                    if parts[3] == "K" { Side::King } else { Side::Queen },
                )
            } else {
                let pi = PieceIndex::new(color_of(parts[2]), piece_of(parts[3].parse().unwrap()));
                let from = Square::try_from(parts[4].parse::<u8>().unwrap()).unwrap();
                let to = Square::try_from(parts[5].parse::<u8>().unwrap()).unwrap();
                let cap = piece_of(parts[6].parse().unwrap());
                let pro = piece_of(parts[7].parse().unwrap());
                match parts[1] {
                    "move" => Move::by_moving(pi, from, to),
                    "cap" => Move::by_capturing(pi, from, to, cap),
                    "promo" => Move::by_promoting(pi, from, to, pro),
                    "cappromo" => Move::by_capture_promoting(pi, from, to, cap, pro),
                    _ => Move::by_en_passant(pi, from, to),
                }
            };
            let mut buf = Vec::new();
            ciborium::into_writer(&m, &mut buf).unwrap();
            let back: Move = ciborium::de::from_reader(&buf[..]).unwrap();
            let hex: String = buf.iter().map(|b| format!("{:02x}", b)).collect();
            format!("{} cbor={} back={}", accessors(&m), hex, back.as_raw())
        }
        "tt" => {
            // tt <tables> <buckets> op*   op = i:<key>:<kind>:<mv>:<depth>:<maxdepth>:<eval> | f:<key> | n
            let t = verif::Table::new(parts[1].parse().unwrap(), parts[2].parse().unwrap());
            let mut out: Vec<String> = vec![];
            for op in &parts[3..] {
                let f: Vec<&str> = op.split(':').collect();
                match f[0] {
                    "i" => {
                        t.insert(
                            f[1].parse().unwrap(),
                            f[2].parse().unwrap(),
                            f[3].parse().unwrap(),
                            f[4].parse().unwrap(),
                            f[5].parse().unwrap(),
                            f[6].parse().unwrap(),
                        );
                        out.push("i".into());
                    }
                    "f" => out.push(entry_str(t.find(f[1].parse().unwrap()))),
                    _ => out.push(format!("n{}/{}", t.entries(), t.max_entries())),
                }
            }
            out.join(" ")
        }
        "ttconc" => {
            // ttconc <tables> <buckets> <threads> <ops per thread> <seed> <keyspace>
            // real threads hammer one table; the ticket-ordered log taken inside the critical
            // sections is printed so the model can replay it.
            let tables: usize = parts[1].parse().unwrap();
            let buckets: usize = parts[2].parse().unwrap();
            let threads: usize = parts[3].parse().unwrap();
            let ops: usize = parts[4].parse().unwrap();
            let seed: u64 = parts[5].parse().unwrap();
            let keyspace: u64 = parts[6].parse().unwrap();
            let t = std::sync::Arc::new(verif::Table::new(tables, buckets));
            verif::take_log();
            verif::set_logging(true);
            let hs: Vec<_> = (0..threads)
                .map(|i| {
                    let t = t.clone();
                    std::thread::spawn(move || {
                        use rand::Rng;
                        let mut rng = ChaCha8Rng::seed_from_u64(seed.wrapping_mul(1000003).wrapping_add(i as u64));
                        for _ in 0..ops {
                            let key: u64 = rng.gen_range(0..keyspace).wrapping_mul(if rng.gen_bool(0.5) { 1 } else { (tables * buckets) as u64 });
                            if rng.gen_bool(0.5) {
                                t.insert(key, rng.gen_range(0..3), rng.gen_range(0..1u32 << 29), rng.gen_range(0..8), rng.gen_range(8..16), rng.gen_range(-20000..20000));
                            } else {
                                let _ = t.find(key);
                            }
                        }
                    })
                })
                .collect();
            for h in hs {
                h.join().unwrap();
            }
            verif::set_logging(false);
            let log = verif::take_log();
            let mut out = format!("n{}/{}", t.entries(), t.max_entries());
            for (_, th, ins, key, e) in log {
                if ins {
                    let (k, m, d, md, ev) = e.unwrap();
                    out.push_str(&format!(" {}i:{}:{}:{}:{}:{}:{}", th, key, k, m, d, md, ev));
                } else {
                    out.push_str(&format!(" {}f:{}={}", th, key, entry_str(e)));
                }
            }
            out
        }
        "ttrayon" => {
            // ttrayon <tables> <buckets> <tasks> <ops per task> <seed>: the table used the way a search uses it — from RAYON POOL
            // THREADS.  `tables*buckets` keys, one per bucket, are stored first; then half of the pool tasks keep RE-STORING those
            // same keys (a same-key store replaces in place and never displaces anything) while the other half look them up.
            // No bucket ever fills, so every lookup must find an entry under exactly its key ("an entry stays retrievable until
            // displaced"); `lost` counts the lookups that came back empty, `foreign` those that returned another key's entry
            // (the stored evaluation encodes the key).
            use rayon::prelude::*;
            let tables: usize = parts[1].parse().unwrap();
            let buckets: usize = parts[2].parse().unwrap();
            let tasks: usize = parts[3].parse().unwrap();
            let ops: usize = parts[4].parse().unwrap();
            let seed: u64 = parts[5].parse().unwrap();
            let t = verif::Table::new(tables, buckets);
            // key k lands in sub-table k % tables, bucket k % buckets: keys 0..lcm-ish — take one key per (table, bucket) pair
            let mut keys: Vec<u64> = vec![];
            let mut seen = std::collections::HashSet::new();
            let mut k: u64 = 0;
            while keys.len() < tables * buckets && k < 1_000_000 {
                let slot = ((k % tables as u64), (k % buckets as u64));
                if seen.insert(slot) {
                    keys.push(k);
                }
                k += 1;
            }
            let ev = |key: u64| -> i32 { (key % 20000) as i32 };
            for &key in &keys {
                t.insert(key, 0, 0, 1, 2, ev(key));
            }
            let results: Vec<(usize, usize, usize)> = (0..tasks)
                .into_par_iter()
                .map(|i| {
                    use rand::Rng;
                    let mut rng = ChaCha8Rng::seed_from_u64(seed.wrapping_mul(1000003).wrapping_add(i as u64));
                    let (mut finds, mut lost, mut foreign) = (0usize, 0usize, 0usize);
                    for _ in 0..ops {
                        let key = keys[rng.gen_range(0..keys.len())];
                        if i % 2 == 0 {
                            t.insert(key, 0, 0, 1, 2, ev(key));
                        } else {
                            finds += 1;
                            match t.find(key) {
                                None => lost += 1,
                                Some((_, _, _, _, e)) if e != ev(key) => foreign += 1,
                                _ => {}
                            }
                        }
                    }
                    (finds, lost, foreign)
                })
                .collect();
            let finds: usize = results.iter().map(|r| r.0).sum();
            let lost: usize = results.iter().map(|r| r.1).sum();
            let foreign: usize = results.iter().map(|r| r.2).sum();
            format!("keys={} finds={} lost={} foreign={} entries={}", keys.len(), finds, lost, foreign, t.entries())
        }
        "search" => {
            // search <seed> <depth|-> <workers|-> <cancel|-> <tables> <buckets> <nhist> <hist fens with _>* <fen...>
            let seed: u64 = parts[1].parse().unwrap();
            let depth = opt_usize(parts[2]);
            let workers = opt_usize(parts[3]);
            let cancel = opt_usize(parts[4]).map(|v| v as u64);
            let tables: usize = parts[5].parse().unwrap();
            let buckets: usize = parts[6].parse().unwrap();
            let nhist: usize = parts[7].parse().unwrap();
            let mut artifact = verif::artifact_new(seed, tables, buckets);
            // NOTE: artifact_new consumes the hasher keys from a fresh rng with the same seed, exactly
            // like a fresh search would; the search's own rng is then seeded again from `seed`.
            for h in &parts[8..8 + nhist] {
                let Some(hs) = parse_fen(&h.replace('_', " ")) else {
                    return "badfen".into();
                };
                verif::artifact_record(&mut artifact, &hs);
            }
            let Some(state) = parse_fen(&parts[8 + nhist..].join(" ")) else {
                return "badfen".into();
            };
            let mut out: Vec<String> = vec![];
            let art = verif::analyze_sync(state.clone(), seed, depth, Some(artifact), workers, cancel, &mut |e| match e {
                StatusEvent::BestMove { line, evaluation } => {
                    let l: Vec<String> = line.iter().map(|m| m.as_raw().to_string()).collect();
                    out.push(format!("best:{}:{}", i32::from(evaluation), l.join(",")));
                }
                StatusEvent::Progress { depth, nodes_searched, .. } => {
                    out.push(format!("prog:{}:{}", depth, nodes_searched));
                }
                StatusEvent::Warning { .. } => out.push("warn".into()),
            });
            let (n, mx) = verif::artifact_entries(&art);
            out.push(format!("entries:{}/{}", n, mx));
            out.push(format!("root:{}", entry_str(verif::artifact_find(&art, verif::artifact_hash(&art, &state)))));
            out.join(" ")
        }
        "searchlog" => {
            // searchlog <seed> <depth> <workers> <tables> <buckets> <fen...>
            // a REAL (multi-threaded) search with fresh memory, no cancellation, with the table-operation log on:
            // the events as `search` prints them, then ` || ` and one token per logged table operation
            // `ticket:id:i|f:key:kind,mv,depth,maxdepth,eval|-` in ticket order (for a find the payload is its result)
            let seed: u64 = parts[1].parse().unwrap();
            let depth = opt_usize(parts[2]);
            let workers = opt_usize(parts[3]);
            let tables: usize = parts[4].parse().unwrap();
            let buckets: usize = parts[5].parse().unwrap();
            let artifact = verif::artifact_new(seed, tables, buckets);
            let Some(state) = parse_fen(&parts[6..].join(" ")) else {
                return "badfen".into();
            };
            let mut out: Vec<String> = vec![];
            verif::take_log();
            verif::set_logging(true);
            let r = catch_unwind(AssertUnwindSafe(|| {
                verif::analyze_sync(state.clone(), seed, depth, Some(artifact), workers, None, &mut |e| match e {
                    StatusEvent::BestMove { line, evaluation } => {
                        let l: Vec<String> = line.iter().map(|m| m.as_raw().to_string()).collect();
                        out.push(format!("best:{}:{}", i32::from(evaluation), l.join(",")));
                    }
                    StatusEvent::Progress { depth, nodes_searched, .. } => {
                        out.push(format!("prog:{}:{}", depth, nodes_searched));
                    }
                    StatusEvent::Warning { .. } => out.push("warn".into()),
                })
            }));
            verif::set_logging(false);
            let log = verif::take_log();
            let Ok(art) = r else {
                return "panic".into();
            };
            let (n, mx) = verif::artifact_entries(&art);
            out.push(format!("entries:{}/{}", n, mx));
            out.push(format!("root:{}", entry_str(verif::artifact_find(&art, verif::artifact_hash(&art, &state)))));
            let mut s = out.join(" ");
            s.push_str(" ||");
            for (ticket, id, ins, key, e) in log {
                let payload = match e {
                    None => "-".to_string(),
                    Some((k, m, d, md, ev)) => format!("{},{},{},{},{}", k, m, d, md, ev),
                };
                s.push_str(&format!(" {}:{}:{}:{}:{}", ticket, id, if ins { "i" } else { "f" }, key, payload));
            }
            s
        }
        "searchdelay" => {
            // searchdelay <seed> <depth> <workers> <tables> <buckets> <ms> <fen...>: like `search` (fresh memory), but
            // every insert under the ROOT key by an odd-numbered worker first waits <ms> ms (a forced schedule: the
            // shallower workers write the root entry last)
            let seed: u64 = parts[1].parse().unwrap();
            let depth = opt_usize(parts[2]);
            let workers = opt_usize(parts[3]);
            let tables: usize = parts[4].parse().unwrap();
            let buckets: usize = parts[5].parse().unwrap();
            let ms: u64 = parts[6].parse().unwrap();
            let artifact = verif::artifact_new(seed, tables, buckets);
            let Some(state) = parse_fen(&parts[7..].join(" ")) else {
                return "badfen".into();
            };
            verif::set_insert_delay(verif::artifact_hash(&artifact, &state), ms);
            let mut out: Vec<String> = vec![];
            let art = verif::analyze_sync(state.clone(), seed, depth, Some(artifact), workers, None, &mut |e| match e {
                StatusEvent::BestMove { line, evaluation } => {
                    let l: Vec<String> = line.iter().map(|m| m.as_raw().to_string()).collect();
                    out.push(format!("best:{}:{}", i32::from(evaluation), l.join(",")));
                }
                StatusEvent::Progress { depth, nodes_searched, .. } => {
                    out.push(format!("prog:{}:{}", depth, nodes_searched));
                }
                StatusEvent::Warning { .. } => out.push("warn".into()),
            });
            verif::set_insert_delay(0, 0);
            let (n, mx) = verif::artifact_entries(&art);
            out.push(format!("entries:{}/{}", n, mx));
            out.join(" ")
        }
        "searchseq" => {
            // searchseq <seed> <tables> <buckets> <workers|-> <n> {<depth|-> <cancel|-> <fen with _>}*
            // n searches sharing one artifact (the memory of each is handed to the next)
            let seed: u64 = parts[1].parse().unwrap();
            let tables: usize = parts[2].parse().unwrap();
            let buckets: usize = parts[3].parse().unwrap();
            let workers = opt_usize(parts[4]);
            let n: usize = parts[5].parse().unwrap();
            let mut artifact = Some(verif::artifact_new(seed, tables, buckets));
            let mut all: Vec<String> = vec![];
            for i in 0..n {
                let depth = opt_usize(parts[6 + 3 * i]);
                let cancel = opt_usize(parts[7 + 3 * i]).map(|v| v as u64);
                let Some(state) = parse_fen(&parts[8 + 3 * i].replace('_', " ")) else {
                    return "badfen".into();
                };
                let mut out: Vec<String> = vec![];
                let art = verif::analyze_sync(state.clone(), seed.wrapping_add(i as u64), depth, artifact.take(), workers, cancel, &mut |e| match e {
                    StatusEvent::BestMove { line, evaluation } => {
                        let l: Vec<String> = line.iter().map(|m| m.as_raw().to_string()).collect();
                        out.push(format!("best:{}:{}", i32::from(evaluation), l.join(",")));
                    }
                    StatusEvent::Progress { depth, nodes_searched, .. } => {
                        out.push(format!("prog:{}:{}", depth, nodes_searched));
                    }
                    StatusEvent::Warning { .. } => out.push("warn".into()),
                });
                let (e, mx) = verif::artifact_entries(&art);
                out.push(format!("entries:{}/{}", e, mx));
                artifact = Some(art);
                all.push(out.join(" "));
            }
            all.join(" | ")
        }
        "searchpub" => {
            // searchpub <seed> <depth> <fen...>: the PUBLIC entry point (fresh memory, default workers)
            let seed: u64 = parts[1].parse().unwrap();
            let depth = opt_usize(parts[2]);
            let Some(state) = parse_fen(&parts[3..].join(" ")) else {
                return "badfen".into();
            };
            let (handle, _tx, rx) = Searcher::new().analyze(state, seed, Evaluator::default(), depth, None);
            let mut out: Vec<String> = vec![];
            while let Ok(e) = rx.recv() {
                match e {
                    StatusEvent::BestMove { line, evaluation } => {
                        let l: Vec<String> = line.iter().map(|m| m.as_raw().to_string()).collect();
                        out.push(format!("best:{}:{}", i32::from(evaluation), l.join(",")));
                    }
                    StatusEvent::Progress { depth, nodes_searched, .. } => {
                        out.push(format!("prog:{}:{}", depth, nodes_searched));
                    }
                    StatusEvent::Warning { .. } => out.push("warn".into()),
                }
            }
            match handle.join() {
                Ok(_) => out.push("joined".into()),
                Err(_) => out.push("search-thread-panicked".into()),
            }
            out.join(" ")
        }
        "searchpubov" => {
            // searchpubov <seed> <depth> <fen...>: the same PUBLIC search as `searchpub`, but while it runs OTHER, unrelated public
            // searches (start position, depth 1, own fresh memory) are started and joined in the same process; only the events of the
            // first search are printed, so the line must equal the `searchpub` line of the same arguments
            let seed: u64 = parts[1].parse().unwrap();
            let depth = opt_usize(parts[2]);
            let Some(state) = parse_fen(&parts[3..].join(" ")) else {
                return "badfen".into();
            };
            let (handle, _tx, rx) = Searcher::new().analyze(state, seed, Evaluator::default(), depth, None);
            for _ in 0..2 {
                let (h2, _tx2, rx2) = Searcher::new().analyze(State::default(), 7, Evaluator::default(), Some(1), None);
                while rx2.recv().is_ok() {}
                let _ = h2.join();
            }
            let mut out: Vec<String> = vec![];
            while let Ok(e) = rx.recv() {
                match e {
                    StatusEvent::BestMove { line, evaluation } => {
                        let l: Vec<String> = line.iter().map(|m| m.as_raw().to_string()).collect();
                        out.push(format!("best:{}:{}", i32::from(evaluation), l.join(",")));
                    }
                    StatusEvent::Progress { depth, nodes_searched, .. } => {
                        out.push(format!("prog:{}:{}", depth, nodes_searched));
                    }
                    StatusEvent::Warning { .. } => out.push("warn".into()),
                }
            }
            match handle.join() {
                Ok(_) => out.push("joined".into()),
                Err(_) => out.push("search-thread-panicked".into()),
            }
            out.join(" ")
        }
        "lazytest" => {
            // lazytest <seed> <depth> <successor fen with _> <fen...>: the successor is searched first (depth 1), then the position
            // itself on the returned artifact with the given depth limit while the caller KEEPS the event receiver but reads it
            // only AFTER the join (a lazy consumer) — with a recorded successor every iteration is a handful of nodes, so a
            // large depth limit produces hundreds of events
            let seed: u64 = parts[1].parse().unwrap();
            let depth = opt_usize(parts[2]);
            let Some(succ) = parse_fen(&parts[3].replace('_', " ")) else {
                return "badfen".into();
            };
            let Some(state) = parse_fen(&parts[4..].join(" ")) else {
                return "badfen".into();
            };
            let (h1, _tx1, rx1) = Searcher::new().analyze(succ, seed, Evaluator::default(), Some(1), None);
            while rx1.recv().is_ok() {}
            let Ok(art) = h1.join() else {
                return "search-thread-panicked".into();
            };
            let (h2, tx2, rx2) = Searcher::new().analyze(state, seed, Evaluator::default(), depth, Some(art));
            let (done_tx, done_rx) = std::sync::mpsc::channel();
            std::thread::spawn(move || {
                let _ = done_tx.send(h2.join().is_ok());
            });
            let res = done_rx.recv_timeout(std::time::Duration::from_secs(25));
            let mut events = 0;
            let mut bests = 0;
            for e in rx2.try_iter() {
                events += 1;
                if let StatusEvent::BestMove { .. } = e {
                    bests += 1;
                }
            }
            let _ = tx2;
            match res {
                Ok(true) => format!("joined events={} bests={}", events, bests),
                Ok(false) => "search-thread-panicked".into(),
                Err(_) => format!("not-joined-after-25s events_queued={}", events),
            }
        }
        "stopseq" => {
            // stopseq <seed> <depth|-> <delay ms> <n> <successor fen with _>*n <fen...>: the n successors are searched first
            // (depth 1 each, chained on ONE artifact, as a game or an analysis session does), then the position itself on that
            // artifact; Stop is sent after the delay and the join is awaited with a watchdog.  When every legal move of the root
            // leads to a recorded position an iteration costs a handful of nodes at EVERY depth.
            let seed: u64 = parts[1].parse().unwrap();
            let depth = opt_usize(parts[2]);
            let delay: u64 = parts[3].parse().unwrap();
            let n: usize = parts[4].parse().unwrap();
            let mut art = None;
            for k in 0..n {
                let Some(succ) = parse_fen(&parts[5 + k].replace('_', " ")) else {
                    return "badfen".into();
                };
                let (h1, _tx1, rx1) = Searcher::new().analyze(succ, seed, Evaluator::default(), Some(1), art.take());
                while rx1.recv().is_ok() {}
                let Ok(a) = h1.join() else {
                    return "search-thread-panicked".into();
                };
                art = Some(a);
            }
            let Some(state) = parse_fen(&parts[5 + n..].join(" ")) else {
                return "badfen".into();
            };
            let (handle, tx, rx) = Searcher::new().analyze(state, seed, Evaluator::default(), depth, art);
            let reader = std::thread::spawn(move || {
                let mut bests = 0usize;
                let mut maxdepth = 0u32;
                while let Ok(e) = rx.recv() {
                    match e {
                        StatusEvent::BestMove { .. } => bests += 1,
                        StatusEvent::Progress { depth, .. } => maxdepth = maxdepth.max(depth),
                        _ => {}
                    }
                }
                (bests, maxdepth)
            });
            std::thread::sleep(std::time::Duration::from_millis(delay));
            let t0 = std::time::Instant::now();
            let _ = tx.send(weechess_engine::searcher::ControlEvent::Stop);
            let (done_tx, done_rx) = std::sync::mpsc::channel();
            std::thread::spawn(move || {
                let _ = done_tx.send(handle.join().is_ok());
            });
            let res = done_rx.recv_timeout(std::time::Duration::from_secs(20));
            let latency = t0.elapsed().as_millis();
            match res {
                Ok(true) => {
                    let (bests, maxdepth) = reader.join().unwrap_or((0, 0));
                    format!("joined latency_ms={} bests={} iterations={}", latency, bests, maxdepth)
                }
                Ok(false) => "search-thread-panicked".into(),
                // the search thread is still running: leave it behind (the process ends with the batch)
                Err(_) => "not-joined-20s-after-stop".into(),
            }
        }
        "stoptest" => {
            // stoptest <seed> <depth|-> <delay ms> <drop receiver 0|1> <stops> <fen...>
            // public API: spawn, wait, send Stop (possibly several times), measure the join latency
            let seed: u64 = parts[1].parse().unwrap();
            let depth = opt_usize(parts[2]);
            let delay: u64 = parts[3].parse().unwrap();
            let drop_rx = parts[4] == "1";
            let stops: usize = parts[5].parse().unwrap();
            let Some(state) = parse_fen(&parts[6..].join(" ")) else {
                return "badfen".into();
            };
            let has_moves = !MoveGenerator::compute_legal_moves(&state).is_empty();
            let (handle, tx, rx) = Searcher::new().analyze(state, seed, Evaluator::default(), depth, None);
            let counter = std::sync::Arc::new(std::sync::atomic::AtomicUsize::new(0));
            let c2 = counter.clone();
            let reader = if drop_rx {
                drop(rx);
                None
            } else {
                Some(std::thread::spawn(move || {
                    let mut last_nonempty = true;
                    while let Ok(e) = rx.recv() {
                        if let StatusEvent::BestMove { line, .. } = e {
                            c2.fetch_add(1, std::sync::atomic::Ordering::SeqCst);
                            last_nonempty = last_nonempty && !line.is_empty();
                        }
                    }
                    last_nonempty
                }))
            };
            std::thread::sleep(std::time::Duration::from_millis(delay));
            let t0 = std::time::Instant::now();
            for _ in 0..stops {
                let _ = tx.send(weechess_engine::searcher::ControlEvent::Stop);
            }
            // join with a watchdog: a search that does not come back within 30 s is reported
            let (done_tx, done_rx) = std::sync::mpsc::channel();
            std::thread::spawn(move || {
                let r = handle.join();
                let _ = done_tx.send(r.map(|a| {
                    // the artifact must seed the next search
                    let s2 = State::default();
                    let (h2, tx2, _rx2) = Searcher::new().analyze(s2, 1, Evaluator::default(), Some(1), Some(a));
                    let _ = tx2;
                    h2.join().is_ok()
                }));
            });
            let res = done_rx.recv_timeout(std::time::Duration::from_secs(30));
            let latency = t0.elapsed().as_millis();
            let nonempty = reader.map(|r| r.join().unwrap_or(false)).unwrap_or(true);
            match res {
                Ok(Ok(reuse_ok)) => format!(
                    "joined latency_ms={} bests={} lines_nonempty={} artifact_reusable={} has_moves={}",
                    latency, counter.load(std::sync::atomic::Ordering::SeqCst), nonempty, reuse_ok, has_moves
                ),
                Ok(Err(_)) => "search-thread-panicked".into(),
                Err(_) => format!("not-joined-after-30s has_moves={}", has_moves),
            }
        }
        "book" => {
            let Some(state) = parse_fen(&parts[1..].join(" ")) else {
                return "badfen".into();
            };
            let book = weechess_engine::book::OpeningBook::try_default().unwrap();
            match book.lookup(&state) {
                None => "none".into(),
                Some(ms) => {
                    let mut v: Vec<u32> = ms.iter().map(|m| m.as_raw()).collect();
                    v.sort();
                    v.iter().map(|r| r.to_string()).collect::<Vec<_>>().join(",")
                }
            }
        }
        "rng" => {
            // rng <seed> <n u64> then <m> gen_range(-10..=10)
            use rand::{Rng, RngCore};
            let mut r = ChaCha8Rng::seed_from_u64(parts[1].parse().unwrap());
            let n: usize = parts[2].parse().unwrap();
            let m: usize = parts[3].parse().unwrap();
            let mut out: Vec<String> = vec![];
            for _ in 0..n {
                out.push(r.next_u64().to_string());
            }
            for _ in 0..m {
                out.push(r.gen_range(-10..=10).to_string());
            }
            let g: u64 = r.gen();
            out.push(g.to_string());
            out.join(" ")
        }
        _ => "unknown-request".into(),
    }
}

fn main() {
    std::panic::set_hook(Box::new(|_| {}));
    let stdin = std::io::stdin();
    let stdout = std::io::stdout();
    let mut out = std::io::BufWriter::new(stdout.lock());
    for line in stdin.lock().lines() {
        let Ok(line) = line else { break };
        let line = line.trim_end().to_string();
        if line.is_empty() {
            continue;
        }
        let r = catch_unwind(AssertUnwindSafe(|| handle(&line)));
        match r {
            Ok(s) => writeln!(out, "{}", s).unwrap(),
            Err(_) => writeln!(out, "panic").unwrap(),
        }
        out.flush().unwrap();
    }
}
