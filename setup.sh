#!/bin/sh
# Run once after a fresh restore, offline: regenerate Gen/, build every Lean module (including the
# per-square kernel proofs), link the driver, build the harness in both profiles and the CLI binary.
set -e
cd "$(dirname "$0")"
export CARGO_NET_OFFLINE=true
python3 tools/extract.py
python3 tools/rs2lean.py
python3 tools/rs2lean2.py
python3 tools/rs2lean3.py
python3 tools/rs2lean_eval.py
python3 tools/rs2lean_tt.py
python3 tools/rs2lean_text.py
python3 tools/rs2lean_search.py
python3 tools/rs2lean_book.py
python3 tools/rs2lean_uci.py
python3 tools/rs2lean_seams.py
python3 tools/rs2lean_iterate.py
[ -f tools/gen_c09.py ] && python3 tools/gen_c09.py || true
(cd lean && lake build Wee weedriver)
(cd harness && cargo build && cargo build --release)
(cd /repo && CARGO_TARGET_DIR=/verif/build/target-cli RUSTFLAGS="--cfg weechess_verif" cargo build --offline --release -p weechess_cli)
echo setup-ok
