import Driver.Handlers
/-! Input generators.  All randomness derives from one splitmix64 state seeded by `VERIF_SEED`. -/
namespace Driver
open Wee

def corpus : Array String := #[
  "rnbqkbnr/pppppppp/8/8/8/8/PPPPPPPP/RNBQKBNR w KQkq - 0 1",
  "r3k2r/p1ppqpb1/bn2pnp1/3PN3/1p2P3/2N2Q1p/PPPBBPPP/R3K2R w KQkq - 0 1",
  "8/2p5/3p4/KP5r/1R3p1k/8/4P1P1/8 w - - 0 1",
  "r3k2r/Pppp1ppp/1b3nbN/nP6/BBP1P3/q4N2/Pp1P2PP/R2Q1RK1 w kq - 0 1",
  "r2q1rk1/pP1p2pp/Q4n2/bbp1p3/Np6/1B3NBn/pPPP1PPP/R3K2R b KQ - 0 1",
  "rnbq1k1r/pp1Pbppp/2p5/8/2B5/8/PPP1NnPP/RNBQK2R w KQ - 1 8",
  "r4rk1/1pp1qppp/p1np1n2/2b1p1B1/2B1P1b1/P1NP1N2/1PP1QPPP/R4RK1 w - - 0 10",
  "r3k2r/ppp2Npp/1b5n/4p2b/2B1P2q/BQP2P2/P5PP/RN5K w kq - 1 1",
  -- en passant: plain, pinned capturer, discovered check along the rank, both colours
  "rnbqkbnr/ppp1p1pp/8/3pPp2/8/8/PPPP1PPP/RNBQKBNR w KQkq f6 0 3",
  "8/8/8/KPp4r/8/8/8/7k w - c6 0 1",
  "8/8/8/8/k2Pp2R/8/8/K7 b - d3 0 1",
  "4k3/8/8/8/1pP5/8/8/4K2B b - c3 0 1",
  "8/8/3k4/8/2pP4/8/B7/4K3 b - d3 0 1",
  "4k3/8/8/2qpP3/8/8/8/6K1 w - d6 0 1",
  "k7/8/8/3pP3/8/8/8/K3R3 w - d6 0 2",
  "rnbqkbnr/1ppppppp/8/8/pP6/P7/2PPPPPP/RNBQKBNR b KQkq b3 0 3",
  -- castling through / out of / into attack; b1/b8 attacked; rook captured on corner
  "r3k2r/8/8/8/8/8/8/R3K2R w KQkq - 0 1",
  "r3k2r/8/8/8/8/8/8/R3K2R b KQkq - 0 1",
  "r3k2r/8/8/8/8/5r2/8/R3K2R w KQkq - 0 1",
  "r3k2r/8/8/8/8/3r4/8/R3K2R w KQkq - 0 1",
  "r3k2r/8/8/8/8/4r3/8/R3K2R w KQkq - 0 1",
  "r3k2r/8/8/8/8/1r6/8/R3K2R w KQkq - 0 1",
  "r3k2r/8/8/8/8/6r1/8/R3K2R w KQkq - 0 1",
  "r3k2r/8/8/8/8/8/6b1/R3K2R w KQkq - 0 1",
  "r3k2r/1B6/8/8/8/8/8/R3K2R b KQkq - 0 1",
  "r3k2r/8/8/8/8/8/1b6/R3K2R b KQkq - 0 1",
  "r3k2r/8/5N2/8/8/8/8/R3K2R b KQkq - 0 1",
  "4k2r/8/8/8/8/8/8/R3K3 w Qk - 5 20",
  -- a rook that still carries its right can be captured on its corner by a knight, a bishop on the
  -- long diagonal, a rook, or a pawn promoting there (the right must die with the rook)
  "r3k2r/5N2/8/8/8/8/8/4K3 w kq - 0 1",
  "r3k2r/2N5/8/8/8/8/8/4K3 w kq - 0 1",
  "r3k2r/8/8/8/8/8/1B4B1/4K3 w kq - 0 1",
  "4k3/8/8/8/8/8/5n2/R3K2R b KQ - 0 1",
  "4k3/1b4b1/8/8/8/8/8/R3K2R b KQ - 0 1",
  "r3k2r/6P1/8/8/8/8/8/4K3 w kq - 0 1",
  "r3k1nr/8/8/8/8/8/8/R3K2R w KQkq - 0 1",
  "4k1nr/8/8/7R/8/8/7r/4K3 w k - 0 1",
  "1r2k2r/8/8/8/8/8/8/R3K1R1 w Qk - 0 1",
  -- promotions and capture-promotions, both colours
  "n1n5/PPPk4/8/8/8/8/4Kppp/5N1N b - - 0 1",
  "n1n5/PPPk4/8/8/8/8/4Kppp/5N1N w - - 0 1",
  "r1b1k3/1P6/8/8/8/8/6p1/3K1B1R b - - 0 1",
  "4k3/P6P/8/8/8/8/p6p/4K3 w - - 0 1",
  -- double check, pins, mates and stalemates
  "4k3/8/8/8/8/5n2/4r3/4K3 w - - 0 1",
  "4k3/4r3/8/8/7b/8/4B3/4K3 w - - 0 1",
  "7k/5Q2/6K1/8/8/8/8/8 b - - 0 1",
  "7k/6Q1/6K1/8/8/8/8/8 b - - 0 1",
  "3R2k1/5ppp/8/8/8/8/8/4K3 b - - 0 1",
  "k7/8/2K5/8/8/8/8/7R w - - 0 1",
  "8/8/8/8/8/k2r4/8/K7 b - - 4 3",
  "8/8/8/8/8/5k2/4p3/4K3 w - - 0 1",
  "K7/8/8/8/8/8/5Q2/7k b - - 0 1",
  "8/8/8/3k4/8/3K4/3P4/8 w - - 0 1",
  "8/3k4/8/8/8/8/3KQ3/8 w - - 0 1",
  "8/3k4/8/8/8/8/3KR3/8 w - - 0 1",
  "8/8/4k3/8/8/4K3/4B3/4N3 w - - 0 1",
  "4k3/p6p/Pp4pP/1Pp2pP1/2Pp1P2/3P4/8/4K2R w K - 0 1",
  "4k3/p6p/Pp4pP/1Pp2pP1/2Pp1P2/3P4/8/4K2R w - - 0 1",
  "r1bqkb1r/pppp1ppp/2n2n2/4p2Q/2B1P3/8/PPPP1PPP/RNB1K1NR w KQkq - 4 4",
  "6k1/5ppp/8/8/8/8/5PPP/3R2K1 w - - 0 1",
  "2kr3r/ppp2ppp/2n5/8/8/2N5/PPP2PPP/2KR3R w - - 10 15",
  "rnb1kbnr/pppp1ppp/8/4p3/6Pq/5P2/PPPPP2P/RNBQKBNR w KQkq - 1 3"
]

/-- weight a move so that rare kinds (captures, promotions, castles, en passant, checks) come up -/
def moveWeight (p : Spec.Pos) (m : Spec.SMove) : Nat :=
  1 + (if m.capture.isSome then 2 else 0) + (if m.promo.isSome then 4 else 0) +
  (if m.castle.isSome then 8 else 0) + (if m.ep then 12 else 0) + (if m.dbl then 1 else 0) +
  (if m.kind == .king then 1 else 0) + (if (Spec.applyMove p m).inCheck p.turn.opp then 2 else 0)

def pickWeighted (r : Rng) (p : Spec.Pos) (ms : List Spec.SMove) : Option Spec.SMove × Rng :=
  let ws := ms.map (moveWeight p)
  let total := ws.sum
  if total == 0 then (none, r) else
  let (x, r) := r.below total
  let rec go : List Spec.SMove → List Nat → Nat → Option Spec.SMove
    | m :: ms, w :: ws, x => if x < w then some m else go ms ws (x - w)
    | _, _, _ => none
  (go ms ws x, r)

/-- random play; returns every position visited (including the start) -/
def randomGame (r : Rng) (start : Spec.Pos) : Nat → List Spec.Pos → List Spec.Pos × Rng
  | 0, acc => (acc.reverse, r)
  | n+1, acc =>
    let ms := Spec.legalMoves start
    match pickWeighted r start ms with
    | (none, r) => ((start :: acc).reverse, r)
    | (some m, r) => randomGame r (Spec.applyMove start m) n (start :: acc)

/-- `count` legal positions: corpus entries first, then positions sampled from random games -/
def genPositions (seed : Nat) (count : Nat) : List Spec.Pos := Id.run do
  let mut r : Rng := ⟨seed.toUInt64 * 0x2545F4914F6CDD1D + 1⟩
  let mut out : Array Spec.Pos := #[]
  for f in corpus do
    if let some p := Spec.readFen f then
      if Spec.LegalPos p then out := out.push p
  let mut guard := 0
  while out.size < count && guard < count * 4 do
    guard := guard + 1
    let (start, r1) := r.pick corpus
    let (len, r2) := r1.below 60
    r := r2
    match Spec.readFen start with
    | none => pure ()
    | some p0 =>
      let (ps, r3) := randomGame r p0 len []
      r := r3
      -- sample up to 6 positions of the game, always the last one
      let n := ps.length
      let mut picks : List Nat := [n - 1]
      for _ in [0:5] do
        let (i, r4) := r.below n
        r := r4
        picks := i :: picks
      for i in picks.eraseDups do
        if let some p := ps[i]? then
          if Spec.LegalPos p then
            -- sometimes perturb the counters (they must not matter)
            let (z, r5) := r.below 8
            r := r5
            let p := if z == 0 then { p with halfmove := p.halfmove + 37, fullmove := p.fullmove + 1000 } else p
            out := out.push p
  return out.toList.take count

end Driver
