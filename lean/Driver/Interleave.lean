import Driver.Handlers
import Wee.Model.SearchEnv
/-! `ilcheck`: is the logged history of table operations of a REAL multi-threaded search an `Interleaving` of the model?
(tie between `Wee/Model/SearchEnv.lean` and the real engine; request format in the handler) -/
namespace Driver
open Wee

/-- placeholder until the replay is written -/
def ilcheck (_line : String) : Out := ⟨"todo", "-"⟩

end Driver
