import Driver.Handlers
import Wee.Model.SearchEnv
/-! `ilcheck`: is the logged history of table operations of a REAL multi-threaded search an `Interleaving` of the model?
(tie between `Wee/Model/SearchEnv.lean` and the real engine)

Request: `ilcheck <seed> <depth> <workers> <tables> <buckets> <nfen_tokens> <fen tokens...> <log tokens...>`, a log token
is `ticket:id:i|f:key:kind,mv,depth,maxdepth,eval|-` as the harness request `searchlog` prints it (ticket order = the
order in which the operations held the lock of their sub-table; `id = 1000000 + iteration*1000 + worker`; other ids are
the main thread's reads of the line and are not part of any worker).

The search is rebuilt the way `Search.iterate` does it; in every iteration the workers are not run one after the other
but each in the environment that the logged history `H` of that iteration induces for it, and its own log is compared with
its part of `H`: `okIter … = true ↔ Interleaving ctx root tt ws H` (theorem `okIter_iff`).  The joined results go through
`finishStep` (the text of `analyze_iterative` after the join), so that the answer also carries the events (node counts,
evaluations, lines) the model predicts FOR THIS SCHEDULE; the checker compares them with the real ones.

Answer: `ok <n_iterations> <n_ops> <events…> entries:<n>/<max> root:<entry>` or
`mismatch iteration=<d> worker=<i> op=<k> expected=<model's op> got=<logged op>` (the earliest difference in `H`). -/
namespace Driver
open Wee Wee.Search

/-! ## the environment of a worker, computed without deep recursion and looked up in an array -/

/-- `batchesOf` one record at a time, from the right -/
def stepB (i : Nat) (p : Nat × TOp) (acc : List (List (Nat × TT.Entry))) : List (List (Nat × TT.Entry)) :=
  match p with
  | (j, .find _ _) => if j == i then [] :: acc else acc
  | (j, .insert k e) => if j == i then [] :: acc else consHead (k, e) acc

theorem batchesOf_eq_foldr (i : Nat) (H : History) : batchesOf i H = H.foldr (stepB i) [[]] := by
  induction H with
  | nil => rfl
  | cons p rest ih =>
    obtain ⟨j, op⟩ := p
    cases op <;> simp [batchesOf, stepB, ih]

/-- `envOf H i` with the batches in an array (`List.foldr` is compiled to a loop over an array) -/
def envFast (H : History) (i : Nat) : Env :=
  let arr := (H.foldr (stepB i) [[]]).toArray
  ⟨fun k => arr.getD k []⟩

theorem envFast_eq (H : History) (i : Nat) : envFast H i = envOf H i := by
  unfold envFast envOf Env.ofList
  rw [batchesOf_eq_foldr]
  show Env.mk _ = Env.mk _
  congr 1
  funext k
  simp

/-! ## one iteration -/

abbrev RunOut := Except Stop Eval × St × List TOp

/-- every worker in the environment `H` is for it (the runs are independent: one task each) -/
def outsOf (ctx : Ctx) (root : State) (tt : TT.Access) (ws : List Worker) (H : History) : List RunOut :=
  (ws.zipIdx.map fun p => Task.spawn fun _ => runWorkerE (envFast H p.2) ctx root p.1 tt).map Task.get

theorem outsOf_eq (ctx : Ctx) (root : State) (tt : TT.Access) (ws : List Worker) (H : History) :
    outsOf ctx root tt ws H = ws.zipIdx.map fun p => runWorkerE (envOf H p.2) ctx root p.1 tt := by
  simp [outsOf, envFast_eq, Task.spawn]

/-- the executable form of `Interleaving`, on the runs `outs` -/
def okOuts (ws : List Worker) (H : History) (outs : List RunOut) : Bool :=
  H.all (fun p => p.1 < ws.length) && outs.zipIdx.all fun o => o.1.2.2 == H.proj o.2

def okIter (ctx : Ctx) (root : State) (tt : TT.Access) (ws : List Worker) (H : History) : Bool :=
  okOuts ws H (outsOf ctx root tt ws H)

theorem okIter_iff (ctx : Ctx) (root : State) (tt : TT.Access) (ws : List Worker) (H : History) :
    okIter ctx root tt ws H = true ↔ Interleaving ctx root tt ws H := by
  unfold okIter okOuts Interleaving
  rw [outsOf_eq, Bool.and_eq_true, List.all_eq_true, List.all_eq_true]
  constructor
  · rintro ⟨h1, h2⟩
    refine ⟨fun p hp => by simpa using h1 p hp, fun i hi => ?_⟩
    have := h2 ((runWorkerE (envOf H i) ctx root ws[i] tt), i) (by
      rw [List.mem_iff_getElem]
      refine ⟨i, by simpa using hi, by simp⟩)
    simpa using this
  · rintro ⟨h1, h2⟩
    refine ⟨fun p hp => by simpa using h1 p hp, fun o ho => ?_⟩
    rw [List.mem_iff_getElem] at ho
    obtain ⟨i, hi, rfl⟩ := ho
    have hi' : i < ws.length := by simpa using hi
    simpa using h2 i hi'

/-- the joined results: the text of `joinOf` on the runs already made -/
def joinOuts (tt : TT.Access) (H : History) (outs : List RunOut) : WorkersOut :=
  { tt := History.table tt H
    polls := 0
    evals := outs.filterMap fun o => match o.1 with | .ok e => some e | _ => Option.none
    sumNodes := (outs.map fun o => o.2.1.nodes).sum
    interrupted := outs.any fun o => match o.1 with | .error .interrupt => true | _ => false
    panic := outs.findSome? fun o => match o.1 with | .error (.panic why) => some why | _ => Option.none }

theorem range_filterMap_getElem? {α β : Type} (ws : List α) (f : Nat → α → β) :
    (List.range ws.length).filterMap (fun i => ws[i]?.map (f i)) = ws.zipIdx.map (fun p => f p.2 p.1) := by
  induction ws generalizing f with
  | nil => rfl
  | cons x xs ih =>
    rw [List.length_cons, List.range_succ_eq_map, List.filterMap_cons]
    simp only [List.getElem?_cons_zero, Option.map_some, List.filterMap_map]
    rw [List.zipIdx_cons, List.map_cons]
    congr 1
    have := ih (fun i => f (i + 1))
    simp only [Function.comp_def, List.getElem?_cons_succ]
    rw [this, List.zipIdx_succ]
    simp [Function.comp_def]

/-- the joined results computed here are `joinOf` of the semantics -/
theorem joinOuts_eq (ctx : Ctx) (root : State) (tt : TT.Access) (ws : List Worker) (H : History) :
    joinOuts tt H (outsOf ctx root tt ws H) = joinOf ctx root tt ws H 0 := by
  unfold joinOuts joinOf
  rw [outsOf_eq, range_filterMap_getElem? ws (fun i w => runWorkerE (envOf H i) ctx root w tt)]
  rfl

/-- **what one accepted iteration of the replay establishes**: the state the replay carries to the next iteration is
a `StepS`-successor — the real iteration is one iteration of `analyze_iterative` under the logged schedule -/
theorem ilStep_sound (ctx : Ctx) (root : State) (rootHash : UInt64) (workers depth : Nat) (st : IterSt) (H : History)
    (h : okIter ctx root st.tt (workersOfIteration depth st.bestMv (drawSeeds workers st.rng).1 fun _ => 0) H = true) :
    StepS ctx root rootHash workers depth st
      (finishStep ctx root rootHash depth (drawSeeds workers st.rng).2
        (joinOuts st.tt H (outsOf ctx root st.tt (workersOfIteration depth st.bestMv (drawSeeds workers st.rng).1 fun _ => 0) H)) st) :=
  ⟨fun _ => 0, _, H, 0, List.Sublist.refl _, fun _ _ => rfl, (okIter_iff ..).1 h, by rw [joinOuts_eq]⟩

/-! ## reporting -/

def opStr : TOp → String
  | .find k r => s!"f:{k}={entryStr r}"
  | .insert k e => s!"i:{k}={entryStr (some e)}"

def optOpStr : Option TOp → String
  | some op => opStr op
  | Option.none => "nothing"

/-- first index at which the two logs differ -/
def firstDiff : List TOp → List TOp → Nat → Option (Nat × Option TOp × Option TOp)
  | [], [], _ => Option.none
  | a :: as, b :: bs, k => if a = b then firstDiff as bs (k + 1) else some (k, some a, some b)
  | a :: _, [], k => some (k, some a, Option.none)
  | [], b :: _, k => some (k, Option.none, some b)

/-- position in `H` of the `k`-th operation of worker `i` (`H.size` if it has fewer) -/
def globalPos (H : Array (Nat × TOp)) (i k : Nat) : Nat := Id.run do
  let mut seen := 0
  for h : pos in [0:H.size] do
    if H[pos].1 == i then
      if seen == k then return pos
      seen := seen + 1
  return H.size

structure Diff where
  pos : Nat
  worker : Nat
  op : Nat
  expected : String
  got : String

/-- the earliest difference (in the order of `H`) between the history and the model's workers -/
def firstMismatch (ws : List Worker) (H : Array (Nat × TOp)) (outs : List RunOut) : Option Diff := Id.run do
  let mut best : Option Diff := Option.none
  let better (d : Diff) (b : Option Diff) : Option Diff := match b with
    | some x => if d.pos < x.pos then some d else some x
    | Option.none => some d
  for h : pos in [0:H.size] do
    if H[pos].1 ≥ ws.length then
      best := better ⟨pos, H[pos].1, 0, "no-such-worker", opStr H[pos].2⟩ best
      break
  let Hl := H.toList
  for (o, i) in outs.zipIdx do
    match firstDiff o.2.2 (History.proj Hl i) 0 with
    | some (k, e, g) => best := better ⟨globalPos H i k, i, k, optOpStr e, optOpStr g⟩ best
    | Option.none => pure ()
  return best

/-! ## the request -/

structure Rec where
  iter : Nat
  worker : Nat
  op : TOp

/-- `ticket:id:i|f:key:kind,mv,depth,maxdepth,eval|-` → (ticket, id, operation) -/
def parseRec (tok : String) : Option (Nat × Nat × TOp) :=
  match tok.splitOn ":" with
  | [t, id, io, key, payload] =>
    match t.toNat?, id.toNat?, key.toNat? with
    | some t, some id, some key =>
      let entry : Option TT.Entry := match payload.splitOn "," with
        | [k, m, d, md, ev] =>
          match k.toNat?, m.toNat?, d.toNat?, md.toNat? with
          | some k, some m, some d, some md => some { kind := k, mv := m, depth := d, maxDepth := md, eval := parseInt ev }
          | _, _, _, _ => Option.none
        | _ => Option.none
      if io == "i" then
        match entry with
        | some e => some (t, id, .insert key e)
        | Option.none => Option.none
      else if io == "f" then
        if payload == "-" then some (t, id, .find key Option.none)
        else match entry with
          | some e => some (t, id, .find key (some e))
          | Option.none => Option.none
      else Option.none
    | _, _, _ => Option.none
  | _ => Option.none

def eventStr : Event → String
  | .best ev line => s!"best:{ev}:{",".intercalate (line.map fun m => toString m.toNat)}"
  | .progress d n => s!"prog:{d}:{n}"
  | .warning => "warn"

/-- the deepening loop of `iterate` with every iteration's workers raced under the logged history of that iteration:
(number of iterations, number of operations replayed, final state), or the first difference -/
def ilLoop (ctx : Ctx) (root : State) (rootHash : UInt64) (workers : Nat) (hist : Array (Array (Nat × TOp))) :
    Nat → Nat → Nat → IterSt → Except String (Nat × Nat × IterSt)
  | 0, depth, nops, st => .ok (depth, nops, st)
  | n + 1, depth, nops, st =>
    if st.finished then .ok (depth, nops, st) else
    -- `if depth > 0 && token.is_cancelled() { break; }`
    let st := boundaryPoll ctx depth st
    if st.finished then .ok (depth, nops, st) else
    let ws := workersOfIteration depth st.bestMv (drawSeeds workers st.rng).1 fun _ => 0
    let H := hist.getD depth #[]
    let outs := outsOf ctx root st.tt ws H.toList
    if okOuts ws H.toList outs then
      ilLoop ctx root rootHash workers hist n (depth + 1) (nops + H.size)
        (finishStep ctx root rootHash depth (drawSeeds workers st.rng).2 (joinOuts st.tt H.toList outs) st)
    else
      match firstMismatch ws H outs with
      | some d => .error s!"mismatch iteration={depth} worker={d.worker} op={d.op} expected={d.expected} got={d.got}"
      | Option.none => .error s!"mismatch iteration={depth} worker=- op=- expected=- got=-"

/-- **an accepted replay is a run of the deepening loop under the logged schedules** (`LoopS` of the semantics) -/
theorem ilLoop_sound (ctx : Ctx) (root : State) (rootHash : UInt64) (workers : Nat) (hist : Array (Array (Nat × TOp))) :
    ∀ (n depth nops : Nat) (st : IterSt) (r : Nat × Nat × IterSt),
      ilLoop ctx root rootHash workers hist n depth nops st = .ok r →
      LoopS ctx root rootHash (fun _ => workers) n depth st r.2.2 := by
  intro n
  induction n with
  | zero =>
    intro depth nops st r h
    simp only [ilLoop, Except.ok.injEq] at h
    subst h
    exact .done depth st
  | succ n ih =>
    intro depth nops st r h
    rw [ilLoop] at h
    by_cases hf : st.finished = true
    · rw [if_pos hf] at h
      simp only [Except.ok.injEq] at h
      subst h
      exact .finished n depth st hf
    · rw [if_neg hf] at h
      simp only at h
      by_cases hb : (boundaryPoll ctx depth st).finished = true
      · rw [if_pos hb] at h
        simp only [Except.ok.injEq] at h
        subst h
        exact .stopped n depth st st.polls (by simpa using hf) hb
      · rw [if_neg hb] at h
        split at h
        · rename_i hok
          exact .step n depth st _ _ st.polls (by simpa using hf) (by simpa using hb)
            (ilStep_sound ctx root rootHash workers depth (boundaryPoll ctx depth st) (hist.getD depth #[]).toList hok)
            (ih _ _ _ _ h)
        · split at h <;> cases h

/-- the answer line of an accepted replay -/
def okLine (hist : Array (Array (Nat × TOp))) (rootHash : UInt64) (depth nops : Nat) (st : IterSt) : String :=
  match st.panic with
  | some _ => "panic"
  | Option.none =>
    -- the real search must not have started another iteration
    let extra := (hist.toList.drop depth).foldl (fun a h => a + h.size) 0
    if extra > 0 then
      s!"mismatch iteration={depth} worker=- op=0 expected=no-such-iteration got={extra}-operations"
    else
      let events := if st.tt.entries * 2 > st.tt.maxEntries then st.events ++ [.warning] else st.events
      joinSp ([s!"ok {depth} {nops}"] ++ events.map eventStr ++
        [s!"entries:{st.tt.entries}/{st.tt.maxEntries}", s!"root:{entryStr (st.tt.find rootHash.toNat)}"])

/-- the whole search as `ilcheck` rebuilds it: fresh table, history = [root] (`kt`, `rng0`: the keys and the
generator, both made from the seed) -/
def ilSearch (root : State) (kt : KeyTable) (rng0 : Rng.ChaCha8) (depth workers tables buckets : Nat)
    (hist : Array (Array (Nat × TOp))) : Except String (Nat × Nat × IterSt) :=
  let rootHash := Wee.hash kt.keys root
  let ctx : Ctx := { keys := kt.keys, history := [rootHash], cancelAt := Option.none }
  let limit := if (legalMoves root).isEmpty then 0 else depth
  ilLoop ctx root rootHash workers hist limit 0 0
    { tt := TT.Access.new tables buckets, rng := rng0, events := [], nodes := 0,
      bestEval := Ev.negInf, bestMv := Option.none, polls := 0 }

/-- **an accepted replay exhibits the real search as an outcome of `analyze_iterative` under some schedule**
(`SearchS` of the semantics, with the logged histories as the schedules): the events, the final table and the panic
status the replay ends with are those of that outcome -/
theorem ilSearch_sound (root : State) (kt : KeyTable) (rng0 : Rng.ChaCha8) (depth workers tables buckets : Nat)
    (hist : Array (Array (Nat × TOp))) (r : Nat × Nat × IterSt)
    (h : ilSearch root kt rng0 depth workers tables buckets hist = .ok r) :
    SearchS root rng0 (some depth) { keys := kt, tt := TT.Access.new tables buckets, history := [] }
      (fun _ => workers) Option.none 64
      { events := if r.2.2.panic.isNone && r.2.2.tt.entries * 2 > r.2.2.tt.maxEntries then r.2.2.events ++ [.warning]
                  else r.2.2.events
        artifact := { keys := kt, tt := r.2.2.tt, history := [Wee.hash kt.keys root] }
        panic := r.2.2.panic } :=
  ⟨r.2.2, ilLoop_sound _ _ _ _ _ _ _ _ _ _ h, rfl⟩

def ilcheck (line : String) : Out :=
  let parts := (line.splitOn " ").toArray
  let nat (i : Nat) : Nat := (parts.getD i "").toNat!
  let seed := nat 1
  let depth := nat 2
  let workers := nat 3
  let tables := nat 4
  let buckets := nat 5
  let nfen := nat 6
  let fen := " ".intercalate (parts.extract 7 (7 + nfen)).toList
  match parseFenM fen with
  | Option.none => ⟨"badfen", "-"⟩
  | some root =>
    -- the log: worker records per iteration, in ticket order
    let res := Id.run do
      let mut hist : Array (Array (Nat × TOp)) := Array.replicate depth #[]
      let mut last : Option Nat := Option.none
      let mut bad : Option String := Option.none
      for tok in parts.extract (7 + nfen) parts.size do
        if tok.isEmpty then continue
        match parseRec tok with
        | Option.none => bad := some s!"badlog token={tok}"; break
        | some (t, id, op) =>
          if (match last with | some l => decide (t ≤ l) | Option.none => false) then
            bad := some s!"badlog tickets-not-increasing-at={t}"; break
          last := some t
          if id ≥ 1000000 then
            let it := (id - 1000000) / 1000
            let w := id % 1000
            if it < hist.size then hist := hist.modify it fun a => a.push (w, op)
            else bad := some s!"mismatch iteration={it} worker={w} op=0 expected=no-such-iteration got={opStr op}"; break
      return (hist, bad)
    match res.2 with
    | some why => ⟨why, "-"⟩
    | Option.none =>
      let kt := (KeyTable.ofRng (Rng.seedFromU64 seed.toUInt64)).1
      match ilSearch root kt (Rng.seedFromU64 seed.toUInt64) depth workers tables buckets res.1 with
      | .ok (d, nops, st) => ⟨okLine res.1 (Wee.hash kt.keys root) d nops st, "-"⟩
      | .error why => ⟨why, "-"⟩

end Driver
