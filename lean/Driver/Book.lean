import Driver.Util
import Wee.Model.Book
import Wee.Spec.Book
/-!
`weedriver book <dir> [seed]`        : rebuild the opening book from the PGN files of `<dir>` with the MODEL
                                       (`Wee.Book.buildBook`) and with the SPEC (`Wee.Spec.Book`), one line per
                                       distinct position key:
                                       `<fen> ||| model=<raw,raw,…|none> ||| spec=<raw,raw,…|none>`
                                       and summary lines starting with `#` (problems: `#!`).
`weedriver book <dir> probe [seed]`  : FEN lines on stdin → `<fen> ||| model=… ||| spec=… ||| legalpos=<0|1|->` for each
                                       (spec `-` = not a canonical FEN; legalpos = `Spec.LegalPos`)
`weedriver bookprobe <dir> [seed]`   : the same
`weedriver book <dir> pure [seed]`   : as `book <dir>`, but the model book is `Wee.Book.buildBook K contents` evaluated
                                       as written (no memoisation; about a minute) — must print the same lines

`raw` is the packed `u32` of the move (the model's move list of that position provides it for the
spec's attribute records), so a line can be compared with the harness' `book <fen>` answer.
The hasher seed is irrelevant for the answers (any seed; default 0).
-/
namespace Driver
open Wee

def bookKeys (seed : Nat) : Keys := (KeyTable.ofRng (Rng.seedFromU64 seed.toUInt64)).1.keys

/-- every regular file of `dir`, sorted by name -/
def readBookDir (dir : String) : IO (List (String × String)) := do
  let entries ← System.FilePath.readDir dir
  let mut files : Array (String × System.FilePath) := #[]
  for e in entries do
    if !(← e.path.isDir) then files := files.push (e.fileName, e.path)
  let sorted := files.qsort (fun a b => a.1 < b.1)
  let mut out : List (String × String) := []
  for (n, p) in sorted.toList.reverse do
    out := (n, ← IO.FS.readFile p) :: out
  return out

def fmtRaws (rs : List Nat) : String :=
  if rs.isEmpty then "none" else ",".intercalate ((rs.toArray.qsort (· < ·)).toList.map toString)

/-- spec moves → raw values through the model's move list of the position given by `fen`
(`?attrs` if the model has no move with these attributes) -/
def specRaws (fen : String) (ms : List Spec.SMove) : String :=
  if ms.isEmpty then "none" else
  match parseFenM fen with
  | Option.none => "badfen"
  | some st =>
    let lm := legalMoves st
    let toks := ms.map fun sm =>
      match lm.find? fun r => toSpecMove r.1 == some sm with
      | some r => (r.1.toNat, "")
      | Option.none => (0, "?" ++ (specMoveAttrs sm).replace " " ",")
    let good := (toks.filter (·.2.isEmpty)).map (·.1)
    let bad := (toks.filter (!·.2.isEmpty)).map (·.2)
    ",".intercalate (((good.toArray.qsort (· < ·)).toList.map toString) ++ bad)

def modelAnswer (K : Keys) (tbl : Except Book.BookErr Book.Table) (fen : String) : String :=
  match tbl with
  | .error _ => "builderror"
  | .ok t =>
    match parseFenM fen with
    | Option.none => "badfen"
    | some st =>
      match Book.lookup K t st with
      | Option.none => "none"
      | some ms => fmtRaws (ms.map (·.toNat))

/-- `xs.map f`, evaluating the pure function `f` once per distinct argument and on all cores -/
def memoMapPar {α β : Type} [BEq α] [Hashable α] [Inhabited β] (f : α → β) (xs : List α) : List β := Id.run do
  let mut index : Std.HashMap α Nat := ∅
  let mut distinct : Array α := #[]
  for x in xs do
    if !index.contains x then
      index := index.insert x distinct.size
      distinct := distinct.push x
  let tasks := distinct.map fun a => Task.spawn fun _ => f a
  let results := tasks.map Task.get
  return xs.map fun x => results[index.getD x 0]!

structure SpecBook where
  /-- key ↦ (representative position, moves recorded) -/
  byKey : Std.HashMap String (Spec.Pos × List Spec.SMove)
  order : Array String
  records : Nat
  errors : List String
  games : Nat
  stray : List String

def buildSpecBook (contents : List String) : SpecBook := Id.run do
  let mut byKey : Std.HashMap String (Spec.Pos × List Spec.SMove) := ∅
  let mut order : Array String := #[]
  let mut nrec := 0
  let mut errs : List String := []
  let games := contents.flatMap Spec.Book.movetexts
  -- `Spec.Book.recordsOfGame g = replayWords (openingWords g)`
  let replayed := memoMapPar Spec.Book.replayWords (games.map Spec.Book.openingWords)
  for (rs, e) in replayed do
    match e with
    | some msg => errs := msg :: errs
    | none => pure ()
    for r in rs do
      nrec := nrec + 1
      match byKey[r.key]? with
      | some (p, ms) => if ms.contains r.move then pure () else byKey := byKey.insert r.key (p, ms ++ [r.move])
      | none =>
        byKey := byKey.insert r.key (r.pos, [r.move])
        order := order.push r.key
  return { byKey, order, records := nrec, errors := errs.reverse, games := games.length,
           stray := contents.flatMap Spec.Book.strayText }

def fmtBookErr : Book.BookErr → String
  | .invalidMoveStr t => s!"invalid move string '{t}'"
  | .unknownMove t => s!"unknown move '{t}'"
  | .panic => "panic in move generation"

partial def probeLoop (h out : IO.FS.Stream) (K : Keys) (tbl : Except Book.BookErr Book.Table) (sb : SpecBook) : IO Unit := do
  let line ← h.getLine
  if line.isEmpty then return ()
  let fen := line.trimAscii.toString
  if !fen.isEmpty then
    let (spec, legal) := match Spec.readFen fen with
      | some p =>
        ((match sb.byKey[Spec.Book.posKey p]? with
          | some (_, ms) => specRaws fen ms
          | none => "none"), if Spec.LegalPos p then "1" else "0")
      | none => ("-", "-")
    out.putStrLn s!"{fen} ||| model={modelAnswer K tbl fen} ||| spec={spec} ||| legalpos={legal}"
  probeLoop h out K tbl sb

def bookMain (args : List String) : IO UInt32 := do
  let out ← IO.getStdout
  let (dir, mode, seed) ← match args with
    | ["book", dir] => pure (dir, "dump", 0)
    | ["book", dir, "probe"] => pure (dir, "probe", 0)
    | ["book", dir, "probe", seed] => pure (dir, "probe", seed.toNat!)
    | ["book", dir, "pure"] => pure (dir, "pure", 0)
    | ["book", dir, "pure", seed] => pure (dir, "pure", seed.toNat!)
    | ["book", dir, seed] => pure (dir, "dump", seed.toNat!)
    | ["bookprobe", dir] => pure (dir, "probe", 0)
    | ["bookprobe", dir, seed] => pure (dir, "probe", seed.toNat!)
    | _ =>
      IO.eprintln "usage: weedriver book <dir> [seed] | book <dir> probe [seed] | book <dir> pure [seed] | bookprobe <dir> [seed]"
      return 2
  let probe := mode == "probe"
  let pureMode := mode == "pure"
  let files ← readBookDir dir
  let contents := files.map (·.2)
  let K := bookKeys seed
  let t0 ← IO.monoMsNow
  -- MODEL: the transcription of build.rs.  `Book.buildBook K contents` is by definition
  -- `buildFromPlayed K ∅ (games.map playMovetext)` with `playMovetext g = playTokens (bookTokens g)`;
  -- the only liberty taken here is to evaluate `playTokens` once per distinct token list, in parallel.
  let games := contents.flatMap Book.gamesOfFile
  let played := if pureMode then games.map Book.playMovetext
                else memoMapPar Book.playTokens (games.map Book.bookTokens)
  let tbl := if pureMode then Book.buildBook K contents else Book.buildFromPlayed K ∅ played
  IO.eprintln s!"model: {match tbl with | .ok t => t.size | .error _ => 0} keys"
  let t1 ← IO.monoMsNow
  -- SPEC: independent replay
  let sb := buildSpecBook contents
  IO.eprintln s!"spec: {sb.records} records"
  let t2 ← IO.monoMsNow
  IO.eprintln s!"time: model {t1 - t0} ms, spec {t2 - t1} ms"
  if probe then
    probeLoop (← IO.getStdin) out K tbl sb
    out.flush
    return 0
  -- model-side statistics and the positions the model recorded (to list model-only positions too)
  let mut modelRecords := 0
  let mut modelErrs : List String := []
  let mut seenFens : Std.HashSet String := ∅
  let mut extraKeys : Std.HashMap String Spec.Pos := ∅
  let mut extraOrder : Array String := #[]
  let mut unreadable := 0
  for pl in played do
    match pl with
    | .error e => modelErrs := fmtBookErr e :: modelErrs
    | .ok l =>
      for r in l do
        modelRecords := modelRecords + 1
        let fen := writeFen r.1
        if !seenFens.contains fen then
          seenFens := seenFens.insert fen
          -- the model's position, read by the spec through its FEN
          match Spec.readFen fen with
          | some p =>
            let k := Spec.Book.posKey p
            if !sb.byKey.contains k && !extraKeys.contains k then
              extraKeys := extraKeys.insert k p
              extraOrder := extraOrder.push k
          | none => unreadable := unreadable + 1
  let (modelPositions, modelPairs) := match tbl with
    | .ok t => (t.size, t.fold (fun (acc : Nat) _ (ms : List Move) => acc + ms.length) 0)
    | .error _ => (0, 0)
  let specPairs := sb.byKey.fold (fun (acc : Nat) _ (v : Spec.Pos × List Spec.SMove) => acc + v.2.length) 0
  -- do the two readings of "en-passant capture available" ever differ on a book position?
  let mut epDiffer := 0
  let mut epTargets := 0
  let mut epAvail := 0
  for k in sb.order do
    match sb.byKey[k]? with
    | some (p, _) =>
      if p.ep.isSome then
        epTargets := epTargets + 1
        if (Spec.Book.epAvailable p).isSome then epAvail := epAvail + 1
        if Spec.Book.epAvailable p != Spec.Book.epLegallyAvailable p then epDiffer := epDiffer + 1
    | none => pure ()
  out.putStrLn s!"# files {files.length}"
  out.putStrLn s!"# depth model={Gen.bookDepth} spec={Spec.Book.plies}"
  out.putStrLn s!"# games model={games.length} spec={sb.games} stray_text_sections={sb.stray.length}"
  out.putStrLn s!"# tokens model={modelRecords} spec={sb.records}"
  out.putStrLn s!"# positions model={modelPositions} spec={sb.order.size} modelonly={extraOrder.size}"
  out.putStrLn s!"# pairs model={modelPairs} spec={specPairs}"
  out.putStrLn s!"# errors model={modelErrs.length + (match tbl with | .error _ => 1 | .ok _ => 0)} spec={sb.errors.length} unreadable_model_positions={unreadable}"
  out.putStrLn s!"# ep representatives_with_target={epTargets} capture_available={epAvail} readings_differ={epDiffer}"
  for e in modelErrs.reverse do out.putStrLn s!"#! model: {e}"
  match tbl with
  | .error e => out.putStrLn s!"#! model build: {fmtBookErr e}"
  | .ok _ => pure ()
  for e in sb.errors do out.putStrLn s!"#! spec: {e}"
  for t in sb.stray do out.putStrLn s!"#? stray text (not a game): {(t.take 60).toString}"
  for k in sb.order do
    match sb.byKey[k]? with
    | some (p, ms) =>
      let fen := Spec.writeFen p
      out.putStrLn s!"{fen} ||| model={modelAnswer K tbl fen} ||| spec={specRaws fen ms}"
    | none => pure ()
  for k in extraOrder do
    match extraKeys[k]? with
    | some p =>
      let fen := Spec.writeFen p
      out.putStrLn s!"{fen} ||| model={modelAnswer K tbl fen} ||| spec=none"
    | none => pure ()
  out.flush
  let t3 ← IO.monoMsNow
  IO.eprintln s!"time: output {t3 - t2} ms"
  return 0

end Driver
