import Wee.Spec.Fen
import Wee.Spec.Abs
import Wee.Model.Fen
import Wee.Model.San
import Wee.Model.TT
/-! Driver utilities: PRNG, hex, canonical printing.  Not part of the model or the proofs. -/
namespace Driver
open Wee

/-- splitmix64: every random choice of the driver derives from one state -/
structure Rng where
  s : UInt64

def Rng.next (r : Rng) : UInt64 × Rng :=
  let s := r.s + 0x9E3779B97F4A7C15
  let z := s
  let z := (z ^^^ (z >>> 30)) * 0xBF58476D1CE4E5B9
  let z := (z ^^^ (z >>> 27)) * 0x94D049BB133111EB
  (z ^^^ (z >>> 31), ⟨s⟩)

def Rng.below (r : Rng) (n : Nat) : Nat × Rng :=
  let (v, r) := r.next
  (if n = 0 then 0 else v.toNat % n, r)

def Rng.pick {α} [Inhabited α] (r : Rng) (xs : Array α) : α × Rng :=
  let (i, r) := r.below xs.size
  (xs[i]!, r)

def hexDigit (n : Nat) : Char := if n < 10 then Char.ofNat (48 + n) else Char.ofNat (87 + n)

def toHex (s : String) : String :=
  if s.isEmpty then "-" else
  String.ofList (s.toUTF8.toList.flatMap fun b => [hexDigit (b.toNat / 16), hexDigit (b.toNat % 16)])

def unhexDigit (c : Char) : Option Nat :=
  if '0' ≤ c ∧ c ≤ '9' then some (c.toNat - 48)
  else if 'a' ≤ c ∧ c ≤ 'f' then some (c.toNat - 87) else none

def fromHex (s : String) : Option String :=
  if s == "-" then some "" else
  let rec go : List Char → List UInt8 → Option (List UInt8)
    | [], acc => some acc.reverse
    | [_], _ => none
    | a :: b :: rest, acc =>
      match unhexDigit a, unhexDigit b with
      | some x, some y => go rest ((x * 16 + y).toUInt8 :: acc)
      | _, _ => none
  match go s.toList [] with
  | some bytes => String.fromUTF8? (ByteArray.mk bytes.toArray)
  | none => none

def joinSp (xs : List String) : String := " ".intercalate xs

def colorCh : Color → String | .white => "w" | .black => "b"
def sColorCh : Spec.Color → String | .white => "w" | .black => "b"
def sKindCode : Spec.Kind → Nat
  | .pawn => 1 | .knight => 2 | .bishop => 3 | .rook => 4 | .queen => 5 | .king => 6
def sKindOfCode : Nat → Option Spec.Kind
  | 1 => some .pawn | 2 => some .knight | 3 => some .bishop | 4 => some .rook | 5 => some .queen | 6 => some .king
  | _ => none

/-- canonical attribute tuple of a model move, same format as the harness' `accessors` minus raw -/
def moveAttrs (m : Move) : String :=
  s!"{Move.pieceCode m} {colorCh (Move.color m)} {Move.origin m} {Move.dest m} {Move.captureCode m} {Move.promotionCode m} {if Move.isEnPassant m then 1 else 0} {if Move.isDoublePawn m then 1 else 0} " ++
    (match Move.castleSide m with | Option.none => "-" | some .king => "K" | some .queen => "Q")

def specMoveAttrs (m : Spec.SMove) : String :=
  s!"{sKindCode m.kind} {sColorCh m.color} {m.src} {m.dst} {(m.capture.map sKindCode).getD 0} {(m.promo.map sKindCode).getD 0} {if m.ep then 1 else 0} {if m.dbl then 1 else 0} " ++
    (match m.castle with | none => "-" | some true => "K" | some false => "Q")

def sortStrings (xs : List String) : List String := (xs.toArray.qsort (· < ·)).toList

def parseFenM (s : String) : Option State := match parseFen true s with | .ok st => some st | _ => Option.none

end Driver
