import Driver.Gen
/-!
weedriver run                      : request lines on stdin → `model ||| spec` per line
weedriver positions <seed> <n>     : n legal positions (canonical FEN), corpus first
-/
open Driver

partial def runLoop (h : IO.FS.Stream) (out : IO.FS.Stream) : IO Unit := do
  let line ← h.getLine
  if line.isEmpty then return ()
  let l := line.trimAscii.toString
  if !l.isEmpty then
    let o := handle l
    out.putStrLn (o.model ++ " ||| " ++ o.spec)
  runLoop h out

def main (args : List String) : IO UInt32 := do
  let out ← IO.getStdout
  match args with
  | ["run"] =>
    runLoop (← IO.getStdin) out
    out.flush
    return 0
  | ["positions", seed, n] =>
    for p in genPositions seed.toNat! n.toNat! do
      out.putStrLn (Wee.Spec.writeFen p)
    return 0
  | _ =>
    IO.eprintln "usage: weedriver run | positions <seed> <n>"
    return 2
