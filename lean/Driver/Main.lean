import Driver.Gen
import Driver.Book
import Driver.Interleave
import Wee.Spec.San
/-!
weedriver run                      : request lines on stdin → `model ||| spec` per line
weedriver positions <seed> <n>     : n legal positions (canonical FEN), corpus first
-/
open Driver

partial def runLoop (h : IO.FS.Stream) (out : IO.FS.Stream) : IO Unit := do
  let line ← h.getLine
  if line.isEmpty then return ()
  let l := line.trimAscii.toString
  if !l.isEmpty then
    let o := if l.startsWith "ilcheck " then ilcheck l else handle l
    out.putStrLn (o.model ++ " ||| " ++ o.spec)
    out.flush
  runLoop h out

def main (args : List String) : IO UInt32 := do
  let out ← IO.getStdout
  match args with
  | ["run"] =>
    runLoop (← IO.getStdin) out
    out.flush
    return 0
  | ["positions", seed, n] =>
    for p in genPositions seed.toNat! n.toNat! do
      out.putStrLn (Wee.Spec.writeFen p)
    return 0
  | ["mates", seed, n, limit] =>
    -- `n` legal few-men positions in which the side to move forces mate within `limit` plies:
    -- lines `<distance> <second-best info> <fen>`
    let mut r : Rng := ⟨seed.toNat!.toUInt64 * 0x9E3779B97F4A7C15 + 7⟩
    let mut found := 0
    let mut tries := 0
    let sets : Array String := #["KQk", "KRk", "KRRk", "KQQk", "KQRk", "KRkp", "KQkn", "KRBk", "KQkr", "kqK", "krK", "krrK", "kqKP", "KBBk", "KQPk"]
    while found < n.toNat! && tries < 400000 do
      tries := tries + 1
      let (men, r1) := r.pick sets
      r := r1
      let mut cells : Array (Option (Wee.Spec.Color × Wee.Spec.Kind)) := Array.replicate 64 none
      let mut ok := true
      for ch in men.toList do
        let (sq0, r2) := r.below 64
        r := r2
        -- kings of the side to be mated are biased to the edge
        let (e, r3) := r.below 4
        r := r3
        let sq := if (ch == 'k' || ch == 'K') && e != 0 then (#[0,1,2,3,4,5,6,7,8,15,16,23,24,31,32,39,40,47,48,55,56,57,58,59,60,61,62,63] : Array Nat)[sq0 % 28]! else sq0
        match Wee.Spec.charCell ch with
        | some cell => if cells[sq]!.isSome then ok := false else cells := cells.set! sq (some cell)
        | none => ok := false
      if !ok then continue
      let stronger : Wee.Spec.Color := if men.front.isUpper then .white else .black
      let p : Wee.Spec.Pos := { cells, turn := stronger, wk := false, wq := false, bk := false, bq := false, ep := none, halfmove := 0, fullmove := 1 }
      if !Wee.Spec.LegalPos p then continue
      let st := Wee.conc p
      match Wee.Outcome.mateDistance limit.toNat! st with
      | some d =>
        -- how many first moves keep the shortest mate?
        let keep := ((Wee.legalMoves st).filter fun rr => Wee.Outcome.lostIn (d - 1) rr.2).length
        out.putStrLn s!"{d} {keep} {Wee.Spec.writeFen p}"
        found := found + 1
      | none => pure ()
    return 0
  | "book" :: rest => bookMain ("book" :: rest)
  | "bookprobe" :: rest => bookMain ("bookprobe" :: rest)
  | ["sanreqs"] =>
    -- FEN lines on stdin → `sanmatch` / `lan` request lines for every legal move and every spelling,
    -- plus negative cases (pseudo-legal but illegal moves, fully disambiguated)
    let stdin ← IO.getStdin
    let rec loop : Nat → IO Unit
      | 0 => pure ()
      | fuel+1 => do
        let line ← stdin.getLine
        if line.isEmpty then return ()
        let fen := line.trimAscii.toString
        match Wee.Spec.readFen fen, parseFenM fen with
        | some p, some st =>
          let ms := Wee.legalMoves st
          for sm in Wee.Spec.legalMoves p do
            -- the packed move with the same attributes (taken from the model list)
            match ms.find? fun r => Wee.toSpecMove r.1 == some sm with
            | some r =>
              out.putStrLn s!"lan {r.1.toNat}"
              for t in Wee.Spec.spellings p sm do
                out.putStrLn s!"sanmatch {toHex t} {r.1.toNat} {fen}"
            | none => out.putStrLn s!"sanmatch {toHex (Wee.Spec.fullSpelling sm)} MISSING {fen}"
          for sm in Wee.Spec.illegalPseudo p do
            -- a castle spelled O-O may coexist with no legal castle; other texts must match nothing
            if !(Wee.Spec.legalMoves p).any (fun l => Wee.Spec.fullSpelling l == Wee.Spec.fullSpelling sm) then
              out.putStrLn s!"sanmatch {toHex (Wee.Spec.fullSpelling sm)} - {fen}"
        | _, _ => pure ()
        loop fuel
    loop 100000000
    return 0
  | _ =>
    IO.eprintln "usage: weedriver run | positions <seed> <n>"
    return 2
