import Driver.Gen
import Wee.Spec.San
/-!
weedriver run                      : request lines on stdin → `model ||| spec` per line
weedriver positions <seed> <n>     : n legal positions (canonical FEN), corpus first
-/
open Driver

partial def runLoop (h : IO.FS.Stream) (out : IO.FS.Stream) : IO Unit := do
  let line ← h.getLine
  if line.isEmpty then return ()
  let l := line.trimAscii.toString
  if !l.isEmpty then
    let o := handle l
    out.putStrLn (o.model ++ " ||| " ++ o.spec)
  runLoop h out

def main (args : List String) : IO UInt32 := do
  let out ← IO.getStdout
  match args with
  | ["run"] =>
    runLoop (← IO.getStdin) out
    out.flush
    return 0
  | ["positions", seed, n] =>
    for p in genPositions seed.toNat! n.toNat! do
      out.putStrLn (Wee.Spec.writeFen p)
    return 0
  | ["sanreqs"] =>
    -- FEN lines on stdin → `sanmatch` / `lan` request lines for every legal move and every spelling,
    -- plus negative cases (pseudo-legal but illegal moves, fully disambiguated)
    let stdin ← IO.getStdin
    let rec loop : Nat → IO Unit
      | 0 => pure ()
      | fuel+1 => do
        let line ← stdin.getLine
        if line.isEmpty then return ()
        let fen := line.trimAscii.toString
        match Wee.Spec.readFen fen, parseFenM fen with
        | some p, some st =>
          let ms := Wee.legalMoves st
          for sm in Wee.Spec.legalMoves p do
            -- the packed move with the same attributes (taken from the model list)
            match ms.find? fun r => Wee.toSpecMove r.1 == some sm with
            | some r =>
              out.putStrLn s!"lan {r.1.toNat}"
              for t in Wee.Spec.spellings p sm do
                out.putStrLn s!"sanmatch {toHex t} {r.1.toNat} {fen}"
            | none => out.putStrLn s!"sanmatch {toHex (Wee.Spec.fullSpelling sm)} MISSING {fen}"
          for sm in Wee.Spec.illegalPseudo p do
            -- a castle spelled O-O may coexist with no legal castle; other texts must match nothing
            if !(Wee.Spec.legalMoves p).any (fun l => Wee.Spec.fullSpelling l == Wee.Spec.fullSpelling sm) then
              out.putStrLn s!"sanmatch {toHex (Wee.Spec.fullSpelling sm)} - {fen}"
        | _, _ => pure ()
        loop fuel
    loop 100000000
    return 0
  | _ =>
    IO.eprintln "usage: weedriver run | positions <seed> <n>"
    return 2
