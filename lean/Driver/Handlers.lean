import Driver.Util
import Wee.Model.AttackCache
import Wee.Model.Cbor
import Wee.Model.Hash
import Wee.Model.Eval
import Wee.Model.Search
import Wee.Spec.Outcome
import Wee.Model.Uci
/-! Request handlers: for every request line the MODEL answer and the SPEC answer ("-" = no oracle). -/
namespace Driver
open Wee

def moveTok (m : Move) : String :=
  s!"{Move.lan m}:{m.toNat}:{(moveAttrs m).replace " " ","}"

def specOf (fen : String) : Option Spec.Pos := Spec.readFen fen

def fmtErr : MoveErr → String
  | .ambiguous => "err ambiguous" | .illegalEnPassant => "err illegalep" | .unknown => "err unknown"

def fmtPerform : Option (Except MoveErr State) → String
  | Option.none => "panic"
  | some (.ok s) => writeFen s
  | some (.error e) => fmtErr e

/-- attacked squares of colour `c` minus own pieces, as a u64, from the spec -/
def specAttackSet (p : Spec.Pos) (c : Spec.Color) (pawnOnly : Bool) : Nat :=
  (List.range 64).foldl (fun acc t =>
    let own := match p.at t with | some (c', _) => c' == c | none => false
    let hit := (List.range 64).any fun s =>
      match p.at s with
      | some (c', k) => c' == c && (!pawnOnly || k == .pawn) && (Spec.attacksFrom p.occupied c k s).contains t
      | none => false
    if hit && !own then acc ||| (1 <<< t) else acc) 0

def listToBB (xs : List Nat) : Nat := xs.foldl (fun acc t => acc ||| (1 <<< t)) 0

def entryStr : Option TT.Entry → String
  | Option.none => "none"
  | some e => s!"{e.kind}:{e.mv}:{e.depth}:{e.maxDepth}:{e.eval}"

def parseInt (s : String) : Int :=
  if s.startsWith "-" then -((s.drop 1).toString.toNat!) else s.toNat!

/-- `cbor=<hex of encodeU32 raw> back=<decodeU32 of it>` as the harness prints the real ciborium round trip -/
def cborStr (m : Move) : String :=
  let bytes := Cbor.encodeU32 m
  let hex := String.ofList (bytes.flatMap fun b => [hexDigit (b.toNat / 16), hexDigit (b.toNat % 16)])
  s!"cbor={hex} back=" ++ (match Cbor.decodeU32 bytes with | some r => toString r.toNat | Option.none => "none")

structure Out where
  model : String
  spec : String := "-"

def handle (line : String) : Out :=
  let parts := line.splitOn " "
  let rest (n : Nat) : String := " ".intercalate (parts.drop n)
  match parts.head! with
  | "moves" =>
    let fen := rest 1
    let model := match parseFenM fen with
      | Option.none => "badfen"
      | some s => match legalMoves? s with
        | Option.none => "panic"
        | some ms => joinSp (toString ms.length :: ms.map fun r => moveTok r.1)
    let spec := match specOf fen with
      | none => "-"
      | some p => joinSp (sortStrings ((Spec.legalMoves p).map fun m => (specMoveAttrs m).replace " " ","))
    ⟨model, spec⟩
  | "succ" =>
    let fen := rest 1
    let model := match parseFenM fen with
      | Option.none => "badfen"
      | some s => match legalMoves? s with
        | Option.none => "panic"
        | some ms => joinSp (toString ms.length :: ms.map fun r => (writeFen r.2).replace " " "_")
    let spec := match specOf fen with
      | none => "-"
      | some p => joinSp (sortStrings ((Spec.legalMoves p).map fun m => (Spec.writeFen (Spec.applyMove p m)).replace " " "_"))
    ⟨model, spec⟩
  | "apply" =>
    let raw := parts[1]!.toNat!
    let fen := rest 2
    let model := match parseFenM fen with
      | Option.none => "badfen"
      | some s => fmtPerform (performMove s raw.toUInt32)
    let spec := match specOf fen, toSpecMove raw.toUInt32 with
      | some p, some sm =>
        if (Spec.legalMoves p).contains sm then Spec.writeFen (Spec.applyMove p sm) else "-"
      | _, _ => "-"
    ⟨model, spec⟩
  | "coords" =>
    let fromSq := parts[1]!.toNat!
    let toSq := parts[2]!.toNat!
    let promo : Option Nat := if parts[3]! == "-" then Option.none else some parts[3]!.toNat!
    let fen := rest 4
    let q : MoveQuery := { originRank := some (rankOf fromSq), originFile := some (fileOf fromSq),
                           destRank := some (rankOf toSq), destFile := some (fileOf toSq),
                           promotion := promo.bind Piece.ofCode? }
    let model := match parseFenM fen with
      | Option.none => "badfen"
      | some s => fmtPerform (performQuery s q)
    let spec := match specOf fen with
      | none => "-"
      | some p =>
        let cands := (Spec.legalMoves p).filter fun m => m.src == fromSq && m.dst == toSq &&
          (match promo with | Option.none => true | some k => m.promo == sKindOfCode k)
        match cands with
        | [m] => Spec.writeFen (Spec.applyMove p m)
        | [] => "err unknown"
        | _ => "err ambiguous"
    ⟨model, spec⟩
  | "attacks" =>
    let order := parts[1]!
    let fen := rest 2
    let model := match parseFenM fen with
      | Option.none => "badfen"
      | some s =>
        -- the OnceCell cache state machine of `Model/AttackCache` ('k' = clone and continue on the clone)
        let (_, outs) := order.toList.foldl (fun (st : CachedBoard × List String) ch =>
          let b := st.1
          match ch with
          | 'a' => let r := b.attacks .white; (r.1, s!"a{r.2.toNat}" :: st.2)
          | 'A' => let r := b.attacks .black; (r.1, s!"A{r.2.toNat}" :: st.2)
          | 'p' => let r := b.pawnAttacks .white; (r.1, s!"p{r.2.toNat}" :: st.2)
          | 'P' => let r := b.pawnAttacks .black; (r.1, s!"P{r.2.toNat}" :: st.2)
          | 'c' => let r := b.isCheck .white; (r.1, s!"c{if r.2 then 1 else 0}" :: st.2)
          | 'C' => let r := b.isCheck .black; (r.1, s!"C{if r.2 then 1 else 0}" :: st.2)
          | 's' => let r := b.isCheck s.turn; (r.1, s!"s{if r.2 then 1 else 0}" :: st.2)
          | 'k' => ((b.clone).2, st.2)
          | _ => st) (CachedBoard.new s.pieces, [])
        joinSp outs.reverse
    let spec := match specOf fen with
      | none => "-"
      | some p => joinSp (order.toList.filterMap fun ch =>
          match ch with
          | 'a' => some s!"a{specAttackSet p .white false}"
          | 'A' => some s!"A{specAttackSet p .black false}"
          | 'p' => some s!"p{specAttackSet p .white true}"
          | 'P' => some s!"P{specAttackSet p .black true}"
          | 'c' => some s!"c{if p.inCheck .white then 1 else 0}"
          | 'C' => some s!"C{if p.inCheck .black then 1 else 0}"
          | 's' => some s!"s{if p.inCheck p.turn then 1 else 0}"
          | _ => Option.none)
    ⟨model, spec⟩
  | "checkafter" =>
    -- checkafter <fen...>: per legal move (generation order) the check status of the successor: side to move, white, black
    let fen := rest 1
    let b3 (x : Bool) : String := if x then "1" else "0"
    let model := match parseFenM fen with
      | Option.none => "badfen"
      | some s =>
        let ms := legalMoves s
        s!"{ms.length} " ++ joinSp (ms.map fun r =>
          b3 r.2.isCheck ++ b3 ((CachedBoard.new r.2.pieces).isCheck .white).2 ++ b3 ((CachedBoard.new r.2.pieces).isCheck .black).2)
    let spec := match specOf fen with
      | none => "-"
      | some p =>
        -- in the MODEL's move order (the spec has no order of its own): the rule-level successor of each listed move
        match parseFenM fen with
        | Option.none => "-"
        | some s =>
          let ms := legalMoves s
          s!"{ms.length} " ++ joinSp (ms.map fun r =>
            match toSpecMove r.1 with
            | Option.none => "???"
            | some sm =>
              let q := Spec.applyMove p sm
              b3 (q.inCheck q.turn) ++ b3 (q.inCheck .white) ++ b3 (q.inCheck .black))
    ⟨model, spec⟩
  | "attacksafter" =>
    -- attacksafter <fen...>: per legal move (generation order) what the SUCCESSOR answers: all attacks and pawn attacks of
    -- White and of Black (four u64) and the three check flags — the real objects are built by make-move from a predecessor whose
    -- attack sets were queried before
    let fen := rest 1
    let b3 (x : Bool) : String := if x then "1" else "0"
    let model := match parseFenM fen with
      | Option.none => "badfen"
      | some s =>
        let ms := legalMoves s
        s!"{ms.length} " ++ joinSp (ms.map fun r =>
          let cb := CachedBoard.new r.2.pieces
          s!"{((cb.attacks .white).2).toNat},{((cb.attacks .black).2).toNat},{((cb.pawnAttacks .white).2).toNat},{((cb.pawnAttacks .black).2).toNat}," ++
            b3 r.2.isCheck ++ b3 ((cb.isCheck .white).2) ++ b3 ((cb.isCheck .black).2))
    let spec := match specOf fen with
      | none => "-"
      | some p =>
        match parseFenM fen with
        | Option.none => "-"
        | some s =>
          let ms := legalMoves s
          s!"{ms.length} " ++ joinSp (ms.map fun r =>
            match toSpecMove r.1 with
            | Option.none => "???"
            | some sm =>
              let q := Spec.applyMove p sm
              s!"{specAttackSet q .white false},{specAttackSet q .black false},{specAttackSet q .white true},{specAttackSet q .black true}," ++
                b3 (q.inCheck q.turn) ++ b3 (q.inCheck .white) ++ b3 (q.inCheck .black))
    ⟨model, spec⟩
  | "slider" =>
    let sq := parts[2]!.toNat!
    let occ := parts[3]!.toNat!.toUInt64
    let occupied (t : Nat) : Bool := test occ t
    match parts[1]! with
    | "r" => ⟨toString (rookAttacks sq occ).toNat, toString (listToBB (Spec.slide occupied Spec.rookDirs sq))⟩
    | "b" => ⟨toString (bishopAttacks sq occ).toNat, toString (listToBB (Spec.slide occupied Spec.bishopDirs sq))⟩
    | _ => ⟨toString (queenAttacks sq occ).toNat, toString (listToBB (Spec.slide occupied (Spec.rookDirs ++ Spec.bishopDirs) sq))⟩
  | "leaper" =>
    let sq := parts[2]!.toNat!
    let occ (_ : Nat) : Bool := false
    match parts[1]! with
    | "n" => ⟨toString (knightAttacks sq).toNat, toString (listToBB (Spec.attacksFrom occ .white .knight sq))⟩
    | "k" => ⟨toString (kingAttacks sq).toNat, toString (listToBB (Spec.attacksFrom occ .white .king sq))⟩
    | "pw" => ⟨toString (pawnAttacks .white sq).toNat, toString (listToBB (Spec.attacksFrom occ .white .pawn sq))⟩
    | _ => ⟨toString (pawnAttacks .black sq).toNat, toString (listToBB (Spec.attacksFrom occ .black .pawn sq))⟩
  | "fen" =>
    -- fen <hex> [d|r]: profile (debug = overflow checks) chosen by the checker to match the harness build
    let checked := parts.getD 2 "d" != "r"
    match fromHex parts[1]! with
    | none => ⟨"badhex", "-"⟩
    | some s =>
      let model := match parseFen checked s with
        | .ok st => "ok " ++ writeFen st
        | .err => "err"
        | .panic => "panic"
      let spec := match Spec.readFen s with
        -- canonical as in C11 (`CanonicalFen`): reproduced by the strict writer AND counters that fit 64 bits
        | some p => if Spec.writeFen p == s && p.halfmove < 2^64 && p.fullmove < 2^64 then "ok " ++ s else "-"
        | none => "-"
      ⟨model, spec⟩
  | "san" =>
    match fromHex parts[1]! with
    | none => ⟨"badhex", "-"⟩
    | some s =>
      let o (x : Option Nat) : String := match x with | Option.none => "-" | some v => toString v
      let model := match parseSan s with
        | Option.none => "err"
        | some q => s!"ok {o (q.piece.map Piece.code)} {o q.originRank} {o q.originFile} {o q.destRank} {o q.destFile} {o (q.promotion.map Piece.code)} " ++
            (match q.castle with | Option.none => "-" | some .king => "K" | some .queen => "Q") ++ " " ++
            (match q.isCapture with | Option.none => "-" | some true => "1" | some false => "0")
      ⟨model, "-"⟩
  | "sanmatch" =>
    -- sanmatch <hex> <intended raw|-> <fen...>
    let intended := parts[2]!
    let fen := rest 3
    match fromHex parts[1]! with
    | none => ⟨"badhex", "-"⟩
    | some s =>
      let model := match parseFenM fen with
        | Option.none => "badfen"
        | some st => match parseSan s with
          | Option.none => "err"
          | some q => match legalMoves? st with
            | Option.none => "panic"
            | some ms =>
              let hits := ms.filter fun r => q.test r.1
              let first := match hits.head? with | some r => toString r.1.toNat | Option.none => "-"
              s!"ok first={first} all={",".intercalate (hits.map fun r => toString r.1.toNat)}"
      let spec := if intended == "-" then "nomatch" else s!"ok first={intended} all={intended}"
      ⟨model, spec⟩
  | "lan" =>
    let raw := parts[1]!.toNat!.toUInt32
    let spec := match toSpecMove raw with
      | some m => Spec.sqName m.src ++ Spec.sqName m.dst ++ (match m.promo with | some k => String.singleton (Spec.kindLetter k) | none => "")
      | Option.none => "-"
    ⟨Move.lan raw, spec⟩
  | "perft" =>
    let d := parts[1]!.toNat!
    let fen := rest 2
    let model := match parseFenM fen with | Option.none => "badfen" | some s => toString (perft d s)
    let spec := match specOf fen with | none => "-" | some p => toString (Spec.perft d p)
    ⟨model, spec⟩
  | "mveq" =>
    -- mveq <ctorA> <6 args> <ctorB> <6 args>: model = equality of the packed words; spec = equality of the ATTRIBUTE tuples
    -- the constructors were given (constructor kind, colour, piece, origin, destination, capture, promotion)
    let build (q : List String) : Move × String :=
      match q with
      | ["castle", c, sd, _, _, _, _] =>
        (Move.byCastling (if c == "w" then .white else .black) (if sd == "K" then .king else .queen), s!"castle {c} {sd}")
      | [k, c, p, o, d, cap, pr] =>
        let col : Color := if c == "w" then .white else .black
        let pc := (Piece.ofCode? p.toNat!).getD .none
        let cp := (Piece.ofCode? cap.toNat!).getD .none
        let pp := (Piece.ofCode? pr.toNat!).getD .none
        let m := match k with
          | "move" => Move.byMoving col pc o.toNat! d.toNat!
          | "cap" => Move.byCapturing col pc o.toNat! d.toNat! cp
          | "promo" => Move.byPromoting col pc o.toNat! d.toNat! pp
          | "cappromo" => Move.byCapturePromoting col pc o.toNat! d.toNat! cp pp
          | _ => Move.byEnPassant col pc o.toNat! d.toNat!
        -- the attributes that distinguish moves: an en-passant capture is a pawn capture WITH the marker
        let attrs := match k with
          | "move" => s!"{c} {p} {o} {d} 0 0 0"
          | "cap" => s!"{c} {p} {o} {d} {cap} 0 0"
          | "promo" => s!"{c} {p} {o} {d} 0 {pr} 0"
          | "cappromo" => s!"{c} {p} {o} {d} {cap} {pr} 0"
          | _ => s!"{c} {p} {o} {d} 1 0 1"
        (m, attrs)
      | _ => (0, "?")
    let a := build ((parts.drop 1).take 7)
    let b := build ((parts.drop 8).take 7)
    let f (x : Bool) : String := if x then "eq=1 hasheq=1 set=1" else "eq=0 hasheq=0 set=2"
    -- `hasheq` of two unequal moves may legitimately be 1 by chance (64-bit SipHash): the checker ignores it then
    ⟨f (a.1 == b.1), f (a.2 == b.2)⟩
  | "mv" =>
    if parts[1]! == "castle" then
      let c : Color := if parts[2]! == "w" then .white else .black
      let side : Side := if parts[3]! == "K" then .king else .queen
      let m := Move.byCastling c side
      let src := if parts[2]! == "w" then 4 else 60
      let dst := if parts[3]! == "K" then src + 2 else src - 2
      ⟨s!"{m.toNat} {moveAttrs m} {cborStr m}", s!"6 {parts[2]!} {src} {dst} 0 0 0 0 {parts[3]!}"⟩
    else
      let c : Color := if parts[2]! == "w" then .white else .black
      let p := (Piece.ofCode? parts[3]!.toNat!).getD .none
      let o := parts[4]!.toNat!
      let d := parts[5]!.toNat!
      let cap := (Piece.ofCode? parts[6]!.toNat!).getD .none
      let pr := (Piece.ofCode? parts[7]!.toNat!).getD .none
      let m := match parts[1]! with
        | "move" => Move.byMoving c p o d
        | "cap" => Move.byCapturing c p o d cap
        | "promo" => Move.byPromoting c p o d pr
        | "cappromo" => Move.byCapturePromoting c p o d cap pr
        | _ => Move.byEnPassant c p o d
      -- expected attributes straight from the arguments
      let dbl := p == .pawn && (if o / 8 ≥ d / 8 then o / 8 - d / 8 else d / 8 - o / 8) > 1
      let (ecap, epr, eep) := match parts[1]! with
        | "move" => (0, 0, 0)
        | "cap" => (cap.code, 0, 0)
        | "promo" => (0, pr.code, 0)
        | "cappromo" => (cap.code, pr.code, 0)
        | _ => (1, 0, 1)
      ⟨s!"{m.toNat} {moveAttrs m} {cborStr m}", s!"{p.code} {parts[2]!} {o} {d} {ecap} {epr} {eep} {if dbl then 1 else 0} -"⟩
  | "tt" =>
    let tables := parts[1]!.toNat!
    let buckets := parts[2]!.toNat!
    let ops := parts.drop 3
    -- model
    let (_, outsRev) := ops.foldl (fun (st : TT.Access × List String) op =>
      let f := op.splitOn ":"
      match f[0]! with
      | "i" =>
        let e : TT.Entry := { kind := f[2]!.toNat!, mv := f[3]!.toNat!, depth := f[4]!.toNat!, maxDepth := f[5]!.toNat!, eval := parseInt f[6]! }
        (st.1.insert f[1]!.toNat! e, "i" :: st.2)
      | "f" => (st.1, entryStr (st.1.find f[1]!.toNat!) :: st.2)
      | _ => (st.1, s!"n{st.1.entries}/{st.1.maxEntries}" :: st.2)) (TT.Access.new tables buckets, [])
    -- spec: abstract history.  per find: `latest` entry for the key, and whether the key's bucket can
    -- have overflowed (more than bucketSize distinct keys routed to it so far)
    let (_, specRev) := ops.foldl (fun (st : List (Nat × TT.Entry) × List String) op =>
      let f := op.splitOn ":"
      match f[0]! with
      | "i" =>
        let e : TT.Entry := { kind := f[2]!.toNat!, mv := f[3]!.toNat!, depth := f[4]!.toNat!, maxDepth := f[5]!.toNat!, eval := parseInt f[6]! }
        ((f[1]!.toNat!, e) :: st.1, "i" :: st.2)
      | "f" =>
        let k := f[1]!.toNat!
        let latest := (st.1.find? fun x => x.1 == k).map (·.2)
        let sameBucket := st.1.filter fun x => x.1 % tables == k % tables && x.1 % buckets == k % buckets
        let distinct := (sameBucket.map (·.1)).eraseDups.length
        let must := distinct ≤ Gen.bucketSize
        (st.1, s!"{if must then "must" else "may"}={entryStr latest}" :: st.2)
      | _ =>
        let distinctKeys := (st.1.map (·.1)).eraseDups.length
        (st.1, s!"n<={Nat.min distinctKeys (tables * buckets * Gen.bucketSize)}/{tables * buckets * Gen.bucketSize}" :: st.2)) ([], [])
    ⟨joinSp outsRev.reverse, joinSp specRev.reverse⟩
  | "hash" =>
    -- hash <seed> <fen...>; spec = the rule-relevant key of the position (placement, side, rights,
    -- en-passant target only if a capture is available); the checker demands equal keys ⇔ equal hashes
    let seed := parts[1]!.toNat!
    let fen := rest 2
    let model := match parseFenM fen with
      | Option.none => "badfen"
      | some s =>
        let (kt, _) := KeyTable.ofRng (Rng.seedFromU64 seed.toUInt64)
        toString (hash kt.keys s).toNat
    let spec := match specOf fen with
      | none => "-"
      | some p =>
        let f := (Spec.writeFen p).splitOn " "
        let epAvail := match p.ep with
          | none => "-"
          | some t =>
            let fromSqs := [(-1 : Int), 1].filterMap fun df => Spec.step t df (-(p.turn.fwd))
            if fromSqs.any (fun s => p.at s == some (p.turn, Spec.Kind.pawn)) then Spec.sqName t else "-"
        s!"key={f[0]!}_{f[1]!}_{f[2]!}_{epAvail}"
    ⟨model, spec⟩
  | "objafter" =>
    -- objafter <seed> <fen...>: per legal move (generation order) hash and evaluation (White, ply 1) of the successor
    let seed := parts[1]!.toNat!
    let fen := rest 2
    match parseFenM fen with
    | Option.none => ⟨"badfen", "-"⟩
    | some s =>
      let (kt, _) := KeyTable.ofRng (Rng.seedFromU64 seed.toUInt64)
      let ms := legalMoves s
      ⟨s!"{ms.length} " ++ joinSp (ms.map fun r =>
        s!"{(hash kt.keys r.2).toNat}:{match evaluate r.2 .white 1 with | some e => toString e | Option.none => "panic"}"), "-"⟩
  | "playline" =>
    -- playline <seed> <fen with _> <raw>* : the moves are made one after the other on the OBJECT (never re-read); per ply
    -- `fen;raw,raw,…;hash;evalW;evalB` of the object reached, and ` REREAD-DIFFERS …` if the object re-read from its own FEN
    -- answers anything differently (C11: a position reached by play, written and read back, is the same position)
    let seed := parts[1]!.toNat!
    let fen := (parts[2]!).replace "_" " "
    match parseFenM fen with
    | Option.none => ⟨"badfen", "-"⟩
    | some s0 =>
      let (kt, _) := KeyTable.ofRng (Rng.seedFromU64 seed.toUInt64)
      let descr (s : State) : String :=
        let ev (c : Color) : String := match evaluate s c 1 with | some e => toString e | Option.none => "panic"
        let ms : List String := (legalMoves s).map fun r => toString r.1.toNat
        s!"{(writeFen s).replace " " "_"};{",".intercalate ms};{(hash kt.keys s).toNat};{ev .white};{ev .black}"
      let step (acc : Option State × List String) (raw : String) : Option State × List String :=
        match acc.1 with
        | Option.none => acc
        | some s =>
          match (legalMoves s).find? (fun r => r.1.toNat == raw.toNat!) with
          | Option.none => (Option.none, acc.2 ++ ["nomove"])
          | some r =>
            let d := descr r.2
            let d' := match parseFenM (writeFen r.2) with | some s' => descr s' | Option.none => "badfen"
            (some r.2, acc.2 ++ [if d == d' then d else d ++ " REREAD-DIFFERS " ++ d'])
      let out := (parts.drop 3).foldl step (some s0, [])
      ⟨" | ".intercalate out.2, "-"⟩
  | "eval" =>
    -- eval <w|b> <ply> <fen...>
    let persp : Color := if parts[1]! == "w" then .white else .black
    let ply := parts[2]!.toNat!
    let fen := rest 3
    let model := match parseFenM fen with
      | Option.none => "badfen"
      | some s => match evaluate s persp ply with
        | Option.none => "panic"
        | some e => toString e
    -- spec: terminal positions have a prescribed value, all others must be non-terminal
    let spec := match specOf fen with
      | none => "-"
      | some p =>
        if !Spec.LegalPos p then "-" else
        let mate : Int := 10000 + 100 * (max (10 - (ply : Int)) 0)
        let sp : Spec.Color := if parts[1]! == "w" then .white else .black
        if (Spec.legalMoves p).isEmpty then
          if p.inCheck p.turn then (if p.turn == sp then s!"T{-mate}" else s!"T{mate}") else "T0"
        else "N"
    ⟨model, spec⟩
  | "estimate" =>
    let raw := parts[1]!.toNat!
    let fen := rest 2
    let model := match parseFenM fen with
      | Option.none => "badfen"
      | some s => toString (estimate s raw.toUInt32)
    ⟨model, "-"⟩
  | "search" =>
    -- search <seed> <depth|-> <workers|-> <cancel|-> <tables> <buckets> <nhist> <hist fens with _>* <fen...>
    let seed := parts[1]!.toNat!
    let optNat (t : String) : Option Nat := if t == "-" then Option.none else t.toNat?
    let depth := optNat parts[2]!
    let workers := optNat parts[3]!
    let cancel := optNat parts[4]!
    let tables := parts[5]!.toNat!
    let buckets := parts[6]!.toNat!
    let nhist := parts[7]!.toNat!
    let hist := ((parts.drop 8).take nhist).filterMap fun h => parseFenM (h.replace "_" " ")
    let fen := rest (8 + nhist)
    match parseFenM fen with
    | Option.none => ⟨"badfen", "-"⟩
    | some root =>
      let (kt, _) := KeyTable.ofRng (Rng.seedFromU64 seed.toUInt64)
      let art : Search.Artifact := { keys := kt, tt := TT.Access.new tables buckets,
                                     history := hist.map (Wee.hash kt.keys) }
      let workersOf (d : Nat) : Nat := match workers with
        | some w => w
        | Option.none => if d < Gen.singleWorkerBelowDepth then 1 else Gen.defaultMaxThreadCount
      let out := Search.iterate root (Rng.seedFromU64 seed.toUInt64) depth art workersOf cancel
      match out.panic with
      | some _ => ⟨"panic", "-"⟩
      | Option.none =>
        let evs := out.events.map fun e => match e with
          | .best ev line => s!"best:{ev}:{",".intercalate (line.map fun m => toString m.toNat)}"
          | .progress d n => s!"prog:{d}:{n}"
          | .warning => "warn"
        let rootE := out.artifact.tt.find (Wee.hash kt.keys root).toNat
        ⟨joinSp (evs ++ [s!"entries:{out.artifact.tt.entries}/{out.artifact.tt.maxEntries}", s!"root:{entryStr rootE}"]), "-"⟩
  | "searchseq" =>
    -- searchseq <seed> <tables> <buckets> <workers|-> <n> {<depth|-> <cancel|-> <fen with _>}*
    let seed := parts[1]!.toNat!
    let optNat (t : String) : Option Nat := if t == "-" then Option.none else t.toNat?
    let tables := parts[2]!.toNat!
    let buckets := parts[3]!.toNat!
    let workers := optNat parts[4]!
    let n := parts[5]!.toNat!
    let (kt, _) := KeyTable.ofRng (Rng.seedFromU64 seed.toUInt64)
    let workersOf (d : Nat) : Nat := match workers with
      | some w => w
      | Option.none => if d < Gen.singleWorkerBelowDepth then 1 else Gen.defaultMaxThreadCount
    let init : Search.Artifact := { keys := kt, tt := TT.Access.new tables buckets, history := [] }
    let (_, outs, bad) := (List.range n).foldl (fun (st : Search.Artifact × List String × Bool) i =>
      if st.2.2 then st else
      match parseFenM ((parts[8 + 3 * i]!).replace "_" " ") with
      | Option.none => (st.1, st.2.1, true)
      | some root =>
        let out := Search.iterate root (Rng.seedFromU64 (seed + i).toUInt64) (optNat parts[6 + 3 * i]!) st.1 workersOf (optNat parts[7 + 3 * i]!)
        match out.panic with
        | some _ => (st.1, st.2.1, true)
        | Option.none =>
          let evs := out.events.map fun e => match e with
            | .best ev line => s!"best:{ev}:{",".intercalate (line.map fun m => toString m.toNat)}"
            | .progress d nn => s!"prog:{d}:{nn}"
            | .warning => "warn"
          (out.artifact, st.2.1 ++ [joinSp (evs ++ [s!"entries:{out.artifact.tt.entries}/{out.artifact.tt.maxEntries}"])], false)) (init, [], false)
    if bad then ⟨"panic", "-"⟩ else ⟨" | ".intercalate outs, "-"⟩
  | "matedist" =>
    -- matedist <limit> <fen...> (spec only): least odd n ≤ limit such that the side to move forces mate in n plies
    let limit := parts[1]!.toNat!
    match parseFenM (rest 2) with
    | Option.none => ⟨"-", "-"⟩
    | some s => ⟨"-", match Outcome.mateDistance limit s with | some n => toString n | Option.none => "none"⟩
  | "matekeep" =>
    -- matekeep <d> <fen...> (spec only): the first moves that keep a forced mate in d plies, with successor FEN
    let d := parts[1]!.toNat!
    match parseFenM (rest 2) with
    | Option.none => ⟨"-", "-"⟩
    | some s =>
      let keep := (legalMoves s).filter fun r => Outcome.lostIn (d - 1) r.2
      ⟨"-", joinSp (keep.map fun r => s!"{r.1.toNat}:{(writeFen r.2).replace " " "_"}")⟩
  | "matekeeph" =>
    -- matekeeph <d> <nrec> <recorded fens with _>* <fen...> (spec only): the first moves that keep a forced mate in d
    -- plies along lines that never enter a recorded position (recorded positions are draws for the search: C17);
    -- positions are identified by placement, side, rights and en-passant square (what the hash reads)
    let d := parts[1]!.toNat!
    let nrec := parts[2]!.toNat!
    let keyOf (s : State) : String := " ".intercalate (((writeFen s).splitOn " ").take 4)
    let recs := ((parts.drop 3).take nrec).filterMap fun h => (parseFenM (h.replace "_" " ")).map keyOf
    match parseFenM (rest (3 + nrec)) with
    | Option.none => ⟨"-", "-"⟩
    | some s =>
      let isRec (q : State) : Bool := recs.contains (keyOf q)
      -- mutual recursion on the remaining plies, written with one fuel argument
      let rec li : Nat → State → Bool
        | 0, q => Outcome.isMated q
        | n+1, q =>
          let ms := legalMoves q
          if ms.isEmpty then q.isCheck
          else ms.all fun r => !isRec r.2 && (match n with
            | 0 => false
            | m+1 => (legalMoves r.2).any fun r' => !isRec r'.2 && li m r'.2)
      let keep := (legalMoves s).filter fun r => !isRec r.2 && li (d - 1) r.2
      ⟨"-", joinSp (keep.map fun r => s!"{r.1.toNat}")⟩
  | "matekinds" =>
    -- matekinds <fen...> (spec only): for every legal move that MATES: `<raw>:<number of checking pieces>:<king has a pseudo-legal move 0|1>`
    match parseFenM (rest 1), specOf (rest 1) with
    | some s, some _ =>
      let outs := (legalMoves s).filterMap fun r =>
        if (legalMoves r.2).isEmpty && r.2.isCheck then
          let p := Wee.abs r.2
          let them := p.turn.opp
          let ks := p.kingSquares p.turn
          let checkers := (List.range 64).filter fun q =>
            match p.at q with
            | some (c, k) => c == them && ks.any fun t => (Spec.attacksFrom p.occupied c k q).contains t
            | none => false
          let kingPseudo : Bool := match pseudoLegalMoves r.2 with
            | some ps => ps.any fun m => Move.piece m == Piece.king
            | Option.none => false
          let kp : String := cond kingPseudo "1" "0"
          some s!"{r.1.toNat}:{checkers.length}:{kp}"
        else Option.none
      ⟨"-", joinSp outs⟩
    | _, _ => ⟨"-", "-"⟩
  | "matecheck" =>
    -- matecheck <eval> <first raw> <fen...> (spec only): a winning terminal evaluation claims a forced
    -- mate; the ply bonus of the score bounds the distance when it is below 10 plies
    let ev := parseInt parts[1]!
    let first := parts[2]!.toNat!.toUInt32
    match parseFenM (rest 3) with
    | Option.none => ⟨"-", "-"⟩
    | some s =>
      if ev < 10000 then ⟨"-", "noclaim"⟩ else
      let ply : Nat := if ev > 10000 then (10 - ((ev - 10000) / 100)).toNat else 11
      if ply > 7 then ⟨"-", "claim-too-deep-for-oracle"⟩ else
      -- the mate is delivered at ply `ply` (1-based count of half-moves from the root)
      let n := if ply % 2 == 1 then ply else ply + 1
      -- C06 claims a forced mate and a first move that keeps it, not a distance: the ply encoded in a score can be
      -- stale (a table entry re-used at another ply keeps its score: `C06Complete`, finding of session 3), so the
      -- solver also accepts a mate up to four plies longer than the score says
      match [n, n + 2, n + 4].find? fun k => Outcome.forcedMate k s with
      | Option.none => ⟨"-", s!"false-claim:no-forced-mate-within-{n + 4}"⟩
      | some k =>
        match (legalMoves s).find? fun r => r.1 == first with
        | Option.none => ⟨"-", "first-move-illegal"⟩
        | some r => ⟨"-", if [k - 1, k + 1, k + 3].any fun j => Outcome.lostIn j r.2 then "sound" else "first-move-loses-the-mate"⟩
  | "legalpos" =>
    -- legalpos <fen...> : is the position a legal chess position (`Spec.LegalPos`)?  spec only
    match specOf (rest 1) with
    | none => ⟨"-", "badfen"⟩
    | some p => ⟨"-", if Spec.LegalPos p then "1" else "0"⟩
  | "uci" =>
    -- uci <hex line> <searching 0|1> <artifact 0|1> <book 0|1>[:<running search ok 0|1>:<a new search ok 0|1>] <fen...> :
    -- one step of the command loop
    match fromHex parts[1]!, parseFenM (rest 5) with
    | some line, some st =>
      let flags := parts[4]!.splitOn ":"
      let runOk := flags[1]?.getD "1" == "1"
      let newOk := flags[2]?.getD "1" == "1"
      let sess : Uci.Sess := { pos := st, searching := parts[2]! == "1", artifact := parts[3]! == "1", searchOk := runOk }
      match Uci.step (fun _ => flags[0]! == "1") sess line (fun _ => newOk) with
      | Option.none => ⟨"panic", "-"⟩
      | some (s', outs, quit) =>
        let enc (o : Uci.Out) : String := match o with
          | .line t => "line:" ++ toHex t
          | .joinRunning => "join"
          | .bookMove => "book"
          | .searchStarted d t a => s!"search:{match d with | some n => toString n | Option.none => "-"}:{match t with | some n => toString n | Option.none => "-"}:{if a then 1 else 0}"
          | .stderrState => "state"
          | .stderrStatus => "status"
        let b (x : Bool) : String := if x then "1" else "0"
        ⟨s!"{b s'.searching} {b s'.artifact} {b quit} {(writeFen s'.pos).replace " " "_"} " ++ joinSp (outs.map enc), "-"⟩
    | _, _ => ⟨"badrequest", "-"⟩
  | "linecheck" =>
    -- linecheck <raw,raw,...> <fen...>  (spec only): is the line legal move by move?
    let raws := (parts[1]!.splitOn ",").filterMap String.toNat?
    let fen := rest 2
    match specOf fen with
    | none => ⟨"-", "-"⟩
    | some p0 =>
      let rec go : List Nat → Spec.Pos → Nat → String
        | [], _, _ => "legal"
        | r :: rs, p, i =>
          match toSpecMove r.toUInt32 with
          | Option.none => s!"illegal@{i}"
          | some sm => if (Spec.legalMoves p).contains sm then go rs (Spec.applyMove p sm) (i+1) else s!"illegal@{i}"
      ⟨"-", if raws.isEmpty then "empty" else go raws p0 0⟩
  | "rng" =>
    let r := Rng.seedFromU64 parts[1]!.toNat!.toUInt64
    let n := parts[2]!.toNat!
    let m := parts[3]!.toNat!
    let (outs, r) := (List.range n).foldl (fun (st : List String × Rng.ChaCha8) _ =>
      let (v, r') := Rng.nextU64 st.2; (toString v.toNat :: st.1, r')) ([], r)
    let (outs, r) := (List.range m).foldl (fun (st : List String × Rng.ChaCha8) _ =>
      let (v, r') := Rng.genRangeI32 (-10) 10 st.2; (toString v :: st.1, r')) (outs, r)
    let (g, _) := Rng.nextU64 r
    ⟨joinSp ((toString g.toNat :: outs).reverse), "-"⟩
  | _ => ⟨"unknown-request", "-"⟩

end Driver
