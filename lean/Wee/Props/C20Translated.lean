import Wee.Proofs.MoveFnsBridge
import Wee.Props.C20
/-!
# C20 for the TRANSLATED functions — move values faithfully carry their attributes

`Wee/Props/C20.lean` states C20 about the hand-written model `Wee/Model/Move.lean`, which is tied to the Rust code
by differential runs.  Here the same statements are made about the definitions that `tools/rs2lean.py`
**regenerates from the Rust source text on every run** (`Wee/Gen/MoveFns.lean`, namespace `Wee.GenFns`):
`mod compact` (`store`, `load`, `bit`, `set_bit`, the layout constants), `impl BitSetExt for BitSet`, `impl Move`
and the helpers these call (`PieceIndex::new/piece/color`, `Square::rank`, `Rank::abs_distance_to`, …).
They are corollaries of `C20_*` through the bridge `Wee/Proofs/MoveFnsBridge.lean` (generated = model on all inputs).

Reading the statements:
* Rust `Square(u8)` and `PieceIndex(u8)` are their `u8`; `o d : GenFns.Square` range over all 256 values and the
  theorems assume `o < 64`, `d < 64` (the invariant of `Square`); the moving piece is `PieceIndex::new(c, p)`.
* A translated function that can panic (an `unwrap`, a `debug_assert!`, `i8`/`u8` arithmetic overflow) has type
  `Panics T = Option T`, `none` = panic.  Every conclusion `… = some v` therefore ALSO says that the Rust function
  does not panic on these arguments (debug profile; the release profile then computes the same value).
* `attrsT m` reads every translated getter of the word `m`
  (`Move::color`, `piece`, `origin`, `destination`, `capture`, `promotion`, `is_en_passant`, `is_double_pawn`,
  `BitSetExt::castle_queenside`, `castle_kingside`); it panics if one of them panics.
* `GenFns.mkT` is the general constructor (`by_moving` then the five setters) over the translated functions.

What is trusted here (and only here): the semantics `rs2lean.py` gives to the Rust subset and its table of primitive
mappings (`Piece::try_from_primitive ↦ Piece.ofCode?`, …), listed at the top of the tool and in
`tools/rs2lean.NOTES.md`.
-/
namespace Wee
open Gen

/-- all getters of a packed move, through the TRANSLATED accessors; `none` = one of them panics -/
def attrsT (m : GenFns.Move) : GenFns.Panics Move.Attrs := do
  let p ← GenFns.Move.piece m
  let o ← GenFns.Move.origin m
  let d ← GenFns.Move.destination m
  let cap ← GenFns.Move.capture m
  let pr ← GenFns.Move.promotion m
  pure { color := GenFns.Move.color m, piece := some p, origin := o.toNat, dest := d.toNat, capture := cap,
         promotion := pr, enPassant := GenFns.Move.is_en_passant m, doublePawn := GenFns.Move.is_double_pawn m,
         castleQ := GenFns.BitSetExt.castle_queenside m, castleK := GenFns.BitSetExt.castle_kingside m }

/-! ## The translated getters agree with the model's on every word -/

/-- Whenever the translated getters all return (no panic), they return what the model's getters return — for
every one of the 2^32 raw words, not only constructed moves. -/
theorem C20T_attrs_sound (m : UInt32) (a : Move.Attrs) (h : attrsT m = some a) : Move.attrs m = a := by
  unfold attrsT at h
  rw [GenFns.Move.piece_eq, GenFns.Move.origin_eq, GenFns.Move.destination_eq] at h
  cases hp : Move.piece? m with
  | none => rw [hp] at h; exact absurd h (by simp)
  | some p =>
    cases hc : GenFns.Move.capture m with
    | none => rw [hp, hc] at h; exact absurd h (by simp)
    | some cap =>
      cases hr : GenFns.Move.promotion m with
      | none => rw [hp, hc, hr] at h; exact absurd h (by simp)
      | some pr =>
        rw [hp, hc, hr] at h
        simp only [bind, Option.bind, pure, Option.some.injEq] at h
        rw [← h]
        have ho := GenFns.nat_toUInt8_toNat _ (by have := GenFns.model_origin_lt m; omega : Move.origin m < 256)
        have hd := GenFns.nat_toUInt8_toNat _ (by have := GenFns.model_dest_lt m; omega : Move.dest m < 256)
        simp only [Move.attrs, hp, ho, hd, GenFns.Move.capture_some m cap hc, GenFns.Move.promotion_some m pr hr,
          GenFns.Move.color_eq, GenFns.Move.is_en_passant_eq, GenFns.Move.is_double_pawn_eq,
          GenFns.BitSetExt.castle_queenside_eq, GenFns.BitSetExt.castle_kingside_eq]

/-- The translated getters panic on exactly the words whose piece, capture or promotion field holds a code 7‥15
(no `Piece` has that discriminant); on all other words they return the model's attributes. -/
theorem C20T_attrs_complete (m : UInt32) (hp : Move.pieceCode m ≤ 6) (hc : Move.captureCode m ≤ 6)
    (hr : Move.promotionCode m ≤ 6) : attrsT m = some (Move.attrs m) := by
  have h1 : (GenFns.Move.piece m).isSome := by
    rw [GenFns.Move.piece_eq]; unfold Move.piece?; rw [GenFns.ofCode_isSome_iff]; exact decide_eq_true hp
  have h2 : (GenFns.Move.capture m).isSome := by rw [GenFns.Move.capture_isSome]; exact decide_eq_true hc
  have h3 : (GenFns.Move.promotion m).isSome := by rw [GenFns.Move.promotion_isSome]; exact decide_eq_true hr
  obtain ⟨p, hp'⟩ := Option.isSome_iff_exists.1 h1
  obtain ⟨cap, hc'⟩ := Option.isSome_iff_exists.1 h2
  obtain ⟨pr, hr'⟩ := Option.isSome_iff_exists.1 h3
  have hs : attrsT m = some
      { color := GenFns.Move.color m, piece := some p, origin := (Move.origin m).toUInt8.toNat,
        dest := (Move.dest m).toUInt8.toNat, capture := cap, promotion := pr,
        enPassant := GenFns.Move.is_en_passant m, doublePawn := GenFns.Move.is_double_pawn m,
        castleQ := GenFns.BitSetExt.castle_queenside m, castleK := GenFns.BitSetExt.castle_kingside m } := by
    unfold attrsT
    rw [hp', GenFns.Move.origin_eq, GenFns.Move.destination_eq, hc', hr']
    rfl
  rw [hs, C20T_attrs_sound m _ hs]

/-- **Finding (model ≠ code on raw words that no constructor produces).**  On a word whose capture field holds 7
(`raw = 7 << 16`), Rust `Move::is_capture` — `self.capture().is_some()` — panics in
`Piece::try_from_primitive(7).unwrap()`, while the hand model's `Move.isCapture` (`captureCode != 0`) answers
`true`.  Such words arise only from `Move::from_raw` (verification hook) or from deserialising foreign CBOR; every
constructed move has codes ≤ 6 (`C20_get_mk`).  Replay on the real code: `Move::from_raw(458752).is_capture()`. -/
theorem C20T_raw_word_divergence :
    GenFns.Move.is_capture (458752 : UInt32) = Option.none ∧ Move.isCapture (458752 : UInt32) = true ∧
    GenFns.Move.capture (458752 : UInt32) = Option.none ∧ Move.capture (458752 : UInt32) = Option.none := by
  decide

/-! ## C20T_get — every translated getter returns the constructed attribute -/

private theorem lt64 {o : UInt8} (h : o < 64) : o.toNat < 64 := UInt8.lt_iff_toNat_lt.1 h

private theorem attrsT_mk (c : Color) (p : Piece) (o d : Nat) (cap pr : Option Piece) (ep cq ck : Bool)
    (ho : o < 64) (hd : d < 64) (hc : cap ≠ some Piece.none) (hr : pr ≠ some Piece.none) :
    attrsT (Move.mk c p o d cap pr ep cq ck) =
      some { color := c, piece := some p, origin := o, dest := d, capture := cap, promotion := pr,
             enPassant := ep, doublePawn := Move.dbl p o d, castleQ := cq, castleK := ck } := by
  rw [C20T_attrs_complete _
      (by rw [Move.pieceCode_mk c p o d cap pr ep cq ck ho hd]; exact Move.code_le p)
      (by rw [Move.captureCode_mk c p o d cap pr ep cq ck ho hd]; exact Move.optCode_le cap)
      (by rw [Move.promotionCode_mk c p o d cap pr ep cq ck ho hd]; exact Move.optCode_le pr),
    C20_get_mk c p o d cap pr ep cq ck ho hd hc hr]

/-- **General constructor, translated code.**  For every colour, every kind (incl. `Piece::None`), all squares
`< 64`, every optional capture / promotion kind other than `Some(Piece::None)` and all flag values: building the move
with the translated `by_moving` + setters does not panic, and every translated getter of the result returns, without
panic, exactly the constructed attribute (`is_double_pawn` = `piece == Pawn ∧ |rank o − rank d| > 1`). -/
theorem C20T_get_mk (c : Color) (p : Piece) (o d : GenFns.Square) (cap pr : Option Piece) (ep cq ck : Bool)
    (ho : o < 64) (hd : d < 64) (hc : cap ≠ some Piece.none) (hr : pr ≠ some Piece.none) :
    (GenFns.mkT c p o d cap pr ep cq ck).bind attrsT =
      some { color := c, piece := some p, origin := o.toNat, dest := d.toNat, capture := cap, promotion := pr,
             enPassant := ep, doublePawn := Move.dbl p o.toNat d.toNat, castleQ := cq, castleK := ck } := by
  rw [GenFns.mkT_eq c p o d cap pr ep cq ck (lt64 ho) (lt64 hd), Option.bind_some,
    attrsT_mk c p _ _ cap pr ep cq ck (lt64 ho) (lt64 hd) hc hr]

example : ((12 : UInt8) < 64 ∧ (28 : UInt8) < 64) ∧ (some Piece.rook ≠ some Piece.none) := by decide
/-- a concrete instance evaluated by the kernel: white pawn e2–e4 taking nothing, double step detected -/
example : (GenFns.mkT .white .pawn 12 28 Option.none Option.none false false false).bind attrsT =
    some { color := .white, piece := some .pawn, origin := 12, dest := 28, capture := Option.none,
           promotion := Option.none, enPassant := false, doublePawn := true, castleQ := false, castleK := false } := by
  decide

/-- The derived translated getters on a constructed move: `Move::is_capture`, `is_promotion`, `castle_side`,
`is_castle`, `is_any_castle`, `resulting_piece`, `is_simple_non_capture` — none panics, values as constructed. -/
theorem C20T_get_mk_derived (c : Color) (p : Piece) (o d : GenFns.Square) (cap pr : Option Piece) (ep cq ck : Bool)
    (ho : o < 64) (hd : d < 64) (hc : cap ≠ some Piece.none) (hr : pr ≠ some Piece.none) :
    ∃ m, GenFns.mkT c p o d cap pr ep cq ck = some m ∧
      GenFns.Move.is_capture m = some cap.isSome ∧ GenFns.Move.is_promotion m = some pr.isSome ∧
      GenFns.Move.castle_side m = (if cq then some Side.queen else if ck then some Side.king else Option.none) ∧
      GenFns.Move.is_any_castle m = (cq || ck) ∧
      GenFns.Move.resulting_piece m = some (pr.getD p) ∧
      GenFns.Move.is_simple_non_capture m =
        some (!cap.isSome && !pr.isSome && !ep && !(cq || ck) && !Move.dbl p o.toNat d.toNat) := by
  refine ⟨_, GenFns.mkT_eq c p o d cap pr ep cq ck (lt64 ho) (lt64 hd), ?_⟩
  have hd' := C20_get_mk_derived c p o.toNat d.toNat cap pr ep cq ck (lt64 ho) (lt64 hd) hc hr
  have ha := C20_get_mk c p o.toNat d.toNat cap pr ep cq ck (lt64 ho) (lt64 hd) hc hr
  have hcc : Move.captureCode (Move.mk c p o.toNat d.toNat cap pr ep cq ck) ≤ 6 := by
    rw [Move.captureCode_mk c p _ _ cap pr ep cq ck (lt64 ho) (lt64 hd)]; exact Move.optCode_le cap
  have hpc : Move.promotionCode (Move.mk c p o.toNat d.toNat cap pr ep cq ck) ≤ 6 := by
    rw [Move.promotionCode_mk c p _ _ cap pr ep cq ck (lt64 ho) (lt64 hd)]; exact Move.optCode_le pr
  generalize Move.mk c p o.toNat d.toNat cap pr ep cq ck = m at hd' ha hcc hpc
  obtain ⟨_, h2, h3, h4⟩ := hd'
  have hpiece : Move.piece? m = some p := congrArg Move.Attrs.piece ha
  have hprom : GenFns.Move.promotion m = some pr := by
    have := GenFns.Move.promotion_isSome m
    rw [decide_eq_true hpc] at this
    obtain ⟨r, hr'⟩ := Option.isSome_iff_exists.1 this
    have h5 := GenFns.Move.promotion_some m r hr'
    have h6 : Move.promotion m = pr := congrArg Move.Attrs.promotion ha
    rw [hr', ← h5, h6]
  have hep : Move.isEnPassant m = ep := congrArg Move.Attrs.enPassant ha
  have hdb : Move.isDoublePawn m = Move.dbl p o.toNat d.toNat := congrArg Move.Attrs.doublePawn ha
  have hany : Move.isAnyCastle m = (cq || ck) := by
    unfold Move.isAnyCastle Move.isCastle
    rw [h4]; cases cq <;> cases ck <;> rfl
  refine ⟨?_, ?_, ?_, ?_, ?_, ?_⟩
  · rw [GenFns.Move.is_capture_eq, if_pos hcc, h2]
  · rw [GenFns.Move.is_promotion_eq, if_pos hpc, h3]
  · rw [GenFns.Move.castle_side_eq, h4]
  · rw [GenFns.Move.is_any_castle_eq, hany]
  · rw [GenFns.Move.resulting_piece_eq, hprom, hpiece]; rfl
  · rw [GenFns.Move.is_simple_non_capture_eq m hcc hpc, h2, h3, hep, hany, hdb]

/-- translated `Move::by_moving`: colour, piece, origin, destination come back; no capture, promotion, en-passant,
castling; double-step derived -/
theorem C20T_get_by_moving (c : Color) (p : Piece) (o d : GenFns.Square) (ho : o < 64) (hd : d < 64) :
    (GenFns.Move.by_moving (GenFns.PieceIndex.new c p) o d).bind attrsT =
      some { color := c, piece := some p, origin := o.toNat, dest := d.toNat, capture := Option.none,
             promotion := Option.none, enPassant := false, doublePawn := Move.dbl p o.toNat d.toNat,
             castleQ := false, castleK := false } := by
  rw [GenFns.Move.by_moving_eq c p o d (lt64 ho) (lt64 hd), Option.bind_some,
    Move.byMoving_eq_mk c p _ _ (lt64 ho) (lt64 hd)]
  exact attrsT_mk c p _ _ _ _ _ _ _ (lt64 ho) (lt64 hd) (by decide) (by decide)

/-- translated `Move::by_capturing` with a real captured kind -/
theorem C20T_get_by_capturing (c : Color) (p : Piece) (o d : GenFns.Square) (q : Piece)
    (ho : o < 64) (hd : d < 64) (hq : q ≠ Piece.none) :
    (GenFns.Move.by_capturing (GenFns.PieceIndex.new c p) o d q).bind attrsT =
      some { color := c, piece := some p, origin := o.toNat, dest := d.toNat, capture := some q,
             promotion := Option.none, enPassant := false, doublePawn := Move.dbl p o.toNat d.toNat,
             castleQ := false, castleK := false } := by
  rw [GenFns.Move.by_capturing_eq c p o d q (lt64 ho) (lt64 hd), Option.bind_some,
    Move.byCapturing_eq_mk c p _ _ (lt64 ho) (lt64 hd)]
  exact attrsT_mk c p _ _ _ _ _ _ _ (lt64 ho) (lt64 hd) (fun h => hq (Option.some.inj h)) (by decide)

/-- translated `Move::by_promoting` with a real promotion kind -/
theorem C20T_get_by_promoting (c : Color) (p : Piece) (o d : GenFns.Square) (r : Piece)
    (ho : o < 64) (hd : d < 64) (hr : r ≠ Piece.none) :
    (GenFns.Move.by_promoting (GenFns.PieceIndex.new c p) o d r).bind attrsT =
      some { color := c, piece := some p, origin := o.toNat, dest := d.toNat, capture := Option.none,
             promotion := some r, enPassant := false, doublePawn := Move.dbl p o.toNat d.toNat,
             castleQ := false, castleK := false } := by
  rw [GenFns.Move.by_promoting_eq c p o d r (lt64 ho) (lt64 hd), Option.bind_some,
    Move.byPromoting_eq_mk c p _ _ (lt64 ho) (lt64 hd)]
  exact attrsT_mk c p _ _ _ _ _ _ _ (lt64 ho) (lt64 hd) (by decide) (fun h => hr (Option.some.inj h))

/-- translated `Move::by_capture_promoting`: capture and promotion both come back, for every origin/destination -/
theorem C20T_get_by_capture_promoting (c : Color) (p : Piece) (o d : GenFns.Square) (q r : Piece)
    (ho : o < 64) (hd : d < 64) (hq : q ≠ Piece.none) (hr : r ≠ Piece.none) :
    (GenFns.Move.by_capture_promoting (GenFns.PieceIndex.new c p) o d q r).bind attrsT =
      some { color := c, piece := some p, origin := o.toNat, dest := d.toNat, capture := some q,
             promotion := some r, enPassant := false, doublePawn := Move.dbl p o.toNat d.toNat,
             castleQ := false, castleK := false } := by
  rw [GenFns.Move.by_capture_promoting_eq c p o d q r (lt64 ho) (lt64 hd), Option.bind_some,
    Move.byCapturePromoting_eq_mk c p _ _ (lt64 ho) (lt64 hd)]
  exact attrsT_mk c p _ _ _ _ _ _ _ (lt64 ho) (lt64 hd) (fun h => hq (Option.some.inj h))
    (fun h => hr (Option.some.inj h))

/-- the corner case of the property text evaluated on the translated code: destination 63 with capture and promotion
both set; and the packed value observed from the real code (`273868545`) -/
example : (GenFns.Move.by_capture_promoting (GenFns.PieceIndex.new .white .pawn) 54 63 .rook .queen).bind attrsT =
    some { color := .white, piece := some .pawn, origin := 54, dest := 63, capture := some .rook,
           promotion := some .queen, enPassant := false, doublePawn := false, castleQ := false,
           castleK := false } :=
  C20T_get_by_capture_promoting .white .pawn 54 63 .rook .queen (by decide) (by decide) (by decide) (by decide)
example : GenFns.Move.by_capture_promoting (GenFns.PieceIndex.new .white .pawn) 48 57 .knight .queen =
    some (273868545 : UInt32) := by decide

/-- translated `Move::by_en_passant`: reports `capture = Some(Pawn)` and the en-passant flag -/
theorem C20T_get_by_en_passant (c : Color) (p : Piece) (o d : GenFns.Square) (ho : o < 64) (hd : d < 64) :
    (GenFns.Move.by_en_passant (GenFns.PieceIndex.new c p) o d).bind attrsT =
      some { color := c, piece := some p, origin := o.toNat, dest := d.toNat, capture := some Piece.pawn,
             promotion := Option.none, enPassant := true, doublePawn := Move.dbl p o.toNat d.toNat,
             castleQ := false, castleK := false } := by
  rw [GenFns.Move.by_en_passant_eq c p o d (lt64 ho) (lt64 hd), Option.bind_some,
    Move.byEnPassant_eq_mk c p _ _ (lt64 ho) (lt64 hd)]
  exact attrsT_mk c p _ _ _ _ _ _ _ (lt64 ho) (lt64 hd) (by decide) (by decide)

/-- translated `Move::by_castling`, all four (colour, side) pairs: the king from `KING_ORIGINS[colour]` to
`CASTLE_DESTS[colour][side]`, exactly the flag of its side, `castle_side() = Some(side)`; no panic. -/
theorem C20T_get_by_castling (c : Color) (s : Side) :
    (GenFns.Move.by_castling c s).bind attrsT =
      some { color := c, piece := some Piece.king, origin := kingOrigins[c.idx]!,
             dest := castleDests[c.idx]![s.idx]!, capture := Option.none, promotion := Option.none,
             enPassant := false, doublePawn := false, castleQ := (s == Side.queen),
             castleK := (s == Side.king) } ∧
    (GenFns.Move.by_castling c s).map GenFns.Move.castle_side = some (some s) ∧
    (GenFns.Move.by_castling c s).map GenFns.Move.is_any_castle = some true := by
  cases c <;> cases s <;> decide

/-- `by_capturing(.., Piece::None)` / `by_promoting(.., Piece::None)` in the translated code are bit-for-bit
`by_moving(..)` (0 is the encoding of "absent"), for ALL `u8` arguments (also invalid squares / piece indices:
then both sides panic alike). -/
theorem C20T_none_capture (pi : GenFns.PieceIndex) (o d : GenFns.Square) :
    GenFns.Move.by_capturing pi o d Piece.none = GenFns.Move.by_moving pi o d := by
  simp only [GenFns.Move.by_capturing, GenFns.set_capture_eq, Move.optCode, Move.store_zero,
    show Piece.none.code = 0 from rfl]
  cases GenFns.Move.by_moving pi o d <;> rfl

theorem C20T_none_promotion (pi : GenFns.PieceIndex) (o d : GenFns.Square) :
    GenFns.Move.by_promoting pi o d Piece.none = GenFns.Move.by_moving pi o d := by
  simp only [GenFns.Move.by_promoting, GenFns.set_promotion_eq, Move.optCode, Move.store_zero,
    show Piece.none.code = 0 from rfl]
  cases GenFns.Move.by_moving pi o d <;> rfl

/-! ## C20T_inj — equality of the packed words is equality of all attributes -/

/-- Two moves built by the translated general constructor are equal (as `Panics u32`; both are `some`) **iff**
colour, piece, origin, destination, capture, promotion and the three free flags are all equal.
`#[derive(PartialEq, Eq, Hash)]` on `struct Move(u32)` compares exactly this word (the derive line is checked
textually by `rs2lean.py`). -/
theorem C20T_inj (c c' : Color) (p p' : Piece) (o d o' d' : GenFns.Square) (cap pr cap' pr' : Option Piece)
    (ep cq ck ep' cq' ck' : Bool)
    (ho : o < 64) (hd : d < 64) (ho' : o' < 64) (hd' : d' < 64)
    (hc : cap ≠ some Piece.none) (hr : pr ≠ some Piece.none)
    (hc' : cap' ≠ some Piece.none) (hr' : pr' ≠ some Piece.none) :
    GenFns.mkT c p o d cap pr ep cq ck = GenFns.mkT c' p' o' d' cap' pr' ep' cq' ck' ↔
      (c = c' ∧ p = p' ∧ o = o' ∧ d = d' ∧ cap = cap' ∧ pr = pr' ∧ ep = ep' ∧ cq = cq' ∧ ck = ck') := by
  rw [GenFns.mkT_eq c p o d cap pr ep cq ck (lt64 ho) (lt64 hd),
    GenFns.mkT_eq c' p' o' d' cap' pr' ep' cq' ck' (lt64 ho') (lt64 hd'), Option.some.injEq,
    C20_inj c c' p p' _ _ _ _ cap pr cap' pr' ep cq ck ep' cq' ck' (lt64 ho) (lt64 hd) (lt64 ho') (lt64 hd')
      hc hr hc' hr', UInt8.toNat_inj, UInt8.toNat_inj]

/-- non-vacuity: different attribute tuples give different words in the translated code -/
example : GenFns.mkT .white .pawn 48 57 (some .knight) (some .queen) false false false ≠
    GenFns.mkT .white .pawn 48 57 (some .knight) (some .rook) false false false := by decide

/-- every move built by the translated constructors fits the low 29 bits -/
theorem C20T_mk_lt (c : Color) (p : Piece) (o d : GenFns.Square) (cap pr : Option Piece) (ep cq ck : Bool)
    (ho : o < 64) (hd : d < 64) :
    ∃ m, GenFns.mkT c p o d cap pr ep cq ck = some m ∧ (GenFns.Move.as_raw m).toNat < 2 ^ 29 :=
  ⟨_, GenFns.mkT_eq c p o d cap pr ep cq ck (lt64 ho) (lt64 hd),
    C20_mk_lt c p o.toNat d.toNat cap pr ep cq ck (lt64 ho) (lt64 hd)⟩

/-! ## C20T_fields — the layout constants as TRANSLATED (typed `u8` offsets, `u32` masks) -/

/-- the ten field masks over the translated constants -/
def C20T_fieldMasks : List Nat :=
  [GenFns.compact.PIECE_MASK.toNat, GenFns.compact.ORIGIN_MASK.toNat, GenFns.compact.DEST_MASK.toNat,
   GenFns.compact.CAPTURE_MASK.toNat, GenFns.compact.PROMOTION_MASK.toNat,
   2 ^ GenFns.compact.EN_PASSANT_OFFSET.toNat, 2 ^ GenFns.compact.DOUBLE_PAWN_OFFSET.toNat,
   2 ^ GenFns.compact.CASTLE_QUEENSIDE_OFFSET.toNat, 2 ^ GenFns.compact.CASTLE_KINGSIDE_OFFSET.toNat,
   2 ^ GenFns.compact.COLOR_OFFSET.toNat]

/-- The translated constants (each `const` of `mod compact`, with the Rust initialiser expression
`0b111111 << ORIGIN_OFFSET` etc. translated, not pre-evaluated) are the constants `extract.py` evaluates. -/
theorem C20T_fieldMasks_eq : C20T_fieldMasks = C20_fieldMasks := by
  simp only [C20T_fieldMasks, C20_fieldMasks, GenFns.PIECE_MASK_eq, GenFns.ORIGIN_MASK_eq, GenFns.DEST_MASK_eq,
    GenFns.CAPTURE_MASK_eq, GenFns.PROMOTION_MASK_eq, GenFns.EN_PASSANT_OFFSET_eq, GenFns.DOUBLE_PAWN_OFFSET_eq,
    GenFns.CASTLE_QUEENSIDE_OFFSET_eq, GenFns.CASTLE_KINGSIDE_OFFSET_eq, GenFns.COLOR_OFFSET_eq]

/-- The ten fields of the packed move, over the translated constants: pairwise disjoint, inside the low 29 bits,
tiling bits 0‥28 exactly; each multi-bit mask a contiguous block at its own offset, wide enough for its values;
every shift amount used by `store`/`load`/`bit`/`set_bit` call sites is `< 32` (so that debug and release profile
agree — also checked by the translator). -/
theorem C20T_fields :
    C20T_fieldMasks.Pairwise (fun a b => a &&& b = 0) ∧
    (∀ m ∈ C20T_fieldMasks, m < 2 ^ 29) ∧
    C20T_fieldMasks.foldl (· ||| ·) 0 = 2 ^ 29 - 1 ∧
    GenFns.compact.PIECE_MASK.toNat = (2 ^ 4 - 1) <<< GenFns.compact.PIECE_OFFSET.toNat ∧
    GenFns.compact.ORIGIN_MASK.toNat = (2 ^ 6 - 1) <<< GenFns.compact.ORIGIN_OFFSET.toNat ∧
    GenFns.compact.DEST_MASK.toNat = (2 ^ 6 - 1) <<< GenFns.compact.DEST_OFFSET.toNat ∧
    GenFns.compact.CAPTURE_MASK.toNat = (2 ^ 4 - 1) <<< GenFns.compact.CAPTURE_OFFSET.toNat ∧
    GenFns.compact.PROMOTION_MASK.toNat = (2 ^ 4 - 1) <<< GenFns.compact.PROMOTION_OFFSET.toNat ∧
    (∀ p : Piece, (GenFns.Piece.into_u8 p).toNat < 2 ^ 4) ∧
    ([GenFns.compact.PIECE_OFFSET, GenFns.compact.ORIGIN_OFFSET, GenFns.compact.DEST_OFFSET,
      GenFns.compact.CAPTURE_OFFSET, GenFns.compact.PROMOTION_OFFSET, GenFns.compact.EN_PASSANT_OFFSET,
      GenFns.compact.DOUBLE_PAWN_OFFSET, GenFns.compact.CASTLE_QUEENSIDE_OFFSET,
      GenFns.compact.CASTLE_KINGSIDE_OFFSET, GenFns.compact.COLOR_OFFSET].all (· < 32)) = true := by
  have h := C20_fields
  rw [C20T_fieldMasks_eq, GenFns.PIECE_MASK_eq, GenFns.ORIGIN_MASK_eq, GenFns.DEST_MASK_eq, GenFns.CAPTURE_MASK_eq,
    GenFns.PROMOTION_MASK_eq, GenFns.PIECE_OFFSET_eq, GenFns.ORIGIN_OFFSET_eq, GenFns.DEST_OFFSET_eq,
    GenFns.CAPTURE_OFFSET_eq, GenFns.PROMOTION_OFFSET_eq]
  obtain ⟨h1, h2, h3, h4, h5, h6, h7, h8, h9, _⟩ := h
  refine ⟨h1, h2, h3, h4, h5, h6, h7, h8, ?_, by decide⟩
  intro p; rw [GenFns.into_u8_toNat]; exact h9 p

end Wee
