import Wee.Proofs.StopLemmas
import Wee.Props.Interleave
/-!
# C04 — Stop after the repair of F11: the flag is read between iterations

Rust: `weechess-engine/src/searcher.rs`, `Searcher::analyze_iterative`, the first statement of the loop body
`if depth > 0 && token.is_cancelled() { break; }` (repair of defect F11).  Model: `Wee/Model/Search.lean`
(`boundaryPoll`, `iterLoop`), `Wee/Model/SearchEnv.lean` (`LoopS.stopped`).  Helper lemmas:
`Wee/Proofs/BoundaryPoll.lean`, `Wee/Proofs/StopLemmas.lean`.

**F11.**  Before the repair the workers were the only readers of the cancellation flag, and only when their own
per-iteration node counter hit a multiple of 10000.  A root all of whose iterations stay below 10000 nodes (its only
legal move leads to a recorded position: every iteration is 2–3 nodes) never read the flag, and without a depth limit
(`for depth in 0..usize::MAX`) the search never ended after Stop.  The model hid this because `maxDepth = none` is
modelled by `fuelDepth` iterations.  Confirmed on the real code (`stopseq … 8/8/8/8/8/8/8/K1k5 w`: not joined 20 s
after Stop; after the repair: joined).

What is proved here (all about the model, which reproduces the repaired engine's event sequences exactly: 486
single-worker searches with Stop at poll 0…6, depth limits 1…5 and none, `/root/f11/corr.py`):

* (a) `C04_unlimited_stop_independent_of_fuel`: with `cancelAt = some k` and no depth limit the result of `iterate` is the
  same for every fuel `≥ k + 2` — every iteration boundary is a poll, so the boundary read of iteration `k + 1` is poll
  number `≥ k` and ends the loop.  This is what justifies modelling `usize::MAX` iterations by fuel: once a Stop is
  visible at some poll index the unbounded loop of the real code ends after at most `k + 1` iterations.
  `C04_stop_makes_depth_limit_irrelevant`: any depth limit `≥ k + 2` gives the same outcome as none.
  `C04_unlimited_stop_outcome_fuel`: what `iterate` hands out (events, artifact, panic) is already reached with fuel
  `k + 1`.
* (b) `C04_stop_ends_within_one_iteration`: if the flag is visible (`k ≤ polls`) at an iteration boundary with
  `depth > 0`, the loop ends there: no worker is started, no node searched, no event emitted, the table untouched.
  `C04_stop_total_bound`: the TOTAL bound.  The nodes are counted by a ghost function (`loopWork`, `workersWork`: the
  sum of all workers' own counters, the interrupted worker's included — `IterSt.nodes` only adds completed iterations;
  the two agree on completed iterations: `C04_work_is_counted_nodes`).  If Stop is visible when worker `j` of iteration
  `depth` starts (`k ≤ polls` after the workers before it), then ALL nodes counted from there to the end of the search —
  the remaining workers of this iteration and every later iteration — are at most
  `(number of workers of this iteration still to run) × 10000`; for the worker that is running when Stop becomes
  visible `C04_stop_bound` (Props/C04) gives fewer than 10000 further nodes.  So after Stop the search counts fewer than
  `workers(depth) × 10000` nodes in total, and 0 if Stop becomes visible between iterations.
  `C04_stop_total_bound_first`: Stop before the first iteration: at most `workersOf 0 × 10000`.
  `C04_stop_total_bound_any_schedule`: the same for racing workers (`StepS`/`joinOf` of the interleaving semantics).
* (c) the pre-repair witness: `iterLoopOld` (the loop BEFORE the repair) on the K-vs-K root runs all `n` iterations for
  every `n` under `cancelAt = some 0`, the repaired loop stops after the first (section 3).
-/
namespace Wee.SearchCtl
open Wee Wee.Search

/-! ## (a) the unbounded loop needs only finitely many iterations once Stop is visible -/

/-- **C04_unlimited_stop_independent_of_fuel.**  No depth limit, the flag answers "cancelled" from poll number `k` on
(`cancelAt = some k`): for every root, generator state, incoming artifact and worker counts the search is the same for
every fuel `≥ k + 2`.  (Polls are counted globally; every iteration but the first starts with one, so at the top of
iteration `d` at least `d - 1` polls have happened and the read at the top of iteration `k + 1` says "cancelled".) -/
theorem C04_unlimited_stop_independent_of_fuel (root : State) (rng0 : Rng.ChaCha8) (art : Artifact)
    (workersOf : Nat → Nat) (k fuel : Nat) (h : k + 2 ≤ fuel) :
    iterate root rng0 Option.none art workersOf (some k) fuel =
      iterate root rng0 Option.none art workersOf (some k) (k + 2) := by
  rw [iterate_eq, iterate_eq]
  have hfin : iterFinal root rng0 Option.none art workersOf (some k) fuel =
      iterFinal root rng0 Option.none art workersOf (some k) (k + 2) := by
    unfold iterFinal iterLimit
    split
    · rfl
    · exact iterLoop_fuel (iterCtx root art (some k)) k rfl root _ workersOf fuel (k + 2) 0 (iterInit rng0 art)
        (Nat.zero_le _) (Nat.zero_le _) (by omega) (by omega)
  rw [hfin]

/-- two fuels `≥ k + 2` give the same search -/
theorem C04_unlimited_stop_fuel_irrelevant (root : State) (rng0 : Rng.ChaCha8) (art : Artifact)
    (workersOf : Nat → Nat) (k f1 f2 : Nat) (h1 : k + 2 ≤ f1) (h2 : k + 2 ≤ f2) :
    iterate root rng0 Option.none art workersOf (some k) f1 = iterate root rng0 Option.none art workersOf (some k) f2 := by
  rw [C04_unlimited_stop_independent_of_fuel root rng0 art workersOf k f1 h1,
    C04_unlimited_stop_independent_of_fuel root rng0 art workersOf k f2 h2]

/-- **a visible Stop makes the depth limit irrelevant**: every depth limit `d ≥ k + 2` gives the search without depth
limit (the model's default fuel is 64: exact for every `k ≤ 62`) -/
theorem C04_stop_makes_depth_limit_irrelevant (root : State) (rng0 : Rng.ChaCha8) (art : Artifact)
    (workersOf : Nat → Nat) (k d fuel fuel' : Nat) (hd : k + 2 ≤ d) (hf : k + 2 ≤ fuel) :
    iterate root rng0 (some d) art workersOf (some k) fuel' = iterate root rng0 Option.none art workersOf (some k) fuel := by
  rw [C04_unlimited_stop_independent_of_fuel root rng0 art workersOf k fuel hf, iterate_eq, iterate_eq]
  have hfin : iterFinal root rng0 (some d) art workersOf (some k) fuel' =
      iterFinal root rng0 Option.none art workersOf (some k) (k + 2) := by
    unfold iterFinal iterLimit
    split
    · rfl
    · exact iterLoop_fuel (iterCtx root art (some k)) k rfl root _ workersOf d (k + 2) 0 (iterInit rng0 art)
        (Nat.zero_le _) (Nat.zero_le _) (by omega) (by omega)
  rw [hfin]

/-- what the search hands out is reached one iteration earlier: the last boundary read only counts a poll -/
theorem C04_unlimited_stop_outcome_fuel (root : State) (rng0 : Rng.ChaCha8) (art : Artifact)
    (workersOf : Nat → Nat) (k fuel : Nat) (h : k + 1 ≤ fuel) :
    iterate root rng0 Option.none art workersOf (some k) fuel =
      iterate root rng0 Option.none art workersOf (some k) (k + 1) := by
  rcases Nat.eq_or_lt_of_le h with h | h
  · rw [h]
  · rw [C04_unlimited_stop_independent_of_fuel root rng0 art workersOf k fuel (by omega), iterate_eq, iterate_eq]
    have key : (iterFinal root rng0 Option.none art workersOf (some k) (k + 1)).events =
          (iterFinal root rng0 Option.none art workersOf (some k) (k + 2)).events ∧
        (iterFinal root rng0 Option.none art workersOf (some k) (k + 1)).tt =
          (iterFinal root rng0 Option.none art workersOf (some k) (k + 2)).tt ∧
        (iterFinal root rng0 Option.none art workersOf (some k) (k + 1)).panic =
          (iterFinal root rng0 Option.none art workersOf (some k) (k + 2)).panic := by
      unfold iterFinal iterLimit
      split
      · exact ⟨rfl, rfl, rfl⟩
      · exact iterLoop_fuel_outcome (iterCtx root art (some k)) k rfl root _ workersOf (k + 1) 0 (iterInit rng0 art)
          (Nat.zero_le _) (Nat.zero_le _) (by omega)
    simp only [key.1, key.2.1, key.2.2]

/-- the bound `k + 2` is meaningful: it is below the model's default fuel for every Stop instant the correspondence
runs use (`k ≤ 6`) -/
example : ∀ k, k ≤ 62 → k + 2 ≤ 64 := by omega

/-! ## (b) Stop at an iteration boundary, and the total bound -/

/-- **C04_stop_ends_within_one_iteration.**  The loop is at the top of iteration `depth > 0` (state not finished), the
flag is visible (`cancelAt = some k`, `k ≤ polls`): the loop ends here, whatever the remaining depth budget — the read
of the flag is counted, nothing else changes: no worker is started, the node count, the events, the table, the
remembered move and evaluation and the generator are those of `st`. -/
theorem C04_stop_ends_within_one_iteration (ctx : Ctx) (k : Nat) (hk : ctx.cancelAt = some k) (root : State)
    (rootHash : UInt64) (workersOf : Nat → Nat) (n depth : Nat) (hd : 0 < depth) (st : IterSt)
    (hf : st.finished = false) (hp : k ≤ st.polls) :
    iterLoop ctx root rootHash workersOf (n + 1) depth st = { st with polls := st.polls + 1, finished := true } ∧
    loopWork ctx root rootHash workersOf (n + 1) depth st = 0 := by
  have hb := boundaryPoll_stops ctx k hk depth hd st hp
  refine ⟨?_, loopWork_stop ctx k hk root rootHash workersOf (n + 1) depth hd st hp⟩
  rw [iterLoop_boundary_stop ctx root rootHash workersOf n depth st hf (by rw [hb]), hb]

/-- the hypotheses are satisfiable -/
example : ∃ (ctx : Ctx) (k depth : Nat) (st : IterSt), ctx.cancelAt = some k ∧ 0 < depth ∧ st.finished = false ∧ k ≤ st.polls :=
  ⟨{ keys := { turn := fun _ => 0, piece := fun _ _ _ => 0, castle := fun _ _ => 0, epFile := fun _ => 0 },
     history := [], cancelAt := some 0 }, 0, 1, default, rfl, Nat.one_pos, rfl, Nat.zero_le _⟩

/-- **the ghost count is the engine's count**: for an iteration whose workers all returned (no interrupt, no panic)
the nodes counted by `iterWork` are exactly what `analyze_iterative` adds to `nodes_searched` -/
theorem C04_work_is_counted_nodes (ctx : Ctx) (root : State) (workers depth : Nat) (st : IterSt)
    (hi : (workersOut ctx root workers depth st).interrupted = false)
    (hp : (workersOut ctx root workers depth st).panic = Option.none) :
    iterWork ctx root workers depth st = (workersOut ctx root workers depth st).sumNodes := by
  have := workersWork_eq_sumNodes ctx root depth st.bestMv ((List.range workers).zip (drawSeeds workers st.rng).1)
    { tt := st.tt, polls := st.polls, evals := [], sumNodes := 0 } hi hp
  unfold iterWork workersOut
  rw [this]
  simp

/-- the defining equations of the ghost count: the control flow of `iterLoop` -/
theorem C04_loopWork_eq (ctx : Ctx) (root : State) (rootHash : UInt64) (workersOf : Nat → Nat) (n depth : Nat)
    (st : IterSt) :
    loopWork ctx root rootHash workersOf 0 depth st = 0 ∧
    loopWork ctx root rootHash workersOf (n + 1) depth st =
      (if st.finished then 0
       else if (boundaryPoll ctx depth st).finished then 0
       else iterWork ctx root (workersOf depth) depth (boundaryPoll ctx depth st) +
        loopWork ctx root rootHash workersOf n (depth + 1)
          (iterStep ctx root rootHash (workersOf depth) depth (boundaryPoll ctx depth st))) :=
  ⟨rfl, rfl⟩

/-- **C04_stop_total_bound.**  `st` is the state the workers of iteration `depth` are started from, `l1 ++ l2` the
workers of this iteration in the order they are run.  If Stop is visible once the workers `l1` have run
(`k ≤ polls` — `l1 = []`: visible at the start of the iteration), then everything counted from there on — the
workers `l2` AND all later iterations, whatever the remaining depth budget — is at most `|l2| × 10000` nodes. -/
theorem C04_stop_total_bound (ctx : Ctx) (k : Nat) (hk : ctx.cancelAt = some k) (root : State) (rootHash : UInt64)
    (workersOf : Nat → Nat) (n depth : Nat) (st : IterSt) (l1 l2 : List (Nat × UInt64))
    (hl : (List.range (workersOf depth)).zip (drawSeeds (workersOf depth) st.rng).1 = l1 ++ l2)
    (hv : k ≤ (runWorkers ctx root depth st.bestMv l1 { tt := st.tt, polls := st.polls, evals := [], sumNodes := 0 }).polls) :
    workersWork ctx root depth st.bestMv l2
        (runWorkers ctx root depth st.bestMv l1 { tt := st.tt, polls := st.polls, evals := [], sumNodes := 0 }) +
      loopWork ctx root rootHash workersOf n (depth + 1) (iterStep ctx root rootHash (workersOf depth) depth st)
    ≤ l2.length * Gen.pollInterval := by
  have h1 := workersWork_stop_bound ctx k hk root depth st.bestMv l2 _ hv
  have h2 : loopWork ctx root rootHash workersOf n (depth + 1) (iterStep ctx root rootHash (workersOf depth) depth st) = 0 := by
    rcases iterStep_finished_or_polls ctx root rootHash (workersOf depth) depth st with hf | hpq
    · exact loopWork_finished _ _ _ _ _ _ _ hf
    · refine loopWork_after_step ctx k hk root rootHash workersOf n depth (workersOf depth) st ?_
      rw [hpq]
      unfold workersOut
      rw [hl, runWorkers_append]
      exact Nat.le_trans hv (runWorkers_polls_mono ctx root depth st.bestMv l2 _)
  omega

/-- **Stop before the first iteration** (`cancelAt = some k`, `k ≤ polls` at the start; `k = 0`: every poll says
"cancelled"): the first iteration is run — the flag is not read before it, so that there is a move to report —, each of
its workers counts at most 10000 nodes, and nothing is searched afterwards: at most `workersOf 0 × 10000` nodes in the
whole search. -/
theorem C04_stop_total_bound_first (ctx : Ctx) (k : Nat) (hk : ctx.cancelAt = some k) (root : State) (rootHash : UInt64)
    (workersOf : Nat → Nat) (n : Nat) (st : IterSt) (hp : k ≤ st.polls) :
    loopWork ctx root rootHash workersOf n 0 st ≤ workersOf 0 * Gen.pollInterval := by
  cases n with
  | zero => exact Nat.zero_le _
  | succ n =>
    rw [(C04_loopWork_eq ctx root rootHash workersOf n 0 st).2, boundaryPoll_zero]
    split
    · exact Nat.zero_le _
    · have := C04_stop_total_bound ctx k hk root rootHash workersOf n 0 st []
        ((List.range (workersOf 0)).zip (drawSeeds (workersOf 0) st.rng).1) rfl hp
      have hlen : ((List.range (workersOf 0)).zip (drawSeeds (workersOf 0) st.rng).1).length ≤ workersOf 0 := by
        rw [List.length_zip, List.length_range]; exact Nat.min_le_left _ _
      have hmul := Nat.mul_le_mul_right Gen.pollInterval hlen
      unfold iterWork
      exact Nat.le_trans this hmul

/-- the hypotheses of `C04_stop_total_bound` are satisfiable (Stop visible at the start of an iteration, `l1 = []`) -/
example (ctx : Ctx) (root : State) (depth : Nat) (st : IterSt) (k : Nat) (h : k ≤ st.polls) (workers : Nat) :
    ∃ l1 l2, (List.range workers).zip (drawSeeds workers st.rng).1 = l1 ++ l2 ∧
      k ≤ (runWorkers ctx root depth st.bestMv l1 { tt := st.tt, polls := st.polls, evals := [], sumNodes := 0 }).polls :=
  ⟨[], _, rfl, h⟩

/-! ### racing workers -/

theorem sum_map_le {α : Type} (f : α → Nat) (b : Nat) : ∀ l : List α, (∀ x ∈ l, f x ≤ b) → (l.map f).sum ≤ l.length * b := by
  intro l
  induction l with
  | nil => intro _; simp
  | cons x xs ih =>
    intro h
    rw [List.map_cons, List.sum_cons, List.length_cons, Nat.succ_mul]
    have h1 := h x (List.mem_cons_self ..)
    have h2 := ih (fun y hy => h y (List.mem_cons_of_mem _ hy))
    omega

/-- **C04_stop_total_bound_any_schedule.**  The workers `ws` of one iteration race under ANY interleaving `H` of their
table operations (no admissibility assumed).  If Stop is visible to each of them from its start (`k ≤ w.polls`), the
joined node count — the sum of ALL workers' counters — is at most `|ws| × 10000`. -/
theorem C04_stop_total_bound_any_schedule (ctx : Ctx) (k : Nat) (hk : ctx.cancelAt = some k) (root : State)
    (tt : TT.Access) (ws : List Worker) (H : History) (polls : Nat) (hp : ∀ w ∈ ws, k ≤ w.polls) :
    (joinOf ctx root tt ws H polls).sumNodes ≤ ws.length * Gen.pollInterval := by
  unfold joinOf
  simp only []
  generalize houts : ((List.range ws.length).filterMap fun i => ws[i]?.map fun w => runWorkerE (envOf H i) ctx root w tt) = outs
  have hlen : outs.length ≤ ws.length := by
    rw [← houts]
    exact Nat.le_trans (List.length_filterMap_le _ _) (by rw [List.length_range]; exact Nat.le_refl _)
  have hb : ∀ o ∈ outs, o.2.1.nodes ≤ Gen.pollInterval := by
    intro o ho
    rw [← houts, List.mem_filterMap] at ho
    obtain ⟨i, _, hi⟩ := ho
    cases hw : ws[i]? with
    | none => rw [hw] at hi; cases hi
    | some w =>
      rw [hw] at hi
      simp only [Option.map_some, Option.some.injEq] at hi
      subst hi
      have hmem : w ∈ ws := List.mem_of_getElem? hw
      rcases C04_stop_bound_any_env (envOf H i) ctx k hk root w tt (hp w hmem) with h | h
      · exact Nat.le_of_eq h.2
      · exact Nat.le_of_lt h.2
  exact Nat.le_trans (sum_map_le _ _ outs hb) (Nat.mul_le_mul_right _ hlen)

/-- under any schedule a boundary read that says "cancelled" ends the loop: the only `LoopS`-successors of an
unfinished state at the top of iteration `depth > 0` with the flag read at a poll number `p ≥ k` is the stopped state —
constructor `LoopS.stopped`; no `StepS` happens -/
theorem C04_stop_boundary_any_schedule (ctx : Ctx) (k : Nat) (hk : ctx.cancelAt = some k) (root : State)
    (rootHash : UInt64) (workersOf : Nat → Nat) (n depth : Nat) (hd : 0 < depth) (st : IterSt)
    (hf : st.finished = false) (p : Nat) (hp : k ≤ p) :
    LoopS ctx root rootHash workersOf (n + 1) depth st { st with polls := p + 1, finished := true } := by
  have hb := boundaryPoll_stops ctx k hk depth hd { st with polls := p } hp
  have := LoopS.stopped (ctx := ctx) (root := root) (rootHash := rootHash) (workersOf := workersOf) n depth st p hf
    (by rw [hb])
  rw [hb] at this
  exact this

/-! ## (c) the witness of F11: the loop before the repair never reads the flag, the repaired loop stops at once

Root `8/8/8/8/8/8/8/K1k5 w - - 0 1` (White: Ka1; Black: Kc1; the only legal move is Ka2), the key of the successor
`8/8/8/8/8/8/K7/2k5 b - - 1 1` in the artifact's history, one worker, no depth limit, Stop sent before the search
starts (`cancelAt = some 0`: every read of the flag says "cancelled").  Definitions and the symbolic execution of one
iteration (for EVERY depth, generator state and cancellation instant): `Wee/Proofs/StopLemmas.lean`, namespace `F11`.
The same request on the real code (harness `stopseq`, and `search <seed> - 1 0 … 1 8/8/8/8/8/8/K7/2k5_b_-_-_1_1
8/8/8/8/8/8/8/K1k5 w - - 0 1`): the unrepaired tree does not join 20 s after Stop, the repaired one reports one
iteration — as the model (corr.py). -/

namespace F11

/-- **the deepening loop of `analyze_iterative` as it was BEFORE the repair of F11** (`iterLoop` without the read of
the flag at the top of the loop body; this is the text `iterLoop` had, and the code `searcher.rs` had, before F11) -/
def iterLoopOld (ctx : Ctx) (root : State) (rootHash : UInt64) (workersOf : Nat → Nat) :
    Nat → Nat → IterSt → IterSt
  | 0, _, st => st
  | n+1, depth, st =>
    if st.finished then st
    else iterLoopOld ctx root rootHash workersOf n (depth + 1) (iterStep ctx root rootHash (workersOf depth) depth st)

/-- the artifact of the witness: toy keys (the hash is the side to move), a fresh 1 × 1 table, the successor recorded -/
def wArt : Artifact := { keys := wKeys, tt := TT.Access.new 1 1, history := [Wee.hash wKeys.keys wSucc] }

/-- `wCtx c` and `iterInit rng0 wArt` are the context and the initial loop state of `iterate wRoot rng0 _ wArt _ c` -/
example (c : Option Nat) (rng0 : Rng.ChaCha8) :
    iterCtx wRoot wArt c = wCtx c ∧ WInv 0 (iterInit rng0 wArt) ∧ legalMoves wRoot = [(wMove, wSucc)] :=
  ⟨rfl, ⟨rfl, rfl, rfl, rfl, rfl, rfl, rfl⟩, w_legal⟩

/-- the invariant of the witness search through the OLD loop: by induction on the number of iterations -/
theorem old_loop_inv (c : Option Nat) (rootHash : UInt64) :
    ∀ (n d : Nat) (st : IterSt), WInv d st →
      WInv (d + n) (iterLoopOld (wCtx c) wRoot rootHash (fun _ => 1) n d st) := by
  intro n
  induction n with
  | zero => intro d st h; exact h
  | succ n ih =>
    intro d st h
    rw [iterLoopOld, if_neg (by rw [h.fin]; decide)]
    have := ih (d + 1) _ (w_iterStep c rootHash d st h)
    rw [show d + (n + 1) = d + 1 + n by omega]
    exact this

/-- **C04_F11_old_loop_never_stops.**  Before the repair: on the witness, with Stop visible from the very first poll
(`cancelAt = some 0`), the loop runs ALL `n` iterations for EVERY `n` — `n` `Progress` events, `3n - 1` nodes, not a
single read of the flag (`polls = 0`), not finished, no panic.  With `for depth in 0..usize::MAX` the search thread
never returns after Stop. -/
theorem C04_F11_old_loop_never_stops (rng0 : Rng.ChaCha8) (n : Nat) :
    let st := iterLoopOld (wCtx (some 0)) wRoot (Wee.hash wKeys.keys wRoot) (fun _ => 1) n 0 (iterInit rng0 wArt)
    progressCount st.events = n ∧ st.polls = 0 ∧ st.finished = false ∧ st.panic = Option.none ∧
    st.nodes = if n = 0 then 0 else 3 * n - 1 := by
  intro st
  have h := old_loop_inv (some 0) (Wee.hash wKeys.keys wRoot) n 0 (iterInit rng0 wArt) ⟨rfl, rfl, rfl, rfl, rfl, rfl, rfl⟩
  rw [Nat.zero_add] at h
  exact ⟨h.prog, h.polls, h.fin, h.panic, h.nodes⟩

/-- the nodes counted in iteration `d` of the witness search -/
theorem w_iterWork (c : Option Nat) (d : Nat) (st : IterSt) (h : WInv d st) :
    iterWork (wCtx c) wRoot 1 d st = if d = 0 then 2 else 3 := by
  obtain ⟨v, hv⟩ := drawSeeds_one st.rng
  unfold iterWork
  rw [hv]
  have hz : (List.range 1).zip [v] = [(0, v)] := rfl
  rw [hz, workersWork]
  simp only [Bool.or_self, Bool.false_eq_true, ↓reduceIte, Option.isSome_none, Nat.zero_mod, Nat.sub_zero, beq_self_eq_true]
  rw [h.tt, h.best, h.polls, w_worker]
  simp only [workersWork, Nat.add_zero]

/-- **C04_F11_repaired_loop_stops.**  After the repair, same search: whatever the iteration budget `n ≥ 2`, the loop
runs the first iteration (2 nodes, one `Progress` event and a `BestMove` report), reads the flag at the top of the
second and ends. -/
theorem C04_F11_repaired_loop_stops (rng0 : Rng.ChaCha8) (n : Nat) (hn : 2 ≤ n) :
    let st := iterLoop (wCtx (some 0)) wRoot (Wee.hash wKeys.keys wRoot) (fun _ => 1) n 0 (iterInit rng0 wArt)
    progressCount st.events = 1 ∧ st.polls = 1 ∧ st.finished = true ∧ st.panic = Option.none ∧ st.nodes = 2 ∧
    loopWork (wCtx (some 0)) wRoot (Wee.hash wKeys.keys wRoot) (fun _ => 1) n 0 (iterInit rng0 wArt) = 2 := by
  obtain ⟨m, rfl⟩ : ∃ m, n = m + 1 + 1 := ⟨n - 2, by omega⟩
  intro st
  have h0 : WInv 0 (iterInit rng0 wArt) := ⟨rfl, rfl, rfl, rfl, rfl, rfl, rfl⟩
  have h1 := w_iterStep (some 0) (Wee.hash wKeys.keys wRoot) 0 (iterInit rng0 wArt) h0
  have hstop := C04_stop_ends_within_one_iteration (wCtx (some 0)) 0 rfl wRoot (Wee.hash wKeys.keys wRoot)
    (fun _ => 1) m 1 Nat.one_pos _ h1.fin (Nat.zero_le _)
  have hst : st = { iterStep (wCtx (some 0)) wRoot (Wee.hash wKeys.keys wRoot) 1 0 (iterInit rng0 wArt) with
      polls := (iterStep (wCtx (some 0)) wRoot (Wee.hash wKeys.keys wRoot) 1 0 (iterInit rng0 wArt)).polls + 1,
      finished := true } := by
    show iterLoop _ _ _ _ (m + 1 + 1) 0 _ = _
    rw [iterLoop_succ, boundaryPoll_zero, if_neg (by rw [h0.fin]; decide), if_neg (by rw [h0.fin]; decide)]
    exact hstop.1
  refine ⟨by rw [hst]; exact h1.prog, by rw [hst]; show _ + 1 = 1; rw [h1.polls], by rw [hst], by rw [hst]; exact h1.panic,
    by rw [hst]; exact h1.nodes, ?_⟩
  rw [(C04_loopWork_eq _ _ _ _ (m + 1) 0 _).2, boundaryPoll_zero, if_neg (by rw [h0.fin]; decide),
    if_neg (by rw [h0.fin]; decide), hstop.2, Nat.add_zero]
  -- the first iteration: one worker, 2 nodes
  exact w_iterWork (some 0) 0 _ h0

/-- the same as a statement about `iterate` (the function compared event by event with the engine): without a depth
limit, Stop before the start, any fuel `≥ 2` — exactly one iteration is reported, no panic -/
theorem C04_F11_iterate_stops (rng0 : Rng.ChaCha8) (fuel : Nat) (hf : 2 ≤ fuel) :
    progressCount (iterate wRoot rng0 Option.none wArt (fun _ => 1) (some 0) fuel).events = 1 ∧
    (iterate wRoot rng0 Option.none wArt (fun _ => 1) (some 0) fuel).panic = Option.none := by
  have hfin : iterFinal wRoot rng0 Option.none wArt (fun _ => 1) (some 0) fuel =
      iterLoop (wCtx (some 0)) wRoot (Wee.hash wKeys.keys wRoot) (fun _ => 1) fuel 0 (iterInit rng0 wArt) := by
    unfold iterFinal iterLimit
    rw [w_legal]
    rfl
  have h := C04_F11_repaired_loop_stops rng0 fuel hf
  simp only [] at h
  rw [iterate_eq]
  simp only [hfin]
  refine ⟨?_, h.2.2.2.1⟩
  split
  · unfold progressCount at *
    rw [List.filter_append, List.length_append, h.1]
    rfl
  · exact h.1

end F11

end Wee.SearchCtl
