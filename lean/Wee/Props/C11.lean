import Wee.Proofs.FenLemmas
/-!
# C11 — FEN text and positions round-trip

Rust: `weechess-core/src/notation.rs`, `mod fen` — `impl IntoNotation<State> for Fen` (the writer,
walking ranks 8..1 and merging empty runs), `impl TryFromNotation<State> for Fen` (the reader:
`FEN_REGEX` gate, `Board::try_parse`, per-field parsers), `Board::from(&ArrayMap<Square,PieceIndex>)`,
`From<&Board> for ArrayMap<Square,PieceIndex>` and `Board::piece_at` in `board.rs`.
Model: `Wee/Model/Fen.lean` (`writeFen`, `parseFen`); independent canonical grammar:
`Wee/Spec/Fen.lean` (`Spec.writeFen`, `Spec.readFen`).

`parseFen checked` models both build profiles (`checked = true`: overflow checks on); every theorem
here holds for both.

* `C11_parse_write` — position → text → position is the identity on every *representable* position
  (`ReprPos`: twelve pairwise disjoint bitboards, en-passant square on the board, counters fit
  `usize`); no legality is needed.  Since the result is the *same* `State`, it has the same legal
  moves, hash and evaluation, and writes the same FEN again.
* `C11_spec_writer_agrees` — the engine's writer and the independent canonical writer produce the
  same text, for every mailbox position.
* `C11_write_parse_writer`, `C11_write_parse` — canonical text → position → text reproduces the text
  character for character.
* `fenRegex_is_modelled` — the regex literal extracted from the Rust source on every run is the one
  the hand-written recogniser in `parseFenChars` was written for.
-/
namespace Wee

/-- A position the engine's `State` can hold and print: the twelve piece bitboards are pairwise
disjoint (so that the mailbox view `piece_at` loses nothing), the en-passant target, if any, is a
square, and both counters fit a 64-bit `usize`.  Nothing else — in particular no legality. -/
def ReprPos (s : State) : Prop :=
  FenL.Disjoint s.pieces ∧
  (match s.ep with | some t => t < 64 | Option.none => True) ∧
  s.halfmove < 2^64 ∧ s.fullmove < 2^64

instance (s : State) : Decidable (ReprPos s) := by
  unfold ReprPos
  cases s.ep <;> infer_instance

/-- **C11 (1)**: for every representable position `s`, `try_from_notation::<State, Fen>` applied to
the text produced by `into_notation::<State, Fen>` succeeds (no `Err`, no panic, with or without
overflow checks) and returns exactly `s`: the same twelve bitboards, side to move, castling
rights, en-passant target and counters.  Hence the re-read position has the same legal moves,
hash and evaluation, and prints the same FEN. -/
theorem C11_parse_write (checked : Bool) (s : State) (h : ReprPos s) :
    parseFen checked (writeFen s) = .ok s := by
  obtain ⟨hd, hep, hh, hf⟩ := h
  refine FenL.parse_write checked s hd ?_ hh hf
  intro t ht
  rw [ht] at hep
  exact hep

/-- consequence of (1): the written FEN determines the position -/
theorem C11_writeFen_injective (s₁ s₂ : State) (h₁ : ReprPos s₁) (h₂ : ReprPos s₂)
    (h : writeFen s₁ = writeFen s₂) : s₁ = s₂ := by
  have e₁ := C11_parse_write true s₁ h₁
  rw [h, C11_parse_write true s₂ h₂] at e₁
  exact (Res.ok.inj e₁).symm

/-- consequence of (1): writing the re-read position gives the same text again -/
theorem C11_write_parse_write (checked : Bool) (s : State) (h : ReprPos s) :
    ∃ s', parseFen checked (writeFen s) = .ok s' ∧ writeFen s' = writeFen s :=
  ⟨s, C11_parse_write checked s h, rfl⟩

/-! ### non-vacuity of (1) -/

/-- the start position, bitboard by bitboard -/
def c11Start : State :=
  ⟨{ wp := 0xFF00, wn := 0x42, wb := 0x24, wr := 0x81, wq := 0x08, wk := 0x10,
     bp := 0x00FF000000000000, bn := 0x4200000000000000, bb := 0x2400000000000000,
     br := 0x8100000000000000, bq := 0x0800000000000000, bk := 0x1000000000000000 },
   .white, .both, .both, Option.none, 0, 1⟩

/-- after 1. e4 with Black's queen-side right removed: asymmetric board, en-passant square, partial rights -/
def c11AfterE4 : State :=
  ⟨{ c11Start.pieces with wp := 0x1000EF00 }, .black, .both, ⟨true, false⟩, some 20, 0, 1⟩

set_option maxRecDepth 100000 in
example : ReprPos c11Start := by decide
set_option maxRecDepth 100000 in
example : ReprPos c11AfterE4 := by decide
set_option maxRecDepth 100000 in
/-- the model's start state is the expected one -/
example : startState = c11Start := by decide
set_option maxRecDepth 100000 in
/-- `Fen::DEFAULT` round-trips (evaluated, independently of the theorem) -/
example : parseFen true Gen.fenDefault = .ok c11Start ∧ writeFen c11Start = Gen.fenDefault := by decide
set_option maxRecDepth 100000 in
example : writeFen c11AfterE4 = "rnbqkbnr/pppppppp/8/8/4P3/8/PPPP1PPP/RNBQKBNR b KQk e3 0 1" ∧
    parseFen false "rnbqkbnr/pppppppp/8/8/4P3/8/PPPP1PPP/RNBQKBNR b KQk e3 0 1" = .ok c11AfterE4 := by decide
/-- extreme counters are representable -/
example : ReprPos { c11Start with halfmove := 2^64 - 1, fullmove := 2^64 - 1 } := by
  refine ⟨by decide, trivial, by decide, by decide⟩

/-! ### text → position → text -/

/-- **the two writers agree**: for every mailbox position `p` (no well-formedness needed), the
engine's writer applied to the bitboard form of `p` and the independent canonical writer
`Spec.writeFen` produce the same string. -/
theorem C11_spec_writer_agrees (p : Spec.Pos) : writeFen (conc p) = Spec.writeFen p :=
  FenL.spec_writer_agrees p

/-- the bitboard form of any mailbox position is representable, provided the en-passant square is
on the board and the counters fit `usize` -/
theorem reprPos_conc (p : Spec.Pos) (hep : ∀ e, p.ep = some e → e < 64)
    (hh : p.halfmove < 2^64) (hf : p.fullmove < 2^64) : ReprPos (conc p) := by
  refine ⟨FenL.disjoint_concPieces p, ?_, hh, hf⟩
  show match p.ep with | some t => t < 64 | Option.none => True
  cases h : p.ep with
  | none => trivial
  | some t => exact hep t h

/-- **C11 (2), writer form**: for every string generated by the independent canonical writer from
a mailbox position `p` (en-passant square on the board, counters fitting `usize`; all 16 right
sets, both en-passant ranks, any placement), the engine reads it (`Ok`, no panic) and writes it
back character for character. -/
theorem C11_write_parse_writer (checked : Bool) (p : Spec.Pos) (hep : ∀ e, p.ep = some e → e < 64)
    (hh : p.halfmove < 2^64) (hf : p.fullmove < 2^64) :
    parseFen checked (Spec.writeFen p) = .ok (conc p) ∧ writeFen (conc p) = Spec.writeFen p := by
  refine ⟨?_, C11_spec_writer_agrees p⟩
  rw [← C11_spec_writer_agrees p]
  exact C11_parse_write checked (conc p) (reprPos_conc p hep hh hf)

/-- canonical FEN text: accepted by the strict reader `Spec.readFen`, reproduced by the canonical
writer, with counters that fit the engine's `usize` (the strict reader itself accepts decimal
numbers of any size) -/
def CanonicalFen (t : String) : Prop :=
  ∃ p, Spec.readFen t = some p ∧ Spec.writeFen p = t ∧ p.halfmove < 2^64 ∧ p.fullmove < 2^64

/-- **C11 (2)**: every canonical FEN string is read by the engine (`Ok`, no panic, either build
profile) and the position read writes back the same string, character for character. -/
theorem C11_write_parse (checked : Bool) (t : String) (h : CanonicalFen t) :
    ∃ s, parseFen checked t = .ok s ∧ writeFen s = t := by
  obtain ⟨p, hr, hw, hh, hf⟩ := h
  obtain ⟨h1, h2⟩ := C11_write_parse_writer checked p (FenL.readFen_ep_lt t p hr) hh hf
  rw [hw] at h1 h2
  exact ⟨conc p, h1, h2⟩

/-! ### non-vacuity of (2)

`C11_write_parse_writer` is the form with checkable hypotheses (example below).  `CanonicalFen t`
for a concrete `t` cannot be evaluated by the kernel: `Spec.readFen` is built from `String.splitOn`,
`String.all`, `String.contains`, `String.toNat?`, which do not reduce under `decide`; it is
executable, and `Spec.readFen Gen.fenDefault == some (abs startState)` evaluates to `true` with
`#eval`. -/

/-- a mailbox position with an en-passant square and partial rights -/
def c11SpecPos : Spec.Pos :=
  { cells := (Array.replicate 64 Option.none).set! 4 (some (.white, .king)) |>.set! 60 (some (.black, .king))
      |>.set! 28 (some (.white, .pawn)) |>.set! 27 (some (.black, .pawn)),
    turn := .black, wk := true, wq := false, bk := false, bq := true, ep := some 20,
    halfmove := 0, fullmove := 2^64 - 1 }

example : (∀ e, c11SpecPos.ep = some e → e < 64) ∧ c11SpecPos.halfmove < 2^64 ∧ c11SpecPos.fullmove < 2^64 := by
  refine ⟨?_, by decide, by decide⟩
  intro e he
  have : e = 20 := (Option.some.inj he).symm
  omega

/-! ### the regex literal -/

/-- the regex gate modelled in `parseFenChars` is the literal `FEN_REGEX` of `notation.rs`
(`Wee.Gen.fenRegex` is re-extracted from the Rust source on every run) -/
theorem fenRegex_is_modelled : Wee.Gen.fenRegex = Wee.modelledFenRegex := by decide

end Wee
