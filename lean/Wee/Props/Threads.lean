import Wee.Proofs.ThreadsLemmas
import Wee.Proofs.WriterLemmas
/-!
# The thread / channel protocol of one search: theorems for ALL interleavings (C04 / C07 runtime residue)

Model: `Wee/Model/Threads.lean` — `Searcher::analyze` (control thread C, search thread S, the two `mpsc` channels, the
`CancellationToken`) and `uci.rs` `Search::spawn` / `Search::wait_cancel` (timer thread T, writer thread W, the command
loop M) as a small-step transition system `step f8 s a`: one atomic action `a` of one process.  `Reachable f8 writer timer s`
are the states of ALL interleavings: every scheduling, every sequence of events S may emit (any number — there is no
bound on it anywhere in this file: the theorems are proved by an inductive invariant, `Inv` in
`Wee/Proofs/ThreadsLemmas.lean`, not by exploration), S ending by itself / on the flag / by a panic at any moment, T firing
at any moment or never, M calling `wait_cancel` at any moment or never, and — without a writer — the caller dropping
the event receiver at any moment.  `f8 = true` is the code as it stands (`join().ok()`), `f8 = false` the code before the
repair of F8.

The session model (`Wee/Model/Uci.lean`) abstracts all of this to the mark `Out.joinRunning` ("the running search is
joined here and its bestmove has appeared by then") and `Sess.searchOk`; DESIGN §6 C04 / C07 list "thread scheduling" as
trusted runtime residue.  The theorems below discharge that residue down to the stated semantics of `std`.

## What the model assumes about `std` and the OS (the remaining trusted base of these theorems)

1. `std::sync::mpsc::channel()` is an unbounded FIFO: `Sender::send` never blocks; it fails iff the receiver has been
   dropped (the message is then discarded), and has no other effect.  `Receiver::recv` blocks while the queue is empty
   and some sender is alive; it returns `Err` iff the queue is empty and ALL senders were dropped; messages queued before
   the last sender was dropped are still delivered.  (`Threads_std_channels` states this of the model.)
2. `JoinHandle::join` blocks until the closure of the thread has returned or unwound AND its captured variables were
   dropped; it returns `Err` iff the thread panicked.  A panic unwinds (no `panic = "abort"`), dropping the captured
   variables; a panic of the main thread ends the process.
3. Drop order: S owns one sender of each channel and the order in which it drops them is NOT assumed (either order is
   an interleaving).  C (`controller`), W (`receiver`), T (`timer_stop`), M (`self.control`) each own one channel end,
   which is dropped no later than the moment the thread becomes joinable / `wait_cancel` returns.
4. `thread::spawn` does not fail; a thread that was not scheduled yet behaves like one that has not taken a step.
5. `println!` in W does not panic (stdout stays open) — a panicking W would still be joined (`_ = write_handle.join()`).
6. The `AtomicBool` of the `CancellationToken` is set once and never reset; S reads it only inside `analyze_iterative`.
7. Scheduling is weakly fair for unblocked threads, and a search whose flag is set returns: the `Relaxed` store becomes
   visible to the loading thread, and a poll is reached (C04: `C04_stop_bound` bounds the counted nodes per worker and
   iteration; since the repair of F11 every iteration boundary is a poll, so a poll IS reached after at most one more
   iteration of fewer than `workers × 10000` counted nodes and the search then ends —
   `C04_stop_ends_within_one_iteration`, `C04_stop_total_bound`, `C04_unlimited_stop_independent_of_fuel` in
   `Wee/Props/C04Stop.lean`; before the repair "some iteration reaches a poll" was a hypothesis, false on the witness
   `C04_F11_old_loop_never_stops`).  What remains assumed is that a finite number of counted nodes takes finite time.
   These are the fairness assumptions `Act.fair` of the three liveness theorems (`Threads_wait_cancel_ends`,
   `Threads_wait_cancel_returns`, `Threads_search_answers`) and of nothing else; every other theorem is a safety
   theorem about every reachable state and needs no fairness.

Not covered: more than one search alive at a time (the command loop joins the running search before it spawns the next,
`Uci.step`), the process exit (`quit` joins first; T is then killed with the process), W's or T's own panics.

Register under C04: `Threads_send_stop_never_panics`, `Threads_no_deadlock`, `Threads_wait_cancel_returns`, `Threads_wait_cancel_ends`, `Threads_search_answers`, `Threads_trigger`,
`Threads_receiver_dropped`, `Threads_search_panic_tolerated`, `Threads_preF8_aborts`, `Threads_timer_harmless`,
`Threads_stop_idempotent`, `Threads_recv_never_errs`, `Threads_terminal_states`.
Register under C07: `Threads_bestmove_at_most_once`, `Threads_bestmove_before_return`, `Threads_nothing_after_return`,
`Threads_bestmove_is_last_best`, `Threads_bestmove_exactly_one`, `Threads_join_result`, `Threads_refines_writer`, `Threads_refines_session`.
-/
namespace Wee.Threads
open Wee.Fair

variable {μ π : Type}

/-! ## 0. the `std` semantics the model implements, as theorems about `step` -/

/-- **what the model takes `mpsc` to be** (assumption 1, stated of `step`; `s.m ≠ aborted`: the process is alive).
* a `send` is enabled whenever its thread is at the sending instruction — it never blocks, whatever the queue and the
  receiver are (`sEmit`, `sSendStop`, `mCall`, `tFire`);
* C's `recv` returns iff a `Stop` is queued or all three senders are gone;
* W's `recv` returns an event iff one is queued, and `Err` iff the queue is empty and the sender is gone. -/
theorem Threads_std_channels (f8 : Bool) (s : St μ π) (hm : s.m ≠ .aborted) :
    (∀ e, Enabled f8 s (.sEmit e) ↔ s.s = .run) ∧
    (Enabled f8 s .sSendStop ↔ s.s = .sendStop) ∧
    (Enabled f8 s .mCall ↔ s.m = .idle) ∧
    (Enabled f8 s .tFire ↔ s.t = .waiting) ∧
    (Enabled f8 s .cRecv ↔ s.c = .recv ∧ (0 < s.q2 ∨ (s.tx2 = false ∧ s.tx3 = false ∧ s.tt = false))) ∧
    (Enabled f8 s .wRecv ↔ s.w = .loop ∧ s.q1 ≠ []) ∧
    (Enabled f8 s .wClosed ↔ s.w = .loop ∧ s.q1 = [] ∧ s.sink = false) := by
  obtain ⟨m, c, ss, w, t, sOk, cOk, art, q1, sink, rx1, q2, tx2, tx3, tt, rx2, flag, best, em, co, pr, sf, inj, re⟩ := s
  simp only at hm
  refine ⟨fun e => ?_, ?_, ?_, ?_, ?_, ?_, ?_⟩ <;> simp only [Enabled, step, hm, if_false]
  · by_cases h : ss = .run <;> simp [h]
  · by_cases h : ss = .sendStop <;> simp [h] <;> split <;> rfl
  · by_cases h : m = .idle <;> simp [h]
  · by_cases h : t = .waiting <;> simp [h]
  · by_cases h1 : c = .recv <;> by_cases h2 : 0 < q2 <;> simp [h1, h2]
  · cases q1 <;> by_cases h : w = .loop <;> simp [h]
  · by_cases h : w = .loop ∧ q1 = [] ∧ sink = false <;> simp [h]

/-! ## 1. `tx3.send(ControlEvent::Stop).unwrap()` never panics -/

/-- **Threads_send_stop_never_panics.**  In every reachable state of every interleaving: when S is about to execute
`tx3.send(ControlEvent::Stop).unwrap()` the receiver `controller` is alive — C drops it only when it ends, and C ends
only after `search_handle.join()` returned, i.e. after S ended.  So the `unwrap` never fires (`sendFailed` stays
false), the step enqueues a `Stop` and leaves S un-panicked; the ONLY way the search thread panics is a panic inside
`analyze_iterative` (`sOk = !injected`). -/
theorem Threads_send_stop_never_panics {f8 writer timer : Bool} {s : St μ π} (h : Reachable f8 writer timer s) :
    (s.s = .sendStop → s.rx2 = true) ∧ s.sendFailed = false ∧ s.sOk = (!s.injected) ∧
    (∀ s', step f8 s .sSendStop = some s' → s'.q2 = s.q2 + 1 ∧ s'.sOk = s.sOk ∧ s'.sendFailed = false) := by
  have hi := inv_reachable h
  have h1 : s.s = .sendStop → s.rx2 = true := by
    intro hs
    rw [hi.rx2_iff]
    intro hc
    have := (hi.c_done hc).1
    rw [hs] at this; cases this
  refine ⟨h1, hi.sendFailed, hi.sOk_iff, fun s' hs' => ?_⟩
  have hsf := (inv_step hi hs').sendFailed
  obtain ⟨m, c, ss, w, t, sOk, cOk, art, q1, sink, rx1, q2, tx2, tx3, tt, rx2, flag, best, em, co, pr, sf, inj, re⟩ := s
  unfold step at hs'
  simp only at hs' h1
  (repeat' split at hs') <;> (try cases hs') <;> simp_all

/-! ## 2. no deadlock; `wait_cancel` returns -/

/-- **Threads_no_deadlock.**  In every reachable state in which M is blocked inside `wait_cancel` (in
`search_handle.join()` or in `write_handle.join()`) some *guaranteed* action is enabled: a deterministic step of a thread
that is not blocked, or — when the flag is set — the search's return on the interrupt path (C04's termination
assumption); never merely one of the optional actions (`sEmit`, `sEndSelf`, `sPanic`, `tFire`, …).  The action is given
explicitly: `helpful s`. -/
theorem Threads_no_deadlock {f8 writer timer : Bool} {s : St μ π} (h : Reachable f8 writer timer s)
    (hw : s.m = .joinC ∨ s.m = .joinW) :
    (helpful s).fair = true ∧ Enabled f8 s (helpful s) :=
  ⟨(enabled_helpful (inv_reachable h) hw).2, (enabled_helpful (inv_reachable h) hw).1⟩

/-- **Threads_terminal_states.**  The only reachable states in which NO action at all is enabled are the proper ends:
`wait_cancel` has returned (or, before the repair of F8, the process aborted), and then C, S, W and T have all ended.
No thread is ever left blocked. -/
theorem Threads_terminal_states {f8 writer timer : Bool} {s : St μ π} (h : Reachable f8 writer timer s)
    (hno : ∀ a : Act μ π, ¬ Enabled f8 s a) :
    (s.m = .returned ∨ s.m = .aborted) ∧
    (s.m = .returned → s.c = .done ∧ s.s = .done ∧ (s.w = .done ∨ s.w = .absent) ∧ s.t = .done) :=
  terminal_state (inv_reachable h) (fun a => by simpa [Enabled] using hno a)

/-- **Threads_wait_cancel_ends** (both variants of the code).  On every execution from the initial state that is weakly
fair for the guaranteed actions, every moment at which M is blocked in `wait_cancel` is followed by a moment at which
`wait_cancel` is over.  Proof: ranking function `(rank1, rank2)` (program counters; then the queued events once S can no
longer emit) with the helpful-action rule `Wee.Fair.leadsTo_of_rank`, which is itself proved in
`Wee/Proofs/ThreadsLemmas.lean`. -/
theorem Threads_wait_cancel_ends (f8 writer timer : Bool) (e : Exec (step f8 (μ := μ) (π := π)))
    (h0 : e.st 0 = init writer timer) (hfair : ∀ a : Act μ π, a.fair = true → WeakFair e a)
    (i : Nat) (hw : (e.st i).m = .joinC ∨ (e.st i).m = .joinW) :
    ∃ j, i ≤ j ∧ ((e.st j).m = .returned ∨ (e.st j).m = .aborted) :=
  waiting_leadsTo_over e (h0 ▸ inv_init f8 writer timer) hfair i hw

/-- **Threads_wait_cancel_returns** (the code as it stands).  Once M has called `wait_cancel` it returns: on every weakly
fair execution — whatever S emits and for however long, whether S ends by itself, on the flag or by a panic, whether or
not T fires, with or without a writer, whenever the receiver is dropped — M is never blocked forever. -/
theorem Threads_wait_cancel_returns (writer timer : Bool) (e : Exec (step true (μ := μ) (π := π)))
    (h0 : e.st 0 = init writer timer) (hfair : ∀ a : Act μ π, a.fair = true → WeakFair e a)
    (i : Nat) (hw : (e.st i).m = .joinC ∨ (e.st i).m = .joinW) :
    ∃ j, i ≤ j ∧ (e.st j).m = .returned := by
  obtain ⟨j, hj, h | h⟩ := Threads_wait_cancel_ends true writer timer e h0 hfair i hw
  · exact ⟨j, hj, h⟩
  · have hI : Inv true (e.st j) :=
      e.invariant (Inv true) (h0 ▸ inv_init true writer timer) (fun s a s' hi hs => inv_step hi hs) j
    exact absurd h (hI.aborted rfl)

/-- every state of an execution from the initial state is reachable -/
theorem exec_reachable {f8 writer timer : Bool} (e : Exec (step f8 (μ := μ) (π := π)))
    (h0 : e.st 0 = init writer timer) (i : Nat) : Reachable f8 writer timer (e.st i) :=
  e.invariant (Reachable f8 writer timer) (h0 ▸ Reachable.init) (fun _ a _ hr hs => Reachable.step a hr hs) i

/-- **Threads_trigger.**  What makes the stop condition of a search occur (`Triggered`): the timer firing, M's `Stop`,
the search ending by itself or on the flag, or its panic. -/
theorem Threads_trigger {f8 writer timer : Bool} {s s' : St μ π} (h : Reachable f8 writer timer s) (a : Act μ π)
    (ha : a = .tFire ∨ a = .mCall ∨ a = .sEndSelf ∨ a = .sNotice ∨ a = .sPanic) (hs : step f8 s a = some s') :
    Triggered s' := by
  have hi := inv_reachable h
  have h1 := hi.rx2_iff
  have h2 := hi.flag_iff
  have h3 := hi.c_done
  obtain ⟨m, c, ss, w, t, sOk, cOk, art, q1, sink, rx1, q2, tx2, tx3, tt, rx2, flag, best, em, co, pr, sf, inj, re⟩ := s
  simp only at h1 h2 h3
  rcases ha with rfl | rfl | rfl | rfl | rfl <;>
    (unfold step at hs; simp only at hs; (repeat' split at hs) <;> (try cases hs)) <;>
    (cases c <;> simp_all [Triggered])

/-- **Threads_search_answers** (liveness without M; the code as it stands).  Once the stop condition of the search has
occurred — the timer fired (`go movetime`, or the default 4 s), or `Stop` was sent, or the search ended by itself
(`go depth n`, mate) or panicked: `Threads_trigger` — then on every weakly fair execution, WITHOUT any further command
from the user, the search thread becomes joinable and the writer prints everything and ends: with a writer the output is
then exactly `writerOut` of all emitted events, `bestmove` included.  So every `go` whose search ends is answered before,
and independently of, the next command; `wait_cancel` (at the next `go`/`position`/`stop`/`quit`) only waits for it. -/
theorem Threads_search_answers (writer timer : Bool) (e : Exec (step true (μ := μ) (π := π)))
    (h0 : e.st 0 = init writer timer) (hfair : ∀ a : Act μ π, a.fair = true → WeakFair e a)
    (i : Nat) (ht : Triggered (e.st i)) :
    ∃ j, i ≤ j ∧ (e.st j).s = .done ∧ ((e.st j).w = .done ∨ (e.st j).w = .absent) ∧
      (writer = true → (e.st j).w = .done ∧ (e.st j).printed = writerOut (e.st j).emitted) := by
  obtain ⟨j, hj, h⟩ := triggered_leadsTo_answered e (h0 ▸ inv_init true writer timer) hfair i ht
  have hr := exec_reachable e h0 j
  have hi := inv_reachable hr
  rcases h with ⟨hs, hw⟩ | h
  · refine ⟨j, hj, hs, hw, fun hwr => ?_⟩
    have hwd : (e.st j).w = .done := by
      rcases hw with hw | hw
      · exact hw
      · rw [(writer_reachable hr).1 hw] at hwr; cases hwr
    exact ⟨hwd, (printed_done hi hwd).2.2⟩
  · exact absurd h (hi.aborted rfl)

/-! ## 3. at most one `bestmove`, all of it before `wait_cancel` returns -/

/-- **Threads_bestmove_at_most_once.**  At most one `bestmove` line per search, in every reachable state. -/
theorem Threads_bestmove_at_most_once {f8 writer timer : Bool} {s : St μ π} (h : Reachable f8 writer timer s) :
    (bestmoves s.printed).length ≤ 1 := by
  rw [printed_eq (inv_reachable h), bestmoves_append, bestmoves_info, List.nil_append]
  split
  · rw [bestmoves_tailLines]; cases (lastBest s.consumed []).head? <;> simp
  · simp [bestmoves]

/-- **Threads_bestmove_before_return.**  When `wait_cancel` has returned: C and S have ended; with a writer, W has ended
too, the event queue is empty, W has received EVERY event S emitted, in order, and has printed exactly what the writer
function `writerOut` prints for them — all info lines and, if the last `BestMove` event has a non-empty line, the one
`bestmove`. -/
theorem Threads_bestmove_before_return {f8 writer timer : Bool} {s : St μ π} (h : Reachable f8 writer timer s)
    (hm : s.m = .returned) :
    s.c = .done ∧ s.s = .done ∧ s.sink = false ∧
    (writer = true → s.w = .done ∧ s.q1 = [] ∧ s.consumed = s.emitted ∧ s.printed = writerOut s.emitted) := by
  have hi := inv_reachable h
  have hc := (hi.m_past (Or.inr hm)).1
  have hs := (hi.c_done hc).1
  refine ⟨hc, hs, (hi.s_done hs).1, fun hwr => ?_⟩
  have hw : s.w = .done := by
    rcases hi.m_ret hm with hw | hw
    · exact hw
    · rw [(writer_reachable h).1 hw] at hwr; cases hwr
  obtain ⟨h1, h2, h3⟩ := printed_done hi hw
  exact ⟨hw, h2, h1, h3⟩

/-- **Threads_nothing_after_return.**  After `wait_cancel` has returned, whatever the remaining threads (T) still do:
nothing more is printed, nothing more is emitted, the join result stands.  So every line of this search precedes the
join point — what `Out.joinRunning` of the session model says. -/
theorem Threads_nothing_after_return {f8 writer timer : Bool} {s s' : St μ π} (h : Reachable f8 writer timer s)
    (hm : s.m = .returned) (acts : List (Act μ π)) (hr : runActs f8 s acts = some s') :
    s'.m = .returned ∧ s'.printed = s.printed ∧ s'.emitted = s.emitted ∧ s'.artifact = s.artifact := by
  obtain ⟨h1, h2, h3, h4, _⟩ := runActs_returned_stable acts (inv_reachable h) hm hr
  exact ⟨h1, h2, h3, h4⟩

/-- **Threads_refines_writer.**  Along every run the printed lines only grow, and whatever has been printed at any
moment of a search with a writer is a prefix of `writerOut evs`, `evs` being ALL events the search emits up to the
moment `wait_cancel` returns: the lines of the writer appear one by one at arbitrary moments, in order, and are complete
at the join — exactly the `emit`* `join` shape of `Transcript` in `Wee/Proofs/WriterLemmas.lean`. -/
theorem Threads_refines_writer {f8 timer : Bool} {s s' : St μ π} (h : Reachable f8 true timer s)
    (acts : List (Act μ π)) (hr : runActs f8 s acts = some s') (hm : s'.m = .returned) :
    ∃ rest, s.printed ++ rest = writerOut s'.emitted ∧ s'.printed = writerOut s'.emitted := by
  have h' := runActs_reachable acts h hr
  obtain ⟨l, hl⟩ := (runActs_mono acts hr).1
  have := (Threads_bestmove_before_return h' hm).2.2.2 rfl
  exact ⟨l, by rw [← hl, this.2.2.2], this.2.2.2⟩

/-- **Threads_join_result.**  The value `wait_cancel` returns: `Some(artifact)` iff the search thread did not panic —
the `Sess.searchOk` flag that `joinKeep` of the session model stores into `artifact`. -/
theorem Threads_join_result {writer timer : Bool} {s : St μ π} (h : Reachable true writer timer s)
    (hm : s.m = .returned) : s.artifact = (!s.injected) ∧ s.cOk = s.sOk := by
  have hi := inv_reachable h
  obtain ⟨hc, ha⟩ := hi.m_past (Or.inr hm)
  have := (hi.c_done hc).2
  exact ⟨by rw [ha, this, hi.sOk_iff], this⟩

/-! ## 4. the printed move is the first move of the LAST `BestMove` event -/

/-- **Threads_bestmove_is_last_best.**  If `bestmove m` has been printed then W has ended, S can emit nothing more
(`sink` is dropped), every emitted event was received, and `m` is the first move of the line of the LAST `BestMove`
event S emitted.  Conversely, once W has ended, the `bestmove` lines are exactly: the head of that line, if any. -/
theorem Threads_bestmove_is_last_best {f8 writer timer : Bool} {s : St μ π} (h : Reachable f8 writer timer s) :
    (∀ m, Line.bestmove m ∈ s.printed →
      s.w = .done ∧ s.sink = false ∧ s.consumed = s.emitted ∧
      ∃ line, lastBestEvent s.emitted = some line ∧ line.head? = some m) ∧
    (s.w = .done → bestmoves s.printed = ((lastBestEvent s.emitted).bind List.head?).toList) := by
  have hi := inv_reachable h
  have hconv : s.w = .done → bestmoves s.printed = ((lastBestEvent s.emitted).bind List.head?).toList := by
    intro hw
    rw [(printed_done hi hw).2.2, bestmoves_writerOut, lastBest_eq]
    cases lastBestEvent s.emitted <;> rfl
  refine ⟨fun m hm => ?_, hconv⟩
  have hm' := mem_bestmoves.2 hm
  have hw : s.w = .done := by
    apply Classical.byContradiction
    intro hw
    rw [printed_eq hi, if_neg hw, List.append_nil, bestmoves_info] at hm'
    cases hm'
  refine ⟨hw, (hi.w_past (Or.inr hw)).1, (printed_done hi hw).1, ?_⟩
  rw [hconv hw] at hm'
  cases hl : lastBestEvent s.emitted with
  | none => rw [hl] at hm'; cases hm'
  | some line =>
    rw [hl] at hm'
    refine ⟨line, rfl, ?_⟩
    simp only [Option.bind_some] at hm'
    cases hh : line.head? with
    | none => rw [hh] at hm'; cases hm'
    | some m' => rw [hh] at hm'; simp only [Option.toList_some, List.mem_singleton] at hm'; rw [hm']

/-- **Threads_bestmove_exactly_one.**  Under the engine's guarantee that reported lines are never empty
(`analyze_iterative` skips an empty line: both `BestMove` sites are guarded), when `wait_cancel` of a search with a
writer has returned: EXACTLY one `bestmove` has been printed iff the search emitted some `BestMove` event, none
otherwise. -/
theorem Threads_bestmove_exactly_one {f8 timer : Bool} {s : St μ π} (h : Reachable f8 true timer s)
    (hm : s.m = .returned) (hne : ∀ line p, Ev.best line p ∈ s.emitted → line ≠ []) :
    ((∃ line p, Ev.best line p ∈ s.emitted) → ∃ m, bestmoves s.printed = [m]) ∧
    ((∀ line p, Ev.best line p ∉ s.emitted) → bestmoves s.printed = []) := by
  have hw := ((Threads_bestmove_before_return h hm).2.2.2 rfl).1
  have hb := (Threads_bestmove_is_last_best h).2 hw
  constructor
  · rintro ⟨line, p, hmem⟩
    cases hl : lastBestEvent s.emitted with
    | none => exact absurd hmem (lastBestEvent_none.1 hl line p)
    | some l =>
      obtain ⟨p', hp'⟩ := lastBestEvent_some hl
      cases l with
      | nil => exact absurd rfl (hne [] p' hp')
      | cons m r => exact ⟨m, by rw [hb, hl]; rfl⟩
  · intro hno
    rw [hb, lastBestEvent_none.2 hno]
    rfl

/-! ## 5. the event receiver dropped at any time -/

/-- **Threads_receiver_dropped.**  `Searcher::analyze` used directly (no writer): the caller may read events or drop
the receiver at ANY moment (`callerRecv`, `callerDrop` are actions of every interleaving).  In every run in which
`analyze_iterative` does not panic, neither S nor C ever panics — a failed `sink.send` is ignored exactly where the code
ignores it — and when the caller's join returns it returns the artifact.  (That the join does return is
`Threads_wait_cancel_returns`, which holds for this configuration too.) -/
theorem Threads_receiver_dropped {timer : Bool} (acts : List (Act μ π)) {s : St μ π}
    (hr : runActs true (init false timer) acts = some s) (hnp : Act.sPanic ∉ acts) :
    s.sOk = true ∧ s.cOk = true ∧ s.sendFailed = false ∧ (s.m = .returned → s.s = .done ∧ s.artifact = true) := by
  have h : Reachable true false timer s := runActs_reachable acts Reachable.init hr
  have hi := inv_reachable h
  have hinj : s.injected = false := by
    have := runActs_injected acts hr
    cases hj : s.injected with
    | false => rfl
    | true =>
      rcases this.1 hj with h0 | h0
      · simp [init] at h0
      · exact absurd h0 hnp
  have hs : s.sOk = true := by rw [hi.sOk_iff, hinj]; rfl
  have hc : s.cOk = true := by
    by_cases hcd : s.c = .done
    · rw [(hi.c_done hcd).2, hs]
    · exact hi.c_ok hcd
  refine ⟨hs, hc, hi.sendFailed, fun hm => ?_⟩
  obtain ⟨hcd, ha⟩ := hi.m_past (Or.inr hm)
  exact ⟨(hi.c_done hcd).1, by rw [ha, hc]⟩

/-! ## 6. a panic of the search thread is tolerated -/

/-- **Threads_search_panic_tolerated** (the code as it stands).  If `analyze_iterative` panicked (`injected`): the main
thread never panics; when C ends it has panicked too (`search_handle.join().unwrap()` re-raises); once M is past its first
join the join result is `None`; when `wait_cancel` has returned — and it does return: `Threads_wait_cancel_returns` —
W has ended and has printed exactly the writer's output for the events emitted before the panic, including the
`bestmove` of the last line received. -/
theorem Threads_search_panic_tolerated {writer timer : Bool} {s : St μ π} (h : Reachable true writer timer s)
    (hp : s.injected = true) :
    s.m ≠ .aborted ∧ (s.c = .done → s.cOk = false) ∧
    (s.m = .joinW ∨ s.m = .returned → s.artifact = false) ∧
    (s.m = .returned → writer = true → s.w = .done ∧ s.printed = writerOut s.emitted) := by
  have hi := inv_reachable h
  have hs : s.sOk = false := by rw [hi.sOk_iff, hp]; rfl
  refine ⟨hi.aborted rfl, fun hc => by rw [(hi.c_done hc).2, hs], fun hm => ?_, fun hm hw => ?_⟩
  · obtain ⟨hc, ha⟩ := hi.m_past hm
    rw [ha, (hi.c_done hc).2, hs]
  · have := (Threads_bestmove_before_return h hm).2.2.2 hw
    exact ⟨this.1, this.2.2.2⟩

/-- **Threads_preF8_never_returns.**  Before the repair of F8 (`join().unwrap()` in `wait_cancel`): after a panic of the
search thread `wait_cancel` NEVER gets past its first join — by `Threads_wait_cancel_ends` it therefore ends in
`aborted`: the process is gone. -/
theorem Threads_preF8_never_returns {writer timer : Bool} {s : St μ π} (h : Reachable false writer timer s)
    (hp : s.injected = true) : s.m ≠ .joinW ∧ s.m ≠ .returned := by
  have hi := inv_reachable h
  have hs : s.sOk = false := by rw [hi.sOk_iff, hp]; rfl
  have key : s.m = .joinW ∨ s.m = .returned → False := by
    intro hm
    have h1 := hi.preF8 rfl hm
    rw [(hi.c_done (hi.m_past hm).1).2, hs] at h1
    cases h1
  exact ⟨fun e => key (Or.inl e), fun e => key (Or.inr e)⟩

/-! ## 7. the timer is harmless; `Stop` is idempotent -/

/-- **Threads_timer_harmless.**
(a) T is never blocked and cannot panic: `tFire` is enabled whenever T waits, `tExit` whenever it has fired; they
    change only T's program counter, T's sender and the number of queued `Stop`s.
(b) When C has ended — in particular after everything has ended — T's `send` fails silently: only T's program counter
    changes.
(c) A step of T never disables an action of another process: T never blocks anybody. -/
theorem Threads_timer_harmless {f8 writer timer : Bool} {s : St μ π} (h : Reachable f8 writer timer s)
    (hm : s.m ≠ .aborted) :
    (s.t = .waiting → step f8 s .tFire = some { s with t := .fired, q2 := if s.rx2 then s.q2 + 1 else s.q2 }) ∧
    (s.t = .fired → step f8 s .tExit = some { s with t := .done, tt := false }) ∧
    (s.t = .waiting → s.c = .done → step f8 s .tFire = some { s with t := .fired }) ∧
    (∀ (b a : Act μ π) (s' : St μ π), b.proc = .T → step f8 s b = some s' → a.proc ≠ .T →
      Enabled f8 s a → Enabled f8 s' a) := by
  refine ⟨tFire_spec f8 s hm, tExit_spec f8 s hm, fun ht hc => ?_, fun b a s' hb hs ha hen =>
    timer_never_blocks hb hs ha hen⟩
  have hrx : s.rx2 = false := by
    have := (inv_reachable h).rx2_iff
    cases hx : s.rx2 with
    | false => rfl
    | true => exact absurd hc (this.1 hx)
  rw [tFire_spec f8 s hm ht, hrx]
  rfl

/-- **Threads_stop_idempotent.**  `StopEquiv s u`: `s` and `u` agree on everything except T's own state and the NUMBER
of queued `Stop`s, and either C is past its `recv` or both queues hold at least one `Stop`.
(a) Once a `Stop` is queued or C is past its `recv`, a further `Stop` — from T (`tFire`) or from M (`mCall` after T
    fired: the two initial orders of sending agree up to `StopEquiv`) — leads to an equivalent state.
(b) Steps of T are invisible for `StopEquiv`; every step of M, C, S, W from one of two equivalent states is matched by
    the SAME action from the other, ending in equivalent states (a bisimulation; `StopEquiv` is symmetric).
(c) Equivalent states agree on all program counters of M, C, S, W, the flag, the event channel, everything printed,
    emitted, received and on the join result.
So one `Stop` or many, from whichever senders in whichever order: same behaviour. -/
theorem Threads_stop_idempotent (f8 : Bool) :
    (∀ (s s' : St μ π), (s.c ≠ .recv ∨ 0 < s.q2) → step f8 s .tFire = some s' → StopEquiv s' s) ∧
    (∀ (s a b b' : St μ π), step f8 s .mCall = some a → step f8 s .tFire = some b → step f8 b .mCall = some b' →
      s.rx2 = true → StopEquiv a b') ∧
    (∀ (s u s' : St μ π) (b : Act μ π), StopEquiv s u → b.proc = .T → step f8 s b = some s' → StopEquiv s' u) ∧
    (∀ (s u s' : St μ π) (a : Act μ π), StopEquiv s u → a.proc ≠ .T → step f8 s a = some s' →
      ∃ u', step f8 u a = some u' ∧ StopEquiv s' u') ∧
    (∀ (s u : St μ π), StopEquiv s u → StopEquiv u s) ∧
    (∀ (s u : St μ π), StopEquiv s u →
      s.m = u.m ∧ s.c = u.c ∧ s.s = u.s ∧ s.w = u.w ∧ s.flag = u.flag ∧ s.q1 = u.q1 ∧ s.printed = u.printed ∧
      s.emitted = u.emitted ∧ s.consumed = u.consumed ∧ s.artifact = u.artifact ∧ s.sOk = u.sOk ∧ s.cOk = u.cOk) := by
  refine ⟨fun s s' h hs => stopEquiv_timer (StopEquiv.refl h) rfl hs, ?_, fun s u s' b h hb hs => stopEquiv_timer h hb hs,
    fun s u s' a h ha hs => stopEquiv_step h ha hs, fun s u h => h.symm, fun s u h => h.obs⟩
  intro s a b b' ha hb hb' hrx
  obtain ⟨m, c, ss, w, t, sOk, cOk, art, q1, sink, rx1, q2, tx2, tx3, tt, rx2, flag, best, em, co, pr, sf, inj, re⟩ := s
  simp only at hrx
  subst hrx
  have hm : m ≠ .aborted := by intro hm; simp [step, hm] at ha
  have hi : m = .idle := by
    apply Classical.byContradiction; intro hi; simp [step, hm, hi] at ha
  have ht : t = .waiting := by
    apply Classical.byContradiction; intro ht; simp [step, hm, ht] at hb
  subst hi ht
  simp [step] at ha hb
  subst ha hb
  simp [step] at hb'
  subst hb'
  simp [StopEquiv, forgetTimer]

/-- **Threads_recv_never_errs.**  `controller.recv()` never returns `Err(RecvError)`: M keeps its sender until
`wait_cancel` has returned, which is after C ended.  The `Err(mpsc::RecvError) => break` arm of the control loop is dead
code under `uci.rs` (it serves callers of `Searcher::analyze` that drop the control sender without sending `Stop`). -/
theorem Threads_recv_never_errs {f8 writer timer : Bool} {s : St μ π} (h : Reachable f8 writer timer s) :
    s.recvErr = false ∧ (s.c = .recv → s.tx2 = true) := by
  have hi := inv_reachable h
  refine ⟨hi.recvErr, fun hc => ?_⟩
  rw [hi.tx2_iff]
  intro hm
  have := (hi.m_past (Or.inr hm)).1
  rw [hc] at this; cases this

/-! ## the refinement of the session model, explicitly

`Wee/Proofs/WriterLemmas.lean` has the writer thread as a function (`writerLines`) of the `Search.Event`s of a search and
`Transcript`, the refinement of the session model's marks by printed lines, in which the lines of a running search are
`emit`ted at arbitrary moments and the `joinRunning` mark can only be passed when all of them were printed.  Here the
thread model is instantiated with `Search.Event` and its output is rendered into `WLine`s. -/

section session
open Wee.Search Wee.Uci

/-- a `Search.Event` as the protocol sees it; the payload is the event itself -/
def toEv : Search.Event → Ev Move Search.Event
  | .best ev line => .best line (.best ev line)
  | e => .other e

/-- the lines on stdout for what W prints -/
def render : Line Move Search.Event → List WLine
  | .info (.best _ e) => writerInfo [e]
  | .info (.other e) => writerInfo [e]
  | .bestmove m => [.bestmove (Move.lan m)]

theorem writerInfo_append (a b : List Search.Event) : writerInfo (a ++ b) = writerInfo a ++ writerInfo b := by
  induction a with
  | nil => rfl
  | cons e r ih => cases e <;> simp [writerInfo, ih]

theorem lastBest_toEv (evs : List Search.Event) : ∀ bl, lastBest (evs.map toEv) bl = lastLine evs bl := by
  induction evs with
  | nil => intro bl; rfl
  | cons e r ih => intro bl; cases e <;> simp only [List.map_cons, toEv, lastBest, bestAfter, lastLine, ih]

/-- the writer function of the thread model, rendered, is the writer thread of `Wee/Proofs/WriterLemmas.lean` -/
theorem render_writerOut (evs : List Search.Event) :
    (writerOut (evs.map toEv)).flatMap render = writerLines evs := by
  rw [writerLines_eq, writerOut, List.flatMap_append, lastBest_toEv]
  congr 1
  · induction evs with
    | nil => rfl
    | cons e r ih =>
      have : writerInfo (e :: r) = writerInfo [e] ++ writerInfo r := writerInfo_append [e] r
      rw [this, ← ih]
      cases e <;> rfl
  · unfold tailLines writerTail
    cases lastLine evs [] <;> rfl

/-- emitting the lines `ws` one by one, in order, is a `Transcript` -/
theorem transcript_emits {ν : Type} {A : Answers ν} {last : Option ν} {q : State} {m : ν} {outs t last' pend'} :
    ∀ (ws rest : List WLine), Transcript A last (some (q, rest, m)) outs t last' pend' →
      Transcript A last (some (q, ws ++ rest, m)) outs (ws.map (·, q) ++ t) last' pend' := by
  intro ws
  induction ws with
  | nil => intro rest h; exact h
  | cons w r ih => intro rest h; exact Transcript.emit (ih rest h)

/-- **Threads_refines_session.**  Take ANY run of the thread system of a search with writer and timer (the code as it
stands) from its start to a state in which `wait_cancel` has returned, `evs` being the `Search.Event`s the search thread
emitted.  Whatever the session specification `A` allows a search that emits `evs` to print (`A.search mem p d
(writerLines evs) art` — in `sessionAnswers` this is literally `ws = writerLines out.events`), the lines the thread system
HAS printed when the join returns are a `Transcript` of the session marks `searchStarted … ; joinRunning`:
every line of `writerLines evs`, in order, all of them before the join mark is passed, nothing afterwards
(`Threads_nothing_after_return`), with the artifact handed back — and the join result is `Some` iff no thread panicked
(`Threads_join_result`, the model's `searchOk`).  Moreover at every EARLIER moment `s₀` of the run the lines printed so
far are a prefix: they extend, by `Transcript.emit` steps, to the same transcript. -/
theorem Threads_refines_session {ν : Type} (A : Answers ν) {timer : Bool}
    {s₀ s : St Move Search.Event} (h₀ : Reachable true true timer s₀) (acts : List (Act Move Search.Event))
    (hr : runActs true s₀ acts = some s) (hm : s.m = .returned)
    (evs : List Search.Event) (hev : s.emitted = evs.map toEv)
    (last : Option ν) (p p' : State) (d : Option Nat) (mt : Option Int) (reuse : Bool) (art : ν)
    (hreuse : reuse = true → last.isSome = true)
    (hA : A.search (if reuse then last else Option.none) p d (writerLines evs) art) :
    s.printed.flatMap render = writerLines evs ∧
    Transcript A last Option.none [(.searchStarted d mt reuse, p), (.joinRunning, p')]
      ((s.printed.flatMap render).map (·, p)) (some art) Option.none ∧
    ∃ rest, s₀.printed.flatMap render ++ rest = writerLines evs ∧
      Transcript A Option.none (some (p, rest, art)) [(.joinRunning, p')] (rest.map (·, p)) (some art) Option.none := by
  obtain ⟨l, hl, hp⟩ := Threads_refines_writer h₀ acts hr hm
  have hfull : s.printed.flatMap render = writerLines evs := by rw [hp, hev, render_writerOut]
  have hjoin : ∀ rest : List WLine,
      Transcript A Option.none (some (p, rest, art)) [(.joinRunning, p')] (rest.map (·, p)) (some art) Option.none := by
    intro rest
    have h1 : Transcript A Option.none (some (p, [], art)) [(.joinRunning, p')] [] (some art) Option.none :=
      Transcript.join p' (Transcript.done (some art) Option.none)
    have := transcript_emits (A := A) rest [] h1
    simpa using this
  refine ⟨hfull, ?_, l.flatMap render, ?_, hjoin _⟩
  · rw [hfull]
    exact Transcript.start d mt reuse p hreuse hA (hjoin _)
  · rw [← List.flatMap_append, hl, hev, render_writerOut]

/-- a search that emits `Progress` and `BestMove (e2e4 e7e5)`, stopped by M while it runs (the events, as `Search.Event`s) -/
def exEvents : List Search.Event := [.progress 1 20, .best 35 [(302018753 : UInt32), 33592129]]

def exActs : List (Act Move Search.Event) :=
  [.sEmit (toEv (.progress 1 20)), .wRecv, .sEmit (toEv (.best 35 [(302018753 : UInt32), 33592129])), .mCall, .cRecv,
   .cCancel, .sNotice, .sSendStop, .sDropSink, .sDropTx3, .sFinish, .cJoin, .mJoinC, .wRecv, .wClosed, .wTail, .mJoinW]

/-- the hypotheses of `Threads_refines_session` are satisfiable, and the rendered output is what one expects -/
example : ∃ s : St Move Search.Event, runActs true (init true true) exActs = some s ∧ s.m = .returned ∧
    s.emitted = exEvents.map toEv ∧
    s.printed.flatMap render = [.infoTime 1 20, .infoScore 35, .infoPv ["e2e4", "e7e5"], .bestmove "e2e4"] :=
  ⟨_, rfl, rfl, rfl, by decide +kernel⟩

end session

/-! ## non-vacuity: concrete runs, kernel-checked

Events over `μ = Nat` (moves), `π = Unit`.  Every run starts in `init true true` (writer and timer present) unless said
otherwise, and is replayed by the kernel (`decide +kernel` evaluates `runActs`). -/

section runs

abbrev A0 := Act Nat Unit
def evB (l : List Nat) : Ev Nat Unit := .best l ()
def evO : Ev Nat Unit := .other ()

/-- what is looked at in the final state -/
structure View where
  m : MPc
  c : CPc
  s : SPc
  w : WPc
  artifact : Bool
  printed : List (Line Nat Unit)
  q2 : Nat
deriving DecidableEq, Repr

def view (r : Option (St Nat Unit)) : Option View :=
  r.map fun s => ⟨s.m, s.c, s.s, s.w, s.artifact, s.printed, s.q2⟩

/-- **normal completion by the depth limit**; the user sends `stop` much later: S emits a `Progress` and a `BestMove`,
ends by itself, sends `Stop`; C takes it, cancels, joins; W prints and ends; then M calls `wait_cancel` — its `Stop` is
sent into a channel whose receiver is gone (ignored) and both joins return at once. -/
def runDepth : List A0 :=
  [.sEmit evO, .sEmit (evB [7, 8]), .sEndSelf, .sSendStop, .sDropSink, .sDropTx3, .sFinish, .cRecv, .cCancel, .cJoin,
   .wRecv, .wRecv, .wClosed, .wTail, .mCall, .mJoinC, .mJoinW]

set_option maxRecDepth 1000000 in
theorem runDepth_ok : view (runActs true (init true true) runDepth) =
    some ⟨.returned, .done, .done, .done, true, [.info evO, .info (evB [7, 8]), .bestmove 7], 0⟩ := by decide +kernel

/-- **`Stop` during the search**: M's `Stop` arrives while S runs; C cancels; S emits one more `BestMove` (the interrupt
path), then notices; the drops happen in the other order; the writer's `bestmove` is the head of the LAST line. -/
def runStopDuring : List A0 :=
  [.sEmit (evB [1]), .mCall, .wRecv, .cRecv, .cCancel, .sEmit (evB [2, 3]), .sNotice, .sSendStop, .sDropTx3, .sDropSink,
   .sFinish, .cJoin, .mJoinC, .wRecv, .wClosed, .wTail, .mJoinW]

set_option maxRecDepth 1000000 in
theorem runStopDuring_ok : view (runActs true (init true true) runStopDuring) =
    some ⟨.returned, .done, .done, .done, true, [.info (evB [1]), .info (evB [2, 3]), .bestmove 2], 1⟩ := by
  decide +kernel

/-- **`Stop` before the first event**: nothing is emitted, nothing is printed — no `bestmove` (C03's "at least one
report" is a property of `analyze_iterative`, not of the protocol). -/
def runStopBefore : List A0 :=
  [.mCall, .cRecv, .cCancel, .sNotice, .sSendStop, .sDropSink, .sDropTx3, .sFinish, .cJoin, .mJoinC, .wClosed, .wTail,
   .mJoinW]

set_option maxRecDepth 1000000 in
theorem runStopBefore_ok : view (runActs true (init true true) runStopBefore) =
    some ⟨.returned, .done, .done, .done, true, [], 1⟩ := by decide +kernel

/-- **panic of the search thread** (F8 scenario) with the code as it stands: S panics after one `BestMove`; its senders
are dropped without a `Stop`; W drains the channel and prints the `bestmove` of what it received; C stays in `recv`
until M's `Stop`, then panics at `join().unwrap()`; `wait_cancel` returns `None`. -/
def runPanic : List A0 :=
  [.sEmit (evB [5]), .sPanic, .sDropSink, .sDropTx3, .sFinish, .wRecv, .wClosed, .wTail, .mCall, .cRecv, .cCancel,
   .cJoin, .mJoinC, .mJoinW]

set_option maxRecDepth 1000000 in
theorem runPanic_ok : view (runActs true (init true true) runPanic) =
    some ⟨.returned, .done, .done, .done, false, [.info (evB [5]), .bestmove 5], 0⟩ := by decide +kernel

/-- the same scenario **before the repair of F8**: `join().unwrap()` in `wait_cancel` takes the process down — here
even before W printed the `bestmove` of the event it had not yet received. -/
def runPreF8 : List A0 :=
  [.sEmit (evB [5]), .sPanic, .sDropSink, .sDropTx3, .sFinish, .mCall, .cRecv, .cCancel, .cJoin, .mJoinC]

set_option maxRecDepth 1000000 in
/-- **Threads_preF8_aborts**: a kernel-checked witness run of the pre-F8 code reaching "process aborted" -/
theorem Threads_preF8_aborts :
    ∃ (acts : List A0) (s : St Nat Unit), runActs false (init true true) acts = some s ∧ s.m = .aborted ∧
      s.injected = true ∧ s.printed = [] ∧ s.q1 = [evB [5]] :=
  ⟨runPreF8, _, rfl, by decide +kernel, by decide +kernel, by decide +kernel, by decide +kernel⟩

/-- the same actions with the repaired code do not abort -/
theorem runPreF8_repaired : (runActs true (init true true) runPreF8).map (·.m) = some .joinW := by decide +kernel

/-- **the timer fires first**, M's `Stop` comes second (two `Stop`s, one is never read), T ends in the middle -/
def runTimer : List A0 :=
  [.sEmit (evB [4]), .tFire, .cRecv, .cCancel, .mCall, .sNotice, .sSendStop, .sDropSink, .sDropTx3, .sFinish, .cJoin,
   .tExit, .mJoinC, .wRecv, .wClosed, .wTail, .mJoinW]

set_option maxRecDepth 1000000 in
theorem runTimer_ok : view (runActs true (init true true) runTimer) =
    some ⟨.returned, .done, .done, .done, true, [.info (evB [4]), .bestmove 4], 2⟩ := by decide +kernel

/-- **the timer fires after everything has ended**: its `send` fails silently, T ends -/
def runLateTimer : List A0 := runDepth ++ [.tFire, .tExit]

set_option maxRecDepth 1000000 in
theorem runLateTimer_ok : view (runActs true (init true true) runLateTimer) =
      some ⟨.returned, .done, .done, .done, true, [.info evO, .info (evB [7, 8]), .bestmove 7], 0⟩ ∧
    (runActs true (init true true) runLateTimer).map (·.t) = some .done ∧
    (runActs true (init true true) runLateTimer).map (·.tt) = some false := by
  refine ⟨?_, ?_, ?_⟩ <;> decide +kernel

/-- **no writer, receiver dropped in the middle** (`Searcher::analyze` used directly, no timer): the caller reads one
event, S emits another, the caller drops the receiver, S's next `send` fails and is ignored; S ends normally and the
join returns the artifact. -/
def runDirect : List A0 :=
  [.sEmit (evB [9]), .callerRecv, .sEmit evO, .callerDrop, .sEmit (evB [6]), .sEndSelf, .sSendStop, .sDropSink,
   .sDropTx3, .sFinish, .mCall, .cRecv, .cCancel, .cJoin, .mJoinC, .mJoinW]

set_option maxRecDepth 1000000 in
theorem runDirect_ok : view (runActs true (init false false) runDirect) =
      some ⟨.returned, .done, .done, .absent, true, [], 1⟩ ∧
    (runActs true (init false false) runDirect).map (fun s => (s.emitted.length, s.q1, s.rx1, s.sOk)) =
      some (3, [], false, true) := by
  refine ⟨?_, ?_⟩ <;> decide +kernel

/-! ### the hypotheses of the theorems are satisfiable -/

/-- a reachable state in which S is about to send `Stop` (Theorem 1), with the receiver alive -/
example : ∃ s : St Nat Unit, Reachable true true true s ∧ s.s = .sendStop ∧ s.rx2 = true :=
  ⟨_, runActs_reachable (s' := (runActs true (init true true) [Act.sEmit evO, .sEndSelf]).get (by decide +kernel))
      [Act.sEmit evO, .sEndSelf] Reachable.init (by simp),
    by decide +kernel, by decide +kernel⟩

/-- a reachable state in which M is blocked in its first join, C in `recv` with M's `Stop` queued, S still running
(Theorem 2) — the helpful action is `cRecv` -/
example : ∃ s : St Nat Unit, Reachable true true true s ∧ s.m = .joinC ∧ s.s = .run ∧ helpful s = .cRecv :=
  ⟨_, runActs_reachable (s' := (runActs true (init true true) [Act.sEmit evO, .mCall]).get (by decide +kernel))
      [Act.sEmit evO, .mCall] Reachable.init (by simp),
    by decide +kernel, by decide +kernel, by decide +kernel⟩

/-- reachable states with `wait_cancel` returned exist, with a `bestmove` printed (Theorems 3, 4), after a panic
(Theorem 6) and without a writer (Theorem 5) -/
example : ∃ s : St Nat Unit, Reachable true true true s ∧ s.m = .returned ∧ Line.bestmove 7 ∈ s.printed :=
  ⟨_, runActs_reachable (s' := (runActs true (init true true) runDepth).get (by decide +kernel))
      runDepth Reachable.init (by simp),
    by decide +kernel, by decide +kernel⟩

example : ∃ s : St Nat Unit, Reachable true true true s ∧ s.m = .returned ∧ s.injected = true :=
  ⟨_, runActs_reachable (s' := (runActs true (init true true) runPanic).get (by decide +kernel))
      runPanic Reachable.init (by simp),
    by decide +kernel, by decide +kernel⟩

example : ∃ s : St Nat Unit, runActs true (init false false) runDirect = some s ∧ Act.sPanic ∉ runDirect ∧
    s.m = .returned :=
  ⟨(runActs true (init false false) runDirect).get (by decide +kernel), by simp, by decide +kernel, by decide +kernel⟩

/-- a weakly fair execution in which M waits exists (the hypotheses of `Threads_wait_cancel_returns` and of `Threads_search_answers`): `runStopDuring`
followed by stuttering — in its final state no guaranteed action is enabled -/
example : ∃ (e : Exec (step true (μ := Nat) (π := Unit))), e.st 0 = init true true ∧
    (∀ a : A0, a.fair = true → WeakFair e a) ∧ ((e.st 2).m = .joinC) ∧ Triggered (e.st 2) := by
  have hrun : runList (step true) (init true true) runStopDuring =
      some ((runActs true (init true true) runStopDuring).get (by decide +kernel)) := by
    rw [← runActs_eq_runList]; simp
  refine ⟨Exec.ofRun (step true) (init true true) runStopDuring (by rw [hrun]; rfl), stAt_zero _ _ _, ?_, ?_, ?_⟩
  · intro a ha
    apply Exec.ofRun_fair (step true) (init true true) _ runStopDuring hrun
    cases a <;> first | (cases ha; done) | decide +kernel
  · show (stAt (step true) (init true true) runStopDuring 2).m = .joinC
    decide +kernel
  · refine Or.inr (Or.inr (Or.inr ⟨?_, ?_⟩))
    · show (stAt (step true) (init true true) runStopDuring 2).c = .recv
      decide +kernel
    · show 0 < (stAt (step true) (init true true) runStopDuring 2).q2
      decide +kernel

end runs

end Wee.Threads
