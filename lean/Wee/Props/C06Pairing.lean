import Wee.Proofs.PairingLemmas
import Wee.Props.Interleave
/-!
# C06, residue S2: "the reported first move keeps the mate" with several workers, under every schedule

Rust: `weechess-engine/src/searcher.rs`, `Searcher::analyze_iterative`.  After the workers of an iteration are joined, the
reported evaluation is the MAXIMUM of the workers' root values (`evaluations.iter().max()`), while the reported line is read
back from the shared transposition table (`iter_moves`), whose entry under the root key is overwritten by every worker that
was not answered by its first probe, when it finishes its root call.  Odd-numbered workers search one ply shallower.
Model: `Wee/Model/SearchEnv.lean` (`Interleaving`, `StepS`, `joinOf`, `finishStep`); lemmas: `Wee/Proofs/PairingLemmas.lean`.

`MoveKeeps root (.best ev line)` (Wee/Proofs/MateRoot.lean): `ev ≥ POS_INF →` the first move of `line` is a legal move of
the root into a position that is `Lost` (forced mate of ANY length) for the opponent.

## What is decided here (residue S2 of DESIGN.md §0.3)

**Theorems — any seeds, any poll offsets, ANY interleaving of the atomic table operations.**

1. `C06_first_move_any_workers_of_winning_root_entry` (any number of workers) — one iteration (`StepData` = `StepS` with
   its schedule visible): if, whenever the iteration completes with a winning maximum, the entry under the root key in
   the joined table has a winning value (`PairedAt`, decidable), then every report of the iteration keeps the mate and the
   loop invariant holds again.  This isolates the whole residue in ONE table lookup: soundness of the table (`SoundTT`,
   proved for every schedule) already makes every winning entry carry a mating move; the only thing that can go wrong is
   that the entry read back is a NON-winning one.
2. `C06_winning_value_is_root_entry_value` (one worker, any environment) — the shape of a root call: first operation =
   probe of the root key; a store under the root key is the LAST operation and carries exactly the returned value
   (`depth = 0`, `max_depth = search_depth`); a winning returned value is the value of the probed entry or of that store;
   an entry that `Answers` ends the run at the probe.  Nothing below the root stores under the root key
   (`searchNodeE_deep_noKey`: the repetition test cuts first).
3. `C06_shallow_workers_never_write_root` (any number of workers) — if the iteration starts with a root entry that answers
   depth `sd`, all workers search at least `sd` deep and the root's bucket is never full (`RootRoomy` at every moment:
   no displacement), every worker of depth exactly `sd` is answered by its probe and never writes.  This is the structural
   explanation of the empty forced-schedule hunt (`tools/hunt_s2.py`), now proved for every schedule.  Without any
   hypothesis on buckets, `interleaving_rootAdm` still shows: every store under the root key, by whichever worker,
   answers depth `sd` (rely/guarantee).
4. `C06_first_move_any_workers_one_deep_writer` — the pairing clause itself, every schedule, for "worker 0 deeper, all
   other started workers at depth `sd`": with the layout of `analyze_iterative` this is every iteration `depth ≥ 1` with at
   most two workers.  Hypotheses: root entry at the start answers `sd` and is not winning; root bucket never full.

**Refuted (not kernel-checked; compiled model `weedriver`-level, schedule validated by the executable `Interleaving` check
`okOuts` of `Driver/Interleave.lean`; to be replayed on the real engine).**  Hypothesis `RootRoomy` of 3./4. cannot be
dropped: with a ONE-bucket table (`tables = 1, buckets = 1`, 8 slots) worker 0 displaces the root entry, the shallow worker 1
probes after that, searches one ply shallower, and — scheduled last — overwrites worker 0's winning root entry.
`3R4/4p3/8/8/8/8/8/4K2k w - - 0 1` (mate in 2 by `Ke1-f2`), seed 2193639750, depth limit 3, 2 workers, iteration `depth = 2`:
worker 0 performs 22 table operations, worker 1 runs completely except its root store, worker 0 finishes (value 10700,
root entry `Kf2`), worker 1's store (`Exact`, value 536, `Rd8-e8`) lands.  Report: `best:10700:268497844` (`Rd8-e8`), and
`matecheck` answers `first-move-loses-the-mate` (no mate within the claimed distance + 4).  CAVEAT for the formal
predicate: `MoveKeeps` asks `Lost` of ANY length; after `Rd8-e8` White (K+R v K+P) still wins, so this instance
violates the oracle's reading of C06 (the mate the score claims), not `MoveKeeps` as defined.  An instance with a
stalemating or material-losing wrong move was not found in the time available.

**Open.**
* Several workers of the SAME (deepest) depth — workers 0, 2, 4, … of `analyze_iterative` from 3 workers on.  By 2. the
  entry read back is the store of the even worker that finished last; nothing forces that worker's value to be winning when
  another one's is: same-depth searches can differ through table grafting (an entry stored with more remaining depth is
  re-used at a shallower request; compiled-model runs on `1K6/8/8/3k4/7R/8/8/2Q5 w` find the mate in iteration 5 for some
  seeds and in iteration 6 for others).  A concrete schedule exhibiting a mis-pair WITHOUT displacement was searched for
  (coarse two-phase schedules and random fine-grained schedules, ≈ 3 000 iterations) and not found: every store of the
  loser poisons the winner's graft and vice versa.  Neither a theorem nor a counterexample.
* `RootRoomy` is asked at every moment of the iteration; that fullness of a bucket is monotone (so that the condition
  on the joined table suffices) is not proved here.
* Iteration `depth = 0` with two workers (both search depth 1) is outside 4. (no root entry yet); 1.–3. apply.
-/
namespace Wee
open Wee.Search Wee.Env Wee.Pairing Wee.C06 Wee.Outcome

/-- **C06_first_move_any_workers_of_winning_root_entry.**  One iteration of `analyze_iterative` with ANY number of workers
under ANY interleaving `d.H` of their table operations (`d : StepData …` is `StepS` with the schedule named).  Hypotheses:
the domain / table / loop invariant of `C06_search_any_schedule`, and the pairing condition `PairedAt` on the joined
results: "if no worker was interrupted and the maximum of the workers' values is winning, then the entry found under the
root key in the joined table has a winning value".  Conclusion: the loop invariant holds after the iteration and every
event it emits satisfies `MoveKeeps` — the first move of a winning report leads to a position in which the opponent is
`Lost`. -/
theorem C06_first_move_any_workers_of_winning_root_entry {K : Keys} {D : State → Prop} {L nT nB : Nat}
    (g : C06.Geo L nT nB) (dom : C06.Domain K D) (ctx : Ctx) (hK : ctx.keys = K) (root : State) (hD : D root)
    (workers depth : Nat) (st st' : IterSt) (h : C06.IterOK K D L nT nB root st)
    (d : StepData ctx root (hash ctx.keys root) workers depth st st')
    (hpair : PairedAt (hash ctx.keys root).toNat d.join st) :
    C06.IterOK K D L nT nB root st' ∧ ∃ new, st'.events = st.events ++ new ∧ ∀ ev ∈ new, C06.MoveKeeps root ev :=
  stepData_keeps g dom ctx hK root hD _ rfl workers depth st st' h d hpair

/-- `StepData` is `StepS` with the existential opened -/
example (ctx : Ctx) (root : State) (rootHash : UInt64) (workers depth : Nat) (st st' : IterSt) :
    StepS ctx root rootHash workers depth st st' ↔ Nonempty (StepData ctx root rootHash workers depth st st') :=
  ⟨StepData.of_stepS, fun ⟨d⟩ => d.stepS⟩

/-- **C06_winning_value_is_root_entry_value** (the root call of one worker, ANY environment).  A worker of search depth
`≥ 1` whose root key is in the history (as `analyze_iterative` arranges) first probes the root key (result `r0`: what the
shared table holds after the foreign stores that precede the probe).  Then
* either it stores nothing under the root key, and a winning value it returns is the value of the probed entry,
* or its LAST table operation is the store under the root key of exactly the value it returns, with `depth = 0`,
  `max_depth = search_depth`, kind `Exact` — or `LowerBound` with value `11000`, or after an `UpperBound` probe;
* an entry that `Answers` (enough remaining depth and `Exact`, or a lower bound `≥ 11000`) ends the run with the probe.
So every winning value a worker returns was, at the moment of its probe or right after its last operation, the value of
the entry under the root key of the shared table. -/
theorem C06_winning_value_is_root_entry_value (env : Env) (ctx : Ctx) (root : State) (w : Worker) (tt : TT.Access)
    (hhist : ctx.history.contains (hash ctx.keys root) = true) (hsd : 1 ≤ w.searchDepth) :
    RootShape (hash ctx.keys root).toNat w.searchDepth
      ((applyInserts tt (env.script 0)).find (hash ctx.keys root).toNat) (runWorkerE env ctx root w tt) :=
  runWorkerE_rootShape env ctx root w tt hhist hsd

/-- **C06_shallow_workers_never_write_root** (any number of workers, any schedule): the structural reason why the
forced-schedule hunt on the real engine found nothing, as a theorem.  If the iteration starts with an entry under the root
key that answers depth `sd` (remaining depth `≥ sd` and kind `Exact`: what the previous iteration leaves), every worker
searches at least `sd` deep, and the root's bucket has a free slot at every moment of the iteration (`RootRoomy`: the root
entry cannot be displaced), then under EVERY interleaving every worker of depth exactly `sd` — the odd-numbered, one ply
shallower workers of `analyze_iterative` — performs exactly one table operation, the probe of the root key, is answered
by it, and returns the value of the shared table's root entry at that moment.  It never writes. -/
theorem C06_shallow_workers_never_write_root {L nT nB : Nat} (g : C06.Geo L nT nB) (ctx : Ctx) (root : State)
    (tt : TT.Access) (ws : List Worker) (H : History) (hI : Interleaving ctx root tt ws H)
    (hhist : ctx.history.contains (hash ctx.keys root) = true) (sd : Nat)
    (hws : ∀ w ∈ ws, 1 ≤ w.searchDepth ∧ sd ≤ w.searchDepth)
    (htt : RootOK L nT nB (hash ctx.keys root).toNat sd tt)
    (h0 : (tt.find (hash ctx.keys root).toNat).isSome = true)
    (hroomy : ∀ n, RootRoomy nT nB (hash ctx.keys root).toNat (History.table tt (H.take n)))
    (i : Nat) (hi : i < ws.length) (hsd : ws[i].searchDepth = sd) :
    ∃ y n, (History.table tt (H.take n)).find (hash ctx.keys root).toNat = some y ∧ Answers sd y ∧
      H.proj i = [TOp.find (hash ctx.keys root).toNat (some y)] ∧
      outcomeOf ctx root tt ws[i] H i = .ok y.eval :=
  shallow_workers_answered g ctx root tt ws H hI hhist sd hws htt h0 hroomy i hi hsd

/-- **C06_first_move_any_workers_one_deep_writer** (one iteration, ANY interleaving): the multi-worker pairing clause as a
theorem for the configuration "worker 0 searches deeper, every other started worker searches exactly the depth `sd` that
the root entry left by the previous iteration answers" — with the worker layout of `analyze_iterative`
(`search_depth = depth - i % 2 + 1`) this is every iteration `depth ≥ 1` run with at most TWO workers (`sd = depth`).
Hypotheses beyond those of `C06_search_any_schedule`:
* `hx0`/`hans`/`hnw`: the iteration starts with an entry `x0` under the root key that answers depth `sd` (remaining depth
  `≥ sd`, kind `Exact` — what the previous iteration's worker 0 stored) and is not winning (otherwise the previous
  iteration would have ended the search);
* `hroomy`: the bucket of the root key has a free slot at every moment of the iteration, so the root entry is never
  displaced (decidable on `(st.tt, d.H)`; always true of the 1 GiB table of the real engine in the first iterations);
* `hbe`: the loop has not yet recorded a winning evaluation.
Conclusion: every report of the iteration keeps the mate (`MoveKeeps`), whatever the schedule — in particular when the
shallow worker is scheduled last: it is answered by its probe and never writes
(`C06_shallow_workers_never_write_root`), so the entry read back is worker 0's own store or the untouched `x0`. -/
theorem C06_first_move_any_workers_one_deep_writer {K : Keys} {D : State → Prop} {L nT nB : Nat}
    (g : C06.Geo L nT nB) (dom : C06.Domain K D) (ctx : Ctx) (hK : ctx.keys = K) (root : State) (hD : D root)
    (hhist : ctx.history.contains (hash ctx.keys root) = true)
    (workers depth : Nat) (st st' : IterSt) (h : C06.IterOK K D L nT nB root st)
    (d : StepData ctx root (hash ctx.keys root) workers depth st st') (sd : Nat)
    (hws : ∀ w ∈ d.started, 1 ≤ w.searchDepth ∧ sd ≤ w.searchDepth)
    (hshallow : ∀ i (hi : i < d.started.length), 1 ≤ i → d.started[i].searchDepth = sd)
    (x0 : TT.Entry) (hx0 : st.tt.find (hash ctx.keys root).toNat = some x0) (hans : Answers sd x0)
    (hnw : x0.eval < 10000)
    (hroomy : ∀ n, RootRoomy nT nB (hash ctx.keys root).toNat (History.table st.tt (d.H.take n)))
    (hbe : st.bestEval < Ev.posInf) :
    C06.IterOK K D L nT nB root st' ∧ ∃ new, st'.events = st.events ++ new ∧ ∀ ev ∈ new, C06.MoveKeeps root ev :=
  stepData_keeps g dom ctx hK root hD _ rfl workers depth st st' h d
    (one_deep_writer_paired g ctx root st.tt d.started d.H d.il hhist sd hws hshallow
      ⟨h.1.1, fun y hy => by rw [hx0] at hy; cases hy; exact hans⟩ x0 hx0 hnw hroomy d.polls' st hbe)

/-! ## non-vacuity -/

open Wee.InterleaveExample in
set_option maxRecDepth 1000000 in
/-- **the hypotheses are satisfiable on a genuinely concurrent instance**: the two-worker, non-sequential execution `ilH`
of `Wee/Props/Interleave.lean` (both workers miss on the root before either stores it) is a `StepData`, for every seed,
and its joined results satisfy the pairing condition `PairedAt` (decided by evaluation: both workers return the stalemate
value 0) -/
example (rng0 : Rng.ChaCha8) : ∃ (st st' : IterSt) (d : StepData ilCtx c03Root (hash c03KeyTable.keys c03Root) 2 0 st st'),
    d.H = ilH ∧ PairedAt (hash c03KeyTable.keys c03Root).toNat d.join st := by
  obtain ⟨a, b, hab⟩ := drawSeeds_two rng0
  have hws : workersOfIteration 0 Option.none (drawSeeds 2 rng0).1 (fun _ => 0) =
      [Worker.ofIteration 0 Option.none 0 a 0, Worker.ofIteration 0 Option.none 1 b 0] := by rw [hab]; rfl
  have hI := il_interleaving_gen (Worker.ofIteration 0 Option.none 0 a 0) (Worker.ofIteration 0 Option.none 1 b 0)
    rfl rfl rfl rfl
  obtain ⟨_, _, je, _⟩ := il_join (Worker.ofIteration 0 Option.none 0 a 0) (Worker.ofIteration 0 Option.none 1 b 0)
    rfl rfl rfl rfl 0
  obtain ⟨st0, hst0⟩ : ∃ s : IterSt, s =
      { tt := ilTT, rng := rng0, events := [], nodes := 0, bestEval := Ev.negInf, bestMv := Option.none, polls := 0 } :=
    ⟨_, rfl⟩
  obtain ⟨st1, hst1⟩ : ∃ s : IterSt, s = finishStep ilCtx c03Root (hash c03KeyTable.keys c03Root) 0 (drawSeeds 2 st0.rng).2
      (joinOf ilCtx c03Root st0.tt [Worker.ofIteration 0 Option.none 0 a 0, Worker.ofIteration 0 Option.none 1 b 0] ilH 0)
      st0 := ⟨_, rfl⟩
  have hrng : st0.rng = rng0 := by rw [hst0]
  have htt : st0.tt = ilTT := by rw [hst0]
  have hbm : st0.bestMv = Option.none := by rw [hst0]
  refine ⟨st0, st1, ⟨fun _ => 0, [Worker.ofIteration 0 Option.none 0 a 0, Worker.ofIteration 0 Option.none 1 b 0], ilH, 0,
      by rw [hbm, hrng, hws]; exact List.Sublist.refl _, fun _ _ => by rw [hbm, hrng, hws], by rw [htt]; exact hI, hst1⟩,
      rfl, ?_⟩
  intro _ hwin
  exfalso
  have : reportedEval (joinOf ilCtx c03Root st0.tt
      [Worker.ofIteration 0 Option.none 0 a 0, Worker.ofIteration 0 Option.none 1 b 0] ilH 0) st0 = 0 := by
    unfold reportedEval
    rw [htt, je]
    rfl
  have hwin' : Ev.posInf ≤ reportedEval (joinOf ilCtx c03Root st0.tt
      [Worker.ofIteration 0 Option.none 0 a 0, Worker.ofIteration 0 Option.none 1 b 0] ilH 0) st0 := hwin
  rw [this] at hwin'
  exact absurd hwin' (by decide)

end Wee
