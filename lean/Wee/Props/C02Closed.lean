import Wee.Props.C02
import Wee.Proofs.ApplyClosed
/-!
# C02 closed over C01's generator characterisation

`Wee/Props/C02.lean` proves make-move correct for every move that satisfies the explicit hypotheses
`C02.MoveFits`.  `Wee/Proofs/MoveGenLemmas.lean` (C01) characterises the generated pseudo-legal moves
as the rule-level pseudo-legal moves.  `Wee/Proofs/ApplyBridge.lean` shows that these fit.  Hence:

* `C02_generatedMovesFit` — the hypothesis of `C02_apply_partial` holds;
* `C02_apply` — the full statement `C02_apply_statement`, unconditionally;
* `C02_applyCorrect` — the interface hypothesis `ApplyCorrect` that the C01 theorems take;
* `C02_successor_invariants` — the successor of every listed legal move has a placement without
  overlaps and sound castling rights;
* `C02_closed` — that successor is again a legal position (`LegalPos`), so everything applies to the
  successor of a successor …: `C02_line` (any finite line of listed legal moves) and
  `C02_queries_closed` (any accepted sequence of move queries, as `by_performing_moves` runs them).

(Here `MoveFits` of C01 is `_root_.Wee.MoveFits`; the one of C02 is `Wee.C02.MoveFits`.)
-/
namespace Wee
open Wee.C10 (DisjointBoard)

/-- every entry of the engine's legal-move list, in a legal position without overlaps, is a
well-formed description (`C02.MoveFits`) of a rule-level pseudo-legal move -/
theorem C02_generatedMovesFit : GeneratedMovesFit := by
  intro s hl hd r hr
  unfold legalMoves at hr
  cases h : legalMoves? s with
  | none => rw [h] at hr; cases hr
  | some ms =>
    rw [h] at hr
    obtain ⟨_, ps, hps, hmem⟩ := C02.mem_legalMoves? h hr
    obtain ⟨sm, hfit, _⟩ := C02.pseudo_generated_fit s hl hd ps hps r.1 hmem
    exact ⟨sm, hfit⟩

/-- **C02 (apply), full statement.**  For every legal position (placement without overlaps) and
every entry `(move, next)` of `MoveGenerator::compute_legal_moves`, `move` reads as a rule-level move
`sm` and `next` — the position `State::by_performing_move` produced — reads as the rule-level
successor `Spec.applyMove (abs s) sm`: placement incl. en-passant victim / castling rook / promoted
piece, side to move, castling rights, en-passant target, halfmove clock, fullmove number. -/
theorem C02_apply : C02_apply_statement := C02_apply_partial C02_generatedMovesFit

/-- the hypothesis `ApplyCorrect` of the C01 theorems (`legalMoves_spec`, …) -/
theorem C02_applyCorrect : ApplyCorrect := C02.applyCorrect

/-- the invariants needed to apply C02 again hold for every listed successor -/
theorem C02_successor_invariants (s : State) (hl : LegalPos s = true) (hd : DisjointBoard s.pieces)
    (r : Move × State) (hr : r ∈ legalMoves s) : DisjointBoard r.2.pieces ∧ C02.RightsSound r.2 := by
  obtain ⟨sm, hfit⟩ := C02_generatedMovesFit s hl hd r hr
  exact C02_disjoint_preserved s r.2 r.1 sm hfit (C02.rightsSound_of_legal hl hd) (C02.mem_legalMoves hr)


/-- **C02_closed.**  For every legal position (placement without overlaps) and every entry
`(move, next)` of the legal-move list, `next` is a legal position: 64 cells, exactly one king each,
the side that just moved is not in check, no pawn on rank 1 / 8, held castling rights only with king
and rook at home, en-passant target only directly behind a pawn that just double-stepped.  (Same
statement as `LegalClosed` in `Wee/Props/C01.lean`.) -/
theorem C02_closed : ∀ s, LegalPos s = true → DisjointBoard s.pieces →
    ∀ r ∈ legalMoves s, LegalPos r.2 = true := C02.legalClosed

/-- one move, from explicit hypotheses: a fitting, rule-level pseudo-legal move that does not leave
the own king attacked leads from a legal position to a legal position -/
theorem C02_closed_fits (s : State) (hl : LegalPos s = true) (hd : DisjointBoard s.pieces) (mv : Move)
    (sm : Spec.SMove) (hfit : C02.MoveFits s mv sm) (hps : sm ∈ Spec.pseudoMoves (abs s))
    (hlegal : Spec.isLegalAfter (abs s) sm = true) (next : State)
    (hnext : performMove s mv = some (.ok next)) : LegalPos next = true :=
  C02.legalPos_succ s hl hd mv sm hfit hps hlegal next hnext

/-- a line of play: each entry is taken from the legal-move list of the position reached so far -/
def LegalLine (s : State) : List (Move × State) → Prop
  | [] => True
  | r :: rs => r ∈ legalMoves s ∧ LegalLine r.2 rs

/-- the position at the end of a line -/
def lineEnd (s : State) : List (Move × State) → State
  | [] => s
  | r :: rs => lineEnd r.2 rs

/-- **C02 along every finite sequence of legal moves** (the successor of a successor …): from a legal
position without overlaps, the position at the end of any line of listed legal moves is legal, has no
overlaps, and reads as the rule-level position obtained by applying, in order, the rule-level moves
that the packed moves read as — each of which is legal by the rules in the position where it is played. -/
theorem C02_line (l : List (Move × State)) : ∀ (s : State), LegalPos s = true → DisjointBoard s.pieces →
    LegalLine s l →
    LegalPos (lineEnd s l) = true ∧ DisjointBoard (lineEnd s l).pieces ∧
    ∃ sms : List Spec.SMove, l.map (fun r => toSpecMove r.1) = sms.map some ∧
      abs (lineEnd s l) = sms.foldl Spec.applyMove (abs s) := by
  induction l with
  | nil => intro s hl hd _; exact ⟨hl, hd, [], rfl, rfl⟩
  | cons r rs ih =>
    intro s hl hd hline
    obtain ⟨hr, hrest⟩ := hline
    obtain ⟨sm, hsm, habs⟩ := C02_apply s hl hd r hr
    have hl' := C02_closed s hl hd r hr
    have hd' := (C02_successor_invariants s hl hd r hr).1
    obtain ⟨h1, h2, sms, h3, h4⟩ := ih r.2 hl' hd' hrest
    refine ⟨h1, h2, sm :: sms, ?_, ?_⟩
    · simp only [List.map_cons, hsm, h3]
    · simp only [List.foldl_cons]; rw [← habs]; exact h4

/-- an accepted query (`by_performing_moves` with one `MoveQuery`) leads from a legal position to a
legal position: the result is the stored successor of the one matching legal move -/
theorem C02_query_closed (s s' : State) (q : MoveQuery) (hl : LegalPos s = true) (hd : DisjointBoard s.pieces)
    (hq : performQuery s q = some (.ok s')) :
    (∃ r ∈ legalMoves s, q.test r.1 = true ∧ s' = r.2) ∧ LegalPos s' = true ∧ DisjointBoard s'.pieces := by
  unfold performQuery at hq
  cases hms : legalMoves? s with
  | none => rw [hms] at hq; cases hq
  | some ms =>
    rw [hms] at hq
    simp only [] at hq
    have hLe : legalMoves s = ms := by unfold legalMoves; rw [hms]; rfl
    generalize hf : ms.filter (fun r => q.test r.1) = F at hq
    match F, hf, hq with
    | [], _, hq => cases hq
    | [r], hf, hq =>
      simp only [] at hq
      have hmem : r ∈ ms.filter (fun r => q.test r.1) := by rw [hf]; exact List.mem_singleton.2 rfl
      obtain ⟨hr, ht⟩ := List.mem_filter.1 hmem
      have hperf := (C02.mem_legalMoves? hms hr).1
      rw [hperf] at hq
      simp only [Option.some.injEq, Except.ok.injEq] at hq
      subst hq
      rw [← hLe] at hr
      exact ⟨⟨r, hr, ht, rfl⟩, C02_closed s hl hd r hr, (C02_successor_invariants s hl hd r hr).1⟩
    | _ :: _ :: _, _, hq => cases hq

/-- **any accepted sequence of queries stays inside the legal positions** -/
theorem C02_queries_closed (qs : List MoveQuery) : ∀ (s s' : State), LegalPos s = true → DisjointBoard s.pieces →
    performQueries s qs = some (.ok s') → LegalPos s' = true ∧ DisjointBoard s'.pieces := by
  induction qs with
  | nil =>
    intro s s' hl hd h
    simp only [performQueries, Option.some.injEq, Except.ok.injEq] at h
    subst h; exact ⟨hl, hd⟩
  | cons q qs ih =>
    intro s s' hl hd h
    cases hq : performQuery s q with
    | none => simp only [performQueries, hq] at h; cases h
    | some res =>
      cases res with
      | error e => simp only [performQueries, hq] at h; cases h
      | ok s₁ =>
        rw [C02.performQueries_ok s s₁ q qs hq] at h
        obtain ⟨_, hl₁, hd₁⟩ := C02_query_closed s s₁ q hl hd hq
        exact ih s₁ s' hl₁ hd₁ h

/-- in a legal position the move generator does not panic, so a query always has a result -/
theorem C02_query_total (s : State) (q : MoveQuery) (hl : LegalPos s = true) (hd : DisjointBoard s.pieces) :
    ∃ r, performQuery s q = some r := by
  obtain ⟨_, L, _, hL, _⟩ := legalMoves_spec C02.applyCorrect s hl hd
  exact C02_coords_total s q L hL

end Wee
