import Wee.Proofs.SearchCtl
/-!
# C17 — positions already seen in the game are treated as draws by the search

Rust: `weechess-engine/src/searcher.rs` — `analyze_iterative` (`state_history.increment(game_state_hash)`),
`analyze_recursive` (`if current_depth > 0 && state_history.lookup(&state_hash).is_some() { return Ok(EVEN) }`),
`StateHistory`.  Model: `Wee/Model/Search.lean` (`Ctx.history`, `searchNode`, `iterate`).

`StateHistory` is a multiset (`HashMap<Hash, usize>`) that is only ever asked "is the key present"; the model keeps
the list of recorded keys (`List.contains`).

* `C17_draw`: a non-root node whose hash is recorded returns `EVEN` (= 0) right after the node has been counted and
  the cancellation flag polled — before the table is read, without any table write, without searching a child and
  without touching the generator; the only other outcome is the interrupt of that very poll.
* `C17_root` / `searchNode_root_unfold`: at `current_depth = 0` the history is not consulted: the root is probed in
  the table and expanded although `iterate` has just recorded it.
* `C17_iterate_records_root`, `C17_iterate_searches_with_root`: the search records the root's hash in the artifact
  it returns and searches with that extended history.
* `C17_win_statement`: the consequence for won positions; needs the completeness of the search (C06), stated only.
-/
namespace Wee.SearchCtl
open Wee Wee.Search

/-- **C17_draw.**  `analyze_recursive` on a node with `current_depth > 0` whose Zobrist key is in the state history:
the node is counted; if the new count is a multiple of the poll interval the flag is polled (and an answer
"cancelled" makes the node return `SearchInterrupt`); otherwise the result is `Ok(Evaluation::EVEN)`.
The final state differs from the initial one only in `nodes` (+1) and, when polled, `polls` (+1): the transposition
table is neither read nor written, the generator is not advanced, no child is searched — for every remaining depth,
window, prioritized move and table content. -/
theorem C17_draw (ctx : Ctx) (rem : Nat) (a : NodeArgs) (st : St)
    (hd : a.curDepth > 0) (hh : ctx.history.contains (Wee.hash ctx.keys a.s) = true) :
    (searchNode ctx rem a).run.run st =
      if (st.nodes + 1) % Gen.pollInterval = 0 then
        if cancelledAt ctx st = true
        then (.error .interrupt, { st with nodes := st.nodes + 1, polls := st.polls + 1 })
        else (.ok 0, { st with nodes := st.nodes + 1, polls := st.polls + 1 })
      else (.ok 0, { st with nodes := st.nodes + 1 }) := by
  have hc : (decide (a.curDepth > 0) && ctx.history.contains (Wee.hash ctx.keys a.s)) = true := by
    rw [hh, Bool.and_true]; exact decide_eq_true hd
  rw [searchNode_eq, nodeM_run, tick_eq]
  by_cases h1 : (st.nodes + 1) % Gen.pollInterval = 0
  · rw [if_pos h1, if_pos h1]
    by_cases h2 : cancelledAt ctx st = true
    · rw [if_pos h2, if_pos h2]
    · rw [if_neg h2, if_neg h2]
      simp only [hc, ↓reduceIte]
  · rw [if_neg h1, if_neg h1]
    simp only [hc, ↓reduceIte]

/-- the two readable corollaries: not interrupted ⇒ the value is the draw score and only the counters moved -/
theorem C17_draw_value (ctx : Ctx) (rem : Nat) (a : NodeArgs) (st : St)
    (hd : a.curDepth > 0) (hh : ctx.history.contains (Wee.hash ctx.keys a.s) = true)
    (hni : ¬ ((st.nodes + 1) % Gen.pollInterval = 0 ∧ cancelledAt ctx st = true)) :
    ∃ st', (searchNode ctx rem a).run.run st = (.ok 0, st') ∧ st'.tt = st.tt ∧ st'.rng = st.rng ∧
      st'.nodes = st.nodes + 1 ∧ (st'.polls = st.polls ∨ st'.polls = st.polls + 1) := by
  rw [C17_draw ctx rem a st hd hh]
  by_cases h1 : (st.nodes + 1) % Gen.pollInterval = 0
  · have h2 : ¬ cancelledAt ctx st = true := fun h => hni ⟨h1, h⟩
    rw [if_pos h1, if_neg h2]
    exact ⟨_, rfl, rfl, rfl, rfl, Or.inr rfl⟩
  · rw [if_neg h1]
    exact ⟨_, rfl, rfl, rfl, rfl, Or.inl rfl⟩

/-- … and the interrupted case returns `SearchInterrupt` -/
theorem C17_draw_interrupt (ctx : Ctx) (rem : Nat) (a : NodeArgs) (st : St)
    (hd : a.curDepth > 0) (hh : ctx.history.contains (Wee.hash ctx.keys a.s) = true)
    (hi : (st.nodes + 1) % Gen.pollInterval = 0 ∧ cancelledAt ctx st = true) :
    (searchNode ctx rem a).run.run st =
      (.error .interrupt, { st with nodes := st.nodes + 1, polls := st.polls + 1 }) := by
  rw [C17_draw ctx rem a st hd hh, if_pos hi.1, if_pos hi.2]

/-- the hypotheses are satisfiable: depth 1, the key of the node recorded, counter away from a poll -/
example : ∃ (ctx : Ctx) (a : NodeArgs) (st : St), a.curDepth > 0 ∧
    ctx.history.contains (Wee.hash ctx.keys a.s) = true ∧
    ¬ ((st.nodes + 1) % Gen.pollInterval = 0 ∧ cancelledAt ctx st = true) := by
  let K : Keys := { turn := fun _ => 0, piece := fun _ _ _ => 0, castle := fun _ _ => 0, epFile := fun _ => 0 }
  let s : State := default
  refine ⟨{ keys := K, history := [Wee.hash K s], cancelAt := Option.none },
    { s := s, maxDepth := 1, curDepth := 1, curExt := 0, alpha := 0, beta := 0, prioritized := Option.none },
    default, by decide, by simp, ?_⟩
  intro h
  exact absurd h.2 (by simp [cancelledAt])

/-- **C17_root (unfolding).**  At `current_depth = 0` the early `return Ok(EVEN)` is not taken whatever the history
contains: after the node is counted (and the flag possibly polled) the root is looked up in the table and, unless
the table cuts it off, searched (`contM`: quiescence at remaining depth 0, the move loop otherwise). -/
theorem searchNode_root_unfold (ctx : Ctx) (rem : Nat) (a : NodeArgs) (st : St) (h0 : a.curDepth = 0) :
    (searchNode ctx rem a).run.run st =
      match tick ctx st with
      | (.error e, st1) => (.error e, st1)
      | (.ok _, st1) =>
        match probe a (st1.tt.find (Wee.hash ctx.keys a.s).toNat) with
        | .underflow => (.error (.panic "usize subtraction underflow"), st1)
        | .cut v => (.ok v, st1)
        | .window alpha beta => (contM ctx rem a alpha beta).run.run st1 := by
  rw [searchNode_eq, nodeM_run]
  have : (decide (a.curDepth > 0) && ctx.history.contains (Wee.hash ctx.keys a.s)) = false := by
    simp [h0]
  simp only [this, Bool.false_eq_true, ↓reduceIte]
  rfl

/-- **C17_root.**  The root call does not depend on whether the root's own key is recorded: with a fresh table
entry-free for the root (`find = none`) and remaining depth `rem+1`, it runs the move loop of the root with the full
window — it is *expanded*, not valued as a draw — although `iterate` has put the root's key at the head of the
history it searches with. -/
theorem C17_root (ctx : Ctx) (rem : Nat) (a : NodeArgs) (st : St) (h0 : a.curDepth = 0)
    (hpoll : (st.nodes + 1) % Gen.pollInterval ≠ 0)
    (hfind : st.tt.find (Wee.hash ctx.keys a.s).toNat = Option.none) :
    (searchNode ctx (rem+1) a).run.run st =
      (expandM ctx (searchNode ctx rem) a (Wee.hash ctx.keys a.s) a.alpha a.beta).run.run
        { st with nodes := st.nodes + 1 } := by
  rw [searchNode_root_unfold ctx (rem+1) a st h0, tick_eq, if_neg hpoll]
  simp only [hfind, probe]
  rfl

/-- **C17_iterate_records_root.**  `analyze_iterative` returns an artifact whose history is the incoming history
plus the key of the searched position (`state_history.increment(game_state_hash)`), for every outcome of the
search (completed, interrupted, terminal root, even a panic of the model). -/
theorem C17_iterate_records_root (root : State) (rng0 : Rng.ChaCha8) (maxDepth : Option Nat) (art : Artifact)
    (workersOf : Nat → Nat) (cancelAt : Option Nat) (fuelDepth : Nat) :
    (iterate root rng0 maxDepth art workersOf cancelAt fuelDepth).artifact.history =
      Wee.hash art.keys.keys root :: art.history := rfl

/-- the hasher is handed on unchanged -/
theorem C17_iterate_keeps_keys (root : State) (rng0 : Rng.ChaCha8) (maxDepth : Option Nat) (art : Artifact)
    (workersOf : Nat → Nat) (cancelAt : Option Nat) (fuelDepth : Nat) :
    (iterate root rng0 maxDepth art workersOf cancelAt fuelDepth).artifact.keys = art.keys := rfl

/-- every worker of the search runs with the extended history (`iterCtx`), so by `C17_draw` every non-root node
whose key equals the root's key or a previously recorded key is a draw -/
theorem C17_iterate_searches_with_root (root : State) (art : Artifact) (cancelAt : Option Nat) (h : UInt64) :
    (iterCtx root art cancelAt).history.contains h = (h == Wee.hash art.keys.keys root || art.history.contains h) := by
  show (Wee.hash art.keys.keys root :: art.history).contains h = _
  rw [List.contains_cons]

/-- **C17_win (statement only; needs the completeness of the search, C06).**  If two different first moves of the
root keep a forced mate within `n` plies (`WinIn`, to be supplied by C06 as a predicate on positions and ply
budgets) and one of them leads into a position whose key is recorded in the incoming history, then a one-worker
search of depth ≥ `n` on a fresh table still ends with a `BestMove` event whose evaluation is a winning terminal
score (`≥ POS_INF`) and whose first move is not the repeating move. -/
def C17_win_statement (WinIn : Nat → State → Prop) : Prop :=
  ∀ (root : State) (n : Nat) (r1 r2 : Move × State) (rng0 : Rng.ChaCha8) (art : Artifact) (tables buckets : Nat),
    r1 ∈ legalMoves root → r2 ∈ legalMoves root → r1.1 ≠ r2.1 →
    WinIn n r1.2 → WinIn n r2.2 →
    art.tt = TT.Access.new tables buckets → 0 < tables → 0 < buckets →
    art.history.contains (Wee.hash art.keys.keys r1.2) = true →
    (∀ q, q ≠ r1.2 → art.history.contains (Wee.hash art.keys.keys q) = false) →
    ∃ ev line, (iterate root rng0 (some (n + 1)) art (fun _ => 1) Option.none).events.getLast? = some (.best ev line) ∧
      ev ≥ Ev.posInf ∧ line.head? ≠ some r1.1

end Wee.SearchCtl
