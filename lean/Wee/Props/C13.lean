import Wee.Proofs.EvalLemmas
import Wee.Proofs.EvalMirror
/-!
# C13 — evaluation is colour-symmetric

Rust: `weechess-engine/src/eval/mod.rs` (`Evaluator::evaluate`, `impl Mul<f32> for Evaluation`,
`StateVariation::from`), `evaluate_piece_worths.rs`, `evaluate_piece_squares.rs`,
`evaluate_force_king_to_edge.rs`, `evaluate_bad_pawns.rs`.
Model: `Wee/Model/Eval.lean` (`evaluate`, `evalHeuristic`, the four evaluators, `Ev.mulF`),
`Wee/Model/F32.lean` (binary32 soft-float on `Rat`).

* `C13_round32_neg … C13_mulF_neg` — the floating-point layer is odd: `round32`, `*`, `i32 as f32`
  unconditionally, `f32 as i32` and hence `Evaluation * f32` on the non-saturating range (the
  side conditions are stated and are discharged for the engine's values below).
* `C13_neg_heuristic`, `C13_neg` — **no hypotheses**: for every `State` whatsoever (legal or not),
  the score from White's perspective is the negation of the score from Black's perspective, and
  the evaluator panics for one perspective iff it panics for the other.  (The clamp of the heuristic
  result added by the repair of defect F10 has symmetric bounds `NEG_INF + 1 = -(POS_INF - 1)`, so it
  commutes with negation: `clampHeuristic_neg`.)
* `C13_mirror_heuristic_partial` — the heuristic score of the colour-mirrored position from the
  mirrored perspective equals the original one; only hypothesis: at most one king per side.
* `C13_mirror` — the same for the whole evaluator, under `MirrorTerminalAgree s` (the terminal
  tests agree on `s` and its mirror; needs mirror-equivariance of the move generator, not available).
* `C13_i32_partial` — every value computed in `i32` stays far inside `i32`.
-/
namespace Wee.C13
open Gen

/-! ## 1. the floating-point layer is odd -/

/-- IEEE round-to-nearest-even at 24 bits is odd (sign-magnitude rounding). -/
theorem C13_round32_neg (q : Rat) : F32.round32 (-q) = - F32.round32 q := F32.round32_neg q

/-- `(-a) * b = -(a * b)` in `f32`. -/
theorem C13_mul_neg_left (a b : Rat) : F32.mul (-a) b = - F32.mul a b := F32.mul_neg_left a b

/-- `(-i) as f32 = -(i as f32)`. -/
theorem C13_ofInt_neg (i : Int) : F32.ofInt (-i) = - F32.ofInt i := F32.ofInt_neg i

/-- `(-x) as i32 = -(x as i32)` for `|x| ≤ 2^31 - 1`.  Without the bound it is false:
`2^31 as i32 = 2^31 - 1` but `-2^31 as i32 = -2^31` (Rust's saturating cast). -/
theorem C13_toI32_neg {q : Rat} (h1 : -2147483647 ≤ q) (h2 : q ≤ 2147483647) :
    F32.toI32 (-q) = - F32.toI32 q := F32.toI32_neg h1 h2

/-- the bound in `C13_toI32_neg` cannot be dropped -/
example : F32.toI32 (-(2147483648 : Rat)) ≠ - F32.toI32 (2147483648 : Rat) := by decide +kernel
/-- the hypotheses of `C13_toI32_neg` are satisfiable by a non-integral value -/
example : (-2147483647 : Rat) ≤ 7/2 ∧ (7/2 : Rat) ≤ 2147483647 ∧ F32.toI32 (-(7/2 : Rat)) = -3 := by
  decide +kernel

/-- `impl Mul<f32> for Evaluation` is odd in the evaluation: `(-e) * w = -(e * w)` whenever
`|e| ≤ E < 2^24`, `|w| ≤ W` and `E·W < 2^24` (then `e as f32` is within the integers that `f32`
separates and the product cannot reach the saturation of `as i32`). -/
theorem C13_mulF_neg {e : Int} {w : Rat} {E W : Nat} (hE : E < 16777216) (hEW : E * W < 16777216)
    (he1 : -(E : Int) ≤ e) (he2 : e ≤ (E : Int)) (hw1 : -(W : Rat) ≤ w) (hw2 : w ≤ (W : Rat)) :
    Ev.mulF (-e) w = - Ev.mulF e w := Ev.mulF_neg hE hEW he1 he2 hw1 hw2

/-- the four generated evaluator weights (1.0, 0.8, 1.0, 0.2 as `f32` literals) satisfy `|w| ≤ 1` -/
theorem C13_weights_bounded : ∀ w ∈ evaluatorWeights, -1 ≤ w ∧ w ≤ 1 := evaluatorWeights_bounds

/-- non-vacuity of `C13_mulF_neg` at an engine-sized value with the weight 0.8 -/
example : Ev.mulF (-(12345 : Int)) (mkRat 13421773 16777216) = -9876 ∧
    Ev.mulF (12345 : Int) (mkRat 13421773 16777216) = 9876 := by decide +kernel

/-! ## 2. the heuristic part -/

/-- bounds that make the side conditions hold for EVERY state: each evaluator's value is small
(`popcount ≤ 64`, table entries within ±50, `|end_game_weight| ≤ 19`). -/
theorem C13_evaluator_bounds (s : State) (c : Color) :
    (0 ≤ evalWorths (Variation.of s) c ∧ evalWorths (Variation.of s) c ≤ (777600 : Int)) ∧
    (-(748800 : Int) ≤ evalSquares (Variation.of s) c ∧ evalSquares (Variation.of s) c ≤ (748800 : Int)) ∧
    (-(1140 : Int) ≤ evalKingEdge (Variation.of s) c ∧ evalKingEdge (Variation.of s) c ≤ (1140 : Int)) ∧
    (-(720 : Int) ≤ evalBadPawns (Variation.of s) c ∧ evalBadPawns (Variation.of s) c ≤ 0) :=
  ⟨evalWorths_bounds _ c, evalSquares_bounds _ c (egw_bounded s), evalKingEdge_bounds _ c (egw_bounded s),
    evalBadPawns_bounds _ c⟩

/-- **C13_neg_heuristic** (no hypotheses).  The weighted sum computed by `Evaluator::evaluate`
after the terminal checks satisfies `score(White) = -score(Black)` for every state: each term is
`((e1 - e2) as f32 * w) as i32`, swapping the perspective negates `e1 - e2`, and
`x ↦ (x as f32 * w) as i32` is odd on the range the evaluators can reach. -/
theorem C13_neg_heuristic (s : State) :
    evalHeuristic (Variation.of s) .white = - evalHeuristic (Variation.of s) .black :=
  evalHeuristic_neg _ (egw_bounded s) .white

/-- the same for an arbitrary perspective -/
theorem C13_neg_heuristic' (s : State) (c : Color) :
    evalHeuristic (Variation.of s) c.opp = - evalHeuristic (Variation.of s) c := by
  have := evalHeuristic_neg _ (egw_bounded s) c.opp
  rwa [opp_opp] at this

/-! ## 3. the whole evaluator -/

/-- **C13_neg** (no hypotheses).  `Evaluator::evaluate(state, White, d) = -Evaluator::evaluate(state,
Black, d)` for every state and depth, including the mate (`∓mate_in_ply d`) and stalemate (`0`)
branches; `none` (= the Rust code panics: no king of the side to move, or the move generator
panics) on one side iff `none` on the other. -/
theorem C13_neg (s : State) (d : Nat) :
    evaluate s .white d = (evaluate s .black d).map (- ·) := by
  have hh := C13_neg_heuristic s
  unfold evaluate
  cases kingHasMove s with
  | none => rfl
  | some khm =>
    simp only
    split
    · cases legalMoves? s with
      | none => rfl
      | some ms =>
        simp only
        split
        · cases s.turn <;> simp
        · split
          · simp
          · simp [hh, clampHeuristic_neg]
    · simp [hh, clampHeuristic_neg]

/-- **C13_neg**, arbitrary perspective. -/
theorem C13_neg' (s : State) (c : Color) (d : Nat) :
    evaluate s c.opp d = (evaluate s c d).map (- ·) := by
  cases c
  · have := C13_neg s d
    rw [this, Option.map_map]
    show evaluate s Color.black d = _
    cases evaluate s Color.black d <;> simp
  · exact C13_neg s d

/-! ## 4. mirror symmetry -/

/-- the position used in the examples: `4k3/8/8/8/8/8/4P3/4K3 w - - 0 1` -/
def exS : State :=
  { pieces := { wk := 0x10, wp := 0x1000, bk := 0x1000000000000000 },
    turn := .white, castleW := .noRights, castleB := .noRights, ep := none, halfmove := 0, fullmove := 1 }

/-- `mirrorState` really is the colour mirror: `4k3/4p3/8/8/8/8/8/4K3 b - - 0 1` -/
example : mirrorState exS =
    { pieces := { bk := 0x1000000000000000, bp := 0x0010000000000000, wk := 0x10 },
      turn := .black, castleW := .noRights, castleB := .noRights, ep := none, halfmove := 0, fullmove := 1 } := by
  decide

/-- `mirrorState` is an involution (on states whose en-passant square, if any, is a square) -/
theorem mirrorState_involutive (s : State) (hep : ∀ t, s.ep = some t → t < 64) :
    mirrorState (mirrorState s) = s := by
  cases s with
  | mk pieces turn cw cb ep hm fm =>
    cases pieces
    simp only [mirrorState, mirrorPieces, bswap_bswap, opp_opp]
    congr 1
    cases ep with
    | none => rfl
    | some t => simp [flipRank_flipRank (hep t rfl)]

/-- **C13_mirror_heuristic_partial.**  For every state with at most one king per side, the
heuristic (non-terminal) score of the mirrored position from the mirrored perspective equals the
score of the position: `StateVariation::from` (counts, end-game weight) and each of the four
evaluators are equivariant — sums over `iter_ones` of a byte-swapped board are re-indexed sums,
`evaluate_piece_square` flips the rank for Black, file masks, Manhattan and edge distances are
flip-invariant.  This is `C13_mirror` for all positions in which the terminal branches are not
taken (see `C13_mirror`). -/
theorem C13_mirror_heuristic_partial (s : State) (hk : OneKing s) (c : Color) :
    evalHeuristic (Variation.of (mirrorState s)) c.opp = evalHeuristic (Variation.of s) c :=
  evalHeuristic_mirror s hk c

/-- `OneKing` is satisfiable, and the statement is not trivially `0 = 0` -/
example : OneKing exS ∧ evalHeuristic (Variation.of exS) .white = 125 ∧
    evalHeuristic (Variation.of (mirrorState exS)) .black = 125 := by
  refine ⟨?_, ?_, ?_⟩
  · intro c; cases c <;> decide
  · decide +kernel
  · decide +kernel

/-- two white kings (a1, a2) against a black king h8: the illegal state showing that `OneKing`
cannot be dropped — `first_one` picks a1 before the flip and a7 (= flipped a2) after it, so the
king-distance differs by one. -/
def twoKings : State :=
  { pieces := { wk := 0x0101, bk := 0x8000000000000000 },
    turn := .white, castleW := .noRights, castleB := .noRights, ep := none, halfmove := 0, fullmove := 1 }

theorem C13_mirror_needs_OneKing :
    evalHeuristic (Variation.of (mirrorState twoKings)) .black ≠ evalHeuristic (Variation.of twoKings) .white := by
  decide +kernel

/-- what `C13_mirror` still needs from the move generator: the terminal tests of
`Evaluator::evaluate` give the same answers on a position and on its mirror.  All three follow
from mirror-equivariance of the attack tables and of `compute_legal_moves` (not proved here). -/
structure MirrorTerminalAgree (s : State) : Prop where
  /-- the `king_has_move` shortcut (king square, king attacks, opponent attack map) agrees -/
  khm : kingHasMove (mirrorState s) = kingHasMove s
  /-- `State::is_check` agrees -/
  chk : (mirrorState s).isCheck = s.isCheck
  /-- `compute_legal_moves` panics / is empty on the mirror iff it does / is on the position -/
  moves : (legalMoves? (mirrorState s)).map List.isEmpty = (legalMoves? s).map List.isEmpty

/-- **C13_mirror** (relative to `MirrorTerminalAgree`).  `evaluate(mirror p, !c, d) = evaluate(p, c, d)`
for every depth, terminal branches included. -/
theorem C13_mirror (s : State) (hk : OneKing s) (hm : MirrorTerminalAgree s) (c : Color) (d : Nat) :
    evaluate (mirrorState s) c.opp d = evaluate s c d := by
  have hh := C13_mirror_heuristic_partial s hk c
  have ht : ((mirrorState s).turn == c.opp) = (s.turn == c) := by
    show (s.turn.opp == c.opp) = _
    cases s.turn <;> cases c <;> rfl
  unfold evaluate
  rw [hm.khm, hm.chk]
  cases kingHasMove s with
  | none => rfl
  | some khm =>
    simp only
    have hmv := hm.moves
    split
    · cases h1 : legalMoves? s with
      | none =>
        rw [h1] at hmv
        cases h2 : legalMoves? (mirrorState s) with
        | none => rfl
        | some ms' => rw [h2] at hmv; simp at hmv
      | some ms =>
        rw [h1] at hmv
        cases h2 : legalMoves? (mirrorState s) with
        | none => rw [h2] at hmv; simp at hmv
        | some ms' =>
          rw [h2] at hmv
          simp only [Option.map_some, Option.some.injEq] at hmv
          simp only [hmv, ht, hh]
    · rw [hh]

/-- the hypotheses of `C13_mirror` hold for a concrete position (and both sides evaluate to 125) -/
example : OneKing exS ∧ MirrorTerminalAgree exS ∧ evaluate exS .white 0 = some 125 := by
  refine ⟨?_, ⟨?_, ?_, ?_⟩, ?_⟩
  · intro c; cases c <;> decide
  all_goals decide +kernel

/-- the full statement of `C13_mirror` without the generator hypothesis (NOT proved: it needs
mirror-equivariance of `compute_legal_moves`, `is_check` and the attack map; `OneKing` is part of
"legal position") -/
def C13_mirror_statement : Prop :=
  ∀ (s : State) (c : Color) (d : Nat), OneKing s → evaluate (mirrorState s) c.opp d = evaluate s c d

/-! ## 5. `i32` range -/

/-- **C13_i32_partial.**  For every state and perspective the values the evaluator computes in
`i32` are far inside `i32` (so modelling `Evaluation(i32)` by `Int` loses nothing): the four
evaluator results (`C13_evaluator_bounds`), their differences `e1 - e2`, the weighted terms
`(e1 - e2) * w`, the final sum, and the mate score for plies below `2^31` (for `ply as i32 <
-2147483637` the Rust expression `10 - (ply as i32)` itself overflows `i32`, which the `Int` model
does not show; unreachable, plies are search depths).  All `f32 → i32` casts stay below `2^24`, so
none saturates.  NOT covered (hence `_partial`): the running partial sums inside each evaluator's
loop (they obey the same fold bounds but are not stated), `Evaluator::estimate`, and the `u8`
counters of `StateVariation` (`color_counts[c] += count` is `u8` arithmetic: it cannot overflow
when no square holds two pieces, ≤ 64 per colour, but the model's `Nat` would hide an overflow on a
placement with more than 255 stacked pieces of one colour). -/
theorem C13_i32_partial (s : State) (c : Color) (d : Nat) :
    (∀ f ∈ evaluators, -(1497600 : Int) ≤ f (Variation.of s) c - f (Variation.of s) c.opp ∧
        f (Variation.of s) c - f (Variation.of s) c.opp ≤ (1497600 : Int)) ∧
    (∀ fw ∈ evaluators.zip evaluatorWeights,
        -(1497600 : Int) ≤ Ev.mulF (fw.1 (Variation.of s) c - fw.1 (Variation.of s) c.opp) fw.2 ∧
        Ev.mulF (fw.1 (Variation.of s) c - fw.1 (Variation.of s) c.opp) fw.2 ≤ (1497600 : Int)) ∧
    (-(2278200 : Int) ≤ evalHeuristic (Variation.of s) c ∧ evalHeuristic (Variation.of s) c ≤ (2278200 : Int)) ∧
    (d < 2^31 → (10000 : Int) ≤ Ev.mateInPly d ∧ Ev.mateInPly d ≤ (11000 : Int)) := by
  obtain ⟨⟨a1, a2⟩, ⟨b1, b2⟩, ⟨c1, c2⟩, ⟨d1, d2⟩⟩ := evaluator_diff_bounds (Variation.of s) (egw_bounded s) c
  obtain ⟨⟨w1, w1'⟩, ⟨w2, w2'⟩, ⟨w3, w3'⟩⟩ := weight_bounds
  refine ⟨?_, ?_, evalHeuristic_bounds _ (egw_bounded s) c, ?_⟩
  · intro f hf
    simp only [evaluators, List.mem_cons, List.not_mem_nil, or_false] at hf
    rcases hf with rfl | rfl | rfl | rfl <;> constructor <;> eomega
  · intro fw hfw
    simp only [evaluators, evaluatorWeights, List.zip_cons_cons, List.zip_nil_right, List.mem_cons,
      List.not_mem_nil, or_false] at hfw
    rcases hfw with rfl | rfl | rfl | rfl
    · have := mulF_abs_le (e := evalWorths (Variation.of s) c - evalWorths (Variation.of s) c.opp) (by eomega) w1 w1'
      constructor <;> (dsimp only; eomega)
    · have := mulF_abs_le (e := evalSquares (Variation.of s) c - evalSquares (Variation.of s) c.opp) (by eomega) w2 w2'
      constructor <;> (dsimp only; eomega)
    · have := mulF_abs_le (e := evalKingEdge (Variation.of s) c - evalKingEdge (Variation.of s) c.opp) (by eomega) w1 w1'
      constructor <;> (dsimp only; eomega)
    · have := mulF_abs_le (e := evalBadPawns (Variation.of s) c - evalBadPawns (Variation.of s) c.opp) (by eomega) w3 w3'
      constructor <;> (dsimp only; eomega)
  · intro hd
    unfold Ev.mateInPly Ev.posInf Ev.onePawn Gen.onePawn Gen.posInfFactor Gen.mateBonusPlies Gen.mateBonusFloor
    dsimp only
    constructor <;> eomega

end Wee.C13
