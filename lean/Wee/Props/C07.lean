import Wee.Proofs.UciLemmas
import Wee.Props.C14
/-!
# C07 — UCI session: replies, faithful position tracking, one answer per `go`

Rust: `weechess-engine/src/uci.rs` (`Client::exec`, `Search::spawn`, `Search::wait_cancel`).
Model: `Wee/Model/Uci.lean` (`Sess`, `Out`, `splitAsciiWs`, `parseGoArgs`, `joinKeep`, `positionCmd`,
`step`, `run`), `Wee/Model/San.lean` (`parseUciMoveToken`, `performQueries`).

## What the model abstracts, and where the rest is shown

`Uci.step` transcribes one iteration of the `while let Some(Ok(cmd)) = input.next()` loop; `Uci.run` the
loop plus the code after it.  The search and the writer thread are abstracted to *marks* in the output
stream:

* `Out.searchStarted d t reuse` — `Search::spawn(current_position, …, depth, time, previous_artifact.take())`;
* `Out.joinRunning` — `search.wait_cancel()`: send `Stop`, join the search thread, join the writer
  thread.  The writer prints the `bestmove` of that search when its channel closes, i.e. no later than
  this mark (earlier if the search ended by itself on depth/timeout);
* `Out.bookMove` — `info string book move …` and `bestmove …` printed by the loop thread itself.

Proved here: the marks are well bracketed in every session (`C07_bestmove_structure`): a search is
started only when none runs, every started search is joined exactly once — by the next
`go`/`position`/`stop`/`ucinewgame` (before any other output of that command, `C07_join_first`), or
by the code after the loop on `quit`/EOF — and the number of processed `go` lines equals the number
of `searchStarted` + `bookMove` marks.  **Not** proved here, by design of the abstraction: that a
joined search prints *exactly one* `bestmove` and that it names a *legal* move — that is C03/C04 (the
search emits ≥ 1 report with a legal first move on a position with a legal move; the writer prints one
`bestmove` iff it saw a report) and C16 for `bookMove` (book entries hold legal moves of the position
they are keyed by).  The process-level check (`./check C07`) verifies the conjunction on the real
binary: one legal `bestmove` per `go`, `.state` after every `position`, exit status.

Vocabulary (defined in `Wee/Proofs/UciLemmas.lean`):

```
scan : Bool → List Out → Option Bool       -- read the stream with the flag "a search is running"
  | b, []                     => some b
  | b, line _ / stderr… :: r  => scan b r
  | b, joinRunning :: r       => if b then scan false r else none        -- join only a running search
  | b, bookMove :: r          => if b then none else scan false r        -- book answer only when idle
  | b, searchStarted … :: r   => if b then none else scan true r         -- start only when idle
Balanced running outs := scan running outs = some false                  -- … and idle at the end
starts outs  = number of bookMove + searchStarted marks;  joins outs = number of joinRunning marks
isGo line / isQuit line = first token is `go` / `quit`;  processed lines = lines before the first `quit`
joinsFirst line = first token ∈ {go, position, stop, ucinewgame}
LegalLine s l / lineEnd s l (C02Closed): l = [(m₁,s₁),…,(mₖ,sₖ)], (mᵢ₊₁,sᵢ₊₁) ∈ legalMoves sᵢ; lineEnd = sₖ
WFLine s l: `WFMoves` (C12) of the legal-move list at every position of the line
```
-/
namespace Wee.Uci
open Wee.C10 (DisjointBoard)

/-! ## C07_replies -/

/-- `uci` → exactly `id name …`, `id author …`, `uciok`, in this order (the version strings after
`id name`/`id author` are not modelled); position, running search and artifact untouched -/
theorem C07_reply_uci (hasBook : State → Bool) (s : Sess) (line : String) (rest : List String)
    (h : splitAsciiWs line = "uci" :: rest) :
    step hasBook s line = some (s, [Out.line "id name", Out.line "id author", Out.line "uciok"], false) := by
  unfold step; rw [h]; simp

/-- `isready` → `readyok`, whatever `s.searching` is: the arm touches neither `current_search` nor
`current_position`, so it is answered while a search runs and that search keeps running -/
theorem C07_reply_isready (hasBook : State → Bool) (s : Sess) (line : String) (rest : List String)
    (h : splitAsciiWs line = "isready" :: rest) :
    step hasBook s line = some (s, [Out.line "readyok"], false) := by
  unfold step; rw [h]; simp

/-- `quit` → `break`: no output of its own, the loop ends -/
theorem C07_reply_quit (hasBook : State → Bool) (s : Sess) (line : String) (rest : List String)
    (h : splitAsciiWs line = "quit" :: rest) :
    step hasBook s line = some (s, [], true) := by
  unfold step; rw [h]; simp

/-- after `quit` the remaining input is not read; the code after the loop joins a running search
(`if let Some(search) = current_search { search.wait_cancel() }`) and `exec` returns `Ok(())`:
the model has a value (`some …`), i.e. no panic, i.e. exit status 0 -/
theorem C07_quit_run (hasBook : State → Bool) (s : Sess) (line : String) (rest later : List String)
    (h : splitAsciiWs line = "quit" :: rest) :
    run hasBook s (line :: later) =
      some (if s.searching then ({ s with searching := false }, [Out.joinRunning]) else (s, [])) := by
  rw [run, C07_reply_quit hasBook s line rest h]
  simp only [List.nil_append]

/-- end of input: the same code after the loop -/
theorem C07_eof_run (hasBook : State → Bool) (s : Sess) :
    run hasBook s [] =
      some (if s.searching then ({ s with searching := false }, [Out.joinRunning]) else (s, [])) := rfl

/-- **C07_replies**, bundled.  For every session state `s` (in particular with `s.searching = true`):
`uci` is answered by the three lines, `isready` by `readyok`, both leaving `s` exactly as it was;
`quit` (and EOF) end the loop, join a running search and return normally. -/
theorem C07_replies (hasBook : State → Bool) (s : Sess) (line : String) (rest : List String) :
    (splitAsciiWs line = "uci" :: rest →
      step hasBook s line = some (s, [Out.line "id name", Out.line "id author", Out.line "uciok"], false)) ∧
    (splitAsciiWs line = "isready" :: rest →
      step hasBook s line = some (s, [Out.line "readyok"], false)) ∧
    (splitAsciiWs line = "quit" :: rest →
      step hasBook s line = some (s, [], true) ∧
      ∀ later, run hasBook s (line :: later) =
        some (if s.searching then ({ s with searching := false }, [Out.joinRunning]) else (s, []))) ∧
    run hasBook s [] =
      some (if s.searching then ({ s with searching := false }, [Out.joinRunning]) else (s, [])) :=
  ⟨C07_reply_uci hasBook s line rest, C07_reply_isready hasBook s line rest,
   fun h => ⟨C07_reply_quit hasBook s line rest h, fun later => C07_quit_run hasBook s line rest later h⟩,
   C07_eof_run hasBook s⟩

/-- exit status: a session in which every `position` line sets a legal base position ends without a
panic value (restatement of `C14_run_legal`) -/
theorem C07_exit_ok (hasBook : State → Bool) (s : Sess) (lines : List String)
    (h : ∀ line ∈ lines, LegalBase line) : ∃ s' outs, run hasBook s lines = some (s', outs) := by
  cases hr : run hasBook s lines with
  | none => exact absurd hr (C14_run_legal hasBook s lines h)
  | some r => exact ⟨r.1, r.2, rfl⟩

/-- `isready` in the middle of a search: answered, search still running afterwards -/
example : (step (fun _ => false) { Sess.init with searching := true } "isready").map
    (fun r => (r.1.searching, r.2.1)) = some (true, [Out.line "readyok"]) := by decide

/-! ## C07_position -/

/-- the `position` line as a whole: first the running search is joined (`previous_artifact` keeps its
artifact), then the arm `positionCmd` runs on the joined state; the loop continues -/
theorem C07_position_step (hasBook : State → Bool) (s : Sess) (line : String) (args : List String)
    (h : splitAsciiWs line = "position" :: args) (s' : Sess) (o : List Out)
    (hp : positionCmd (joinKeep s).1 args = some (s', o)) :
    step hasBook s line = some (s', (joinKeep s).2 ++ o, false) := by
  unfold step; rw [h]
  simp only [hp]

/-- generic form: base tokens `pre` (no `moves` among them) that set the base position `base`
(`posBase pre = .inl (some base)`), followed by `moves` and the coordinate texts of a line of
successively legal moves from `base`: the session position becomes the end of the line, nothing is
printed.  `base` must be a legal position without overlaps; the move lists along the line must be
well-formed in the sense of C12 (`WFLine`). -/
theorem C07_position_generic (s : Sess) (pre : List String) (hpre : ∀ t ∈ pre, t ≠ "moves") (base : State)
    (hbase : posBase pre = .inl (some base))
    (hl : LegalPos base = true) (hd : DisjointBoard base.pieces)
    (l : List (Move × State)) (hline : LegalLine base l) (hwf : WFLine base l) :
    positionCmd s (pre ++ "moves" :: l.map (fun r => Move.lan r.1)) =
      some ({ s with pos := lineEnd base l }, []) := by
  obtain ⟨qs, hparse, hrun⟩ := performQueries_line l base hl hd hline hwf
  rw [positionCmd_eq, splitMoves_moves pre _ hpre]
  simp only [hbase]
  rw [applyMoves_parsed s base _ qs hparse, hrun]

/-- without a `moves` part: the session position is the base position -/
theorem C07_position_nomoves (s : Sess) (pre : List String) (hpre : ∀ t ∈ pre, t ≠ "moves") (base : State)
    (hbase : posBase pre = .inl (some base)) :
    positionCmd s pre = some ({ s with pos := base }, []) := by
  rw [positionCmd_eq, splitMoves_nomoves pre hpre]
  simp only [hbase]
  rw [applyMoves_parsed s base [] [] rfl]
  rfl

/-- **C07_position (startpos).**  After `position startpos moves m₁ … mₖ`, where the `mᵢ` are the
coordinate texts (`Lan::into_notation`, `Move.lan`) of moves that are successively legal from the
start position (`(mᵢ₊₁, sᵢ₊₁) ∈ legalMoves sᵢ`, `s₀ = startState`), the session position is `sₖ` and
nothing is printed.  By `C07_position_rules` `sₖ` is the position the rules of chess define. -/
theorem C07_position_startpos (s : Sess) (l : List (Move × State))
    (hline : LegalLine startState l) (hwf : WFLine startState l) :
    positionCmd s ("startpos" :: "moves" :: l.map (fun r => Move.lan r.1)) =
      some ({ s with pos := lineEnd startState l }, []) :=
  C07_position_generic s ["startpos"] (by decide) startState rfl startState_legal startState_disjoint l hline hwf

/-- `position startpos` alone -/
theorem C07_position_startpos_only (s : Sess) :
    positionCmd s ["startpos"] = some ({ s with pos := startState }, []) :=
  C07_position_nomoves s ["startpos"] (by decide) startState rfl

theorem posBase_fen (F : List String) (s0 : State) (hF : parseFen false (" ".intercalate F) = .ok s0) :
    posBase ("fen" :: F) = .inl (some s0) := by
  unfold posBase
  simp only [hF]

/-- **C07_position (fen).**  `position fen F₁ … F₆ moves m₁ … mₖ`: if the FEN tokens joined by single
spaces (`pos[1..].join(" ")`) parse to `s₀` (release profile), `s₀` is a legal position without
overlaps, and the `mᵢ` are the coordinate texts of successively legal moves from `s₀`, then the
session position is `sₖ`. -/
theorem C07_position_fen (s : Sess) (F : List String) (hnm : ∀ t ∈ F, t ≠ "moves") (s0 : State)
    (hF : parseFen false (" ".intercalate F) = .ok s0)
    (hl : LegalPos s0 = true) (hd : DisjointBoard s0.pieces)
    (l : List (Move × State)) (hline : LegalLine s0 l) (hwf : WFLine s0 l) :
    positionCmd s ("fen" :: F ++ "moves" :: l.map (fun r => Move.lan r.1)) =
      some ({ s with pos := lineEnd s0 l }, []) := by
  have hpre : ∀ t ∈ "fen" :: F, t ≠ "moves" := by
    intro t ht
    rcases List.mem_cons.1 ht with rfl | h
    · decide
    · exact hnm t h
  exact C07_position_generic s ("fen" :: F) hpre s0 (posBase_fen F s0 hF) hl hd l hline hwf

/-- `position fen F₁ … F₆` alone (no legality needed: the position is stored as parsed) -/
theorem C07_position_fen_only (s : Sess) (F : List String) (hnm : ∀ t ∈ F, t ≠ "moves") (s0 : State)
    (hF : parseFen false (" ".intercalate F) = .ok s0) :
    positionCmd s ("fen" :: F) = some ({ s with pos := s0 }, []) := by
  have hpre : ∀ t ∈ "fen" :: F, t ≠ "moves" := by
    intro t ht
    rcases List.mem_cons.1 ht with rfl | h
    · decide
    · exact hnm t h
  exact C07_position_nomoves s ("fen" :: F) hpre s0 (posBase_fen F s0 hF)

/-- the end of a line of legal moves is the position the rules define: it is legal, and reads
(`abs`) as the rule-level position obtained by applying, in order, the rule-level moves that the
packed moves read as (restatement of `C02_line`) -/
theorem C07_position_rules (base : State) (hl : LegalPos base = true) (hd : DisjointBoard base.pieces)
    (l : List (Move × State)) (hline : LegalLine base l) :
    LegalPos (lineEnd base l) = true ∧ DisjointBoard (lineEnd base l).pieces ∧
    ∃ sms : List Spec.SMove, l.map (fun r => toSpecMove r.1) = sms.map some ∧
      abs (lineEnd base l) = sms.foldl Spec.applyMove (abs base) :=
  C02_line l base hl hd hline

/-- **Full statement of C07_position** (no well-formedness hypothesis): base tokens setting a legal
base position, then `moves` and the coordinate texts of any line of successively legal moves: the
session position is the end of the line. -/
def C07_position_statement : Prop :=
  ∀ (s : Sess) (pre : List String), (∀ t ∈ pre, t ≠ "moves") → ∀ base : State,
    posBase pre = .inl (some base) → LegalPos base = true → DisjointBoard base.pieces →
    ∀ l : List (Move × State), LegalLine base l →
      positionCmd s (pre ++ "moves" :: l.map (fun r => Move.lan r.1)) =
        some ({ s with pos := lineEnd base l }, [])

/-- `C12_wf_statement` (legal move lists of legal positions are well-formed) gives `WFLine` along
every legal line from a legal position -/
theorem wfLine_of_C12_wf (hwf : SanP.C12_wf_statement) (l : List (Move × State)) :
    ∀ s : State, LegalPos s = true → DisjointBoard s.pieces → LegalLine s l → WFLine s l := by
  induction l with
  | nil => intro _ _ _ _; trivial
  | cons r rs ih =>
    intro s hl hd hline
    exact ⟨hwf s hl, ih r.2 (C02_closed s hl hd r hline.1) (C02_successor_invariants s hl hd r hline.1).1 hline.2⟩

/-- **Proved part**: the full statement holds as soon as `C12_wf_statement` does.  Missing for the
unconditional statement: exactly `SanP.C12_wf_statement` (`Wee/Props/C12.lean`, "follows from the C01
characterisation of `legalMoves`, not proved here") — i.e. that in the legal-move list of a legal
position origin/destination/promotion determine the move.  Everything about the command loop, the
token parser and the resolver is proved.  For concrete lines `WFLine` is decidable (`kpk_wf`). -/
theorem C07_position_partial (hwf : SanP.C12_wf_statement) : C07_position_statement :=
  fun s pre hpre base hbase hl hd l hline =>
    C07_position_generic s pre hpre base hbase hl hd l hline (wfLine_of_C12_wf hwf l base hl hd hline)

/-- **C07_position_invalid** (generic).  All tokens have the move format but `by_performing_moves`
rejects the sequence (some query matches no legal move, or more than one): the loop prints
`info string invalid move` and `continue`s.  The session position is then the **base** position, not
the previous one and not the position before the offending move: `current_position` is assigned in
the "Parse the position string" block, before the moves are applied, and the legal prefix is
discarded with the `Err`. -/
theorem C07_position_invalid (s : Sess) (pre : List String) (hpre : ∀ t ∈ pre, t ≠ "moves") (base : State)
    (hbase : posBase pre = .inl (some base)) (toks : List String) (qs : List MoveQuery)
    (hfmt : toks.map parseUciMoveToken = qs.map (fun q => some (some q))) (e : MoveErr)
    (herr : performQueries base qs = some (.error e)) :
    positionCmd s (pre ++ "moves" :: toks) =
      some ({ s with pos := base }, [Out.line "info string invalid move"]) := by
  rw [positionCmd_eq, splitMoves_moves pre _ hpre]
  simp only [hbase]
  rw [applyMoves_parsed s base _ qs hfmt, herr]

/-- the usual way to get there: a legal line, then a well-formed token whose coordinates match no
legal move of the position reached, then any well-formed tokens -/
theorem C07_position_invalid_after_line (s : Sess) (pre : List String) (hpre : ∀ t ∈ pre, t ≠ "moves")
    (base : State) (hbase : posBase pre = .inl (some base))
    (hl : LegalPos base = true) (hd : DisjointBoard base.pieces)
    (l : List (Move × State)) (hline : LegalLine base l) (hwf : WFLine base l)
    (t : String) (q : MoveQuery) (ht : parseUciMoveToken t = some (some q))
    (hno : (legalMoves (lineEnd base l)).filter (fun r => q.test r.1) = [])
    (rest : List String) (qsr : List MoveQuery)
    (hrest : rest.map parseUciMoveToken = qsr.map (fun q => some (some q))) :
    positionCmd s (pre ++ "moves" :: (l.map (fun r => Move.lan r.1) ++ t :: rest)) =
      some ({ s with pos := base }, [Out.line "info string invalid move"]) := by
  obtain ⟨qs, hparse, hrun⟩ := performQueries_line l base hl hd hline hwf
  obtain ⟨hl', hd', _⟩ := C02_line l base hl hd hline
  obtain ⟨⟨L, hL⟩, _⟩ := C01_legal_results (lineEnd base l) hl' hd'
  have hLe : legalMoves (lineEnd base l) = L := by unfold legalMoves; rw [hL]; rfl
  rw [hLe] at hno
  have hq := (C02_coords (lineEnd base l) q L hL).2.1 hno
  apply C07_position_invalid s pre hpre base hbase _ (qs ++ q :: qsr) _ .unknown
    (C02_coords_reject base (lineEnd base l) qs qsr q .unknown hrun hq)
  simp only [List.map_append, List.map_cons, hparse, ht, hrest]

/-- one token without the move format (too short, bad square, bad promotion letter, multi-byte
character on a slice boundary) anywhere in the list: `info string invalid move format`; again the
session position is the base position -/
theorem C07_position_invalid_format (s : Sess) (pre : List String) (hpre : ∀ t ∈ pre, t ≠ "moves")
    (base : State) (hbase : posBase pre = .inl (some base)) (toks : List String) (t : String)
    (ht : t ∈ toks) (hbad : parseUciMoveToken t = some Option.none) :
    positionCmd s (pre ++ "moves" :: toks) =
      some ({ s with pos := base }, [Out.line "info string invalid move format"]) := by
  rw [positionCmd_eq, splitMoves_moves pre _ hpre]
  simp only [hbase]
  exact applyMoves_bad_format s base toks t ht hbad

/-- a bad FEN or an unknown sub-command: one message, session state unchanged (`continue` before
`current_position` is assigned) -/
theorem C07_position_rejected (s : Sess) (args : List String) (msg : String)
    (h : posBase (args.takeWhile (· != "moves")) = .inr msg) :
    positionCmd s args = some (s, [Out.line msg]) := by
  rw [positionCmd_eq, splitMoves_eq]
  simp only [h]

/-! ### non-vacuity of the `position` theorems: king and pawn against king

`4k3/8/8/8/8/8/4P3/4K3 w - - 0 1`, then `e2e4 e8d7`.  All hypotheses (`parseFen`, `LegalPos`,
`DisjointBoard`, `LegalLine`, `WFLine`) are checked by kernel evaluation of the model — possible here
because the position has no sliding pieces (the magic tables are not touched); for the start position
the kernel cannot evaluate `legalMoves` in reasonable time, so `LegalLine startState l` for `l ≠ []`
is exhibited only through the executable model (`#eval`, and the process-level check).
The data (`kpk`, `kpk1`, `kpk2`, `kpkLine`, `kpkFen`, `kpk_parse`, `kpk_legal`, `kpk_line`, `kpk_wf`,
`kpk_text`) are in `Wee/Proofs/UciLemmas.lean`. -/

/-- `position fen 4k3/8/8/8/8/8/4P3/4K3 w - - 0 1 moves e2e4 e8d7` sets the position after 1. e4 Kd7
(instance of `C07_position_fen`, all hypotheses discharged) -/
example (s : Sess) :
    positionCmd s (["fen", "4k3/8/8/8/8/8/4P3/4K3", "w", "-", "-", "0", "1", "moves", "e2e4", "e8d7"]) =
      some ({ s with pos := kpk2 }, []) := by
  have := C07_position_fen s kpkFen (by decide) kpk kpk_parse kpk_legal.1 kpk_legal.2 kpkLine kpk_line kpk_wf
  rw [kpk_text] at this
  exact this

set_option maxRecDepth 1000000 in
/-- `… moves e2e4 e8e1 e4e5`: `e8e1` has the move format but matches no legal move after 1. e4; the
model prints `info string invalid move` and the session position is the FEN position `kpk` — not the
previous session position and not `kpk1` (instance of `C07_position_invalid_after_line`) -/
example (s : Sess) :
    positionCmd s (["fen", "4k3/8/8/8/8/8/4P3/4K3", "w", "-", "-", "0", "1", "moves", "e2e4", "e8e1", "e4e5"]) =
      some ({ s with pos := kpk }, [Out.line "info string invalid move"]) := by
  let q : MoveQuery := { originRank := some 7, originFile := some 4, destRank := some 0, destFile := some 4 }
  let qr : MoveQuery := { originRank := some 3, originFile := some 4, destRank := some 4, destFile := some 4 }
  have hq1 : parseUciMoveToken "e8e1" = some (some q) := by decide
  have hq2 : (legalMoves kpk1).filter (fun r => q.test r.1) = [] := by decide +kernel
  have hqr : ["e4e5"].map parseUciMoveToken = [qr].map (fun q => some (some q)) := by decide
  have := C07_position_invalid_after_line s ("fen" :: kpkFen) (by decide) kpk (posBase_fen kpkFen kpk kpk_parse)
    kpk_legal.1 kpk_legal.2 [kpkLine.head!] ⟨kpk_line.1, trivial⟩ ⟨kpk_wf.1, trivial⟩ "e8e1" q hq1 hq2
    ["e4e5"] [qr] hqr
  have ht : [kpkLine.head!].map (fun r => Move.lan r.1) = ["e2e4"] := by decide +kernel
  rw [ht] at this
  exact this

/-- the same as a whole input line, with a search running: the search is joined first, then the
position is set (instance of `C07_position_step`) -/
example (hasBook : State → Bool) (s : Sess) (hs : s.searching = true) :
    step hasBook s "position fen 4k3/8/8/8/8/8/4P3/4K3 w - - 0 1   moves e2e4\te8d7" =
      some ({ pos := kpk2, searching := false, artifact := s.searchOk, searchOk := s.searchOk }, [Out.joinRunning], false) := by
  have htok : splitAsciiWs "position fen 4k3/8/8/8/8/8/4P3/4K3 w - - 0 1   moves e2e4\te8d7" =
      "position" :: ("fen" :: kpkFen ++ "moves" :: ["e2e4", "e8d7"]) := by decide
  have hp := C07_position_fen (joinKeep s).1 kpkFen (by decide) kpk kpk_parse kpk_legal.1 kpk_legal.2
    kpkLine kpk_line kpk_wf
  rw [kpk_text] at hp
  rw [C07_position_step hasBook s _ _ htok _ _ hp]
  simp [joinKeep, hs, lineEnd, kpkLine]

/-- non-vacuity (format error; hypotheses of `C07_position_invalid_format`): the position becomes the
start position although the command is rejected -/
example : ∀ s : Sess, positionCmd s (["startpos"] ++ "moves" :: ["e2e4", "e7"]) =
    some ({ s with pos := startState }, [Out.line "info string invalid move format"]) :=
  fun s => C07_position_invalid_format s ["startpos"] (by decide) startState rfl ["e2e4", "e7"] "e7"
    (by decide) (by decide)

example : ∀ s : Sess, positionCmd s ["fen", "not", "a", "fen", "moves", "e2e4"] =
    some (s, [Out.line "info string invalid fen position"]) :=
  fun s => C07_position_rejected s _ _ (by decide)

example : ∀ s : Sess, positionCmd s ["startposs"] =
    some (s, [Out.line "info string unknown position command"]) :=
  fun s => C07_position_rejected s _ _ (by decide)

/-! ## C07_bestmove_structure -/

/-- one command: the outputs are a correct bracket sequence from `s.searching` to `s'.searching`;
exactly one `searchStarted`/`bookMove` mark iff the first token is `go`; the loop ends iff the first
token is `quit` -/
theorem C07_step_structure (hasBook : State → Bool) (s s' : Sess) (line : String) (o : List Out) (q : Bool)
    (h : step hasBook s line = some (s', o, q)) :
    scan s.searching o = some s'.searching ∧ starts o = (if isGo line then 1 else 0) ∧ q = isQuit line :=
  step_effect hasBook s s' line o q h

/-- **where the join happens.**  While a search runs: `go`, `position`, `stop`, `ucinewgame` output
the join mark *first* (so the `bestmove` of the old search precedes everything the new command
prints — "unparsable go commands", a book move, the new search's `info` lines, `invalid move`);
every other command outputs no join mark, leaves the search running and the position unchanged. -/
theorem C07_join_first (hasBook : State → Bool) (s s' : Sess) (line : String) (o : List Out) (q : Bool)
    (h : step hasBook s line = some (s', o, q)) (hs : s.searching = true) :
    (joinsFirst line = true → o.head? = some Out.joinRunning) ∧
    (joinsFirst line = false → joins o = 0 ∧ s'.searching = true ∧ s'.pos = s.pos) :=
  step_join hasBook s s' line o q h hs

/-- **C07_bestmove_structure.**  For every book, every start state `s` and every list of input lines
(arbitrary text), if the session does not panic (`C07_exit_ok`/`C14_run_legal`) then, with `outs` the
whole output stream including the code after the loop:

* `Balanced s.searching outs`: read from left to right, a `searchStarted` mark occurs only when no
  search is running, a `bookMove` mark only when no search is running, a `joinRunning` mark only when
  one is running, and none is running at the end — every started search is joined exactly once, and
  (by `C07_join_first`) at the next `go`/`position`/`stop`/`ucinewgame`, else at `quit`/EOF; this join
  is where its single `bestmove` is printed at the latest;
* the final state has no running search;
* the number of `go` lines read (those before the first `quit`) equals the number of
  `searchStarted` + `bookMove` marks: every `go` is answered by exactly one search or one book move.

Abstracted (see the header): that each `searchStarted … joinRunning` bracket contains exactly one
`bestmove` with a legal move is C03/C04, that `bookMove` prints a legal move is C16. -/
theorem C07_bestmove_structure (hasBook : State → Bool) (s : Sess) (lines : List String) (s' : Sess)
    (outs : List Out) (h : run hasBook s lines = some (s', outs)) :
    Balanced s.searching outs ∧ s'.searching = false ∧
    starts outs = (processed lines).countP isGo :=
  run_effect hasBook lines s s' outs h

/-- in a balanced stream from an idle start there are as many joins as searches started, i.e.
`starts − bookMoves`; stated as: a stream that passes `scan` from `b` to `b'` satisfies
`(if b then 1 else 0) + searchStarted marks = joins + (if b' then 1 else 0)` -/
theorem C07_joins_count (o : List Out) : ∀ (b b' : Bool), scan b o = some b' →
    (if b then 1 else 0) + (o.countP fun x => match x with | .searchStarted _ _ _ => true | _ => false) =
      joins o + (if b' then 1 else 0) := by
  induction o with
  | nil => intro b b' h; simp only [scan, Option.some.injEq] at h; subst h; simp [joins]
  | cons x r ih =>
    intro b b' h
    cases x with
    | line m => simp only [scan] at h; have := ih b b' h; simpa [joins, List.countP_cons] using this
    | stderrState => simp only [scan] at h; have := ih b b' h; simpa [joins, List.countP_cons] using this
    | stderrStatus => simp only [scan] at h; have := ih b b' h; simpa [joins, List.countP_cons] using this
    | joinRunning =>
      cases b
      · simp [scan] at h
      · simp only [scan, if_true] at h
        have := ih false b' h
        simp only [joins, List.countP_cons] at this ⊢
        simp at this ⊢; omega
    | bookMove =>
      cases b
      · simp only [scan, Bool.false_eq_true, if_false] at h
        have := ih false b' h
        simp only [joins, List.countP_cons] at this ⊢
        simp at this ⊢; omega
      · simp [scan] at h
    | searchStarted d t a =>
      cases b
      · simp only [scan, Bool.false_eq_true, if_false] at h
        have := ih true b' h
        simp only [joins, List.countP_cons] at this ⊢
        simp at this ⊢; omega
      · simp [scan] at h

/-! ### non-vacuity: concrete sessions, evaluated by the kernel -/

/-- no book; a search started by `go depth 3` is still running at `isready` (answered), is joined by
the second `go` *before* that command's own outputs, the second search is joined by `stop`; `quit`
ends the loop and the `go` after it is never read -/
example :
    (run (fun _ => false) Sess.init
      ["uci", "go depth 3", "isready", "go movetime 100 nonsense", "stop", "quit", "go"]).map (·.2) =
    some [Out.line "id name", Out.line "id author", Out.line "uciok",
          Out.searchStarted (some 3) Option.none false,
          Out.line "readyok",
          Out.joinRunning, Out.line "info string unparsable go commands",
          Out.searchStarted Option.none (some 100) true,
          Out.joinRunning] := by decide

/-- the conclusion of `C07_bestmove_structure` on that stream, computed: balanced, two answers for
the two `go` lines read -/
example :
    let outs := [Out.line "id name", Out.line "id author", Out.line "uciok",
          Out.searchStarted (some 3) Option.none false, Out.line "readyok",
          Out.joinRunning, Out.line "info string unparsable go commands",
          Out.searchStarted Option.none (some 100) true, Out.joinRunning]
    Balanced false outs ∧ starts outs = 2 ∧ joins outs = 2 ∧
    (processed ["uci", "go depth 3", "isready", "go movetime 100 nonsense", "stop", "quit", "go"]).countP isGo = 2 := by
  decide

/-- EOF while a search runs: the code after the loop joins it -/
example : (run (fun _ => false) Sess.init ["position startpos", "go"]).map (·.2) =
    some [Out.searchStarted Option.none Option.none false, Out.joinRunning] := by decide

/-- with a book entry for the position every `go` is answered at once and no search is ever running;
`position` with a running search joins it first -/
example : (run (fun _ => true) { Sess.init with searching := true } ["position startpos", "go", "go", ".state"]).map (·.2) =
    some [Out.joinRunning, Out.bookMove, Out.bookMove, Out.stderrState] := by decide

/-- streams that are *not* balanced (so `Balanced` is a real constraint): a second start without a
join, a join with nothing running, a search left running at the end -/
example : ¬ Balanced false [Out.searchStarted Option.none Option.none false, Out.searchStarted Option.none Option.none false, Out.joinRunning] ∧
    ¬ Balanced false [Out.joinRunning] ∧ ¬ Balanced false [Out.searchStarted Option.none Option.none false] := by decide

end Wee.Uci
