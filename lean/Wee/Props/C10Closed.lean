import Wee.Props.C10
import Wee.Props.C09
/-!
# C10 closed over C09: the hypothesis `AttackTablesCorrect` is discharged by the C09 theorems,
so the C10 statements hold outright for every disjoint placement.
-/
namespace Wee.C10
open Wee

/-- the attack tables of the model (magic sliders with the constants regenerated from the Rust
source, leaper tables) are correct: this is C09 -/
theorem tablesCorrect : AttackTablesCorrect :=
  C10_tables_of_sliders (fun sq h occ t _ => C09_rook sq h occ t) (fun sq h occ t _ => C09_bishop sq h occ t)

/-- **C10 (attacked squares)**, no hypothesis on the tables left -/
theorem C10_attacks_closed (st : State) (hd : DisjointBoard st.pieces) (c : Color) (t : Nat) (ht : t < 64) :
    test (coloredAttacks st.pieces c) t = true ↔
      (abs st).attackedBy (absColor c) t = true ∧ ¬ ∃ k, (abs st).at t = some (absColor c, k) :=
  C10_attacks_spec tablesCorrect st hd c t ht

/-- **C10 (check)**: `Board::is_check(c)` is exactly "the king of `c` is attacked" per the rules -/
theorem C10_check_closed (st : State) (hd : DisjointBoard st.pieces) (c : Color) :
    isCheckB st.pieces c = (abs st).inCheck (absColor c) :=
  C10_check_spec tablesCorrect st hd c

/-- **C10 (`State::is_check`)** -/
theorem C10_state_check_closed (st : State) (hd : DisjointBoard st.pieces) :
    st.isCheck = (abs st).inCheck (abs st).turn :=
  C10_state_check tablesCorrect st hd

/-- **C10 (order/clone independence + correctness)**: whatever was asked or cloned before, the cached
object answers `is_check(c)` by the rules of chess -/
theorem C10_check_cached_closed (st : State) (hd : DisjointBoard st.pieces) (qs : List Query) (c : Color) :
    (((CachedBoard.new st.pieces).run qs).1.step (.isCheck c)).2 = .bool ((abs st).inCheck (absColor c)) :=
  C10_check_cached tablesCorrect st hd qs c

end Wee.C10
