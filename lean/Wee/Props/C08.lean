import Wee.Proofs.HashLemmas
/-!
# C08 — the position hash depends on, and separates, everything rule-relevant

Rust: `ZobristHasher::hash` (`weechess-core/src/hasher.rs`, after the repair of defect F1: castling rights
and an *available* en-passant capture are hashed as well).  Model: `Wee.hash K s` (`Wee/Model/Hash.lean`).

All theorems are generic in the key table `K : Keys`, i.e. they hold for every value of the 1038 random
keys, hence for every hasher seed (`C08_all_seeds` instantiates them with `ZobristHasher::with(rng)`).

Vocabulary (defined in `Wee/Proofs/HashLemmas.lean`):
* `Atom` — a feature of a position: `piece sq c p`, `turn c`, `castle c side`, `ep file`;
* `keyOf K a` — the random key the hasher holds for the atom;
* `atoms s` — the atoms of `s`, in the order in which the code xors their keys
  (`Color::ALL × Piece::ALL_INCLUDING_NONE × iter_ones`, side to move, `Color::ALL × Side::ALL` rights held,
  file of the en-passant target if a pawn of the side to move attacks it);
* `xorL f l` — `l.foldl (fun h a => h ^^^ f a) 0`;
* `symmDiff l₁ l₂` — the elements of `l₁` not in `l₂` followed by the elements of `l₂` not in `l₁`;
* `key s` — `(pieces, turn, castleW, castleB, epFile? s)` where `epFile? s` is the file of the en-passant
  target when a capture there is pseudo-legally available (`epCapturable`).

The statement "differ ⇒ hash differently (up to 64-bit chance)" is made exact by `C08_features`
(the atom *set* is in bijection with the rule-relevant key) together with `C08_xor` (the xor of two hashes
is the xor of the keys of the atoms in which the positions differ): a collision between positions with
different keys needs a non-empty set of distinct random keys to xor to zero.
-/
namespace Wee

/-! ## 1–2: the hash is the xor of the keys of the atoms -/

/-- `ZobristHasher::hash(state)` is the xor, starting from 0, of the keys of the atoms of `state`,
taken in the order of `atoms`. -/
theorem C08_hash_eq_xor_atoms (K : Keys) (s : State) :
    hash K s = (atoms s).foldl (fun h a => h ^^^ keyOf K a) 0 :=
  hash_eq_foldl_atoms K s

/-- Which atoms a position has: a `piece` atom for exactly the set bits of the piece bitboards (none for the
`Piece::None` indices, whose bitboards are constantly zero), the `turn` atom of the side to move, a
`castle` atom for exactly the rights held, and an `ep` atom for the file of a capturable en-passant target. -/
theorem C08_mem_atoms (s : State) :
    (∀ sq c p, Atom.piece sq c p ∈ atoms s ↔ test (s.pieces.get c p) sq = true) ∧
    (∀ sq c, Atom.piece sq c .none ∉ atoms s) ∧
    (∀ c, Atom.turn c ∈ atoms s ↔ s.turn = c) ∧
    (∀ c sd, Atom.castle c sd ∈ atoms s ↔ (s.castle c).forSide sd = true) ∧
    (∀ f, Atom.ep f ∈ atoms s ↔ (epCapturable s).map fileOf = some f) :=
  ⟨piece_mem_atoms s, none_not_mem_atoms s, turn_mem_atoms s, castle_mem_atoms s, ep_mem_atoms s⟩

/-- Every key is xored at most once: the atom list of *any* state is duplicate-free
(no well-formedness of the board is needed; overlapping bitboards give distinct atoms). -/
theorem C08_atoms_nodup (s : State) : (atoms s).Nodup := nodup_atoms s

/-- The order of the loops in `hash` is immaterial: any permutation of the atoms xors to the hash. -/
theorem C08_order_irrelevant (K : Keys) (s : State) (l : List Atom) (h : l.Perm (atoms s)) :
    hash K s = l.foldl (fun h a => h ^^^ keyOf K a) 0 := by
  rw [C08_hash_eq_xor_atoms]
  exact (foldl_xor_perm (keyOf K) h 0).symm

example : ([Atom.turn .white, Atom.piece 4 .white .king]).Perm
    (atoms { (default : State) with pieces := { wk := 0x10 }, turn := .white,
                                    castleW := .noRights, castleB := .noRights, ep := Option.none }) := by
  decide +kernel

/-! ## 3: equal rule-relevant data ⇒ equal hash -/

/-- Same piece bitboards, side to move, castling rights and en-passant target.
The counters `halfmove` / `fullmove` are not part of it, nor is any history. -/
def SameKey (s t : State) : Prop :=
  s.pieces = t.pieces ∧ s.turn = t.turn ∧ s.castleW = t.castleW ∧ s.castleB = t.castleB ∧ s.ep = t.ep

/-- As `SameKey`, but only the *capturable* en-passant target has to agree. -/
def SameKeyCapturable (s t : State) : Prop :=
  s.pieces = t.pieces ∧ s.turn = t.turn ∧ s.castleW = t.castleW ∧ s.castleB = t.castleB ∧
    epCapturable s = epCapturable t

theorem SameKey.capturable {s t : State} (h : SameKey s t) : SameKeyCapturable s t := by
  obtain ⟨h1, h2, h3, h4, h5⟩ := h
  refine ⟨h1, h2, h3, h4, ?_⟩
  unfold epCapturable
  rw [h1, h2, h5]

theorem SameKeyCapturable.key_eq {s t : State} (h : SameKeyCapturable s t) : key s = key t := by
  obtain ⟨h1, h2, h3, h4, h5⟩ := h
  simp only [key, epFile?, h1, h2, h3, h4, h5]

/-- Strongest form: positions with the same `key` (placement, side, rights, *file* of an available
en-passant capture) have the same atom list and therefore the same hash. -/
theorem C08_equal_key (K : Keys) (s t : State) (h : key s = key t) : hash K s = hash K t := by
  rw [hash_eq_xorL, hash_eq_xorL, atoms_eq_of_key h]

/-- Two positions with the same piece placement, side to move, castling rights and en-passant target
always hash equal — whatever their move counters are and however they were reached
(`hash` is a function of the `State` value alone, so the history cannot enter). -/
theorem C08_equal (K : Keys) (s t : State) (h : SameKey s t) : hash K s = hash K t :=
  C08_equal_key K s t h.capturable.key_eq

/-- …and it is enough that the *available* en-passant capture agrees (an en-passant target on which no pawn
of the side to move can capture does not influence the hash). -/
theorem C08_equal_capturable (K : Keys) (s t : State) (h : SameKeyCapturable s t) :
    hash K s = hash K t :=
  C08_equal_key K s t h.key_eq

/-- the starting position with clocks 0/1 and with clocks 37/112 -/
example : SameKey
    { pieces := { wp := 0xFF00, wn := 0x42, wb := 0x24, wr := 0x81, wq := 0x08, wk := 0x10,
                  bp := 0x00FF000000000000, bn := 0x4200000000000000, bb := 0x2400000000000000,
                  br := 0x8100000000000000, bq := 0x0800000000000000, bk := 0x1000000000000000 },
      turn := .white, castleW := .both, castleB := .both, ep := Option.none, halfmove := 0, fullmove := 1 }
    { pieces := { wp := 0xFF00, wn := 0x42, wb := 0x24, wr := 0x81, wq := 0x08, wk := 0x10,
                  bp := 0x00FF000000000000, bn := 0x4200000000000000, bb := 0x2400000000000000,
                  br := 0x8100000000000000, bq := 0x0800000000000000, bk := 0x1000000000000000 },
      turn := .white, castleW := .both, castleB := .both, ep := Option.none, halfmove := 37, fullmove := 112 } :=
  ⟨rfl, rfl, rfl, rfl, rfl⟩

/-- The move counters are not hashed. -/
theorem C08_counters_irrelevant (K : Keys) (s : State) (h f : Nat) :
    hash K { s with halfmove := h, fullmove := f } = hash K s :=
  C08_equal K _ _ ⟨rfl, rfl, rfl, rfl, rfl⟩

/-! ## 4: the atom set is in bijection with the rule-relevant key -/

/-- The atoms of two positions are the same *set* iff the positions have the same key: the same twelve piece
bitboards, side to move, castling rights of both colours, and file of an available en-passant capture.
Both directions are proved. -/
theorem C08_features (s t : State) : (∀ a, a ∈ atoms s ↔ a ∈ atoms t) ↔ key s = key t :=
  ⟨key_eq_of_mem_atoms, fun h => by rw [atoms_eq_of_key h]; exact fun _ => Iff.rfl⟩

/-- The same with "equal up to permutation" … -/
theorem C08_features_perm (s t : State) : (atoms s).Perm (atoms t) ↔ key s = key t := by
  rw [List.perm_ext_iff_of_nodup (nodup_atoms s) (nodup_atoms t)]
  exact C08_features s t

/-- … and with equality of the lists (`atoms` lists the atoms in a canonical order). -/
theorem C08_features_eq (s t : State) : atoms s = atoms t ↔ key s = key t :=
  ⟨fun h => (C08_features s t).1 (by rw [h]; exact fun _ => Iff.rfl), atoms_eq_of_key⟩

/-- `key s = key t` spelled out bit by bit: every square holds the same coloured piece kind
(bitboards agree in all 64 bits), same side to move, same four castling rights, and an en-passant capture is
available on the same file or on none. -/
theorem C08_key_iff (s t : State) :
    key s = key t ↔
      (∀ c p sq, sq < 64 → test (s.pieces.get c p) sq = test (t.pieces.get c p) sq) ∧
      s.turn = t.turn ∧
      (∀ c sd, (s.castle c).forSide sd = (t.castle c).forSide sd) ∧
      (epCapturable s).map fileOf = (epCapturable t).map fileOf := by
  constructor
  · intro h
    simp only [key, Prod.mk.injEq] at h
    obtain ⟨h1, h2, h3, h4, h5⟩ := h
    refine ⟨fun c p sq _ => by rw [h1], h2, fun c sd => ?_, h5⟩
    cases c
    · show s.castleW.forSide sd = t.castleW.forSide sd
      rw [h3]
    · show s.castleB.forSide sd = t.castleB.forSide sd
      rw [h4]
  · rintro ⟨h1, h2, h3, h4⟩
    simp only [key, Prod.mk.injEq]
    exact ⟨PieceMap.ext_get fun c p => ext _ _ (h1 c p), h2,
      CastleRights.ext_forSide (h3 .white), CastleRights.ext_forSide (h3 .black), h4⟩

/-- a different key is visible in the atoms: some atom belongs to exactly one of the two positions -/
theorem C08_features_differ (s t : State) (h : key s ≠ key t) : symmDiff (atoms s) (atoms t) ≠ [] :=
  fun hn => h ((C08_features s t).1 ((symmDiff_eq_nil _ _).1 hn))

/-! ## 5: the xor of two hashes is the xor over the atoms that differ -/

/-- `hash K s ^^^ hash K t` is the xor of the keys of the atoms in the symmetric difference of the two atom
sets: keys of common atoms cancel, every atom in which the positions differ contributes its key once. -/
theorem C08_xor (K : Keys) (s t : State) :
    hash K s ^^^ hash K t = (symmDiff (atoms s) (atoms t)).foldl (fun h a => h ^^^ keyOf K a) 0 := by
  rw [hash_eq_xorL, hash_eq_xorL]
  exact xorL_symmDiff (keyOf K) (nodup_atoms s) (nodup_atoms t)

/-- A collision happens exactly when the keys of the differing atoms xor to zero. -/
theorem C08_collision_iff (K : Keys) (s t : State) :
    hash K s = hash K t ↔ xorL (keyOf K) (symmDiff (atoms s) (atoms t)) = 0 := by
  rw [← UInt64.xor_eq_zero_iff, C08_xor]
  rfl

/-- If the positions differ in exactly one atom `a`, their hashes differ by exactly `keyOf K a`;
so they hash differently iff that key is non-zero (probability `1 - 2⁻⁶⁴` for a uniform key). -/
theorem C08_single_atom (K : Keys) (s t : State) (a : Atom)
    (h : symmDiff (atoms s) (atoms t) = [a]) :
    hash K s ^^^ hash K t = keyOf K a ∧ (hash K s ≠ hash K t ↔ keyOf K a ≠ 0) := by
  have hx : hash K s ^^^ hash K t = keyOf K a := by
    rw [C08_xor, h]
    exact xorL_singleton (keyOf K) a
  refine ⟨hx, ?_⟩
  rw [← hx, Ne, Ne, UInt64.xor_eq_zero_iff]

/-! ## 6: separation under xor-independent keys -/

/-- `K` is *xor-independent* on the set `U` of atoms: no non-empty duplicate-free list of atoms of `U`
has keys that xor to zero.  This is the precise content of "up to 64-bit chance" — for uniformly random
keys and a fixed non-empty `d` the xor is uniform, so it vanishes with probability `2⁻⁶⁴`.

The universe of atoms that can occur has `64·12 + 2 + 4 + 8 = 782` elements.  No table of 64-bit keys is
independent on all of it (any 65 vectors of `GF(2)⁶⁴` are linearly dependent), so independence is stated
relative to a set `U`; `C08_separates_under_independent` only needs `U` to contain the atoms in which the
two given positions differ. -/
def Keys.IndependentOn (K : Keys) (U : Atom → Prop) : Prop :=
  ∀ d : List Atom, d ≠ [] → d.Nodup → (∀ a ∈ d, U a) → xorL (keyOf K) d ≠ 0

/-- If the keys are xor-independent on (a set containing) the atoms in which `s` and `t` differ, then
positions with different keys — differing in placement, side to move, a castling right or the
availability/file of an en-passant capture — hash differently. -/
theorem C08_separates_under_independent (K : Keys) (U : Atom → Prop) (hK : K.IndependentOn U)
    (s t : State) (hU : ∀ a ∈ symmDiff (atoms s) (atoms t), U a) (hne : key s ≠ key t) :
    hash K s ≠ hash K t := by
  rw [Ne, C08_collision_iff]
  exact hK _ (C08_features_differ s t hne) (nodup_symmDiff (nodup_atoms s) (nodup_atoms t)) hU

/-- Under the same hypothesis the hash decides equality of keys. -/
theorem C08_hash_eq_iff_key_eq (K : Keys) (U : Atom → Prop) (hK : K.IndependentOn U)
    (s t : State) (hU : ∀ a ∈ symmDiff (atoms s) (atoms t), U a) :
    hash K s = hash K t ↔ key s = key t :=
  ⟨fun h => Classical.byContradiction fun hne =>
      C08_separates_under_independent K U hK s t hU hne h,
   C08_equal_key K s t⟩

/-! ### non-vacuity: an independent key table on a 64-atom universe

`toyU`: both `turn` atoms, the four `castle` atoms, the eight `ep` files and the two kings on the squares
with index `< 25` (`a1 … h3`, `a4`): `2 + 4 + 8 + 2·25 = 64` atoms, each with its own single-bit key. -/

def toyIdx : Atom → Nat
  | .turn c => c.idx
  | .castle c sd => 2 + c.idx * 2 + sd.idx
  | .ep f => 6 + f
  | .piece sq c _ => 14 + c.idx * 25 + sq

def toyU : Atom → Prop
  | .turn _ => True
  | .castle _ _ => True
  | .ep f => f < 8
  | .piece sq _ p => p = .king ∧ sq < 25

def toyKeys : Keys where
  turn c := bit (toyIdx (.turn c))
  piece sq c p := bit (toyIdx (.piece sq c p))
  castle c sd := bit (toyIdx (.castle c sd))
  epFile f := bit (toyIdx (.ep f))

theorem toyKeys_independent : toyKeys.IndependentOn toyU := by
  intro d hne hd hU h0
  obtain ⟨a, l, rfl⟩ := List.exists_cons_of_ne_nil hne
  have ha := hU a List.mem_cons_self
  have hk : ∀ a, toyU a → toyIdx a < 64 ∧ keyOf toyKeys a = bit (toyIdx a) := by
    intro a ha
    refine ⟨?_, by cases a <;> rfl⟩
    rcases a with ⟨sq, _ | _, p⟩ | ⟨_ | _⟩ | ⟨_ | _, _ | _⟩ | f <;>
      simp only [toyU, toyIdx, Color.idx, Side.idx] at ha ⊢ <;> omega
  have hinj : ∀ a b, toyU a → toyU b → toyIdx a = toyIdx b → a = b := by
    intro a b ha hb h
    rcases a with ⟨sq, _ | _, p⟩ | ⟨_ | _⟩ | ⟨_ | _, _ | _⟩ | f <;>
      rcases b with ⟨sq', _ | _, p'⟩ | ⟨_ | _⟩ | ⟨_ | _, _ | _⟩ | f' <;>
      simp only [toyU, toyIdx, Color.idx, Side.idx] at ha hb h <;>
      first
        | rfl
        | (exfalso; omega)
        | (obtain ⟨rfl, _⟩ := ha; obtain ⟨rfl, _⟩ := hb
           have : sq = sq' := by omega
           subst this; rfl)
        | (have : f = f' := by omega
           subst this; rfl)
  have := test_xorL_bits toyKeys toyU toyIdx hk hinj (a :: l) hd hU a ha
  rw [h0, test_zero] at this
  simp at this

/-- white Ke1 (+ right `K`) against black Ke3, and the same without the right: the toy keys separate them
by the theorem (and, of course, by evaluation). -/
example :
    let s : State := { pieces := { wk := 0x10, bk := 0x100000 }, turn := .white,
                       castleW := ⟨true, false⟩, castleB := .noRights, ep := Option.none,
                       halfmove := 0, fullmove := 1 }
    let t : State := { s with castleW := .noRights }
    hash toyKeys s ≠ hash toyKeys t := by
  intro s t
  apply C08_separates_under_independent toyKeys toyU toyKeys_independent s t
  · have : symmDiff (atoms s) (atoms t) = [Atom.castle .white .king] := by decide +kernel
    rw [this]
    intro a ha
    rw [List.mem_singleton] at ha
    subst ha
    trivial
  · decide +kernel

/-! ## 7: concrete pairs differing in exactly one component -/

namespace C08Examples

/-- `4k3/8/8/8/8/8/8/4K2R w K - 0 1` -/
def kr : State :=
  { pieces := { wk := 0x10, wr := 0x80, bk := 0x1000000000000000 }, turn := .white,
    castleW := ⟨true, false⟩, castleB := .noRights, ep := Option.none, halfmove := 0, fullmove := 1 }

/-- `4k3/8/8/3pP3/8/8/8/4K3 w - d6 0 2` : the white pawn e5 can capture en passant on d6 -/
def epYes : State :=
  { pieces := { wk := 0x10, wp := 0x1000000000, bp := 0x800000000, bk := 0x1000000000000000 },
    turn := .white, castleW := .noRights, castleB := .noRights, ep := some 43, halfmove := 0, fullmove := 2 }

/-- `4k3/8/8/3p4/8/4P3/8/4K3 w - d6 0 2` : en-passant target set, but no white pawn attacks d6 -/
def epNoCapturer : State :=
  { pieces := { wk := 0x10, wp := 0x100000, bp := 0x800000000, bk := 0x1000000000000000 },
    turn := .white, castleW := .noRights, castleB := .noRights, ep := some 43, halfmove := 0, fullmove := 2 }

/-- the pinned tree's deterministic collision `…/4K2R w K -` vs `…/4K2R w - -` is gone:
the two positions differ in exactly the atom `castle white king` … -/
example : symmDiff (atoms kr) (atoms { kr with castleW := .noRights }) = [Atom.castle .white .king] := by
  decide +kernel

/-- … so for every key table their hashes differ by exactly that key -/
example (K : Keys) : hash K kr ^^^ hash K { kr with castleW := .noRights } = K.castle .white .king :=
  (C08_single_atom K kr { kr with castleW := .noRights } (Atom.castle .white .king) (by decide +kernel)).1

/-- side to move: exactly the two `turn` atoms differ -/
example : symmDiff (atoms kr) (atoms { kr with turn := .black }) = [Atom.turn .white, Atom.turn .black] := by
  decide +kernel

example (K : Keys) :
    hash K kr ^^^ hash K { kr with turn := .black } = K.turn .white ^^^ K.turn .black := by
  rw [C08_xor]
  have : symmDiff (atoms kr) (atoms { kr with turn := .black }) = [Atom.turn .white, Atom.turn .black] := by
    decide +kernel
  rw [this]
  simp [keyOf]

/-- an available en-passant capture: exactly the atom `ep d` differs -/
example : symmDiff (atoms epYes) (atoms { epYes with ep := Option.none }) = [Atom.ep 3] := by
  decide +kernel

example (K : Keys) : hash K epYes ^^^ hash K { epYes with ep := Option.none } = K.epFile 3 :=
  (C08_single_atom K epYes { epYes with ep := Option.none } (Atom.ep 3) (by decide +kernel)).1

/-- an en-passant target nobody can capture on changes neither the legal moves nor the hash -/
example : atoms epNoCapturer = atoms { epNoCapturer with ep := Option.none } := by decide +kernel

example (K : Keys) : hash K epNoCapturer = hash K { epNoCapturer with ep := Option.none } :=
  C08_equal_capturable K _ _ ⟨rfl, rfl, rfl, rfl, by decide +kernel⟩

/-- placement: moving the rook h1 → g1 changes exactly two `piece` atoms -/
example : symmDiff (atoms kr) (atoms { kr with pieces := { kr.pieces with wr := 0x40 } })
    = [Atom.piece 7 .white .rook, Atom.piece 6 .white .rook] := by
  decide +kernel

end C08Examples

/-! ## all seeds -/

/-- The hasher built by `ZobristHasher::with(rng)` from *any* generator state satisfies all of the above;
here the two headline facts for it. -/
theorem C08_all_seeds (r : Rng.ChaCha8) (s t : State) :
    let K := (KeyTable.ofRng r).1.keys
    (SameKey s t → hash K s = hash K t) ∧
    hash K s ^^^ hash K t = xorL (keyOf K) (symmDiff (atoms s) (atoms t)) :=
  ⟨C08_equal _ s t, C08_xor _ s t⟩

end Wee
