import Wee.Proofs.MateRoot
import Wee.Props.C02Closed
/-!
# C06 — mate claims are true (soundness: theorems) and shallow forced mates are found (completeness: statement)

Rust: `weechess-engine/src/searcher.rs` (`analyze_iterative`, `analyze_recursive`, `quiescence_search`, the three
table-hit paths, the fail-hard cut-offs, `TranspositionTableMoveIterator`), `weechess-engine/src/eval/mod.rs`
(`mate_in_ply`, `is_terminal`, `POS_INF`, `NEG_INF`).
Model: `Wee/Model/Search.lean` (`quiesce`, `searchNode`, `childLoop`, `runWorker(s)`, `iterStep`, `iterLoop`, `iterate`;
monad `M = ExceptT Stop (StateM St)`), `Wee/Model/Eval.lean`, game-theoretic specification `Wee/Spec/Outcome.lean`
(`Outcome.Win`, `Outcome.Lost` over the model's `legalMoves`, which C01/C02 tie to the rules of chess).

What is proved here (all for every seed / generator state, every cancellation point, every depth):

* `C06_solver_sound` — the executable oracle `forcedMate n` / `lostIn n` is sound for `Win` / `Lost`.
* `C06_static_ok` — a terminal static evaluation is the checkmate branch (before the repair of defect F10: from the C05
  bound `MaterialBounded`; since the heuristic result is clamped: for every state).  The hypotheses `MaterialBounded` /
  `TreeBounded` of the theorems below are REDUNDANT since that repair; they are kept for the signatures, the versions
  without them are the `_all` theorems of `Wee/Props/Clamped.lean`.
* `C06_quiesce_sound` — every value of `quiescence_search` is `SoundVal`.
* `C06_search_sound` — every call of `analyze_recursive` started on a sound table (`SoundTT`) keeps the table
  sound — also when it is interrupted or panics — and returns a `SoundVal` value: the complete induction
  (table hits of the three kinds, draw-by-history, stand-pat, cut-offs, "no child searched", the final store).
* `C06_iterate_sound` — `analyze_iterative` (model `iterate`): the table of the returned artifact is sound again;
  every winning `BestMove` report is a true forced win, for any number of workers per iteration (run one after the
  other: the value of each worker is sound, hence their maximum); with ONE worker per iteration — and on the
  interrupt path for any number — the first move of a winning report leads to a position that is `Lost` for the
  opponent (`C06_report_pairing_partial` is the single-iteration form).
* `C06_sound_fresh` — the same from a legal root position and fresh memory, with the domain of positions
  instantiated to the positions reachable from the root.

What is NOT proved: the pairing "reported first move keeps the mate" for several workers (false as the code stands,
see `C06_report_pairing_partial`), true interleavings of the workers' table operations (the model runs the workers
one after the other; the proof of `C06_search_sound` only ever *relies* on the table invariant at each read and
*guarantees* it at each write, so it is rely/guarantee-shaped, but no interleaving semantics is modelled), and
completeness (`C06_complete_statement`, compared with the exhaustive solver on every run).
-/
namespace Wee.C06
open Wee Wee.Search Wee.Outcome
open Wee.C10 (DisjointBoard)

/-! ## 1. the solver used as oracle -/

/-- **the executable solver is sound**: `forcedMate n s` ⇒ the side to move has a forced mate (`Win s`);
`lostIn n s` ⇒ the side to move is mated or cannot avoid mate (`Lost s`). -/
theorem C06_solver_sound (n : Nat) (s : State) :
    (forcedMate n s = true → Win s) ∧ (lostIn n s = true → Lost s) := solver_sound n s

/-- more plies never lose a forced mate -/
theorem C06_solver_mono (n : Nat) (s : State) :
    (forcedMate n s = true → forcedMate (n + 1) s = true) ∧ (lostIn n s = true → lostIn (n + 1) s = true) :=
  solver_mono n s

/-- `6nk/6pp/8/6N1/8/8/8/K7 w - - 0 1`: White mates in one with `Ng5-f7` (smothered mate; no sliders on the
board, so the kernel can run the move generator without the magic tables) -/
def mateIn1 : State :=
  { pieces := { wk := 0x1, wn := 0x0000004000000000, bk := 0x8000000000000000, bn := 0x4000000000000000,
                bp := 0x00C0000000000000 },
    turn := .white, castleW := .noRights, castleB := .noRights, ep := none, halfmove := 0, fullmove := 1 }

set_option maxRecDepth 1000000 in
/-- non-vacuity of `C06_solver_sound`: a concrete forced mate found by the solver, hence `Win` -/
example : forcedMate 1 mateIn1 = true := by decide +kernel

set_option maxRecDepth 1000000 in
example : Win mateIn1 := (C06_solver_sound 1 mateIn1).1 (by decide +kernel)

/-! ## 2. values, the material bound, the static evaluation -/

/-- **`SoundVal s α β r`** (re-exported from `Wee/Proofs/MateLemmas.lean`): a returned value `r` that claims a win
(`r ≥ POS_INF`) strictly above the window's `α` is a true forced win for the side to move in `s`; a value that claims
a loss (`r ≤ NEG_INF`) strictly below `β` is a true forced loss. -/
example (s : State) (α β r : Eval) :
    SoundVal s α β r ↔ ((Ev.posInf ≤ r ∧ α < r → Win s) ∧ (r ≤ Ev.negInf ∧ r < β → Lost s)) := Iff.rfl

/-- `MaterialBounded s` is the bound of `C05_nonterminal_partial` for the side to move; `TreeBounded s` asks it of
every position reachable from `s` by legal moves (promotions can raise the material) -/
example (s : State) : MaterialBounded s ↔
    (C05.materialDiff s s.turn).natAbs + C05.positionalDiff s s.turn < 10000 := Iff.rfl
example (s : State) : TreeBounded s ↔ ∀ s', Reachable s s' → MaterialBounded s' := Iff.rfl

/-- **StaticOK.**  `evaluate(state, turn_to_move, depth)` is terminal only in the mate branch: no legal move, in
check, value `-mate_in_ply(depth)`.  The hypothesis `MaterialBounded s` is REDUNDANT since the repair of defect F10
(the heuristic score is clamped to `[NEG_INF+1, POS_INF-1]`); it is kept so that the theorem keeps its signature —
`C06_static_ok_all` (Wee/Props/Clamped.lean) is the statement without it. -/
theorem C06_static_ok (s : State) (d : Nat) (e : Eval) (_hb : MaterialBounded s)
    (h : evaluate s s.turn d = some e) (ht : Ev.isTerminal e = true) :
    legalMoves? s = some [] ∧ s.isCheck = true ∧ e = - Ev.mateInPly d := static_ok h ht

/-! ## 3. quiescence -/

/-- **C06_quiesce_sound.**  Every value returned by `quiescence_search` (any fuel, any depth, any window
`alpha < beta`) on a position whose reachable tree satisfies the material bound is `SoundVal`.
Cases: no legal move (mate ⇒ `Lost` by `Lost.mated`; stalemate ⇒ a non-terminal value), quiet position and
`normal_eval >= beta` (stand-pat is non-terminal), capture loop (a win claim comes from a capture whose successor
is `Lost`; the result is `beta` or at least the stand-pat value, so the loop never claims a loss).
`TreeBounded s` is redundant since the repair of F10 (kept for the signature; `C06_quiesce_sound_all` drops it). -/
theorem C06_quiesce_sound (fuel : Nat) (s : State) (depth : Nat) (α β r : Eval) (_htb : TreeBounded s) (hαβ : α < β)
    (h : quiesce evaluate fuel s depth α β = .ok r) : SoundVal s α β r :=
  quiesce_sound fuel s depth α β r hαβ h

/-! ## 4. the table invariant, the domain of positions, `analyze_recursive` -/

/-- **`SoundEntry s e`**: what a table entry `e` claims about a position `s` with its key — its move is a legal
move of `s`; a value `≥ POS_INF` (of whatever kind) comes with a move into a `Lost` position; a value `≤ NEG_INF` of
an `Exact` or `UpperBound` entry means `s` is `Lost`.  `SoundTT K D tt`: every entry found under the key of a position
of `D` is sound for it.  `TTInv` adds the shape invariant of the table (C08). -/
example (s : State) (e : TT.Entry) : SoundEntry s e ↔
    ((∃ r ∈ legalMoves s, r.1.toNat = e.mv) ∧
     (Ev.posInf ≤ e.eval → ∃ r ∈ legalMoves s, r.1.toNat = e.mv ∧ Lost r.2) ∧
     (e.kind = kindExact ∨ e.kind = kindUpper → e.eval ≤ Ev.negInf → Lost s)) := Iff.rfl
example (K : Keys) (D : State → Prop) (tt : TT.Access) : SoundTT K D tt ↔
    ∀ s e, D s → tt.find (hash K s).toNat = some e → SoundEntry s e := Iff.rfl
example (K : Keys) (D : State → Prop) (L nT nB : Nat) (tt : TT.Access) :
    TTInv K D L nT nB tt ↔ (TT.AInv L nT nB tt ∧ SoundTT K D tt) := Iff.rfl

/-- two positions are interchangeable for the claims of a table entry: every legal move of the first is (as a move
word) a legal move of the second, and `Lost` carries over for the position and for the successors.  True of two
positions that differ only in the halfmove / fullmove counters or in an en-passant target that cannot be used
(the hash ignores these on purpose; that the model's `legalMoves` ignores them too is not proved here). -/
def SameOutcome (s s' : State) : Prop :=
  (Lost s → Lost s') ∧ ∀ r ∈ legalMoves s, ∃ r' ∈ legalMoves s', r'.1 = r.1 ∧ (Lost r.2 → Lost r'.2)

/-- no harmful key collision inside the set `D`: positions of `D` with the same key are interchangeable.
(It cannot be asked of all `State`s: there are more than `2^64` of them.) -/
def CollisionFree (K : Keys) (D : State → Prop) : Prop :=
  ∀ s s', D s → D s' → hash K s = hash K s' → SameOutcome s s'

theorem SameOutcome.entry {s s' : State} (h : SameOutcome s s') {e : TT.Entry} (he : SoundEntry s e) :
    SoundEntry s' e := by
  obtain ⟨⟨r, hr, h1⟩, hw, hl⟩ := he
  refine ⟨?_, fun hp => ?_, fun hk hn => h.1 (hl hk hn)⟩
  · obtain ⟨r', hr', e1, _⟩ := h.2 r hr
    exact ⟨r', hr', by rw [e1]; exact h1⟩
  · obtain ⟨r, hr, h1, hlost⟩ := hw hp
    obtain ⟨r', hr', e1, h2⟩ := h.2 r hr
    exact ⟨r', hr', by rw [e1]; exact h1, h2 hlost⟩

/-- every position reachable from a legal position (placement without overlaps) is one (C02_closed) -/
theorem reachable_legal {root : State} (hl : LegalPos root = true) (hd : DisjointBoard root.pieces) :
    ∀ s, Reachable root s → LegalPos s = true ∧ DisjointBoard s.pieces := by
  intro s hr
  induction hr with
  | refl => exact ⟨hl, hd⟩
  | step r _ hr ih =>
    exact ⟨C02_closed _ ih.1 ih.2 r hr, (C02_successor_invariants _ ih.1 ih.2 r hr).1⟩

/-- **the domain of a search from a legal root, no material hypothesis**: the positions reachable from `root` by
legal moves form a `Domain` — closed under legal moves, the move generator does not panic on them (C01/C02), and
colliding positions are interchangeable (`CollisionFree`).  (Since the repair of F10 a `Domain` no longer asks for a
bounded static evaluation.) -/
theorem Domain.ofRoot_all {K : Keys} {root : State} (hl : LegalPos root = true) (hd : DisjointBoard root.pieces)
    (hcf : CollisionFree K (Reachable root)) : Domain K (Reachable root) where
  closed := fun _ hs r hr => Reachable.step r hs hr
  genOK := fun s hs => by
    obtain ⟨h1, h2⟩ := reachable_legal hl hd s hs
    obtain ⟨_, L, _, hL, _⟩ := legalMoves_spec C02_applyCorrect s h1 h2
    rw [hL]; exact fun h => nomatch h
  coll := fun s s' hs hs' hk e he => (hcf s s' hs hs' (UInt64.toNat_inj.1 hk)).entry he

/-- **the domain of a search from a legal root** (signature of the pre-F10 development: `TreeBounded root` is now
redundant, see `Domain.ofRoot_all`). -/
theorem Domain.ofRoot {K : Keys} {root : State} (hl : LegalPos root = true) (hd : DisjointBoard root.pieces)
    (_htb : TreeBounded root) (hcf : CollisionFree K (Reachable root)) : Domain K (Reachable root) :=
  Domain.ofRoot_all hl hd hcf

/-- a fresh table satisfies the table invariant -/
theorem TTInv.fresh (K : Keys) (D : State → Prop) {nT nB : Nat} (hT : 0 < nT) (hB : 0 < nB) :
    TTInv K D Gen.bucketSize nT nB (TT.Access.new nT nB) :=
  ⟨TT.AInv.new nT nB, fun s e _ hf => by rw [TT.Access.new_find hT hB] at hf; exact nomatch hf⟩

/-- **C06_search_sound** (the full induction; nothing is left open).  Let `D` be a `Domain` for the keys of the
search, the table have `nT > 0` sub-tables of `nB > 0` buckets of `L > 0` slots and satisfy `TTInv` (shape + every
entry sound).  Then for every remaining depth `rem`, every node `a` whose position is in `D` with window
`alpha < beta` and a legal (or no) prioritised move, every state `st` of the worker (table, generator, node and poll
counters) and every history / cancellation point `ctx`: running `analyze_recursive`

* leaves a table that satisfies `TTInv` again — whether the call returns, is interrupted or panics
  (every insert keeps `SoundTT`);
* if it returns `r`, then `SoundVal a.s a.alpha a.beta r`.

Cases covered: the draw-by-history return (`0`), the three table-hit paths (`Exact`; `UpperBound` / `LowerBound`
with the tightened window and the `alpha >= beta` return), quiescence at the horizon, fail-hard cut-off with its
`LowerBound` store, "no child searched" (the static value, via `C06_static_ok`; the node counter is used to show
that a position with a legal move never takes that exit with a loss claim), and the final store of `alpha`. -/
theorem C06_search_sound {K : Keys} {D : State → Prop} {L nT nB : Nat} (g : Geo L nT nB) (dom : Domain K D)
    (ctx : Ctx) (hK : ctx.keys = K) (rem : Nat) (a : NodeArgs) (hD : D a.s) (hab : a.alpha < a.beta)
    (hprio : PrioOK a) (st : St) (htt : TTInv K D L nT nB st.tt) :
    TTInv K D L nT nB ((searchNode ctx rem a).run.run st).2.tt ∧
    ∀ r, ((searchNode ctx rem a).run.run st).1 = .ok r → SoundVal a.s a.alpha a.beta r :=
  searchNode_sound g dom ctx hK rem a hD hab hprio st htt

/-- the root window `(-mate_in_ply(0), mate_in_ply(0)) = (-11000, 11000)` strictly contains every mate score
`±mate_in_ply(d)`, `d < 2^31`, so at the root a winning value is a win and a losing value is a loss -/
theorem C06_root_window (s : State) (r : Eval) (h : SoundVal s (- Ev.mateInPly 0) (Ev.mateInPly 0) r) :
    (Ev.posInf ≤ r → Win s) ∧ (r ≤ Ev.negInf → Lost s) := by
  have h0 := root_window
  rw [h0.1, h0.2] at h
  refine ⟨fun hp => h.1 ⟨hp, ?_⟩, fun hn => h.2 ⟨hn, ?_⟩⟩
  · rw [posInf_eq] at hp; eomega
  · rw [negInf_eq] at hn; eomega

/-! ## 5. the report of an iteration -/

/-- `ClaimTrue root ev`: a `BestMove` report with a winning evaluation is a true forced win of the root;
`MoveKeeps root ev`: moreover its first move leads to a position that is `Lost` for the opponent (so the reported
move keeps the forced mate) -/
example (root : State) (ev : Eval) (line : List Move) :
    (ClaimTrue root (.best ev line) ↔ (Ev.posInf ≤ ev → Win root)) ∧
    (MoveKeeps root (.best ev line) ↔
      (Ev.posInf ≤ ev → ∃ r ∈ legalMoves root, line.head? = some r.1 ∧ Lost r.2)) := ⟨Iff.rfl, Iff.rfl⟩

/-- **C06_report_pairing_partial** (one iteration of `analyze_iterative`, model `iterStep`).
Hypotheses: a `Domain` containing the root, the root's key in the history (as `analyze_iterative` arranges with
`state_history.increment`), and the loop invariant `IterOK` (sound table, the remembered `best_mv` is a legal move of
the root or `None`, a winning remembered `best_eval` is true).  Then the invariant holds again after the iteration,
the events of the iteration are appended to the old ones, and

* for ANY number of workers (run one after the other) every winning report of the iteration is a true forced win
  (each worker's value is `SoundVal` for the root window, hence so is their maximum; on the interrupt path the
  reported evaluation is the root entry's);
* for ONE worker the reported evaluation is paired with the root entry the line starts from: the root call returns
  `alpha` right after storing `(best_move, alpha)` under the root key (or returns a table value / `beta` that is stored
  there), nothing below the root writes under a key of the history (`searchNode_frame`), so whatever entry the
  line is read from has a winning value, and its move leads to a `Lost` position (`SoundTT`).

What is missing for several workers: the reported evaluation is the maximum over the workers while the line is read
from the shared table, where every worker overwrites the root entry unconditionally and odd-numbered workers search
one ply shallower.  If a shallow worker writes last, a winning evaluation is paired with that worker's (possibly
non-mating) move, and deepening stops (`best_eval >= POS_INF`).  So the clause "the reported first move keeps the
mate" is NOT claimed for `workers > 1`; it stays with the oracle check (and the model yields the schedule as a
candidate counterexample). -/
theorem C06_report_pairing_partial {K : Keys} {D : State → Prop} {L nT nB : Nat} (g : Geo L nT nB)
    (dom : Domain K D) (ctx : Ctx) (hK : ctx.keys = K) (root : State) (hD : D root)
    (hhist : ctx.history.contains (hash ctx.keys root) = true) (workers depth : Nat) (st : IterSt)
    (h : IterOK K D L nT nB root st) :
    IterOK K D L nT nB root (iterStep ctx root (hash ctx.keys root) workers depth st) ∧
    ∃ new, (iterStep ctx root (hash ctx.keys root) workers depth st).events = st.events ++ new ∧
      (∀ ev ∈ new, ClaimTrue root ev) ∧ (workers = 1 → ∀ ev ∈ new, MoveKeeps root ev) :=
  iterStep_sound g dom ctx hK root hD _ rfl hhist workers depth st h

/-- **C06_iterate_sound** (`analyze_iterative`, model `iterate`).  Started on an artifact whose table satisfies
`TTInv` for a `Domain` that contains the root: for every generator state, depth limit, cancellation point and number
of workers per iteration, the returned artifact has the same keys and a table that satisfies `TTInv` again (so the
statement applies to the next search of the same game), every winning report is a true forced win of the root, and
if every iteration runs one worker, the first move of every winning report keeps the forced mate. -/
theorem C06_iterate_sound {D : State → Prop} {L nT nB : Nat} (g : Geo L nT nB) (art : Artifact)
    (dom : Domain art.keys.keys D) (root : State) (hD : D root) (htt : TTInv art.keys.keys D L nT nB art.tt)
    (rng0 : Rng.ChaCha8) (maxDepth : Option Nat) (workersOf : Nat → Nat) (cancelAt : Option Nat) (fuelDepth : Nat) :
    TTInv art.keys.keys D L nT nB (iterate root rng0 maxDepth art workersOf cancelAt fuelDepth).artifact.tt ∧
    (iterate root rng0 maxDepth art workersOf cancelAt fuelDepth).artifact.keys = art.keys ∧
    (∀ ev ∈ (iterate root rng0 maxDepth art workersOf cancelAt fuelDepth).events, ClaimTrue root ev) ∧
    ((∀ d, workersOf d = 1) →
      ∀ ev ∈ (iterate root rng0 maxDepth art workersOf cancelAt fuelDepth).events, MoveKeeps root ev) :=
  iterate_sound g art dom root hD htt rng0 maxDepth workersOf cancelAt fuelDepth

/-- **C06_sound_fresh** (soundness half of C06 from fresh memory).  For every legal root position (placement
without overlaps) whose reachable tree satisfies the material bound (redundant since the repair of F10:
`C06_sound_fresh_all`), every key table without harmful collision
among the reachable positions, fresh memory of any geometry, every seed, depth limit, cancellation point and
worker counts: every report with a winning terminal evaluation is a true forced mate for the side to move, and with
one worker per iteration the reported first move leads to a position in which the opponent is `Lost`. -/
theorem C06_sound_fresh (root : State) (hl : LegalPos root = true) (hd : DisjointBoard root.pieces)
    (htb : TreeBounded root) (keys : KeyTable) (hcf : CollisionFree keys.keys (Reachable root))
    (nT nB : Nat) (hT : 0 < nT) (hB : 0 < nB) (history : List UInt64)
    (rng0 : Rng.ChaCha8) (maxDepth : Option Nat) (workersOf : Nat → Nat) (cancelAt : Option Nat) (fuelDepth : Nat) :
    let out := iterate root rng0 maxDepth { keys := keys, tt := TT.Access.new nT nB, history := history }
      workersOf cancelAt fuelDepth
    (∀ ev ∈ out.events, ClaimTrue root ev) ∧ ((∀ d, workersOf d = 1) → ∀ ev ∈ out.events, MoveKeeps root ev) := by
  intro out
  have h := C06_iterate_sound ⟨by decide, hT, hB⟩ { keys := keys, tt := TT.Access.new nT nB, history := history }
    (Domain.ofRoot hl hd htb hcf) root (Reachable.refl root) (TTInv.fresh _ _ hT hB)
    rng0 maxDepth workersOf cancelAt fuelDepth
  exact ⟨h.2.2.1, h.2.2.2⟩

/-! ### non-vacuity of the hypotheses: the knight mate of C05 (`6nk/5Npp/8/8/8/8/8/K7 b`) -/

set_option maxRecDepth 1000000 in
/-- the hypotheses of `C06_sound_fresh` / `Domain.ofRoot` hold for a concrete position: legal, no overlaps, the
whole reachable tree (here: the position itself, Black is mated) within the material bound, and no collision for
ANY key table -/
example : LegalPos C05.mateS = true ∧ DisjointBoard C05.mateS.pieces ∧ TreeBounded C05.mateS ∧
    ∀ K : Keys, CollisionFree K (Reachable C05.mateS) := by
  have hno : legalMoves C05.mateS = [] := by decide +kernel
  have hself : ∀ s, Reachable C05.mateS s → s = C05.mateS := by
    intro s hr
    induction hr with
    | refl => rfl
    | step r _ hr ih => rw [ih, hno] at hr; exact nomatch hr
  refine ⟨by decide +kernel, by decide +kernel, fun s hs => ?_, fun K s s' hs hs' _ => ?_⟩
  · rw [hself s hs]; unfold MaterialBounded; decide +kernel
  · rw [hself s hs, hself s' hs']
    exact ⟨id, fun r hr => ⟨r, hr, rfl, id⟩⟩

/-- the geometry hypothesis and the table invariant are satisfiable: fresh memory with 2 sub-tables of 4 buckets -/
example (K : Keys) (D : State → Prop) : Geo Gen.bucketSize 2 4 ∧ TTInv K D Gen.bucketSize 2 4 (TT.Access.new 2 4) :=
  ⟨⟨by decide, by decide, by decide⟩, TTInv.fresh K D (by decide) (by decide)⟩

/-- the loop invariant holds at the start of `analyze_iterative` (`best_eval = NEG_INF`, `best_mv = None`) -/
example (K : Keys) (D : State → Prop) (root : State) (rng : Rng.ChaCha8) :
    IterOK K D Gen.bucketSize 2 4 root
      { tt := TT.Access.new 2 4, rng := rng, events := [], nodes := 0, bestEval := Ev.negInf,
        bestMv := Option.none, polls := 0 } :=
  ⟨TTInv.fresh K D (by decide) (by decide), fun _ hm => (nomatch hm),
   fun h => absurd (show Ev.posInf ≤ Ev.negInf from h) (by decide)⟩

/-! ## 6. full statements -/

/-- **Full soundness statement of C06** (as in DESIGN.md): for every legal root, every artifact with a sound table,
every seed, worker count and cancellation point, every winning report is a true forced win AND its first move keeps
it.  `C06_iterate_sound` proves it when every iteration uses one worker, and proves the first conjunct for any
number of workers run one after the other.  The second conjunct for `workers > 1` is expected to be FALSE for the code
as it stands (see `C06_report_pairing_partial`); it is kept here as the statement the oracle comparison checks. -/
def C06_sound_statement : Prop :=
  ∀ (D : State → Prop) (L nT nB : Nat) (_ : Geo L nT nB) (art : Artifact) (_ : Domain art.keys.keys D)
    (root : State) (_ : D root) (_ : TTInv art.keys.keys D L nT nB art.tt)
    (rng0 : Rng.ChaCha8) (maxDepth : Option Nat) (workersOf : Nat → Nat) (cancelAt : Option Nat) (fuelDepth : Nat),
    ∀ ev ∈ (iterate root rng0 maxDepth art workersOf cancelAt fuelDepth).events, MoveKeeps root ev

/-- the one-worker instance of `C06_sound_statement` is a theorem -/
theorem C06_sound_one_worker {D : State → Prop} {L nT nB : Nat} (g : Geo L nT nB) (art : Artifact)
    (dom : Domain art.keys.keys D) (root : State) (hD : D root) (htt : TTInv art.keys.keys D L nT nB art.tt)
    (rng0 : Rng.ChaCha8) (maxDepth : Option Nat) (cancelAt : Option Nat) (fuelDepth : Nat) :
    ∀ ev ∈ (iterate root rng0 maxDepth art (fun _ => 1) cancelAt fuelDepth).events, MoveKeeps root ev :=
  (C06_iterate_sound g art dom root hD htt rng0 maxDepth (fun _ => 1) cancelAt fuelDepth).2.2.2 fun _ => rfl

/-- the `BestMove` reports of an event list, in emission order -/
def bestReports (evs : List Event) : List (Eval × List Move) :=
  evs.filterMap fun e => match e with | .best ev line => some (ev, line) | _ => Option.none

/-- **Completeness statement of C06** (NOT proved; compared on every run with the exhaustive solver
`Outcome.forcedMate` on the mate-in-≤5 corpus and with the retrograde tables of the 3-man families).
From fresh memory (any geometry, any history-free artifact), if the side to move can force mate within `n` plies and
the search is limited to `d ≥ n` iterations, is never cancelled, and does not panic, then some report has a winning
terminal evaluation and the LAST report is winning with a first move into a position where the opponent is lost
within `n - 1` plies.  Stated for every seed and every worker count.
Known obstacles: (1) it is REFUTED on the pinned tree through defect F3 (`k7/8/2K5/8/8/8/8/7R w`, a three-ply mate
not reported at depth 3 or 4) and relies on `C05_mate` after the repair; (2) fail-low nodes are never stored (an
`UpperBound` entry is never written: `evaluation_type` stays `UpperBound` only while `best_move` is `None`, and
nothing is inserted then), table entries are re-used only with at least the remaining depth, and check extensions
keep the remaining depth exact — these are the facts a proof would use; (3) the draw-by-history return makes a
mating line that repeats a position of the game history look like a draw, so the statement is restricted to an empty
game history; (4) a full bucket may displace the root entry, in which case the iteration reports nothing
(`line.is_empty()`), hence "some report" needs a table large enough for the searched tree.
(`TreeBounded root` is among the hypotheses as written before the repair of F10; it is redundant now.) -/
def C06_complete_statement : Prop :=
  ∀ (root : State) (n d : Nat) (keys : KeyTable) (nT nB : Nat) (rng0 : Rng.ChaCha8) (workersOf : Nat → Nat),
    LegalPos root = true → DisjointBoard root.pieces → TreeBounded root →
    CollisionFree keys.keys (Reachable root) → 0 < nT → 0 < nB →
    forcedMate n root = true → n ≤ d → (∀ k, 0 < workersOf k) →
    let out := iterate root rng0 (some d) { keys := keys, tt := TT.Access.new nT nB, history := [] } workersOf Option.none
    out.panic = Option.none → out.artifact.tt.entries * 2 ≤ out.artifact.tt.maxEntries →
    ∃ ev line, (bestReports out.events).getLast? = some (ev, line) ∧
      Ev.posInf ≤ ev ∧ ∃ r ∈ legalMoves root, line.head? = some r.1 ∧ lostIn (n - 1) r.2 = true

end Wee.C06
