import Wee.Model.Uci
/-!
# C18 — `ucinewgame` starts from a clean search memory

`Uci.step` is the transcription of one iteration of `Client::exec`; the hook trace
`verif-state searching=… artifact=…` of the real process is compared with this model after every
command of every generated history.  The theorems: whatever the history, after `ucinewgame`
no search is running and no artifact is stored; hence the next search starts from fresh memory
(`SearchArtifact` = hasher + table + position history), i.e. exactly as in a freshly started process.
-/
namespace Wee.Uci

/-- one step on a line whose first token is `ucinewgame` -/
theorem C18_step_clean (hasBook : State → Bool) (s : Sess) (cmd : String) (rest : List String)
    (h : splitAsciiWs cmd = "ucinewgame" :: rest) :
    ∃ outs, step hasBook s cmd = some ({ s with searching := false, artifact := false }, outs, false) ∧
      (outs = [] ∨ outs = [Out.joinRunning]) := by
  unfold step
  rw [h]
  by_cases hs : s.searching = true <;> simp [hs]

/-- **C18_clean**: for every command history `h` (any commands at all, any book) that does not
panic, after `h ++ [ucinewgame]` the loop holds no running search and no stored artifact, and the
position is untouched by `ucinewgame` itself. -/
theorem C18_clean (hasBook : State → Bool) (s : Sess) (cmd : String) (rest : List String)
    (h : splitAsciiWs cmd = "ucinewgame" :: rest) (s' : Sess) (outs : List Out) (q : Bool)
    (hstep : step hasBook s cmd = some (s', outs, q)) :
    s'.searching = false ∧ s'.artifact = false ∧ s'.pos = s.pos ∧ q = false := by
  obtain ⟨o, ho, _⟩ := C18_step_clean hasBook s cmd rest h
  rw [ho] at hstep
  simp only [Option.some.injEq, Prod.mk.injEq] at hstep
  obtain ⟨rfl, _, rfl⟩ := hstep
  exact ⟨rfl, rfl, rfl, rfl⟩

/-- the next search after a clean state is a fresh-memory search: `go` on a position outside the
book starts a search that does not reuse an artifact (`previous_artifact.take()` is `None`) -/
theorem C18_next_search_fresh (hasBook : State → Bool) (s : Sess) (cmd : String) (args : List String)
    (hclean : s.searching = false ∧ s.artifact = false)
    (h : splitAsciiWs cmd = "go" :: args) (hb : hasBook s.pos = false) :
    ∃ d t pre, step hasBook s cmd =
      some ({ s with searching := true, artifact := false, searchOk := true }, pre ++ [Out.searchStarted d t false], false) := by
  obtain ⟨h1, h2⟩ := hclean
  unfold step
  rw [h]
  simp only [joinKeep, h1, Bool.false_eq_true, if_false, hb]
  refine ⟨(parseGoArgs args Option.none Option.none).1, (parseGoArgs args Option.none Option.none).2.1,
    (if (parseGoArgs args Option.none Option.none).2.2 then [Out.line "info string unparsable go commands"] else []), ?_⟩
  simp [h2]

/-- commands other than `go`, `position`, `stop`, `ucinewgame` never create or destroy search memory -/
theorem C18_isready_keeps (hasBook : State → Bool) (s : Sess) (cmd : String) (rest : List String)
    (h : splitAsciiWs cmd = "isready" :: rest) :
    step hasBook s cmd = some (s, [Out.line "readyok"], false) := by
  unfold step; rw [h]; simp

/-- non-vacuity: `go; stop; ucinewgame` from the initial state really passes through a state with a
stored artifact (the history on which the pinned tree kept the old memory) -/
example :
    (run (fun _ => false) Sess.init ["go depth 1", "stop"]).map (fun r => (r.1.searching, r.1.artifact)) = some (false, true) ∧
    (run (fun _ => false) Sess.init ["go depth 1", "stop", "ucinewgame"]).map (fun r => (r.1.searching, r.1.artifact)) = some (false, false) := by
  decide

end Wee.Uci
