import Wee.Props.C16
import Wee.Proofs.BookFnsBridge
/-!
# C16 restated for the book builder and the lookup TRANSLATED FROM THE RUST SOURCE TEXT

`tools/rs2lean_book.py` regenerates `Wee.GenFns.build.generate_book_data` (from `weechess-engine/build.rs`, inside its I/O frame: the book
directory is the list `dir` of file contents, serialisation composes to the identity), `BookParser.parse_movetext` (`weechess-core/src/book.rs`)
and `OpeningBook.lookup` (`weechess-engine/src/book.rs`) on every run; `OpeningBook.lookup_built` proves the pair equal to the model's
`buildBook` / `lookup`.  Composed with `C16_build_files`: what the shipped book answers, as computed by the functions the source text denotes.
-/
namespace Wee
open Wee.GenFns Wee.Book

/-- **C16 for the translated builder and lookup.**  If the function translated from `build.rs` produces a book `b` from the directory
contents `dir`, then for every representable position `s` the function translated from `OpeningBook::lookup` returns — without
panicking — an answer `r` such that a move is offered exactly when it was recorded, in the first `BOOK_DEPTH` plies of a game of those
files, from a position with the hash of `s`. -/
theorem C16_translated (k : KeyTable) (ht : k.turn.size = 2) (he : k.epFile.size = 8)
    (rx : RegexCaptures) (hrx : RxOK rx) (dir : List (List Char)) (b : core.Book)
    (h : build.generate_book_data rx (zobristOf k) dir = some (.ok b)) :
    ∃ t, Book.buildBook k.keys (dir.map String.ofList) = .ok t ∧
      ∀ s : State, (∀ e, s.ep = some e → e < 64) → (∀ ms, t[hash k.keys s]? = some ms → ms.length < 2 ^ 64) →
        ∃ r, OpeningBook.lookup ⟨b, zobristOf k⟩ (stateOf s) = some r ∧ r = Book.lookup k.keys t s ∧
          ∀ m, (∃ ms, r = some ms ∧ m ∈ ms) ↔
            ∃ q, Recorded ((dir.map String.ofList).flatMap gamesOfFile) q m ∧ hash k.keys q = hash k.keys s := by
  obtain ⟨t, hb, hl⟩ := OpeningBook.lookup_built k ht he rx hrx dir b h
  refine ⟨t, hb, fun s hep hlen => ⟨_, hl s hep hlen, rfl, fun m => ?_⟩⟩
  exact C16_build_files k.keys _ t hb s m

end Wee
