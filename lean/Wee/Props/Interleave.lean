import Wee.Proofs.EnvLemmas
import Wee.Props.C03
import Wee.Props.C04
import Wee.Props.C06
/-!
# C03 / C04 / C06 for racing workers: an interleaving semantics of the shared transposition table

Rust: `weechess-engine/src/searcher.rs`.  The workers of one iteration of `analyze_iterative` run under rayon
(`thread_data.into_par_iter().map(..analyze_recursive..)`).  They share exactly one mutable object, the
`TranspositionTableAccess`; every access is `TranspositionTableAccess::find` / `insert`, each of which holds ONE `RwLock`
guard of ONE sub-table for the whole operation (C15).  Each worker owns its `rng`, `nodes_searched`, `move_buffer`;
`hasher`, `state_history` and the cancellation flag are only read.  So a concurrent run of `N` workers is an interleaving
of atomic table operations.

Model: `Wee/Model/SearchEnv.lean` —
* `searchNodeE env` / `childLoopE env`: the code of `searchNode` / `childLoop` with the three table accesses going
  through `findE` / `insertE`, which first let the environment `env` apply the foreign inserts that happened since this
  worker's previous table operation, and which log the operation (finds with their result);
* `History` = the global order of the operations, `envOf H i` = the environment `H` is for worker `i`,
  `Interleaving ctx root tt ws H` = "`H` is an execution of the workers `ws` on the shared table `tt`".

Until now the properties covered thread interleavings only through "the invariant is closed under arbitrary admissible
inserts" (`C03_interleaving`); the model itself ran the workers one after the other (`runWorkers`), which is ONE
schedule.  Here the safety parts of C03, C04, C06 are proved for EVERY schedule:

* the semantics and its sanity:
  `Interleave_empty_env` — in the empty environment the worker is exactly `searchNode` (tie to the executable model that
  is compared event by event with the real engine);
  `Interleave_causal` — a worker's first `K` operations depend only on the first `K` batches of its environment;
  `Interleave_reads_from` — in an execution every `find` returned what the SHARED table held at that moment;
  `Interleave_sequential` — the sequential schedule is an execution (so `Interleaving` is satisfiable for every input);
  `Interleave_rely_guarantee` — if every worker, in every environment of admissible inserts, performs only admissible
  inserts, then in every execution all inserts are admissible (induction on the length of the global history);
* one iteration, any number of workers, any seeds, ALL interleavings:
  `C03_lines_legal_any_schedule(_bounded)`, `C06_claims_true_any_schedule`, `C04_no_panic_any_schedule`,
  `C04_stop_bound_any_env`, `C04_termination_any_env`;
* the whole search with every iteration under an arbitrary schedule (relation `SearchS`):
  `Interleave_iterate_is_schedule` (the sequential model `iterate` is one of its outcomes),
  `C03_search_any_schedule`, `C06_search_any_schedule`, `C04_search_any_schedule`;
* non-vacuity (end of the file): a concrete two-worker execution that is not sequential (`il_interleaving`,
  `il_not_sequential`), a whole search with it (`il_searchS`), all hypotheses of the theorems discharged on it.

What is NOT covered: C06's clause "the reported first move keeps the mate" for several workers (false of the code, see
`C06_report_pairing_partial`), C03's "at least one report" and C06's completeness under races, wall-clock latency.

**Trusted** (not modelled): that a `find`/`insert` under the `RwLock` guard is atomic (C15's linearisation argument), that
rayon's `collect` joins all started workers before `analyze_iterative` reads the table again, and that nothing but the
table is shared between the workers of an iteration (read off the Rust text above).
-/
namespace Wee
open Wee.Search Wee.Env
open Wee.C10 (DisjointBoard)

/-! ## 0. the semantics -/

/-- `Interleaving`, unfolded: every operation of the history belongs to a worker, and the history projected on worker
`i` is the log of worker `i` run in the environment the history induces for it -/
example (ctx : Ctx) (root : State) (tt : TT.Access) (ws : List Worker) (H : History) :
    Interleaving ctx root tt ws H ↔
      ((∀ p ∈ H, p.1 < ws.length) ∧
       ∀ i (h : i < ws.length), (runWorkerE (envOf H i) ctx root ws[i] tt).2.2 = H.proj i) := Iff.rfl

/-- **Interleave_empty_env** (`searchNodeE_empty`).  With nobody else writing, the worker of the interleaving semantics
is the sequential model's `searchNode` / `runWorker`: same outcome, same final state. -/
theorem Interleave_empty_env (ctx : Ctx) (rem : Nat) (a : NodeArgs) (n : Nat) (st : St) (root : State) (w : Worker)
    (tt : TT.Access) :
    ((searchNodeE Env.empty ctx rem a n st).1, (searchNodeE Env.empty ctx rem a n st).2.1) =
        (searchNode ctx rem a).run.run st ∧
    ((runWorkerE Env.empty ctx root w tt).1, (runWorkerE Env.empty ctx root w tt).2.1) =
        runWorker ctx root w.searchDepth w.best tt w.rng w.polls :=
  ⟨searchNodeE_empty ctx rem a n st, runWorkerE_empty ctx root w tt⟩

/-- **Interleave_causal.**  If two environments have the same first `K` batches, a worker's first `K` logged operations
(with the results of its finds) are the same in both: what a worker does next depends only on what it has seen. -/
theorem Interleave_causal (K : Nat) (env env' : Env) (h : ∀ j, j < K → env.script j = env'.script j)
    (ctx : Ctx) (root : State) (w : Worker) (tt : TT.Access) :
    (runWorkerE env ctx root w tt).2.2.take K = (runWorkerE env' ctx root w tt).2.2.take K :=
  runWorkerE_causal h ctx root w tt

/-- **Interleave_rely_guarantee** (the projection lemma).  Let `Adm` be a predicate on inserts which every worker
guarantees whenever it can rely on it: in every environment all of whose inserts are `Adm`, the worker's own inserts are
`Adm`.  Then in EVERY execution `H` of the workers all inserts are `Adm`. -/
theorem Interleave_rely_guarantee (ctx : Ctx) (root : State) (tt : TT.Access) (ws : List Worker) (H : History)
    (Adm : Nat → TT.Entry → Prop)
    (hworker : ∀ i (h : i < ws.length) (env : Env), (∀ j, ∀ p ∈ env.script j, Adm p.1 p.2) →
      ∀ k e, TOp.insert k e ∈ (runWorkerE env ctx root ws[i] tt).2.2 → Adm k e)
    (hI : Interleaving ctx root tt ws H) : ∀ p ∈ H, ∀ k e, p.2 = TOp.insert k e → Adm k e :=
  interleaving_guarantee Adm hworker hI

/-- **Interleave_reads_from.**  In every execution `H`, every `find` of every worker returned exactly what the shared table
held at that moment: the initial table changed by all inserts — of whichever worker — that precede the `find` in `H`.
So the worker-local view used in `Interleaving` and the global table `History.table` agree, and `H` is a sequential
history of the table object as in C15 (`C15_find` then says which entry a `find` can return). -/
theorem Interleave_reads_from (ctx : Ctx) (root : State) (tt : TT.Access) (ws : List Worker) (H : History)
    (hI : Interleaving ctx root tt ws H) (H1 : History) (i k : Nat) (r : Option TT.Entry) (H2 : History)
    (hH : H = H1 ++ (i, TOp.find k r) :: H2) : (History.table tt H1).find k = r :=
  interleaving_reads_from hI H1 i k r H2 hH

/-- **Interleave_sequential.**  For EVERY configuration — table, workers — the hypothesis `Interleaving` is satisfiable:
running the workers one after the other, each on the table the previous ones left (`sequentialHistory`, what the model's
`runWorkers` does), is an execution, and in it every worker's run (outcome, final state, log) is its run by
`runWorker`-in-the-empty-environment on the table the previous workers left. -/
theorem Interleave_sequential (ctx : Ctx) (root : State) (tt : TT.Access) (ws : List Worker) :
    Interleaving ctx root tt ws (sequentialHistory ctx root tt 0 ws) ∧
    ∀ i (hi : i < ws.length),
      runWorkerE (envOf (sequentialHistory ctx root tt 0 ws) i) ctx root ws[i] tt =
        runWorkerE Env.empty ctx root ws[i] (seqTable ctx root tt ws i) :=
  ⟨sequential_interleaving ctx root tt ws, sequential_runs ctx root tt ws⟩

/-! ## 1. C03 for every schedule -/

/-- **C03_lines_legal_any_schedule** (depth-graded form; the closed-region form follows).
Any number of workers `ws` (any search depths `≤ D`, any generator states / seeds, any poll offsets; the handed-over best
move absent or legal in the root), a shared table `tt` satisfying the invariant, collision-free keys on the positions of
grade `≤ D`, and ANY execution `H` of these workers (`Interleaving`).  Then
1. every insert any worker performs is a `LegalInsert` (the guarantee of each worker, relying on the same of the others);
2. the shared table satisfies `TInv` after every prefix of `H` — at every moment of the iteration;
3. the line walked (`walkLine`, at most `D + 1` moves) from the table at any moment — in particular from the final
   table, which is what `analyze_iterative` reports — is a legal line from the root;
4. each worker's own final view of the table satisfies `TInv` as well. -/
theorem C03_lines_legal_any_schedule_bounded {G : Nat → State → Prop} (hG : Graded G) (D : Nat) (ctx : Ctx)
    (hcf : CollisionFree ctx.keys (upTo G D)) (root : State) (hroot : G 0 root)
    (tt : TT.Access) (htt : TInv ctx.keys (upTo G D) tt) (ws : List Worker)
    (hws : ∀ w ∈ ws, w.searchDepth ≤ D ∧ ∀ m, w.best = some m → LegalIn root m)
    (H : History) (hI : Interleaving ctx root tt ws H) :
    (∀ p ∈ H, ∀ k e, p.2 = TOp.insert k e → LegalInsert ctx.keys (upTo G D) k e) ∧
    (∀ n, TInv ctx.keys (upTo G D) (History.table tt (H.take n))) ∧
    (∀ n len, len ≤ D + 1 → LineLegal root (walkLine ctx.keys (History.table tt (H.take n)) len root)) ∧
    (∀ i (h : i < ws.length), TInv ctx.keys (upTo G D) (runWorkerE (envOf H i) ctx root ws[i] tt).2.1.tt) := by
  have hins : ∀ p ∈ H, ∀ k e, p.2 = TOp.insert k e → LegalIns ctx.keys (upTo G D) k e :=
    interleaving_guarantee (LegalIns ctx.keys (upTo G D))
      (fun i h env hadm => (runWorkerE_legal hG D ctx hcf root hroot env hadm ws[i]
        (hws _ (List.getElem_mem h)).1 (hws _ (List.getElem_mem h)).2 tt htt).2) hI
  have htab : ∀ n, TInv ctx.keys (upTo G D) (History.table tt (H.take n)) := fun n =>
    table_inv (TInv_legalIns hcf) (H.take n) tt htt (fun p hp => hins p (List.mem_of_mem_take hp))
  refine ⟨hins, htab, fun n len hlen => ?_, fun i h => ?_⟩
  · exact walkLine_legal_graded hG D (htab n).2 len root 0 hroot (by omega)
  · exact (runWorkerE_legal hG D ctx hcf root hroot (envOf H i) (envOf_adm hins i) ws[i]
      (hws _ (List.getElem_mem h)).1 (hws _ (List.getElem_mem h)).2 tt htt).1

/-- **C03_lines_legal_any_schedule** (closed region).  For a region `R` of legal positions closed under legal moves, keys
that are collision-free on it, a root in it, a shared table satisfying `TInv`, ANY number of workers with ANY search
depths, seeds and poll offsets (best move absent or legal) and ANY interleaving `H` of their table operations: all
inserts are legal inserts, the table satisfies `TInv` at every moment, and every line walked from it at any moment, of
any length, is a legal line from the root. -/
theorem C03_lines_legal_any_schedule {R : State → Prop} (hR : Region R) (ctx : Ctx) (hcf : CollisionFree ctx.keys R)
    (root : State) (hroot : R root) (tt : TT.Access) (htt : TInv ctx.keys R tt) (ws : List Worker)
    (hws : ∀ w ∈ ws, ∀ m, w.best = some m → LegalIn root m)
    (H : History) (hI : Interleaving ctx root tt ws H) :
    (∀ p ∈ H, ∀ k e, p.2 = TOp.insert k e → LegalInsert ctx.keys R k e) ∧
    (∀ n, TInv ctx.keys R (History.table tt (H.take n))) ∧
    (∀ n len, LineLegal root (walkLine ctx.keys (History.table tt (H.take n)) len root)) := by
  -- the depth bound `D`: larger than every search depth and the requested line length
  have key : ∀ D, (∀ w ∈ ws, w.searchDepth ≤ D) →
      (∀ p ∈ H, ∀ k e, p.2 = TOp.insert k e → LegalInsert ctx.keys R k e) ∧
      (∀ n, TInv ctx.keys R (History.table tt (H.take n))) ∧
      (∀ n len, len ≤ D + 1 → LineLegal root (walkLine ctx.keys (History.table tt (H.take n)) len root)) := by
    intro D hD
    have hup : ∀ s, upTo (fun _ => R) D s ↔ R s := upTo_const D
    have h := C03_lines_legal_any_schedule_bounded hR.graded D ctx (hcf.congr (fun s hs => (hup s).1 hs)) root hroot tt
      (htt.congr (fun s hs => (hup s).1 hs)) ws (fun w hw => ⟨hD w hw, hws w hw⟩) H hI
    refine ⟨fun p hp k e he => ?_, fun n => (h.2.1 n).congr (fun s hs => (hup s).2 hs), h.2.2.1⟩
    obtain ⟨s, m, hs, hk, hm, hmv⟩ := h.1 p hp k e he
    exact ⟨s, m, (hup s).1 hs, hk, hm, hmv⟩
  have hmax : ∃ D0, ∀ w ∈ ws, w.searchDepth ≤ D0 := by
    clear hI hws key
    induction ws with
    | nil => exact ⟨0, fun _ h => nomatch h⟩
    | cons w rest ih =>
      obtain ⟨D0, h0⟩ := ih
      refine ⟨max D0 w.searchDepth, fun w' hw' => ?_⟩
      rcases List.mem_cons.1 hw' with rfl | hw'
      · exact Nat.le_max_right _ _
      · exact Nat.le_trans (h0 w' hw') (Nat.le_max_left _ _)
  obtain ⟨D0, hD0⟩ := hmax
  refine ⟨(key D0 hD0).1, (key D0 hD0).2.1, fun n len => ?_⟩
  exact (key (max D0 len) (fun w hw => Nat.le_trans (hD0 w hw) (Nat.le_max_left _ _))).2.2 n len
    (Nat.le_succ_of_le (Nat.le_max_right _ _))

/-! ## 2. C06 for every schedule -/

/-- **C06_claims_true_any_schedule.**  A `Domain` `D` of positions (closed under legal moves, generator
well-behaved, no harmful collision; since the repair of F10 nothing is asked of the evaluation), the root in it, a shared table satisfying `C06.TTInv` (shape + every entry sound),
ANY number of workers (any depths, seeds, poll offsets; best move absent or legal) and ANY interleaving `H`.  Then
1. every insert of every worker is a `SoundInsert` (key of a position of `D`, entry sound for it);
2. the shared table satisfies `C06.TTInv` — in particular `SoundTT` — after every prefix of `H`;
3. the value every worker returns is `SoundVal` for the root window: a winning value is a true forced win of the root,
   a losing one a true forced loss — whatever the other workers wrote into the table meanwhile;
4. hence the evaluation `analyze_iterative` reports after a completed iteration — the maximum over the workers' values —
   is a true claim (`ClaimTrue`), for every schedule;
5. and the report of an interrupted iteration (evaluation and first move read from the root's entry of the final table)
   even keeps the mate (`MoveKeeps`). -/
theorem C06_claims_true_any_schedule {K : Keys} {D : State → Prop} {L nT nB : Nat} (g : C06.Geo L nT nB)
    (dom : C06.Domain K D) (ctx : Ctx) (hK : ctx.keys = K) (root : State) (hD : D root)
    (tt : TT.Access) (htt : C06.TTInv K D L nT nB tt) (ws : List Worker)
    (hws : ∀ w ∈ ws, C06.BestOK root w.best) (H : History) (hI : Interleaving ctx root tt ws H) :
    (∀ p ∈ H, ∀ k e, p.2 = TOp.insert k e → SoundInsert K D k e) ∧
    (∀ n, C06.TTInv K D L nT nB (History.table tt (H.take n))) ∧
    (∀ i (h : i < ws.length) e, outcomeOf ctx root tt ws[i] H i = .ok e → C06.SoundVal root (-11000) 11000 e) ∧
    (∀ evals : List Eval, (∀ e ∈ evals, ∃ i, ∃ h : i < ws.length, outcomeOf ctx root tt ws[i] H i = .ok e) →
      ∀ e es line, evals = e :: es → C06.ClaimTrue root (.best (es.foldl max e) line)) ∧
    (∀ x line, (History.table tt H).find (hash K root).toNat = some x → line.head? = some x.mv.toUInt32 →
      C06.MoveKeeps root (.best x.eval line)) := by
  have hins : ∀ p ∈ H, ∀ k e, p.2 = TOp.insert k e → SoundInsert K D k e :=
    interleaving_guarantee (SoundInsert K D)
      (fun i h env hadm => (runWorkerE_sound g dom ctx hK root hD env hadm ws[i] (hws _ (List.getElem_mem h)) tt htt).2.1) hI
  have htab : ∀ n, C06.TTInv K D L nT nB (History.table tt (H.take n)) := fun n =>
    table_inv (TTInv_soundInsert g dom) (H.take n) tt htt (fun p hp => hins p (List.mem_of_mem_take hp))
  have hval : ∀ i (h : i < ws.length) e, outcomeOf ctx root tt ws[i] H i = .ok e → C06.SoundVal root (-11000) 11000 e :=
    fun i h e he => (runWorkerE_sound g dom ctx hK root hD (envOf H i) (envOf_adm hins i) ws[i]
      (hws _ (List.getElem_mem h)) tt htt).2.2 e he
  refine ⟨hins, htab, hval, fun evals hev e es line hcons hpos => ?_, fun x line hf hl hpos => ?_⟩
  · have hm := C06.foldl_max_mem e es
    rw [← hcons] at hm
    obtain ⟨i, h, he⟩ := hev _ hm
    refine (hval i h _ he).1 ⟨hpos, ?_⟩
    rw [C06.posInf_eq] at hpos
    unfold Eval at *; omega
  · have hfin : C06.TTInv K D L nT nB (History.table tt H) := by
      have := htab H.length; rwa [List.take_length] at this
    rw [C06.posInf_eq] at hpos
    obtain ⟨r, hr, hr1, hr2⟩ := (C06.root_entry_move hfin.2 hD hf).2 hpos
    exact ⟨r, hr, by rw [hl, hr1], hr2⟩

/-! ## 3. C04 for every schedule -/

/-- **C04_no_panic_any_schedule.**  A legal root (no stacked pieces) whose key is in the history (as `analyze_iterative`
arranges), a shared table whose entries have `depth ≤ max_depth`, which has the shape of a reachable table and whose entry
under the root's key, if any, carries a legal move of the root; ANY number of workers (best move absent or legal) and ANY
interleaving `H`.  Then no worker panics — neither the generator, `try_as_legal_move`'s `unwrap`, the evaluator, the
two `usize` subtractions of the probe nor the quiescence fuel — and the three table properties hold after every prefix of
`H`, so they hold for the next iteration and the next search. -/
theorem C04_no_panic_any_schedule (ctx : Ctx) (root : State) (nT nB : Nat) (hT : 0 < nT) (hB : 0 < nB)
    (hhist : ctx.history.contains (Wee.hash ctx.keys root) = true)
    (hl : LegalPos root = true) (hdj : DisjointBoard root.pieces)
    (tt : TT.Access) (hdep : tt.All SearchCtl.DepthOK) (hinv : TT.AInv Gen.bucketSize nT nB tt)
    (hroot : SearchCtl.RootInv ctx root tt) (ws : List Worker) (hws : ∀ w ∈ ws, SearchCtl.BestOK root w.best)
    (H : History) (hI : Interleaving ctx root tt ws H) :
    (∀ i (h : i < ws.length) why, outcomeOf ctx root tt ws[i] H i ≠ .error (.panic why)) ∧
    (∀ n, (History.table tt (H.take n)).All SearchCtl.DepthOK ∧
          TT.AInv Gen.bucketSize nT nB (History.table tt (H.take n)) ∧
          SearchCtl.RootInv ctx root (History.table tt (H.take n))) ∧
    (∀ p ∈ H, ∀ k e, p.2 = TOp.insert k e → SafeInsert ctx root k e) := by
  have hins : ∀ p ∈ H, ∀ k e, p.2 = TOp.insert k e → SafeInsert ctx root k e :=
    interleaving_guarantee (SafeInsert ctx root)
      (fun i h env hadm => (runWorkerE_safe ctx root nT nB hT hB hhist ⟨hl, hdj⟩ env hadm ws[i]
        (hws _ (List.getElem_mem h)) tt ⟨hdep, hinv, hroot⟩).2.2) hI
  refine ⟨fun i h why => ?_, fun n => ?_, hins⟩
  · exact (runWorkerE_safe ctx root nT nB hT hB hhist ⟨hl, hdj⟩ (envOf H i) (envOf_adm hins i) ws[i]
      (hws _ (List.getElem_mem h)) tt ⟨hdep, hinv, hroot⟩).1 why
  · exact table_inv (P := fun t => t.All SearchCtl.DepthOK ∧ TT.AInv Gen.bucketSize nT nB t ∧ SearchCtl.RootInv ctx root t)
      (SafeI_safeInsert hT hB) (H.take n) tt ⟨hdep, hinv, hroot⟩ (fun p hp => hins p (List.mem_of_mem_take hp))

/-- **C04_stop_bound_any_env.**  The poll/interrupt bound of a worker does not depend on the other workers at all: in
EVERY environment (no admissibility assumed), once `Stop` is visible to the worker's polls (`cancelAt = some k`,
`k ≤ polls`), the worker returns `SearchInterrupt` with exactly 10000 counted nodes or finishes its iteration below 10000. -/
theorem C04_stop_bound_any_env (env : Env) (ctx : Ctx) (k : Nat) (hk : ctx.cancelAt = some k) (root : State)
    (w : Worker) (tt : TT.Access) (hp : k ≤ w.polls) :
    (runWorkerE env ctx root w tt).1 = .error .interrupt ∧ (runWorkerE env ctx root w tt).2.1.nodes = Gen.pollInterval
    ∨
    (runWorkerE env ctx root w tt).1 ≠ .error .interrupt ∧ (runWorkerE env ctx root w tt).2.1.nodes < Gen.pollInterval := by
  have h := searchNodeE_stop_bound env ctx k hk w.searchDepth (rootArgsE root w) 0
    { tt, rng := w.rng, nodes := 0, polls := w.polls } hp
  rw [runWorkerE_eq]
  generalize searchNodeE env ctx w.searchDepth (rootArgsE root w) 0 { tt, rng := w.rng, nodes := 0, polls := w.polls } = out at h
  obtain ⟨r, st', l⟩ := out
  cases r with
  | ok v =>
    right
    refine ⟨(fun e => nomatch e), ?_⟩
    have := h.1
    obtain ⟨_, h2, _⟩ := this
    simp only [Nat.zero_div] at h2
    show st'.nodes < Gen.pollInterval
    unfold Gen.pollInterval at *
    omega
  | error e =>
    cases e with
    | interrupt =>
      left
      refine ⟨rfl, ?_⟩
      have := h.2.1
      unfold SearchCtl.StopJ at this
      simpa using this
    | panic why =>
      right
      refine ⟨(fun e => nomatch e), ?_⟩
      obtain ⟨_, h2, _⟩ := h.2.1
      simp only [Nat.zero_div] at h2
      show st'.nodes < Gen.pollInterval
      unfold Gen.pollInterval at *
      omega

/-- **C04_termination_any_env.**  `searchNodeE` is a total function satisfying the recursive equations of
`analyze_recursive` in every environment (structural recursion on the remaining depth and on the move list, accepted by
the kernel): interference cannot make a worker diverge. -/
theorem C04_termination_any_env (env : Env) (ctx : Ctx) (rem : Nat) (a : NodeArgs) :
    searchNodeE env ctx 0 a = nodeBodyE env ctx Option.none a ∧
    searchNodeE env ctx (rem + 1) a = nodeBodyE env ctx (some (searchNodeE env ctx rem)) a := ⟨rfl, rfl⟩

/-! ## 4. the whole search, every iteration under an arbitrary schedule

`SearchS root rng0 maxDepth art workersOf cancelAt fuelDepth out` (`Wee/Model/SearchEnv.lean`): `out` is a possible outcome
of `analyze_iterative` when in every iteration the workers are raced in some interleaving (`StepS`: seeds drawn as in the
code, any poll offsets, rayon may skip workers once one is interrupted, results joined by `joinOf`, reported by
`finishStep` = the text of `iterStep` after its call of `runWorkers`).  The model's `iterate` is the outcome for the
sequential schedules. -/

/-- **Interleave_iterate_is_schedule.**  The outcome of the executable sequential model `iterate` — the function that is
compared event by event with the real engine — is one of the outcomes of the search under arbitrary schedules: in every
iteration `runWorkers` is the sequential interleaving of the workers it starts (it stops starting workers after the first
interrupt or panic, which `StepS` allows).  Hence every theorem below specialises to `iterate`, and `SearchS` is inhabited
for every input. -/
theorem Interleave_iterate_is_schedule (root : State) (rng0 : Rng.ChaCha8) (maxDepth : Option Nat) (art : Artifact)
    (workersOf : Nat → Nat) (cancelAt : Option Nat) (fuelDepth : Nat) :
    SearchS root rng0 maxDepth art workersOf cancelAt fuelDepth
      (iterate root rng0 maxDepth art workersOf cancelAt fuelDepth) :=
  iterate_searchS root rng0 maxDepth art workersOf cancelAt fuelDepth

/-- **C03 for the whole search under arbitrary schedules.**  Every `BestMove` line reported by ANY outcome of the
search — any seed, depth limit, worker counts, cancellation instant, poll offsets and any interleaving of the workers'
table operations in every iteration — is non-empty and legal from the root; the artifact handed back satisfies the
invariant again.  Hypotheses as in `C03_reported_lines_legal_bounded`. -/
theorem C03_search_any_schedule {G : Nat → State → Prop} (hG : Graded G) (D : Nat) (root : State) (hroot : G 0 root)
    (art : Artifact) (hcf : CollisionFree art.keys.keys (upTo G D)) (htt : TInv art.keys.keys (upTo G D) art.tt)
    (rng0 : Rng.ChaCha8) (maxDepth : Option Nat) (workersOf : Nat → Nat) (cancelAt : Option Nat) (fuelDepth : Nat)
    (hD : maxDepth.getD fuelDepth ≤ D) (out : Outcome)
    (hout : SearchS root rng0 maxDepth art workersOf cancelAt fuelDepth out) :
    out.artifact.keys = art.keys ∧ TInv art.keys.keys (upTo G D) out.artifact.tt ∧
    ∀ ev line, Event.best ev line ∈ out.events → line ≠ [] ∧ LineLegal root line := by
  obtain ⟨st, hl, rfl⟩ := hout
  have h0 : IterInv art.keys.keys (upTo G D) root
      { tt := art.tt, rng := rng0, events := [], nodes := 0, bestEval := Ev.negInf, bestMv := Option.none, polls := 0 } :=
    ⟨htt, fun m hm => (by cases hm), fun ev line hm => (by cases hm)⟩
  have h := loopS_inv hG D { keys := art.keys.keys, history := hash art.keys.keys root :: art.history, cancelAt := cancelAt }
    hcf root hroot _ workersOf hl
    (by rw [Nat.zero_add]
        split
        · exact Nat.zero_le _
        · cases maxDepth <;> exact hD) h0
  refine ⟨rfl, h.tt, fun ev line hmem => ?_⟩
  refine h.events ev line ?_
  dsimp only at hmem
  split at hmem
  · rcases List.mem_append.1 hmem with h' | h'
    · exact h'
    · rw [List.mem_singleton] at h'; cases h'
  · exact hmem

/-- the sequential statement `C03_reported_lines_legal_bounded` is the instance `out := iterate …` -/
example {G : Nat → State → Prop} (hG : Graded G) (D : Nat) (root : State) (hroot : G 0 root)
    (art : Artifact) (hcf : CollisionFree art.keys.keys (upTo G D)) (htt : TInv art.keys.keys (upTo G D) art.tt)
    (rng0 : Rng.ChaCha8) (maxDepth : Option Nat) (workersOf : Nat → Nat) (cancelAt : Option Nat) (fuelDepth : Nat)
    (hD : maxDepth.getD fuelDepth ≤ D) (ev : Eval) (line : List Move)
    (h : Event.best ev line ∈ (iterate root rng0 maxDepth art workersOf cancelAt fuelDepth).events) :
    line ≠ [] ∧ LineLegal root line :=
  (C03_search_any_schedule hG D root hroot art hcf htt rng0 maxDepth workersOf cancelAt fuelDepth hD _
    (Interleave_iterate_is_schedule root rng0 maxDepth art workersOf cancelAt fuelDepth)).2.2 ev line h

/-- **C06 for the whole search under arbitrary schedules.**  Every winning `BestMove` report of ANY outcome of the search is
a true forced win of the root (`ClaimTrue`), and the table handed back is sound again. -/
theorem C06_search_any_schedule {D : State → Prop} {L nT nB : Nat} (g : C06.Geo L nT nB) (art : Artifact)
    (dom : C06.Domain art.keys.keys D) (root : State) (hD : D root) (htt : C06.TTInv art.keys.keys D L nT nB art.tt)
    (rng0 : Rng.ChaCha8) (maxDepth : Option Nat) (workersOf : Nat → Nat) (cancelAt : Option Nat) (fuelDepth : Nat)
    (out : Outcome) (hout : SearchS root rng0 maxDepth art workersOf cancelAt fuelDepth out) :
    C06.TTInv art.keys.keys D L nT nB out.artifact.tt ∧ ∀ ev ∈ out.events, C06.ClaimTrue root ev := by
  obtain ⟨st, hl, rfl⟩ := hout
  have hinit : C06.IterOK art.keys.keys D L nT nB root
      { tt := art.tt, rng := rng0, events := [], nodes := 0, bestEval := Ev.negInf, bestMv := Option.none, polls := 0 } :=
    ⟨htt, fun m hm => (nomatch hm), fun h => absurd (show Ev.posInf ≤ Ev.negInf from h) (by decide)⟩
  obtain ⟨h1, new, e1, c1⟩ := loopS_sound g dom
    { keys := art.keys.keys, history := hash art.keys.keys root :: art.history, cancelAt := cancelAt } rfl root hD
    (hash art.keys.keys root) rfl workersOf hl hinit
  rw [List.nil_append] at e1
  refine ⟨h1.1, fun ev hev => ?_⟩
  dsimp only at hev
  split at hev
  · rcases List.mem_append.1 hev with h' | h'
    · rw [e1] at h'; exact c1 ev h'
    · rw [List.mem_singleton.1 h']; trivial
  · rw [e1] at hev; exact c1 ev hev

/-- **C04 for the whole search under arbitrary schedules.**  No outcome of the search is a panic: for every legal root, seed,
depth limit, worker counts, cancellation instant, poll offsets, every interleaving in every iteration, and every
well-formed memory whose entry for the root's key, if any, carries a legal move of the root (`C04_no_panic`'s hypotheses). -/
theorem C04_search_any_schedule (root : State) (rng0 : Rng.ChaCha8) (maxDepth : Option Nat) (art : Artifact)
    (workersOf : Nat → Nat) (cancelAt : Option Nat) (fuelDepth : Nat) (tables buckets : Nat)
    (hT : 0 < tables) (hB : 0 < buckets) (hl : LegalPos root = true) (hdj : DisjointBoard root.pieces)
    (hdep : art.tt.All SearchCtl.DepthOK) (hinv : TT.AInv Gen.bucketSize tables buckets art.tt)
    (hprio : SearchCtl.PrioritizedOK art root) (out : Outcome)
    (hout : SearchS root rng0 maxDepth art workersOf cancelAt fuelDepth out) :
    out.panic = Option.none ∧ out.artifact.tt.All SearchCtl.DepthOK ∧
    TT.AInv Gen.bucketSize tables buckets out.artifact.tt ∧ SearchCtl.PrioritizedOK out.artifact root := by
  obtain ⟨st, hloop, rfl⟩ := hout
  have h := loopS_safe { keys := art.keys.keys, history := hash art.keys.keys root :: art.history, cancelAt := cancelAt }
    root tables buckets hT hB (by simp) ⟨hl, hdj⟩ workersOf hloop
    ⟨⟨hdep, hinv, hprio⟩, (fun m hm => by cases hm), rfl⟩
  exact ⟨h.2.2, h.1.1, h.1.2.1, h.1.2.2⟩

/-! ## 5. non-vacuity: a concrete two-worker execution that is not sequential

The position of `Wee/Props/C03.lean` (`c03Root`: White Kh1 Pg2 Pa6 Pc6, Black Ka8 Pa7 Pg3 Ph2, White to move; the only
legal move c6-c7 stalemates Black), the toy key table `c03KeyTable` (root ↦ 0, successor ↦ 1), a fresh 2 × 4 table, two
workers of iteration 0 with different seeds.  Each worker performs three table operations: probe the root (miss), probe
the successor (miss), store the root entry.  In the history `ilH` the two workers alternate, so BOTH miss on the root —
in either sequential schedule the second worker would find the first worker's entry and return at once.  The worker runs
are executed symbolically (for every environment and seed: the move ordering is only known to be a permutation). -/

namespace InterleaveExample
open Wee.SearchCtl (childArgs entryOf bufferOf)

def mK : Move := 268516470
set_option maxRecDepth 1000000 in
theorem ex_pseudo : pseudoLegalMoves c03Root = some [c03Move, mK] := by decide +kernel
set_option maxRecDepth 1000000 in
theorem ex_try1 : tryAsLegal c03Root c03Move = some (some (c03Move, c03Succ)) := by decide +kernel
set_option maxRecDepth 1000000 in
theorem ex_try2 : tryAsLegal c03Root mK = some Option.none := by decide +kernel
set_option maxRecDepth 1000000 in
theorem ex_eval : evaluate c03Succ c03Succ.turn 1 = some 0 := by decide +kernel
set_option maxRecDepth 1000000 in
theorem ex_check : c03Root.isCheck = false := by decide +kernel

theorem ex_quiesce (fuel d : Nat) (α β : Eval) (h : evaluate c03Succ c03Succ.turn d = some 0) :
    quiesce evaluate (fuel + 1) c03Succ d α β = .ok 0 := by
  rw [quiesce.eq_2, c03_lm_succ]
  simp only [h, List.isEmpty_nil, if_true]

def ilCtx : Ctx := { keys := c03KeyTable.keys, history := [hash c03KeyTable.keys c03Root], cancelAt := Option.none }
def ilEntry : TT.Entry := { kind := 0, mv := c03Move.toNat, depth := 0, maxDepth := 1, eval := 0 }

theorem ex_quiesceFuel : quiesceFuel c03Succ = (quiesceFuel c03Succ - 1) + 1 := by
  unfold quiesceFuel; omega


theorem ex_child (env : Env) (a : NodeArgs) (hs : a.s = c03Succ) (hd : a.curDepth = 1) (n : Nat) (st : St)
    (hnodes : (st.nodes + 1) % Gen.pollInterval ≠ 0)
    (hfind : (applyInserts st.tt (env.script n)).find 1 = Option.none) :
    searchNodeE env ilCtx 0 a n st =
      (.ok 0, { st with nodes := st.nodes + 1, tt := applyInserts st.tt (env.script n) }, [.find 1 Option.none]) := by
  rw [searchNodeE_zero, nodeBodyE_run]
  have ht : SearchCtl.tick ilCtx st = (.ok (), { st with nodes := st.nodes + 1 }) := by
    unfold SearchCtl.tick
    rw [if_neg (by simpa using hnodes)]
  rw [ht]
  simp only
  have hh : Wee.hash ilCtx.keys a.s = 1 := by rw [hs]; exact c03_hash_succ
  rw [hh]
  have hc : (decide (a.curDepth > 0) && ilCtx.history.contains 1) = false := by
    rw [hd]; simp [ilCtx, c03_hash_root]
  rw [hc]
  simp only [Bool.false_eq_true, if_false]
  rw [probeE_run]
  have hf : (applyInserts st.tt (env.script n)).find (1 : UInt64).toNat = Option.none := hfind
  simp only [hf]
  unfold probeK
  simp only
  rw [tailE_none_run, hs, hd, ex_quiesceFuel, ex_quiesce _ _ _ _ ex_eval]
  rfl

theorem ex_mK_ne : c03Move ≠ mK := by decide

theorem perm_pair {x y : Move} (hne : x ≠ y) {l : List Move} (h : l.Perm [x, y]) : l = [x, y] ∨ l = [y, x] := by
  have hl := h.length_eq
  match l, hl with
  | [a, b], _ =>
    have hx : x ∈ [a, b] := h.mem_iff.2 (by simp)
    have hy : y ∈ [a, b] := h.mem_iff.2 (by simp)
    have ha : a ∈ [x, y] := h.mem_iff.1 (by simp)
    have hb : b ∈ [x, y] := h.mem_iff.1 (by simp)
    simp only [List.mem_cons, List.not_mem_nil, or_false] at hx hy ha hb
    rcases ha with rfl | rfl <;> rcases hb with rfl | rfl
    · exfalso; rcases hy with h | h <;> exact hne h.symm
    · exact Or.inl rfl
    · exact Or.inr rfl
    · exfalso; rcases hx with h | h <;> exact hne h


theorem ex_childArgs_depth (a : NodeArgs) (hs : a.s = c03Root) (hd : a.curDepth = 0) (next : State) (alpha : Eval) :
    (childArgs a next alpha).curDepth = 1 := by
  unfold childArgs extensionOf
  rw [hs, ex_check, hd]
  simp

theorem ex_step (env : Env) (a : NodeArgs) (hs : a.s = c03Root) (hd : a.curDepth = 0)
    (hβ : a.beta = Ev.mateInPly 0) (rest : List Move) (best : Option Move) (kind : Nat) (n : Nat) (st : St)
    (hnodes : (st.nodes + 1) % Gen.pollInterval ≠ 0)
    (hfind : (applyInserts st.tt (env.script n)).find 1 = Option.none) :
    childLoopE env ilCtx (searchNodeE env ilCtx 0) a 0 (c03Move :: rest) (- Ev.mateInPly 0) best kind n st =
      match childLoopE env ilCtx (searchNodeE env ilCtx 0) a 0 rest 0 (some c03Move) kindExact (n + 1)
          { st with nodes := st.nodes + 1, tt := applyInserts st.tt (env.script n) } with
      | (r, st2, l2) => (r, st2, TOp.find 1 Option.none :: l2) := by
  rw [childLoopE_cons_run, hs, ex_try1]
  simp only
  rw [ex_child env (childArgs a c03Succ (-Ev.mateInPly 0)) rfl (ex_childArgs_depth a hs hd _ _) n st hnodes hfind]
  simp only
  rw [hβ, if_neg (by decide), if_pos (by decide)]
  rfl

theorem ex_skip (env : Env) (a : NodeArgs) (hs : a.s = c03Root) (rest : List Move) (alpha : Eval)
    (best : Option Move) (kind : Nat) :
    childLoopE env ilCtx (searchNodeE env ilCtx 0) a 0 (mK :: rest) alpha best kind =
      childLoopE env ilCtx (searchNodeE env ilCtx 0) a 0 rest alpha best kind := by
  funext n st
  rw [childLoopE_cons_run, hs, ex_try2]

theorem ex_run (env : Env) (w : Worker) (tt : TT.Access) (hsd : w.searchDepth = 1) (hb : w.best = Option.none)
    (h0 : (applyInserts tt (env.script 0)).find 0 = Option.none)
    (h1 : (applyInserts (applyInserts tt (env.script 0)) (env.script 1)).find 1 = Option.none) :
    (runWorkerE env ilCtx c03Root w tt).1 = .ok 0 ∧
    (runWorkerE env ilCtx c03Root w tt).2.2 = [.find 0 Option.none, .find 1 Option.none, .insert 0 ilEntry] := by
  rw [runWorkerE_eq, hsd, searchNodeE_succ, nodeBodyE_run]
  have ht : SearchCtl.tick ilCtx { tt := tt, rng := w.rng, nodes := 0, polls := w.polls } =
      (.ok (), { tt := tt, rng := w.rng, nodes := 1, polls := w.polls }) := by
    unfold SearchCtl.tick
    rw [if_neg (show ¬ ((0 + 1) % Gen.pollInterval == 0) = true by decide)]
  rw [ht]
  simp only
  have hh : Wee.hash ilCtx.keys (rootArgsE c03Root w).s = 0 := c03_hash_root
  rw [hh]
  have hc : (decide ((rootArgsE c03Root w).curDepth > 0) && ilCtx.history.contains 0) = false := by
    simp [rootArgsE]
  rw [hc]
  simp only [Bool.false_eq_true, if_false]
  rw [probeE_run]
  have hf : (applyInserts tt (env.script 0)).find (0 : UInt64).toNat = Option.none := h0
  simp only [hf]
  unfold probeK
  simp only
  obtain ⟨sorted, r, hs, hperm⟩ := SearchCtl.sort_rngOnly c03Root [c03Move, mK]
    { tt := applyInserts tt (env.script 0), rng := w.rng, nodes := 1, polls := w.polls }
  rw [tailE_some_run env ilCtx _ (rootArgsE c03Root w) 0 _ _ _ _ [c03Move, mK] sorted _ ex_pseudo hs]
  have hbuf : bufferOf (rootArgsE c03Root w).prioritized sorted = sorted := by
    unfold bufferOf rootArgsE; rw [hb]
  rw [hbuf]
  have hloop : childLoopE env ilCtx (searchNodeE env ilCtx 0)
      { rootArgsE c03Root w with alpha := (rootArgsE c03Root w).alpha, beta := (rootArgsE c03Root w).beta } 0
      sorted.reverse (rootArgsE c03Root w).alpha Option.none kindUpper (0 + 1)
      { tt := applyInserts tt (env.script 0), rng := r, nodes := 1, polls := w.polls } =
      (.ok (.ok (0, some c03Move, kindExact)),
        { tt := applyInserts (applyInserts tt (env.script 0)) (env.script 1), rng := r, nodes := 2, polls := w.polls },
        [TOp.find 1 Option.none]) := by
    have hα : (rootArgsE c03Root w).alpha = - Ev.mateInPly 0 := rfl
    rw [hα]
    rcases perm_pair ex_mK_ne hperm with rfl | rfl
    · show childLoopE env ilCtx _ _ 0 [mK, c03Move] _ _ _ _ _ = _
      rw [ex_skip env _ rfl, ex_step env _ rfl rfl rfl _ _ _ _ _ (show (1 + 1) % Gen.pollInterval ≠ 0 by decide) h1, childLoopE_nil_run]
    · show childLoopE env ilCtx _ _ 0 [c03Move, mK] _ _ _ _ _ = _
      rw [ex_step env _ rfl rfl rfl _ _ _ _ _ (show (1 + 1) % Gen.pollInterval ≠ 0 by decide) h1, ex_skip env _ rfl, childLoopE_nil_run]
  rw [hloop]
  simp only
  rw [if_neg (show ¬ ((2 : Nat) == 1) = true by decide)]
  simp only [entryOf, rootArgsE, hsd]
  exact ⟨trivial, rfl⟩

/-- two workers of iteration 0 (search depth 1, no previous best move), different seeds -/
def ilW0 : Worker := Worker.ofIteration 0 Option.none 0 11
def ilW1 : Worker := Worker.ofIteration 0 Option.none 1 22
/-- fresh memory -/
def ilTT : TT.Access := TT.Access.new 2 4
/-- the workers alternate: both probe the root before either has stored it -/
def ilH : History :=
  [(0, .find 0 Option.none), (1, .find 0 Option.none), (0, .find 1 Option.none), (1, .find 1 Option.none),
   (0, .insert 0 ilEntry), (1, .insert 0 ilEntry)]

set_option maxRecDepth 1000000 in
/-- **the alternating history is an execution** of ANY two workers of iteration 0 (search depth 1, no previous best move;
any generator states and poll offsets) on the fresh table, proved by running each worker symbolically in the environment
the history induces for it -/
theorem il_interleaving_gen (w0 w1 : Worker) (h0 : w0.searchDepth = 1) (h1 : w1.searchDepth = 1)
    (b0 : w0.best = Option.none) (b1 : w1.best = Option.none) : Interleaving ilCtx c03Root ilTT [w0, w1] ilH := by
  refine ⟨(show ∀ p ∈ ilH, p.1 < 2 by decide), fun i hi => ?_⟩
  match i, hi with
  | 0, _ =>
    rw [show [w0, w1][0] = w0 from rfl,
      (ex_run (envOf ilH 0) w0 ilTT h0 b0 (by decide +kernel) (by decide +kernel)).2]
    decide
  | 1, _ =>
    rw [show [w0, w1][1] = w1 from rfl,
      (ex_run (envOf ilH 1) w1 ilTT h1 b1 (by decide +kernel) (by decide +kernel)).2]
    decide

theorem il_interleaving : Interleaving ilCtx c03Root ilTT [ilW0, ilW1] ilH :=
  il_interleaving_gen ilW0 ilW1 rfl rfl rfl rfl

/-- both workers return the stalemate value 0 -/
theorem il_outcomes : outcomeOf ilCtx c03Root ilTT ilW0 ilH 0 = .ok 0 ∧ outcomeOf ilCtx c03Root ilTT ilW1 ilH 1 = .ok 0 :=
  ⟨(ex_run (envOf ilH 0) ilW0 ilTT rfl rfl (by decide +kernel) (by decide +kernel)).1,
   (ex_run (envOf ilH 1) ilW1 ilTT rfl rfl (by decide +kernel) (by decide +kernel)).1⟩

/-- a history in which no worker's operations are interrupted by another worker's: every schedule that runs the workers
one after the other, in whatever order, has this shape -/
def Blockwise (H : History) : Prop :=
  ∀ c, c < H.length → ∀ b, b < c → ∀ a, a < b → H[a]?.map (·.1) = H[c]?.map (·.1) →
    H[b]?.map (·.1) = H[a]?.map (·.1)

instance (H : History) : Decidable (Blockwise H) := by unfold Blockwise; infer_instance

/-- **the example is not a sequential schedule** -/
theorem il_not_sequential : ¬ Blockwise ilH := by decide

/-! ### a whole search with a non-sequential schedule (`SearchS` is inhabited beyond the sequential outcomes) -/

theorem drawSeeds_two (r : Rng.ChaCha8) : ∃ a b, (drawSeeds 2 r).1 = [a, b] := by
  rw [drawSeeds.eq_2]
  rcases Rng.nextU64 r with ⟨a, r1⟩
  simp only
  rw [drawSeeds.eq_2]
  rcases Rng.nextU64 r1 with ⟨b, r2⟩
  simp only
  rw [drawSeeds]
  exact ⟨a, b, rfl⟩

/-- the artifact of the example: the toy keys, fresh memory, no game history -/
def ilArt : Artifact := { keys := c03KeyTable, tt := ilTT, history := [] }

set_option maxRecDepth 1000000 in
theorem il_walk : walkLine ilCtx.keys (History.table ilTT ilH) (0 + 1) c03Root = [c03Move] := by decide +kernel

/-- what rayon's join yields for the example execution, for any two workers of iteration 0 -/
theorem il_join (w0 w1 : Worker) (h0 : w0.searchDepth = 1) (h1 : w1.searchDepth = 1)
    (b0 : w0.best = Option.none) (b1 : w1.best = Option.none) (polls : Nat) :
    (joinOf ilCtx c03Root ilTT [w0, w1] ilH polls).panic = Option.none ∧
    (joinOf ilCtx c03Root ilTT [w0, w1] ilH polls).interrupted = false ∧
    (joinOf ilCtx c03Root ilTT [w0, w1] ilH polls).evals = [0, 0] ∧
    (joinOf ilCtx c03Root ilTT [w0, w1] ilH polls).tt = History.table ilTT ilH := by
  have e0 := (ex_run (envOf ilH 0) w0 ilTT h0 b0 (by decide +kernel) (by decide +kernel)).1
  have e1 := (ex_run (envOf ilH 1) w1 ilTT h1 b1 (by decide +kernel) (by decide +kernel)).1
  have houts : ((List.range [w0, w1].length).filterMap fun i =>
      [w0, w1][i]?.map fun w => runWorkerE (envOf ilH i) ilCtx c03Root w ilTT) =
      [runWorkerE (envOf ilH 0) ilCtx c03Root w0 ilTT, runWorkerE (envOf ilH 1) ilCtx c03Root w1 ilTT] := by
    simp [List.range_succ]
  unfold joinOf
  simp only [houts]
  refine ⟨?_, ?_, ?_, trivial⟩
  · simp [e0, e1]
  · simp [e0, e1]
  · simp [e0, e1]

set_option maxRecDepth 1000000 in
/-- **a possible outcome of the search under a non-sequential schedule**: for every seed, the search of the example
position with two workers and depth limit 1, the workers of the only iteration racing as in `ilH`, does not panic and
reports the legal line `c6-c7` with evaluation 0 -/
theorem il_searchS (rng0 : Rng.ChaCha8) :
    ∃ out, SearchS c03Root rng0 (some 1) ilArt (fun _ => 2) Option.none 64 out ∧
      out.panic = Option.none ∧ Event.best 0 [c03Move] ∈ out.events := by
  obtain ⟨a, b, hab⟩ := drawSeeds_two rng0
  have hws : workersOfIteration 0 Option.none (drawSeeds 2 rng0).1 (fun _ => 0) =
      [Worker.ofIteration 0 Option.none 0 a 0, Worker.ofIteration 0 Option.none 1 b 0] := by rw [hab]; rfl
  have hI := il_interleaving_gen (Worker.ofIteration 0 Option.none 0 a 0) (Worker.ofIteration 0 Option.none 1 b 0)
    rfl rfl rfl rfl
  obtain ⟨jp, ji, je, jt⟩ := il_join (Worker.ofIteration 0 Option.none 0 a 0) (Worker.ofIteration 0 Option.none 1 b 0)
    rfl rfl rfl rfl 0
  obtain ⟨st0, hst0⟩ : ∃ s : IterSt, s =
      { tt := ilTT, rng := rng0, events := [], nodes := 0, bestEval := Ev.negInf, bestMv := Option.none, polls := 0 } :=
    ⟨_, rfl⟩
  obtain ⟨st1, hst1⟩ : ∃ s : IterSt, s = finishStep ilCtx c03Root (hash c03KeyTable.keys c03Root) 0 (drawSeeds 2 rng0).2
      (joinOf ilCtx c03Root ilTT [Worker.ofIteration 0 Option.none 0 a 0, Worker.ofIteration 0 Option.none 1 b 0] ilH 0)
      st0 := ⟨_, rfl⟩
  have hstep : StepS ilCtx c03Root (hash c03KeyTable.keys c03Root) 2 0 st0 st1 := by
    refine ⟨fun _ => 0, [Worker.ofIteration 0 Option.none 0 a 0, Worker.ofIteration 0 Option.none 1 b 0], ilH, 0,
      ?_, fun _ => ?_, ?_, ?_⟩
    · rw [hst0, hws]; exact List.Sublist.refl _
    · intro _; rw [hst0, hws]
    · rw [hst0]; exact hI
    · rw [hst1, hst0]
  have hrep := finishStep_reports ilCtx c03Root (hash c03KeyTable.keys c03Root) 0 (drawSeeds 2 rng0).2
    (joinOf ilCtx c03Root ilTT [Worker.ofIteration 0 Option.none 0 a 0, Worker.ofIteration 0 Option.none 1 b 0] ilH 0)
    st0 jp ji c03Move [] (by rw [jt]; exact il_walk) 0 [0] je
  rw [← hst1] at hrep
  have hpanic : st1.panic = Option.none := by rw [hrep.1, hst0]
  have hev : Event.best 0 [c03Move] ∈ st1.events := hrep.2
  refine ⟨_, ⟨st1, ?_, rfl⟩, hpanic, ?_⟩
  · have hlim : (if (legalMoves c03Root).isEmpty = true then 0 else 1) = 0 + 1 := by rw [c03_moves_root]; rfl
    show LoopS ilCtx c03Root _ _ (if (legalMoves c03Root).isEmpty = true then 0 else 1) 0
      { tt := ilTT, rng := rng0, events := [], nodes := 0, bestEval := Ev.negInf, bestMv := Option.none, polls := 0 } st1
    rw [hlim, ← hst0]
    -- iteration 0: the flag is not read at the boundary (`boundaryPoll _ 0 st = st`)
    exact LoopS.step 0 0 st0 st1 st1 st0.polls (by rw [hst0]) (by rw [hst0]; rfl) hstep (LoopS.done _ _)
  · dsimp only
    split
    · exact List.mem_append_left _ hev
    · exact hev

/-! ### the hypotheses of the three theorems hold on the example -/

theorem il_best (w : Worker) (hw : w ∈ [ilW0, ilW1]) : w.best = Option.none := by
  simp only [List.mem_cons, List.not_mem_nil, or_false] at hw
  rcases hw with rfl | rfl <;> rfl

/-- `C03_lines_legal_any_schedule` on the example: all hypotheses discharged -/
example : (∀ p ∈ ilH, ∀ k e, p.2 = TOp.insert k e → LegalInsert ilCtx.keys c03R k e) ∧
    (∀ n, TInv ilCtx.keys c03R (History.table ilTT (ilH.take n))) ∧
    (∀ n len, LineLegal c03Root (walkLine ilCtx.keys (History.table ilTT (ilH.take n)) len c03Root)) :=
  C03_lines_legal_any_schedule c03_region ilCtx c03_collisionFree c03Root (Or.inl rfl) ilTT
    (C03_TTInv_new _ _ (by decide) (by decide)) [ilW0, ilW1]
    (fun w hw m hm => by rw [il_best w hw] at hm; cases hm) ilH il_interleaving

set_option maxRecDepth 1000000 in
/-- the walk on the final table of the example execution returns the legal line (kernel evaluation of the model,
independent of the theorems) -/
example : walkLine ilCtx.keys (History.table ilTT ilH) 5 c03Root = [c03Move] := by decide +kernel

set_option maxRecDepth 1000000 in
/-- the two positions of the example form a `Domain` for the toy keys (C06's hypotheses) -/
theorem il_domain : C06.Domain c03KeyTable.keys c03R where
  closed := c03_region.closed
  genOK := by
    rintro s (rfl | rfl)
    · rw [c03_lm_root]; exact fun h => nomatch h
    · rw [c03_lm_succ]; exact fun h => nomatch h
  coll := by
    rintro s s' (rfl | rfl) (rfl | rfl) hk e he
    · exact he
    · rw [c03_hash_root, c03_hash_succ] at hk; exact absurd hk (by decide)
    · rw [c03_hash_root, c03_hash_succ] at hk; exact absurd hk (by decide)
    · exact he

/-- `C06_claims_true_any_schedule` on the example: all hypotheses discharged -/
example : (∀ p ∈ ilH, ∀ k e, p.2 = TOp.insert k e → SoundInsert c03KeyTable.keys c03R k e) ∧
    (∀ n, C06.TTInv c03KeyTable.keys c03R Gen.bucketSize 2 4 (History.table ilTT (ilH.take n))) ∧
    (∀ i (h : i < [ilW0, ilW1].length) e, outcomeOf ilCtx c03Root ilTT [ilW0, ilW1][i] ilH i = .ok e →
      C06.SoundVal c03Root (-11000) 11000 e) :=
  let h := C06_claims_true_any_schedule (K := c03KeyTable.keys) ⟨by decide, by decide, by decide⟩ il_domain ilCtx rfl
    c03Root (Or.inl rfl) ilTT (C06.TTInv.fresh _ _ (by decide) (by decide)) [ilW0, ilW1]
    (fun w hw m hm => by rw [il_best w hw] at hm; cases hm) ilH il_interleaving
  ⟨h.1, h.2.1, h.2.2.1⟩

/-- `C04_no_panic_any_schedule` on the example: all hypotheses discharged -/
example : ∀ i (h : i < [ilW0, ilW1].length) why,
    outcomeOf ilCtx c03Root ilTT [ilW0, ilW1][i] ilH i ≠ .error (.panic why) :=
  (C04_no_panic_any_schedule ilCtx c03Root 2 4 (by decide) (by decide) (by simp [ilCtx]) c03_legal_root (by decide)
    ilTT (TT.Access.All.new _ _ _) (TT.AInv.new _ _)
    (fun e he => by rw [show ilTT = TT.Access.new 2 4 from rfl, TT.Access.new_find (by decide) (by decide)] at he; cases he)
    [ilW0, ilW1] (fun w hw m hm => by rw [il_best w hw] at hm; cases hm) ilH il_interleaving).1

end InterleaveExample

end Wee
