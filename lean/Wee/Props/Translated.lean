import Wee.Props.C01
import Wee.Props.C08
import Wee.Props.C09
import Wee.Proofs.CoreFnsBridge
import Wee.Proofs.GenMovesBridge
/-!
# Properties restated for the functions TRANSLATED FROM THE RUST SOURCE TEXT

`tools/rs2lean2.py` / `tools/rs2lean3.py` regenerate `Wee.GenFns.*` from the text of `board.rs`, `hasher.rs`, `attacks.rs`,
`state.rs` and `movegen.rs` on every run; the bridge files prove each generated function equal to the hand-written model
function.  The theorems below compose those bridges with the property theorems, so that the statement is about the function the
translator produced from what the code says now — with the translator's parser and its table of primitive mappings
(`tools/rs2lean.NOTES.md`) as the trusted part, instead of a sampled comparison of model and code.

`stateOf s` is the Rust-side value (`struct State`) of a model state, `zobristOf k` that of a key table.
-/
namespace Wee
open Wee.GenFns
open Wee.C10 (DisjointBoard)

/-- **C01 for the translated generator.**  For every legal position (no stacked pieces, representable en-passant square and
clocks) the function obtained from the text of `MoveGenerator::compute_legal_moves` returns — without panicking — an array whose
moves, read through all their accessors, are a permutation without duplicates of the legal moves of the rules of chess, each paired
with the Rust-side value of the model's successor state. -/
theorem C01_translated (s : State) (hl : LegalPos s = true) (hd : DisjointBoard s.pieces) (ok : StateOK s) :
    ∃ L : List (Move × State),
      MoveGenerator.compute_legal_moves (stateOf s) = some ((L.map resOf).toArray) ∧
      (L.map (toSpecMove ∘ (·.1))).Perm ((Spec.legalMoves (abs s)).map some) ∧
      (L.map (toSpecMove ∘ (·.1))).Nodup := by
  obtain ⟨⟨L, hL⟩, _⟩ := C01_legal_results s hl hd
  have hlm : legalMoves s = L := by unfold legalMoves; rw [hL]; rfl
  obtain ⟨hp, hn⟩ := C01_moves s hl hd
  refine ⟨L, ?_, hlm ▸ hp, hlm ▸ hn⟩
  rw [MoveGenerator.compute_legal_moves_model s ok, hL]
  rfl

/-- every successor the translated generator lists is the rule successor of its move and again a legal position -/
theorem C01_translated_successors (s : State) (hl : LegalPos s = true) (hd : DisjointBoard s.pieces) (ok : StateOK s) :
    ∃ L : List (Move × State),
      MoveGenerator.compute_legal_moves (stateOf s) = some ((L.map resOf).toArray) ∧
      ∀ r ∈ L, ∃ sm, toSpecMove r.1 = some sm ∧ sm ∈ Spec.legalMoves (abs s) ∧
        abs r.2 = Spec.applyMove (abs s) sm ∧ DisjointBoard r.2.pieces ∧ LegalPos r.2 = true := by
  obtain ⟨⟨L, hL⟩, hr⟩ := C01_legal_results s hl hd
  have hlm : legalMoves s = L := by unfold legalMoves; rw [hL]; rfl
  refine ⟨L, ?_, hlm ▸ hr⟩
  rw [MoveGenerator.compute_legal_moves_model s ok, hL]
  rfl

/-- **C08 (equal keys hash equal) for the translated hasher**: positions with the same placement, side to move, castling rights and
en-passant target get the same value from the function obtained from the text of `ZobristHasher::hash`, for every key table. -/
theorem C08_translated_equal (k : KeyTable) (ht : k.turn.size = 2) (he : k.epFile.size = 8) (s t : State)
    (hs : ∀ q, s.ep = some q → q < 64) (htt : ∀ q, t.ep = some q → q < 64) (h : SameKey s t) :
    ZobristHasher.hash (zobristOf k) (stateOf s) = ZobristHasher.hash (zobristOf k) (stateOf t) := by
  rw [ZobristHasher.hash_keyTable k ht he s hs, ZobristHasher.hash_keyTable k ht he t htt, C08_equal k.keys s t h]

/-- the move counters do not enter the translated hash -/
theorem C08_translated_counters (k : KeyTable) (ht : k.turn.size = 2) (he : k.epFile.size = 8) (s : State)
    (hs : ∀ q, s.ep = some q → q < 64) (h m : Nat) :
    ZobristHasher.hash (zobristOf k) (stateOf { s with halfmove := h, fullmove := m }) =
      ZobristHasher.hash (zobristOf k) (stateOf s) :=
  C08_translated_equal k ht he _ s hs hs ⟨rfl, rfl, rfl, rfl, rfl⟩

/-- **C09 for the translated lookups**: the functions obtained from the text of `compute_rook_attacks` / `compute_bishop_attacks` /
`compute_queen_attacks` (mask, wrapping multiplication by the magic, shift, table index) never panic on a real square and return
exactly the squares reached by walking each ray up to and including the first blocker. -/
theorem C09_translated_rook (sq : UInt8) (h : sq.toNat < 64) (occ : UInt64) :
    ∃ b, AttackGenerator.compute_rook_attacks sq occ = some b ∧
      ∀ t, test b t = (Spec.slide (fun n => test occ n) Spec.rookDirs sq.toNat).contains t :=
  ⟨_, AttackGenerator.compute_rook_attacks_eq sq occ h, fun t => C09_rook sq.toNat h occ t⟩

theorem C09_translated_bishop (sq : UInt8) (h : sq.toNat < 64) (occ : UInt64) :
    ∃ b, AttackGenerator.compute_bishop_attacks sq occ = some b ∧
      ∀ t, test b t = (Spec.slide (fun n => test occ n) Spec.bishopDirs sq.toNat).contains t :=
  ⟨_, AttackGenerator.compute_bishop_attacks_eq sq occ h, fun t => C09_bishop sq.toNat h occ t⟩

theorem C09_translated_queen (sq : UInt8) (h : sq.toNat < 64) (occ : UInt64) :
    ∃ b, AttackGenerator.compute_queen_attacks sq occ = some b ∧
      ∀ t, test b t = (Spec.slide (fun n => test occ n) (Spec.rookDirs ++ Spec.bishopDirs) sq.toNat).contains t :=
  ⟨_, AttackGenerator.compute_queen_attacks_eq sq occ h, fun t => C09_queen sq.toNat h occ t⟩

end Wee
