import Wee.Props.C13
import Wee.Props.C01
import Wee.Props.C10Closed
import Wee.Proofs.MirrorRules
/-!
# C13 closed: the evaluator is mirror-symmetric, terminal branches included

`Wee/Props/C13.lean` proves `C13_mirror` relative to `MirrorTerminalAgree s` (the three terminal tests of
`Evaluator::evaluate` — the `king_has_move` shortcut, `State::is_check`, emptiness of `compute_legal_moves` — agree
on a position and on its colour mirror).  Here that hypothesis is discharged for every legal position without
stacked pieces:

* the rules of chess are mirror-symmetric (`Wee/Proofs/MirrorRules.lean`: `Spec.step`, `attacksFrom`, `attackedBy`,
  `inCheck`, the pseudo-legal generators, `applyMove`, `isLegalAfter`, `legalMoves`, `LegalPos` are equivariant under
  `Spec.mirrorPos`);
* the abstraction commutes with the mirrors: `abs (mirrorState s) = Spec.mirrorPos (abs s)`;
* C10 (`colored_attacks`, `is_check` = rule-level attacked squares / check) and C01 (`compute_legal_moves` = rule-level
  legal moves) transport the symmetry to the engine's bitboard code.

Rust: `weechess-engine/src/eval/mod.rs` (`Evaluator::evaluate`, `king_has_move`), `weechess-core/src/movegen.rs`
(`compute_legal_moves`), `weechess-core/src/board.rs` (`colored_attacks`, `is_check`).
-/
namespace Wee.C13
open Gen
open Wee.C10 (DisjointBoard)

/-! ## 1. the rules are mirror-symmetric (specification level) -/

/-- `Spec.step` is equivariant: from the flipped square, with the rank direction negated, one reaches the flipped
square (or leaves the board in both cases). -/
theorem C13_step_flip {sq : Nat} (h : sq < 64) (df dr : Int) :
    Spec.step (Spec.flip sq) df (-dr) = (Spec.step sq df dr).map Spec.flip := Spec.step_flip h df dr

/-- `Spec.attacksFrom` is equivariant: if a piece `(c, k)` on `s` attacks `t`, the piece `(c.opp, k)` on `flip s`
attacks `flip t` when the occupancy is flipped (pawn directions flip with the colour, knight/king offsets and slider
directions are closed under rank negation, rays are walked square by square). -/
theorem C13_attacksFrom_flip (occP occQ : Nat → Bool) (hocc : ∀ n, n < 64 → occQ (Spec.flip n) = occP n)
    (c : Spec.Color) (k : Spec.Kind) {s t : Nat} (hs : s < 64) (h : t ∈ Spec.attacksFrom occP c k s) :
    Spec.flip t ∈ Spec.attacksFrom occQ c.opp k (Spec.flip s) :=
  Spec.mem_attacksFrom_flip occP occQ hocc c k hs h

/-- "attacked by colour `c`" on the mirror = "attacked by the other colour" on the position, at the flipped square -/
theorem C13_attackedBy_mirror (p : Spec.Pos) (c : Spec.Color) {t : Nat} (ht : t < 64) :
    (Spec.mirrorPos p).attackedBy c.opp (Spec.flip t) = p.attackedBy c t := Spec.attackedBy_mirrorPos p c ht

/-- check is mirror-symmetric (any position whatsoever) -/
theorem C13_inCheck_mirror (p : Spec.Pos) (c : Spec.Color) : (Spec.mirrorPos p).inCheck c.opp = p.inCheck c :=
  Spec.inCheck_mirrorPos p c

/-- legality of positions is mirror-symmetric (64-cell boards; `mirrorPos` always builds 64 cells) -/
theorem C13_legalPos_mirror (p : Spec.Pos) (hsz : p.cells.size = 64) :
    Spec.LegalPos (Spec.mirrorPos p) = Spec.LegalPos p := Spec.legalPos_mirrorPos p hsz

/-- **the legal moves of the rules are mirror-symmetric**: for a legal position, the legal moves of the mirrored
position are, up to order, the mirrored legal moves (colour swapped, origin and destination flipped, all other
attributes kept); in particular there are equally many, and one list is empty iff the other is. -/
theorem C13_legalMoves_mirror (p : Spec.Pos) (hl : Spec.LegalPos p = true) :
    (Spec.legalMoves (Spec.mirrorPos p)).Perm ((Spec.legalMoves p).map Spec.mirrorMove) ∧
    (Spec.legalMoves (Spec.mirrorPos p)).length = (Spec.legalMoves p).length ∧
    (Spec.legalMoves (Spec.mirrorPos p)).isEmpty = (Spec.legalMoves p).isEmpty :=
  ⟨Spec.legalMoves_perm_mirror (Spec.mirror_of_legal hl), Spec.legalMoves_length_mirror (Spec.mirror_of_legal hl),
    Spec.legalMoves_isEmpty_mirrorPos hl⟩

/-- make-move is mirror-symmetric on the cells: after a pseudo-legal move and after the mirrored move on the
mirrored board, cell `flip sq` of one is the colour-swapped cell `sq` of the other -/
theorem C13_applyMove_mirror (p : Spec.Pos) (hsz : p.cells.size = 64) (m : Spec.SMove) (hm : m ∈ Spec.pseudoMoves p)
    {sq : Nat} (hsq : sq < 64) :
    (Spec.applyMove (Spec.mirrorPos p) (Spec.mirrorMove m)).at (Spec.flip sq) =
      Spec.mirrorCell ((Spec.applyMove p m).at sq) := by
  obtain ⟨hs, hd, hc⟩ := Spec.pseudo_wf hm
  have h0 : Spec.MirrorAt p (Spec.mirrorPos p) := by
    intro n hn; rw [Spec.mirrorPos_at p (Spec.flip_lt hn), Spec.flip_flip hn]
  exact Spec.applyMove_mirrorAt h0 hsz (by simp [Spec.mirrorPos]) m hs hd hc sq hsq

/-! ## 2. the abstraction commutes with the mirrors -/

/-- **`abs (mirrorState s) = Spec.mirrorPos (abs s)`**: reading the byte-swapped, colour-swapped bitboards as a
mailbox gives the mirrored mailbox.  Needs a placement without stacked pieces (`Board::piece_at` scans White first,
so a square holding a white and a black piece would be read differently before and after the swap). -/
theorem C13_abs_mirror (s : State) (hd : DisjointBoard s.pieces) :
    abs (mirrorState s) = Spec.mirrorPos (abs s) := abs_mirrorState s hd

/-- no stacked pieces on the mirror iff none on the position -/
theorem C13_disjoint_mirror (s : State) : DisjointBoard (mirrorState s).pieces ↔ DisjointBoard s.pieces :=
  disjointBoard_mirrorState s

/-- the mirror of a legal position is a legal position -/
theorem C13_legal_mirror (s : State) (hl : LegalPos s = true) (hd : DisjointBoard s.pieces) :
    LegalPos (mirrorState s) = true := legalPos_mirrorState s hl hd

/-- `Board::colored_attacks` of the mirror is the byte-swapped `colored_attacks` of the other colour -/
theorem C13_attacks_mirror (s : State) (hd : DisjointBoard s.pieces) (c : Color) :
    coloredAttacks (mirrorState s).pieces c.opp = bswap (coloredAttacks s.pieces c) := coloredAttacks_mirror s hd c

/-! ## 3. the terminal tests agree -/

/-- `State::is_check` agrees (C10 + equivariance of `inCheck`); no legality needed -/
theorem C13_check_agree (s : State) (hd : DisjointBoard s.pieces) : (mirrorState s).isCheck = s.isCheck :=
  isCheck_mirrorState s hd

/-- the `king_has_move` shortcut agrees (C10 for the opponent's attack map, the king-attack table is symmetric,
occupancy is byte-swapped); needs at most one king per side because `first_one` is taken of the king bitboard -/
theorem C13_khm_agree (s : State) (hd : DisjointBoard s.pieces) (hk : OneKing s) :
    kingHasMove (mirrorState s) = kingHasMove s := kingHasMove_mirrorState s hd hk

/-- `compute_legal_moves` neither panics on a legal position nor on its mirror, and returns an empty list on one
iff on the other (C01 twice + equivariance of the rule-level legal moves) -/
theorem C13_moves_agree (s : State) (hl : LegalPos s = true) (hd : DisjointBoard s.pieces) :
    (legalMoves? (mirrorState s)).map List.isEmpty = (legalMoves? s).map List.isEmpty := by
  have hd' := (disjointBoard_mirrorState s).2 hd
  have hl' := legalPos_mirrorState s hl hd
  obtain ⟨L, hL⟩ := (C01_legal_results s hl hd).1
  obtain ⟨L', hL'⟩ := (C01_legal_results (mirrorState s) hl' hd').1
  have e1 : legalMoves s = L := by unfold legalMoves; rw [hL]; rfl
  have e2 : legalMoves (mirrorState s) = L' := by unfold legalMoves; rw [hL']; rfl
  have c1 := C01_count s hl hd
  have c2 := C01_count (mirrorState s) hl' hd'
  rw [e1] at c1
  rw [e2] at c2
  have hlen := Spec.legalMoves_length_mirror (mirror_abs s hl hd)
  rw [hL, hL']
  simp only [Option.map_some, Option.some.injEq]
  rw [Bool.eq_iff_iff, List.isEmpty_iff, List.isEmpty_iff, ← List.length_eq_zero_iff, ← List.length_eq_zero_iff]
  omega

/-- **the hypothesis of `C13_mirror` holds for every legal position without stacked pieces** -/
theorem C13_terminal_agree (s : State) (hl : LegalPos s = true) (hd : DisjointBoard s.pieces) :
    MirrorTerminalAgree s where
  khm := C13_khm_agree s hd (oneKing_of_legal s hl hd)
  chk := C13_check_agree s hd
  moves := C13_moves_agree s hl hd

/-- the generated move count agrees too (not needed by the evaluator; perft depth 1 is mirror-symmetric) -/
theorem C13_move_count_mirror (s : State) (hl : LegalPos s = true) (hd : DisjointBoard s.pieces) :
    (legalMoves (mirrorState s)).length = (legalMoves s).length := by
  rw [C01_count s hl hd, C01_count _ (legalPos_mirrorState s hl hd) ((disjointBoard_mirrorState s).2 hd)]
  exact Spec.legalMoves_length_mirror (mirror_abs s hl hd)

/-! ## 4. the closed property -/

/-- **C13_mirror_closed.**  For every legal position whose bitboards do not overlap, every perspective and every
depth: `Evaluator::evaluate(mirror(state), !perspective, depth) = Evaluator::evaluate(state, perspective, depth)`,
where `mirror` reverses the ranks (`swap_bytes` on every bitboard), swaps the colours of all pieces, the side to move
and the castling rights, and flips the en-passant square.  All branches are covered: checkmate (`∓mate_in_ply`),
stalemate (`0`), and the weighted heuristic sum; neither side panics.  No hypothesis on the move generator or the
attack tables is left (C01, C09, C10 are used as theorems). -/
theorem C13_mirror_closed (s : State) (hl : LegalPos s = true) (hd : DisjointBoard s.pieces) (c : Color) (d : Nat) :
    evaluate (mirrorState s) c.opp d = evaluate s c d :=
  C13_mirror s (oneKing_of_legal s hl hd) (C13_terminal_agree s hl hd) c d

/-- **C13_neg** (restated from `Wee/Props/C13.lean`; no hypotheses at all): the score from one perspective is the
negation of the score from the other, panic iff panic. -/
theorem C13_neg_closed (s : State) (c : Color) (d : Nat) :
    evaluate s c.opp d = (evaluate s c d).map (- ·) := C13_neg' s c d

/-- both symmetries together: the mirrored position seen from the SAME colour has the negated score -/
theorem C13_mirror_neg (s : State) (hl : LegalPos s = true) (hd : DisjointBoard s.pieces) (c : Color) (d : Nat) :
    evaluate (mirrorState s) c d = (evaluate s c d).map (- ·) := by
  have h1 := C13_mirror_closed s hl hd c.opp d
  rw [opp_opp] at h1
  rw [h1]; exact C13_neg' s c d

/-- the full statement announced in `C13.lean` (`C13_mirror_statement` quantifies over all states with one king per
side; the terminal branch needs a position on which the move generator is specified, i.e. a legal one) -/
def C13_mirror_closed_statement : Prop :=
  ∀ (s : State) (c : Color) (d : Nat), LegalPos s = true → DisjointBoard s.pieces →
    evaluate (mirrorState s) c.opp d = evaluate s c d

theorem C13_mirror_closed_holds : C13_mirror_closed_statement :=
  fun s c d hl hd => C13_mirror_closed s hl hd c d

/-! ## 5. non-vacuity -/

/-- the hypotheses hold for `4k3/8/8/8/8/8/4P3/4K3 w - - 0 1` (`exS` of `C13.lean`) … -/
example : DisjointBoard exS.pieces := by decide
set_option maxRecDepth 1000000 in
example : LegalPos exS = true := by decide +kernel

/-- … and the theorem instantiated there: both sides are `some 125` (kernel evaluation, independent of the proof) -/
example : evaluate (mirrorState exS) .black 0 = evaluate exS .white 0 :=
  C13_mirror_closed exS (by decide +kernel) (by decide) .white 0
example : evaluate exS .white 0 = some 125 ∧ evaluate (mirrorState exS) .black 0 = some 125 := by decide +kernel

/-- a position in which the TERMINAL branch is taken (no sliders, so the kernel can evaluate it):
`8/8/8/8/8/k1n5/p7/K7 w - - 0 1` — White Ka1; Black Ka3, Pa2, Nc3; White to move is stalemated
(b1 is attacked by the pawn and the knight, b2 by the king, the pawn a2 is defended by the king). -/
def staleNP : State :=
  { pieces := { wk := 0x1, bk := 0x10000, bp := 0x100, bn := 0x40000 },
    turn := .white, castleW := .noRights, castleB := .noRights, ep := none, halfmove := 0, fullmove := 1 }

example : DisjointBoard staleNP.pieces := by decide
set_option maxRecDepth 1000000 in
example : LegalPos staleNP = true := by decide +kernel
set_option maxRecDepth 1000000 in
/-- stalemate: value 0 on both sides, through the terminal branch (`king_has_move` is false) -/
example : kingHasMove staleNP = some false ∧ evaluate staleNP .white 3 = some 0 ∧
    evaluate (mirrorState staleNP) .black 3 = some 0 := by decide +kernel
example (c : Color) (d : Nat) : evaluate (mirrorState staleNP) c.opp d = evaluate staleNP c d :=
  C13_mirror_closed staleNP (by decide +kernel) (by decide) c d

end Wee.C13
