import Wee.Props.C05
import Wee.Props.C13
import Wee.Props.Clamped
import Wee.Proofs.EvalFnsBridge
import Wee.Props.C11
import Wee.Proofs.TextFnsBridge2
/-!
# C05 and C13 restated for the evaluator TRANSLATED FROM THE RUST SOURCE TEXT

`tools/rs2lean_eval.py` regenerates `Wee.GenFns.Evaluator.evaluate` from the text of `weechess-engine/src/eval/*.rs` on every run (binary32
arithmetic in source order; the legal-move and attack queries are the stage-3a translations of `movegen.rs` / `board.rs`).
`Evaluator.evaluate_eq` proves: whenever that function returns `r`, the model's `evaluate` returns `r`.  Composed with the property theorems
this gives statements about what the source text computes.  `⟨eval.EVALUATORS⟩` is `Evaluator::default()`.
-/
namespace Wee
open Wee.GenFns

/-- **C13 (negation) for the translated evaluator**: whatever the two perspectives return, the values are exact negatives. -/
theorem C13_translated_neg (s : State) (ok : StateOK s) (depth : UInt64) (hd : depth.toNat < 2 ^ 31) (rw rb : Int32)
    (hw : Evaluator.evaluate ⟨eval.EVALUATORS⟩ (stateOf s) .white depth = some rw)
    (hb : Evaluator.evaluate ⟨eval.EVALUATORS⟩ (stateOf s) .black depth = some rb) :
    rw.toInt = - rb.toInt := by
  have e1 := Evaluator.evaluate_eq s ok .white depth hd rw hw
  have e2 := Evaluator.evaluate_eq s ok .black depth hd rb hb
  have h := C13.C13_neg s depth.toNat
  rw [e1, e2] at h
  simpa using h

/-- **C05 (mate) for the translated evaluator**: on a position without legal moves whose side to move is in check, whatever the
translated function returns is the mate score of that ply, negative for the side to move. -/
theorem C05_translated_mate (s : State) (ok : StateOK s) (c : Color) (depth : UInt64) (hd : depth.toNat < 2 ^ 31) (r : Int32)
    (h : Evaluator.evaluate ⟨eval.EVALUATORS⟩ (stateOf s) c depth = some r)
    (hno : legalMoves? s = some []) (hchk : s.isCheck = true) :
    r.toInt = if s.turn = c then - Ev.mateInPly depth.toNat else Ev.mateInPly depth.toNat := by
  have e := Evaluator.evaluate_eq s ok c depth hd r h
  rw [C05.C05_mate s c depth.toNat hno hchk] at e
  exact (Option.some.inj e).symm

/-- **C05 (no false mates) for the translated evaluator**: a terminal value is returned only for checkmates. -/
theorem C05_translated_terminal_is_mate (s : State) (ok : StateOK s) (c : Color) (depth : UInt64) (hd : depth.toNat < 2 ^ 31) (r : Int32)
    (h : Evaluator.evaluate ⟨eval.EVALUATORS⟩ (stateOf s) c depth = some r) (ht : Ev.isTerminal r.toInt = true) :
    legalMoves? s = some [] ∧ s.isCheck = true :=
  (C05.C05_all s c depth.toNat).2.2.2 r.toInt (Evaluator.evaluate_eq s ok c depth hd r h) ht

/-- **C11 (round trip) for the translated FEN writer and reader**: for every representable position (disjoint bitboards, en-passant
square < 64, 64-bit counters) the function translated from the text of the FEN WRITER produces — without panicking — a text which the
function translated from the text of the FEN READER (behind any regex seam with the standard semantics) reads back as the same
Rust-side position value. -/
theorem C11_translated_roundtrip (nd : Char → Bool) (hnd : NdAssumptions nd) (hplus : nd '+' = false)
    (rx : RegexCaptures) (hrx : RegexSeam nd rx) (s : State) (h : ReprPos s) :
    ∃ text, Fen.into_notation (stateOf s) [] = .ok text ∧ Fen.try_from_notation rx text = .ok (stateOf s) := by
  have hep : ∀ t, s.ep = some t → t < 64 := by
    intro t ht
    have := h.2.1
    rw [ht] at this
    exact this
  refine ⟨(writeFen s).toList, ?_, ?_⟩
  · simpa using Fen.into_notation_eq s hep h.2.2.1 h.2.2.2 []
  · rw [Fen.try_from_notation_model nd hnd hplus true rx hrx]
    have := C11_parse_write true s h
    unfold parseFen at this
    rw [this]
    rfl

end Wee
