import Wee.Proofs.GenTotal
import Wee.Props.C14
/-!
# C14, unconditional — move generation is total on every position the FEN reader can produce

Rust: `weechess-core/src/movegen.rs` (`compute_legal_moves`, the `unwrap()`s of `compute_pawn_moves`
and of `PseudoLegalMove::try_as_legal_move`), `state.rs` (`by_performing_move`, `by_performing_moves`),
`weechess-engine/src/uci.rs` (`position … moves …`, `Search::wait_cancel` after the repair of F8).
Model: `Wee/Model/MoveGen.lean`, `Board.lean` (`performMove`), `San.lean` (`performQueries`),
`Fen.lean` (`parseFen`), `Uci.lean` (`step`, `run`, `joinKeep`).

`Props/C14.lean` proves "no panic" for `position` lines whose base position is a *legal* position
(`C14_uci_legal`), through C01/C02.  A syntactically valid FEN of an ILLEGAL position (no king, three
kings, side not to move in check, pawns on the first rank, castling rights without king or rook, an
en-passant target that no pawn has just passed, even on an occupied square) followed by `moves …` was
not covered.  Here it is: the `unwrap`s of the generator cannot fire on ANY placement of pieces.  The
only thing the proof needs of a state is the type invariant of Rust's `Option<Square>`:

  `FromFen st := ∀ e, st.ep = some e → e < 64`

(the model keeps squares as `Nat`; `FromFen` says the en-passant field holds a square).  It holds of
whatever `parseFen` returns (`C14_fen_fromFen`), of the start position, and of every state
`by_performing_move` returns — from any state, for any move (`C14_perform_fromFen`).

Hence every theorem of `Props/C14.lean` that carried the hypothesis
`∀ st qs, performQueries st qs ≠ none` (not known to be satisfiable) or `LegalBase line` has an
unconditional companion here: `C14_uci_total`, `C14_run_total'`.

What these theorems do NOT cover (they are statements about the model): arithmetic overflow of the
two clocks inside `by_performing_move` is modelled by `clockSucc` (saturating, the repair "F9"); the
panics *inside a search thread* on an illegal position are not excluded — they are tolerated
(`Sess.searchOk`, F8), which is what `C14_join_tolerant` states.
-/
namespace Wee
open Wee.C10 (DisjointBoard)

/-! ## the invariant -/

/-- whatever the FEN reader accepts (either build profile) has its en-passant target on the board:
the regex gate only lets `-` or `[a-h][1-8]` through -/
theorem C14_fen_fromFen (checked : Bool) (str : String) (st : State) (h : parseFen checked str = .ok st) :
    FromFen st := fromFen_of_parse checked str st h

/-- `by_performing_move` returns a state with the invariant, whatever the state and the move were
(the new target is `destination.offset(backward)` or `None`) -/
theorem C14_perform_fromFen (s : State) (mv : Move) (s' : State) (h : performMove s mv = some (.ok s')) :
    FromFen s' := fromFen_of_performMove s mv s' h

/-- `8/8/8/8/8/4n3/3P4/8 w KQkq e3 0 1` -/
def noKings : State :=
  { pieces := { wp := bit 11, bn := bit 20 }, turn := .white, castleW := CastleRights.both,
    castleB := CastleRights.both, ep := some 20, halfmove := 0, fullmove := 1 }

/-- the invariant says nothing about legality: a FEN without kings, with all four castling rights,
with an en-passant target on a square occupied by a black knight, white to move, is accepted by the
reader, is not a legal position, and satisfies `FromFen` -/
example : parseFen false "8/8/8/8/8/4n3/3P4/8 w KQkq e3 0 1" = .ok noKings ∧ FromFen noKings ∧
    LegalPos noKings = false := by decide +kernel

/-- it does not even need the twelve bitboards to be disjoint: a white pawn and a black knight on the
same square e3 (such states arise from the FEN above after the "en-passant capture" d2xe3) -/
def stacked : State :=
  { pieces := { wp := bit 20, bn := bit 20, wk := bit 4 }, turn := .white,
    castleW := CastleRights.both, castleB := CastleRights.noRights, ep := some 44, halfmove := 0, fullmove := 1 }

example : FromFen stacked ∧ ¬ DisjointBoard stacked.pieces := by decide +kernel

/-! ## move generation -/

/-- **C14_movegen_total**: `MoveGenerator::compute_legal_moves` (and `compute_psuedo_legal_moves_into`)
cannot panic on a state with the invariant: none of `target.offset(backwards).unwrap()`,
`piece_at(target).unwrap()`, `by_performing_move(..).unwrap()`, nor the `unwrap` of a piece accessor -/
theorem C14_movegen_total (st : State) (h : FromFen st) :
    legalMoves? st ≠ Option.none ∧ pseudoLegalMoves st ≠ Option.none := by
  obtain ⟨L, hL⟩ := legalMoves?_total st h
  obtain ⟨ps, hps, _⟩ := pseudoLegalMoves_total st h
  rw [hL, hps]
  exact ⟨by simp, by simp⟩

/-- the same, read from the text: whatever FEN the reader accepts, the generator does not panic on it -/
theorem C14_movegen_total_fen (checked : Bool) (str : String) (st : State) (h : parseFen checked str = .ok st) :
    legalMoves? st ≠ Option.none ∧ pseudoLegalMoves st ≠ Option.none :=
  C14_movegen_total st (C14_fen_fromFen checked str st h)

/-- every pseudo-legal move the generator produces is applied by `try_as_legal_move` without panic
(`by_performing_move(..)` is `Ok`): in particular an en-passant move is produced only when the target
exists and the captured pawn's square `target.offset(backward)` is on the board -/
theorem C14_tryAsLegal_total (st : State) (h : FromFen st) (ps : List Move) (hps : pseudoLegalMoves st = some ps) :
    ∀ mv ∈ ps, ∃ next, performMove st mv = some (.ok next) := by
  obtain ⟨ps', hps', happ⟩ := pseudoLegalMoves_total st h
  rw [hps] at hps'; cases hps'
  exact fun mv hmv => performMove_ok_of_appliable st mv (happ mv hmv)

/-- the successors listed by the generator keep the invariant, so the statement iterates along any
line of play (perft, search, `by_performing_moves`) -/
theorem C14_successors_fromFen (st : State) (L : List (Move × State)) (hL : legalMoves? st = some L) :
    ∀ r ∈ L, FromFen r.2 :=
  fun r hr => fromFen_of_performMove st r.1 r.2 (legalMoves?_performMove st L hL r hr)

example : legalMoves? stacked ≠ Option.none := (C14_movegen_total stacked (by decide +kernel)).1

/-! ## `by_performing_moves` -/

/-- **C14_queries_total**: `State::by_performing_moves` cannot panic from a state with the invariant,
whatever the queries -/
theorem C14_queries_total (st : State) (h : FromFen st) (qs : List MoveQuery) :
    performQueries st qs ≠ Option.none := performQueries_total qs st h

/-- one query: an error value, or a successor that has the invariant again -/
theorem C14_query_total (st : State) (h : FromFen st) (q : MoveQuery) :
    (∃ e, performQuery st q = some (.error e)) ∨ ∃ st', performQuery st q = some (.ok st') ∧ FromFen st' :=
  performQuery_total st h q

namespace Uci

/-! ## the command loop -/

/-- the base position a `position` command sets (start position, or what the FEN reader returned)
has the invariant -/
theorem posBase_fromFen (pos : List String) (st : State) (h : posBase pos = .inl (some st)) : FromFen st := by
  rcases posBase_some pos st h with ⟨_, _, rfl⟩ | ⟨rest, _, hp⟩
  · exact fromFen_startState
  · exact fromFen_of_parse false _ st hp

/-- **C14_position_total**: the `position` arm never panics, whatever its arguments -/
theorem C14_position_total (s : Sess) (args : List String) : positionCmd s args ≠ Option.none :=
  positionCmd_ne_none s args (fun st hst qs => C14_queries_total st (posBase_fromFen _ st hst) qs)

/-- **C14_uci_total**: every input line leaves the loop running — no hypothesis on the line, on the
session state, on the book, or on how the searches end -/
theorem C14_uci_total (hasBook searchOK : State → Bool) (s : Sess) (line : String) :
    step hasBook s line searchOK ≠ Option.none := by
  unfold step
  split
  · dsimp only; split <;> simp
  · simp
  · dsimp only
    split
    · rename_i h; exact absurd h (C14_position_total _ _)
    · simp
  all_goals simp

/-- `run` with the abstraction `searchOK` of `step` made explicit (`run` of `Model/Uci.lean` is the
instance `searchOK = fun _ => true`, see `runWith_true`) -/
def runWith (hasBook searchOK : State → Bool) : Sess → List String → Option (Sess × List Out)
  | s, [] => some (if s.searching then ({ s with searching := false }, [.joinRunning]) else (s, []))
  | s, c :: cs =>
    match step hasBook s c searchOK with
    | Option.none => Option.none
    | some (s', o, true) =>
      some (if s'.searching then ({ s' with searching := false }, o ++ [.joinRunning]) else (s', o))
    | some (s', o, false) =>
      match runWith hasBook searchOK s' cs with
      | Option.none => Option.none
      | some (s'', o') => some (s'', o ++ o')

theorem runWith_true (hasBook : State → Bool) (lines : List String) :
    ∀ s, runWith hasBook (fun _ => true) s lines = run hasBook s lines := by
  induction lines with
  | nil => intro s; rfl
  | cons c cs ih =>
    intro s
    rw [runWith, run]
    simp only [ih]
    rfl

/-- **C14_run_total'**: a whole input — ANY list of lines, then EOF — never panics; no hypothesis -/
theorem C14_run_total' (hasBook : State → Bool) (s : Sess) (lines : List String) :
    run hasBook s lines ≠ Option.none :=
  run_ne_none hasBook lines (fun line _ s => C14_uci_total hasBook (fun _ => true) s line) s

/-- the same when searches may end in a panic of their own threads (`searchOK` arbitrary) -/
theorem C14_runWith_total (hasBook searchOK : State → Bool) (lines : List String) :
    ∀ s, runWith hasBook searchOK s lines ≠ Option.none := by
  induction lines with
  | nil => intro s; simp [runWith]
  | cons c cs ih =>
    intro s
    unfold runWith
    split
    · rename_i h; exact absurd h (C14_uci_total hasBook searchOK s c)
    · simp
    · rename_i s1 o h
      split
      · rename_i h2; exact absurd h2 (ih s1)
      · simp

/-- every line satisfies the hypothesis that `C14_uci_local` asks for: the unconditional theorem is the
old one with its hypothesis discharged -/
example (hasBook : State → Bool) (s : Sess) (line : String) : step hasBook s line ≠ Option.none :=
  C14_uci_local hasBook s line (fun _ _ st hst qs => C14_queries_total st (posBase_fromFen _ st hst) qs)

/-! ## joining a search whose thread panicked (model-level content of the repair of F8) -/

/-- `stop` while a search runs: joined, `previous_artifact` is what the search left (`Some` iff its
threads ended normally) -/
theorem C14_join_stop (hasBook searchOK : State → Bool) (s : Sess) (line : String) (args : List String)
    (hl : splitAsciiWs line = "stop" :: args) (hs : s.searching = true) :
    step hasBook s line searchOK =
      some ({ s with searching := false, artifact := s.searchOk }, [Out.joinRunning], false) := by
  unfold step
  rw [hl]
  simp only [joinKeep, hs, if_true]

/-- `position …` while a search runs: joined first (artifact as for `stop`), then the position is
set; never a panic -/
theorem C14_join_position (hasBook searchOK : State → Bool) (s : Sess) (line : String) (args : List String)
    (hl : splitAsciiWs line = "position" :: args) (hs : s.searching = true) :
    ∃ s' o, step hasBook s line searchOK = some (s', Out.joinRunning :: o, false) ∧
      s'.searching = false ∧ s'.artifact = s.searchOk := by
  unfold step
  rw [hl]
  simp only [joinKeep, hs, if_true]
  cases hp : positionCmd { s with searching := false, artifact := s.searchOk } args with
  | none => exact absurd hp (C14_position_total _ _)
  | some r =>
    obtain ⟨s', o⟩ := r
    obtain ⟨h1, h2, _⟩ := positionCmd_effect _ _ _ _ hp
    exact ⟨s', o, rfl, h1, h2⟩

/-- `go …` while a search runs: the running search is joined first; then either the book answers
(no search: `searching = false`, artifact as for `stop`), or a new search starts which is handed the
artifact of the joined one exactly if that one ended normally (`reusesArtifact = s.searchOk`) -/
theorem C14_join_go (hasBook searchOK : State → Bool) (s : Sess) (line : String) (args : List String)
    (hl : splitAsciiWs line = "go" :: args) (hs : s.searching = true) :
    ∃ s' o, step hasBook s line searchOK = some (s', Out.joinRunning :: o, false) ∧
      (hasBook s.pos = true → s'.searching = false ∧ s'.artifact = s.searchOk ∧ o.getLast? = some Out.bookMove) ∧
      (hasBook s.pos = false → s'.searching = true ∧ s'.artifact = false ∧ s'.searchOk = searchOK s.pos ∧
        ∃ d t, o.getLast? = some (Out.searchStarted d t s.searchOk)) := by
  unfold step
  rw [hl]
  simp only [joinKeep, hs, if_true]
  by_cases hb : hasBook s.pos = true
  · rw [if_pos hb]
    refine ⟨_, _, rfl, fun _ => ⟨rfl, rfl, ?_⟩, fun h => absurd h (by simp [hb])⟩
    simp
  · rw [if_neg hb]
    refine ⟨_, _, rfl, fun h => absurd h hb, fun _ => ⟨rfl, rfl, rfl,
      (parseGoArgs args Option.none Option.none).1, (parseGoArgs args Option.none Option.none).2.1, ?_⟩⟩
    simp

/-- `ucinewgame` while a search runs: joined, artifact dropped (F6) -/
theorem C14_join_ucinewgame (hasBook searchOK : State → Bool) (s : Sess) (line : String) (args : List String)
    (hl : splitAsciiWs line = "ucinewgame" :: args) (hs : s.searching = true) :
    step hasBook s line searchOK =
      some ({ s with searching := false, artifact := false }, [Out.joinRunning], false) := by
  unfold step
  rw [hl]
  simp only [hs, if_true]

/-- EOF while a search runs: joined -/
theorem C14_join_eof (hasBook searchOK : State → Bool) (s : Sess) (hs : s.searching = true) :
    runWith hasBook searchOK s [] = some ({ s with searching := false }, [Out.joinRunning]) ∧
    run hasBook s [] = some ({ s with searching := false }, [Out.joinRunning]) := by
  simp only [runWith, run, hs, if_true, and_self]

/-- **C14_join_tolerant**: with a search running — whether or not its threads panic (`s.searchOk`
arbitrary) — `stop`, `go …`, `position …`, `ucinewgame` and EOF do not panic, put the join mark first,
and leave `previous_artifact = Some` exactly if the joined search ended normally (`ucinewgame`: always
`None`).  Before the repair of F8 `join().unwrap()` aborted the process at this point when
`searchOk = false`. -/
theorem C14_join_tolerant (hasBook searchOK : State → Bool) (s : Sess) (hs : s.searching = true)
    (line : String) (args : List String) :
    (splitAsciiWs line = "stop" :: args →
      ∃ s', step hasBook s line searchOK = some (s', [Out.joinRunning], false) ∧
        s'.searching = false ∧ s'.artifact = s.searchOk) ∧
    (splitAsciiWs line = "position" :: args →
      ∃ s' o, step hasBook s line searchOK = some (s', Out.joinRunning :: o, false) ∧
        s'.searching = false ∧ s'.artifact = s.searchOk) ∧
    (splitAsciiWs line = "go" :: args →
      ∃ s' o, step hasBook s line searchOK = some (s', Out.joinRunning :: o, false) ∧
        (hasBook s.pos = true → s'.searching = false ∧ s'.artifact = s.searchOk) ∧
        (hasBook s.pos = false → s'.searching = true ∧ s'.artifact = false ∧
          ∃ d t, o.getLast? = some (Out.searchStarted d t s.searchOk))) ∧
    (splitAsciiWs line = "ucinewgame" :: args →
      ∃ s', step hasBook s line searchOK = some (s', [Out.joinRunning], false) ∧
        s'.searching = false ∧ s'.artifact = false) ∧
    (∃ s', runWith hasBook searchOK s [] = some (s', [Out.joinRunning]) ∧ s'.searching = false) := by
  refine ⟨fun hl => ⟨_, C14_join_stop hasBook searchOK s line args hl hs, rfl, rfl⟩,
    fun hl => C14_join_position hasBook searchOK s line args hl hs, fun hl => ?_,
    fun hl => ⟨_, C14_join_ucinewgame hasBook searchOK s line args hl hs, rfl, rfl⟩,
    ⟨_, (C14_join_eof hasBook searchOK s hs).1, rfl⟩⟩
  obtain ⟨s', o, h, hb, hn⟩ := C14_join_go hasBook searchOK s line args hl hs
  exact ⟨s', o, h, fun x => ⟨(hb x).1, (hb x).2.1⟩, fun x => ⟨(hn x).1, (hn x).2.1, (hn x).2.2.2⟩⟩

/-- the hypothesis `searching = true` with `searchOk = false` is reachable: see the session below -/
example : ∃ s : Sess, s.searching = true ∧ s.searchOk = false := ⟨{ Sess.init with searching := true, searchOk := false }, rfl, rfl⟩

/-! ## the session of F8, in the model -/

/-- `k7/8/8/8/8/8/8/7R w - - 0 1`: no white king (an illegal position the FEN reader accepts) -/
def f8State : State :=
  { pieces := { bk := bit 56, wr := bit 7 }, turn := .white, castleW := CastleRights.noRights,
    castleB := CastleRights.noRights, ep := Option.none, halfmove := 0, fullmove := 1 }

def f8Lines : List String := ["position fen k7/8/8/8/8/8/8/7R w - - 0 1", "go depth 1", "isready", "stop"]

/-- the session that killed the process before the repair of F8 (the search thread panics on this
position: `searchOK = fun _ => false`; not in the book): it runs to completion, `isready` is answered
while the doomed search runs, `stop` joins it, and no artifact is kept -/
theorem C14_f8_session :
    (runWith (fun _ => false) (fun _ => false) Sess.init f8Lines).map
        (fun r => (r.1.pos, r.1.searching, r.1.artifact, r.1.searchOk, r.2)) =
      some (f8State, false, false, false,
        [Out.searchStarted (some 1) Option.none false, Out.line "readyok", Out.joinRunning]) := by
  decide +kernel

/-- the position is not legal, so none of the theorems of `Props/C14.lean` applied to this session -/
example : LegalPos f8State = false ∧ FromFen f8State := by decide +kernel

/-- a `position` line with an illegal base position and moves (outside `LegalBase`): the model answers
`invalid move` for `d2e3`, which is ambiguous between the capture of the knight and the "en-passant"
capture onto the same square; no panic (by `C14_uci_total`; here also computed) -/
example :
    (step (fun _ => false) Sess.init "position fen 8/8/8/8/8/4n3/3P4/8 w KQkq e3 0 1 moves d2e3").map
        (fun r => (r.2.1, r.2.2)) = some ([Out.line "info string invalid move"], false) := by
  decide +kernel

end Uci
end Wee
