import Wee.Props.C10Closed
import Wee.Proofs.GenMovesBridge1
/-!
# C10 restated for the attack queries TRANSLATED FROM THE RUST SOURCE TEXT

`tools/rs2lean3.py` regenerates `Board.is_check`, `Board.colored_attacks` (through `AttackMap::from_occupancy` and `AttackGenerator::compute`)
from the text of `board.rs` / `attacks.rs` on every run, the `OnceCell` read as compute-on-demand (its state machine is `Model/AttackCache`,
proved transparent in `Props/C10`).  Composed with `C10_check_closed` / `C10_attacks_closed`.
-/
namespace Wee
open Wee.GenFns Wee.C10

/-- **C10 (check) for the translated query**: on every board without stacked pieces the function translated from `Board::is_check` returns —
without panicking — exactly "the king of `c` is attacked" by the rules of chess. -/
theorem C10_translated_check (st : State) (hd : DisjointBoard st.pieces) (c : Color) :
    Board.is_check (boardOf st.pieces) c = some ((abs st).inCheck (absColor c)) := by
  rw [Board.is_check_eq, C10_check_closed st hd c]

/-- **C10 (attacked squares) for the translated query**: the set returned by the function translated from `Board::colored_attacks` contains a
square exactly when a piece of that colour attacks it by the rules and the square does not hold a piece of that colour. -/
theorem C10_translated_attacks (st : State) (hd : DisjointBoard st.pieces) (c : Color) :
    ∃ b, Board.colored_attacks (boardOf st.pieces) c = some b ∧
      ∀ t, t < 64 → (test b t = true ↔
        (abs st).attackedBy (absColor c) t = true ∧ ¬ ∃ k, (abs st).at t = some (absColor c, k)) :=
  ⟨_, Board.colored_attacks_eq st.pieces c, fun t ht => C10_attacks_closed st hd c t ht⟩

end Wee
