import Wee.Proofs.MoveBits
import Wee.Proofs.CborRoundTrip
/-!
# C20 — move values faithfully carry their attributes

Rust: `weechess-core/src/moves.rs`, `struct Move(u32)`, `impl Move`, `mod compact`.
Model: `Wee/Model/Move.lean` (literal transcription of `store/load/bit/set_bit`, constructors and
getters over the layout constants generated into `Wee/Gen/MoveLayout.lean`), `Wee/Model/Cbor.lean`
(ciborium's unsigned-integer form).

Vocabulary (`Wee/Proofs/MoveAttrs.lean`):
* `Move.mk c p o d cap pr ep cq ck` — the general constructor: `by_moving` followed by
  `set_capture`, `set_promotion`, `set_en_passant`, `set_castle_queenside`, `set_castle_kingside`;
  the double-step flag is *derived* inside `by_moving` (`Move.dbl p o d`).
* `Move.attrs m : Move.Attrs` — the record of all ten getters
  (colour, piece, origin, destination, capture, promotion, en-passant, double-step, castleQ, castleK).

All statements quantify over **both colours, all seven `Piece` values for the moving piece
(the six real kinds and `Piece.none`), all squares `< 64`, every optional capture / promotion kind
other than `some Piece.none`, and all flag values**; what happens for `some Piece.none` is stated
separately (`C20_none_capture`, `C20_none_promotion`).

Proof method: the packed word is read as a natural number; storing into a clear field is addition,
loading is `/ 2^off % 2^w`; everything else is `omega`.  No `bv_decide`, no `native_decide`.
-/
namespace Wee
open Move Gen Cbor

/-! ## C20_get — every getter returns the constructed attribute -/

/-- **General constructor.** For every colour, piece, origin, destination, optional capture,
optional promotion and every combination of the en-passant / castle flags, each getter of the
constructed move (`Move::color`, `piece`, `origin`, `destination`, `capture`, `promotion`,
`is_en_passant`, `is_double_pawn`, `castle_queenside`, `castle_kingside`) returns exactly the
constructed attribute; `is_double_pawn` returns `piece == Pawn ∧ |rank o − rank d| > 1`.
`piece = some p` also says that the `unwrap` in `Move::piece` cannot panic. -/
theorem C20_get_mk (c : Color) (p : Piece) (o d : Nat) (cap pr : Option Piece) (ep cq ck : Bool)
    (ho : o < 64) (hd : d < 64) (hc : cap ≠ some Piece.none) (hr : pr ≠ some Piece.none) :
    attrs (mk c p o d cap pr ep cq ck) =
      { color := c, piece := some p, origin := o, dest := d, capture := cap, promotion := pr,
        enPassant := ep, doublePawn := dbl p o d, castleQ := cq, castleK := ck } :=
  attrs_mk c p o d cap pr ep cq ck ho hd hc hr

example : (3 : Nat) < 64 ∧ (63 : Nat) < 64 ∧ (some Piece.rook ≠ some Piece.none) ∧
    (some Piece.queen ≠ some Piece.none) := by decide

/-- The getters derived from the ten primitive ones: `Move::piece` (unwrapped), `is_capture`,
`is_promotion`, `castle_side` (queenside bit tested first), `resulting_piece` inputs. -/
theorem C20_get_mk_derived (c : Color) (p : Piece) (o d : Nat) (cap pr : Option Piece) (ep cq ck : Bool)
    (ho : o < 64) (hd : d < 64) (hc : cap ≠ some Piece.none) (hr : pr ≠ some Piece.none) :
    let m := mk c p o d cap pr ep cq ck
    Move.piece m = p ∧ Move.isCapture m = cap.isSome ∧ Move.isPromotion m = pr.isSome ∧
    Move.castleSide m = (if cq then some Side.queen else if ck then some Side.king else Option.none) := by
  intro m
  refine ⟨?_, ?_, ?_, ?_⟩
  · show (piece? m).getD Piece.none = p
    have : piece? m = some p := by
      unfold piece?; rw [pieceCode_mk c p o d cap pr ep cq ck ho hd, ofCode_code]
    rw [this]; rfl
  · show (captureCode m != 0) = cap.isSome
    rw [captureCode_mk c p o d cap pr ep cq ck ho hd]
    cases cap with
    | none => rfl
    | some q => cases q <;> first | exact absurd rfl hc | rfl
  · show (promotionCode m != 0) = pr.isSome
    rw [promotionCode_mk c p o d cap pr ep cq ck ho hd]
    cases pr with
    | none => rfl
    | some q => cases q <;> first | exact absurd rfl hr | rfl
  · show (if castleQ m then some Side.queen else if castleK m then some Side.king else Option.none) = _
    rw [castleQ_mk c p o d cap pr ep cq ck ho hd, castleK_mk c p o d cap pr ep cq ck ho hd]

/-- `Move::by_moving`: colour, piece, origin, destination come back; no capture, no promotion, no
en-passant, no castling; the double-step flag is `piece == Pawn ∧ |rank o − rank d| > 1`. -/
theorem C20_get_byMoving (c : Color) (p : Piece) (o d : Nat) (ho : o < 64) (hd : d < 64) :
    attrs (byMoving c p o d) =
      { color := c, piece := some p, origin := o, dest := d, capture := Option.none,
        promotion := Option.none, enPassant := false, doublePawn := dbl p o d,
        castleQ := false, castleK := false } := by
  rw [byMoving_eq_mk c p o d ho hd]
  exact attrs_mk c p o d _ _ _ _ _ ho hd (by decide) (by decide)

/-- `Move::by_capturing` with a real captured kind `q`: as `by_moving` plus `capture = Some(q)`. -/
theorem C20_get_byCapturing (c : Color) (p : Piece) (o d : Nat) (q : Piece)
    (ho : o < 64) (hd : d < 64) (hq : q ≠ Piece.none) :
    attrs (byCapturing c p o d q) =
      { color := c, piece := some p, origin := o, dest := d, capture := some q,
        promotion := Option.none, enPassant := false, doublePawn := dbl p o d,
        castleQ := false, castleK := false } := by
  rw [byCapturing_eq_mk c p o d ho hd q]
  exact attrs_mk c p o d _ _ _ _ _ ho hd (fun h => hq (Option.some.inj h)) (by decide)

/-- `Move::by_promoting` with a real promotion kind `r`: as `by_moving` plus `promotion = Some(r)`. -/
theorem C20_get_byPromoting (c : Color) (p : Piece) (o d : Nat) (r : Piece)
    (ho : o < 64) (hd : d < 64) (hr : r ≠ Piece.none) :
    attrs (byPromoting c p o d r) =
      { color := c, piece := some p, origin := o, dest := d, capture := Option.none,
        promotion := some r, enPassant := false, doublePawn := dbl p o d,
        castleQ := false, castleK := false } := by
  rw [byPromoting_eq_mk c p o d ho hd r]
  exact attrs_mk c p o d _ _ _ _ _ ho hd (by decide) (fun h => hr (Option.some.inj h))

/-- `Move::by_capture_promoting`: both `capture = Some(q)` and `promotion = Some(r)` come back,
for every origin/destination (e.g. destination 63 with both fields set). -/
theorem C20_get_byCapturePromoting (c : Color) (p : Piece) (o d : Nat) (q r : Piece)
    (ho : o < 64) (hd : d < 64) (hq : q ≠ Piece.none) (hr : r ≠ Piece.none) :
    attrs (byCapturePromoting c p o d q r) =
      { color := c, piece := some p, origin := o, dest := d, capture := some q,
        promotion := some r, enPassant := false, doublePawn := dbl p o d,
        castleQ := false, castleK := false } := by
  rw [byCapturePromoting_eq_mk c p o d ho hd q r]
  exact attrs_mk c p o d _ _ _ _ _ ho hd (fun h => hq (Option.some.inj h)) (fun h => hr (Option.some.inj h))

/-- instance with the hypotheses discharged: black pawn h2×g1=N capturing a rook … and the corner
case of the property text, destination 63 with capture and promotion both set -/
example : attrs (byCapturePromoting .white .pawn 54 63 .rook .queen) =
    { color := .white, piece := some .pawn, origin := 54, dest := 63, capture := some .rook,
      promotion := some .queen, enPassant := false, doublePawn := false, castleQ := false,
      castleK := false } :=
  C20_get_byCapturePromoting .white .pawn 54 63 .rook .queen (by decide) (by decide) (by decide) (by decide)

/-- the derived double-step flag is really set for a pawn moving two ranks and only then -/
example : dbl .pawn 8 24 = true ∧ dbl .pawn 8 16 = false ∧ dbl .rook 8 24 = false ∧
    Move.isDoublePawn (byMoving .white .pawn 8 24) = true ∧
    Move.isDoublePawn (byMoving .white .rook 8 24) = false := by decide

/-- `Move::by_en_passant`: reports `capture = Some(Pawn)` and the en-passant flag. -/
theorem C20_get_byEnPassant (c : Color) (p : Piece) (o d : Nat) (ho : o < 64) (hd : d < 64) :
    attrs (byEnPassant c p o d) =
      { color := c, piece := some p, origin := o, dest := d, capture := some Piece.pawn,
        promotion := Option.none, enPassant := true, doublePawn := dbl p o d,
        castleQ := false, castleK := false } := by
  rw [byEnPassant_eq_mk c p o d ho hd]
  exact attrs_mk c p o d _ _ _ _ _ ho hd (by decide) (by decide)

/-- `Move::by_castling`, all four (colour, side) pairs: the king of that colour, from
`KING_ORIGINS[colour]` to `CASTLE_DESTS[colour][side]`, no capture / promotion / en-passant /
double-step, exactly the flag of its side, and `castle_side() = Some(side)`. -/
theorem C20_get_byCastling (c : Color) (s : Side) :
    attrs (byCastling c s) =
      { color := c, piece := some Piece.king, origin := kingOrigins[c.idx]!,
        dest := castleDests[c.idx]![s.idx]!, capture := Option.none, promotion := Option.none,
        enPassant := false, doublePawn := false, castleQ := (s == Side.queen),
        castleK := (s == Side.king) } ∧
    Move.castleSide (byCastling c s) = some s ∧ Move.isAnyCastle (byCastling c s) = true := by
  cases c <;> cases s <;> decide

/-- the concrete squares: e1→g1, e1→c1, e8→g8, e8→c8 -/
example : (Move.origin (byCastling .white .king), Move.dest (byCastling .white .king)) = (4, 6) ∧
    (Move.origin (byCastling .white .queen), Move.dest (byCastling .white .queen)) = (4, 2) ∧
    (Move.origin (byCastling .black .king), Move.dest (byCastling .black .king)) = (60, 62) ∧
    (Move.origin (byCastling .black .queen), Move.dest (byCastling .black .queen)) = (60, 58) := by decide

/-! ### `Piece.none`

As *moving piece*, `Piece.none` (code 0) round-trips like any other kind (`C20_get_mk` holds for all
seven values).  As *captured / promotion kind* it is stored as 0, which is the encoding of "absent":
the move is bit-for-bit the one without that attribute and the getter returns `None`. -/

/-- `by_capturing(.., Piece::None)` is the same value as `by_moving(..)` (any squares). -/
theorem C20_none_capture (c : Color) (p : Piece) (o d : Nat) :
    byCapturing c p o d Piece.none = byMoving c p o d :=
  store_zero _ _ _

/-- `by_promoting(.., Piece::None)` is the same value as `by_moving(..)` (any squares). -/
theorem C20_none_promotion (c : Color) (p : Piece) (o d : Nat) :
    byPromoting c p o d Piece.none = byMoving c p o d :=
  store_zero _ _ _

/-! ## C20_inj — equality of the packed words is equality of all attributes -/

/-- Two moves built by the general constructor are equal as `u32` (which is what
`#[derive(PartialEq, Eq, Hash)]` on `struct Move(u32)` compares) **iff** colour, piece, origin,
destination, capture, promotion and the three free flags are all equal (the double-step flag is a
function of piece, origin and destination). -/
theorem C20_inj (c c' : Color) (p p' : Piece) (o d o' d' : Nat) (cap pr cap' pr' : Option Piece)
    (ep cq ck ep' cq' ck' : Bool)
    (ho : o < 64) (hd : d < 64) (ho' : o' < 64) (hd' : d' < 64)
    (hc : cap ≠ some Piece.none) (hr : pr ≠ some Piece.none)
    (hc' : cap' ≠ some Piece.none) (hr' : pr' ≠ some Piece.none) :
    mk c p o d cap pr ep cq ck = mk c' p' o' d' cap' pr' ep' cq' ck' ↔
      (c = c' ∧ p = p' ∧ o = o' ∧ d = d' ∧ cap = cap' ∧ pr = pr' ∧ ep = ep' ∧ cq = cq' ∧ ck = ck') := by
  constructor
  · intro h
    have ha := congrArg attrs h
    rw [attrs_mk c p o d cap pr ep cq ck ho hd hc hr,
      attrs_mk c' p' o' d' cap' pr' ep' cq' ck' ho' hd' hc' hr'] at ha
    injection ha with h1 h2 h3 h4 h5 h6 h7 _ h9 h10
    exact ⟨h1, Option.some.inj h2, h3, h4, h5, h6, h7, h9, h10⟩
  · rintro ⟨rfl, rfl, rfl, rfl, rfl, rfl, rfl, rfl, rfl⟩
    rfl

/-- Same fact phrased with the getters: constructed moves are equal iff all their getters agree. -/
theorem C20_eq_iff_attrs (c c' : Color) (p p' : Piece) (o d o' d' : Nat) (cap pr cap' pr' : Option Piece)
    (ep cq ck ep' cq' ck' : Bool)
    (ho : o < 64) (hd : d < 64) (ho' : o' < 64) (hd' : d' < 64)
    (hc : cap ≠ some Piece.none) (hr : pr ≠ some Piece.none)
    (hc' : cap' ≠ some Piece.none) (hr' : pr' ≠ some Piece.none) :
    mk c p o d cap pr ep cq ck = mk c' p' o' d' cap' pr' ep' cq' ck' ↔
      attrs (mk c p o d cap pr ep cq ck) = attrs (mk c' p' o' d' cap' pr' ep' cq' ck') := by
  constructor
  · intro h; rw [h]
  · intro h
    rw [attrs_mk c p o d cap pr ep cq ck ho hd hc hr,
      attrs_mk c' p' o' d' cap' pr' ep' cq' ck' ho' hd' hc' hr'] at h
    injection h with h1 h2 h3 h4 h5 h6 h7 _ h9 h10
    exact (C20_inj c c' p p' o d o' d' cap pr cap' pr' ep cq ck ep' cq' ck' ho hd ho' hd' hc hr hc' hr').2
      ⟨h1, Option.some.inj h2, h3, h4, h5, h6, h7, h9, h10⟩

/-- non-vacuity of `C20_inj`: two different attribute tuples give different words, and a
concrete packed value (white pawn a7×b8=Q capturing a knight, destination 57). -/
example : mk .white .pawn 48 57 (some .knight) (some .queen) false false false ≠
    mk .white .pawn 48 57 (some .knight) (some .rook) false false false := by decide
example : (mk .white .pawn 48 57 (some .knight) (some .queen) false false false).toNat = 273868545 := by decide
example : byCapturePromoting .white .pawn 48 57 .knight .queen = 273868545 := by decide

/-- every constructed move fits the low 29 bits -/
theorem C20_mk_lt (c : Color) (p : Piece) (o d : Nat) (cap pr : Option Piece) (ep cq ck : Bool)
    (ho : o < 64) (hd : d < 64) : (mk c p o d cap pr ep cq ck).toNat < 2 ^ 29 :=
  mk_lt c p o d cap pr ep cq ck ho hd

/-! ## C20_fields — the layout constants -/

/-- the ten field masks over the generated constants: five multi-bit fields and five flags -/
def C20_fieldMasks : List Nat :=
  [PIECE_MASK, ORIGIN_MASK, DEST_MASK, CAPTURE_MASK, PROMOTION_MASK,
   2 ^ EN_PASSANT_OFFSET, 2 ^ DOUBLE_PAWN_OFFSET, 2 ^ CASTLE_QUEENSIDE_OFFSET,
   2 ^ CASTLE_KINGSIDE_OFFSET, 2 ^ COLOR_OFFSET]

/-- The ten fields of the packed move (piece, origin, destination, capture, promotion and the
flags en-passant, double-step, castle-queenside, castle-kingside, colour) occupy pairwise disjoint
bit ranges, each inside the low 29 bits; together they tile bits 0‥28 exactly; each multi-bit mask
is a contiguous block starting at its own offset, wide enough for its values (piece codes ≤ 6 < 2^4,
squares < 2^6). -/
theorem C20_fields :
    C20_fieldMasks.Pairwise (fun a b => a &&& b = 0) ∧
    (∀ m ∈ C20_fieldMasks, m < 2 ^ 29) ∧
    C20_fieldMasks.foldl (· ||| ·) 0 = 2 ^ 29 - 1 ∧
    PIECE_MASK = (2 ^ 4 - 1) <<< PIECE_OFFSET ∧ ORIGIN_MASK = (2 ^ 6 - 1) <<< ORIGIN_OFFSET ∧
    DEST_MASK = (2 ^ 6 - 1) <<< DEST_OFFSET ∧ CAPTURE_MASK = (2 ^ 4 - 1) <<< CAPTURE_OFFSET ∧
    PROMOTION_MASK = (2 ^ 4 - 1) <<< PROMOTION_OFFSET ∧
    (∀ p : Piece, p.code < 2 ^ 4) ∧ pieceCodes = Piece.allIncludingNone.map Piece.code := by
  refine ⟨by decide, by decide, by decide, by decide, by decide, by decide, by decide, by decide, ?_, by decide⟩
  intro p; cases p <;> decide

/-! ## C20_cbor — serialisation round trip -/

/-- A move written by ciborium (`Move(u32)` → CBOR unsigned integer, shortest form) and read back
is the same `u32`, for every one of the 2^32 raw values (not only constructed moves). -/
theorem C20_cbor (raw : UInt32) : decodeU32 (encodeU32 raw) = some raw :=
  decodeU32_encodeU32 raw

/-- Stream form: inside a larger document (the opening book) the reader consumes exactly the bytes
the writer produced and leaves the rest untouched. -/
theorem C20_cbor_stream (raw : UInt32) (rest : List UInt8) :
    decodeU32Prefix (encodeU32 raw ++ rest) = some (raw, rest) :=
  decodeU32Prefix_encodeU32 raw rest

/-- Consequently serialisation is injective: different moves never share an encoding. -/
theorem C20_cbor_inj (a b : UInt32) (h : encodeU32 a = encodeU32 b) : a = b := by
  have ha := C20_cbor a
  rw [h, C20_cbor b] at ha
  exact (Option.some.inj ha).symm

/-- Composition with `C20_get_mk`: a constructed move survives serialisation and still reports
its attributes. -/
theorem C20_cbor_attrs (c : Color) (p : Piece) (o d : Nat) (cap pr : Option Piece) (ep cq ck : Bool)
    (ho : o < 64) (hd : d < 64) (hc : cap ≠ some Piece.none) (hr : pr ≠ some Piece.none) :
    (decodeU32 (encodeU32 (mk c p o d cap pr ep cq ck))).map attrs =
      some { color := c, piece := some p, origin := o, dest := d, capture := cap, promotion := pr,
             enPassant := ep, doublePawn := dbl p o d, castleQ := cq, castleK := ck } := by
  rw [C20_cbor, Option.map_some, attrs_mk c p o d cap pr ep cq ck ho hd hc hr]

/-- bytes observed from the real code: raw 273868545 ↦ `1a 10 52 e7 01`; and the short forms -/
example : encodeU32 273868545 = [0x1a, 0x10, 0x52, 0xe7, 0x01] := by decide
example : encodeU32 0 = [0x00] ∧ encodeU32 23 = [0x17] ∧ encodeU32 24 = [0x18, 0x18] ∧
    encodeU32 255 = [0x18, 0xff] ∧ encodeU32 256 = [0x19, 0x01, 0x00] ∧
    encodeU32 65535 = [0x19, 0xff, 0xff] ∧ encodeU32 65536 = [0x1a, 0x00, 0x01, 0x00, 0x00] ∧
    encodeU32 4294967295 = [0x1a, 0xff, 0xff, 0xff, 0xff] := by decide
/-- the reader also accepts non-shortest forms, and rejects values that do not fit / other types -/
example : decodeU32 [0x1b, 0, 0, 0, 0, 0x10, 0x52, 0xe7, 0x01] = some 273868545 ∧
    decodeU32 [0x1b, 0, 0, 0, 1, 0, 0, 0, 0] = Option.none ∧ decodeU32 [0x20] = Option.none ∧
    decodeU32 [0x1a, 0x10, 0x52] = Option.none := by decide

end Wee
