import Wee.Proofs.ComposeLemmas
/-!
# Composed statements: C02 (coordinates denote THE move of the rules), C08 (table consumers)

Two statements that `lean/props.json` listed as "follows from … (not composed into one theorem)".

## C02_coords_spec

Rust: `State::by_performing_moves` (`state.rs`) on the `MoveQuery` that `uci.rs` builds from a move
token `e2e4` / `e7e8q` (`coordQuery origin destination letter`).  Pieces used: `C02_coords` (how one
query is resolved against the generated list), `C01_moves` / `C01_legal_results` (the generated list
read through the accessors is a duplicate-free permutation of `Spec.legalMoves`, successors are the
rules' successors), `C12_wf`-level facts about the rules' generator (`WfM.facts_of_pseudo`: a move
of the rules is determined by origin, destination and promotion).

## C08_consumers

Rust: the consumers of `ZobristHasher::hash` — the transposition table (`searcher.rs`), keyed by
`hash as usize`.  Pieces used: `C15_find` (a `find` returns nothing or the entry of the most recent
insert under exactly that 64-bit key), `C08_hash_eq_iff_key_eq` (under xor-independent keys equal
hashes mean equal rule-relevant keys), `Book.legalMoves_congr_key` (key-equal positions have the
same legal moves — `compute_legal_moves` reads neither the clocks nor an en-passant target nobody
can capture on).
-/
namespace Wee
open Wee.C10 (DisjointBoard)
open Wee.C02 (coordQuery)

/-! ## C02 -/

/-- **General form** (any letter, including the resolver's leniency `g1f3n`): the answer of
`by_performing_moves` to one coordinate query is decided by the legal moves *of the rules* that
`coordsMatch` selects: none → `UnknownMove`; exactly one `m` → `Ok` of a state that abstracts to the
rules' successor `Spec.applyMove (abs s) m` (and is again a legal position without stacked pieces);
two or more → `AmbiguousMove`.  In the error cases only the error is returned (the caller's
position is unchanged: `State` is immutable). -/
theorem C02_coords_spec_general (s : State) (hl : LegalPos s = true) (hd : DisjointBoard s.pieces)
    (o d : Nat) (pr : Option Piece) :
    ((Spec.legalMoves (abs s)).filter (coordsMatch o d pr) = [] →
      performQueries s [coordQuery o d pr] = some (.error .unknown)) ∧
    (∀ m, (Spec.legalMoves (abs s)).filter (coordsMatch o d pr) = [m] →
      ∃ s', performQueries s [coordQuery o d pr] = some (.ok s') ∧ abs s' = Spec.applyMove (abs s) m ∧
        LegalPos s' = true ∧ DisjointBoard s'.pieces) ∧
    (2 ≤ ((Spec.legalMoves (abs s)).filter (coordsMatch o d pr)).length →
      performQueries s [coordQuery o d pr] = some (.error .ambiguous)) := by
  obtain ⟨⟨L, hL⟩, hres⟩ := C01_legal_results s hl hd
  have hLe : legalMoves s = L := by unfold legalMoves; rw [hL]; rfl
  obtain ⟨c1, c2, c3⟩ := C02_coords s (coordQuery o d pr) L hL
  have hperm := coords_filter_perm s hl hd o d pr
  rw [hLe] at hperm
  refine ⟨fun hF => ?_, fun m hF => ?_, fun hF => ?_⟩
  · rw [hF] at hperm
    rw [C02.performQueries_error s _ [] _ (c2 (perm_map_some_nil hperm))]
  · rw [hF] at hperm
    obtain ⟨r, hr, hrm⟩ := perm_map_some_single hperm
    have hq := c1 r hr
    have hmem : r ∈ legalMoves s := by
      rw [hLe]
      have : r ∈ L.filter (fun r => (coordQuery o d pr).test r.1) := by rw [hr]; exact List.mem_singleton.2 rfl
      exact (List.mem_filter.1 this).1
    obtain ⟨sm, hsm, _, habs, hd', hl'⟩ := hres r hmem
    have : sm = m := by
      have hrm' : toSpecMove r.1 = some m := hrm
      rw [hsm] at hrm'; exact Option.some.inj hrm'
    subst this
    refine ⟨r.2, ?_, habs, hl', hd'⟩
    rw [C02.performQueries_ok s r.2 _ [] hq]; rfl
  · have hlen := hperm.length_eq
    simp only [List.length_map] at hlen
    rw [C02.performQueries_error s _ [] _ (c3 (by rw [hlen]; exact hF))]

/-- **C02_coords_spec.**  Legal position `s` (no stacked pieces), coordinates `(o, d)` and a letter
`pr` that is attached exactly when a pawn of the side to move stands on `o` and `d` is on its last
rank (the convention of UCI move text: `e7e8q`, never `e7e8`, never `g1f3n`).  Then
`by_performing_moves(s, [query])`
* is `Ok s'` with `abs s' = Spec.applyMove (abs s) m` for THE legal move `m` of the rules with origin
  `o`, destination `d` and promotion kind `pr` — whenever such a move exists (and `s'` is again a
  legal position without stacked pieces);
* is `Err(UnknownMove)` when no legal move of the rules has these coordinates (position unchanged);
* is never `Err(AmbiguousMove)`;
and there is at most one such `m` (so "THE" is justified). -/
theorem C02_coords_spec (s : State) (hl : LegalPos s = true) (hd : DisjointBoard s.pieces)
    (o d : Nat) (pr : Option Piece)
    (hpr : pr.isSome = true ↔
      ((abs s).at o = some (absColor s.turn, Spec.Kind.pawn) ∧ d / 8 = Spec.lastRank (absColor s.turn))) :
    (∀ m ∈ Spec.legalMoves (abs s), m.src = o → m.dst = d → m.promo = pr.bind absKind →
      ∃ s', performQueries s [coordQuery o d pr] = some (.ok s') ∧ abs s' = Spec.applyMove (abs s) m ∧
        LegalPos s' = true ∧ DisjointBoard s'.pieces) ∧
    ((∀ m ∈ Spec.legalMoves (abs s), ¬ (m.src = o ∧ m.dst = d ∧ m.promo = pr.bind absKind)) →
      performQueries s [coordQuery o d pr] = some (.error .unknown)) ∧
    performQueries s [coordQuery o d pr] ≠ some (.error .ambiguous) ∧
    (∀ m ∈ Spec.legalMoves (abs s), ∀ m' ∈ Spec.legalMoves (abs s),
      m.src = o → m.dst = d → m.promo = pr.bind absKind →
      m'.src = o → m'.dst = d → m'.promo = pr.bind absKind → m = m') := by
  have hP : Spec.LegalPos (abs s) = true := hl
  have hiff := coordsMatch_iff_of_letter (abs s) hP o d pr hpr
  obtain ⟨g1, g2, _⟩ := C02_coords_spec_general s hl hd o d pr
  have huniq : ∀ m ∈ Spec.legalMoves (abs s), ∀ m' ∈ Spec.legalMoves (abs s),
      m.src = o → m.dst = d → m.promo = pr.bind absKind →
      m'.src = o → m'.dst = d → m'.promo = pr.bind absKind → m = m' := by
    intro m hm m' hm' a1 a2 a3 b1 b2 b3
    exact specLegal_coords_inj (abs s) hP m m' hm hm' (by rw [a1, b1]) (by rw [a2, b2]) (by rw [a3, b3])
  -- the selected sublist has at most one element
  have hsel : ∀ m, m ∈ (Spec.legalMoves (abs s)).filter (coordsMatch o d pr) ↔
      m ∈ Spec.legalMoves (abs s) ∧ m.src = o ∧ m.dst = d ∧ m.promo = pr.bind absKind := by
    intro m
    rw [List.mem_filter]
    constructor
    · rintro ⟨hm, ht⟩; exact ⟨hm, (hiff m hm).1 ht⟩
    · rintro ⟨hm, ht⟩; exact ⟨hm, (hiff m hm).2 ht⟩
  have hnd : ((Spec.legalMoves (abs s)).filter (coordsMatch o d pr)).Nodup := by
    have := legalMoves_nodup (abs s)
    exact ((List.Pairwise.of_map some (fun a b hab e => hab (e ▸ rfl)) this :
      (Spec.legalMoves (abs s)).Nodup)).filter _
  have hshape : (Spec.legalMoves (abs s)).filter (coordsMatch o d pr) = [] ∨
      ∃ m, (Spec.legalMoves (abs s)).filter (coordsMatch o d pr) = [m] := by
    match hF : (Spec.legalMoves (abs s)).filter (coordsMatch o d pr) with
    | [] => exact Or.inl rfl
    | [m] => exact Or.inr ⟨m, rfl⟩
    | a :: b :: t =>
      exfalso
      have ha : a ∈ (Spec.legalMoves (abs s)).filter (coordsMatch o d pr) := by rw [hF]; simp
      have hb : b ∈ (Spec.legalMoves (abs s)).filter (coordsMatch o d pr) := by rw [hF]; simp
      obtain ⟨ha1, ha2, ha3, ha4⟩ := (hsel a).1 ha
      obtain ⟨hb1, hb2, hb3, hb4⟩ := (hsel b).1 hb
      have hab := huniq a ha1 b hb1 ha2 ha3 ha4 hb2 hb3 hb4
      rw [hF, hab] at hnd
      simp at hnd
  refine ⟨fun m hm a1 a2 a3 => ?_, fun hnone => ?_, ?_, huniq⟩
  · have hmF : m ∈ (Spec.legalMoves (abs s)).filter (coordsMatch o d pr) := (hsel m).2 ⟨hm, a1, a2, a3⟩
    rcases hshape with h0 | ⟨m0, h1⟩
    · rw [h0] at hmF; cases hmF
    · rw [h1] at hmF
      rw [List.mem_singleton] at hmF
      subst hmF
      exact g2 m h1
  · apply g1
    rw [List.filter_eq_nil_iff]
    intro m hm ht
    exact hnone m hm ((hiff m hm).1 ht)
  · rcases hshape with h0 | ⟨m0, h1⟩
    · rw [g1 h0]; simp
    · obtain ⟨s', hs', _⟩ := g2 m0 h1
      rw [hs']; simp

/-- non-vacuity: in the position of `C01_example` (White Ke1 Ng1 Pa7 Pe5, Black Kh8 Nb8 Pd5, en-passant
target d6) the tokens `a7a8q` (letter: pawn a7 reaches a8), `e5d6` (no letter: not the last rank) and
`g1f3` (no letter: a knight) satisfy the letter hypothesis -/
example :
    ((some Piece.queen).isSome = true ↔ ((abs C01_example).at 48 = some (absColor C01_example.turn, Spec.Kind.pawn) ∧
      56 / 8 = Spec.lastRank (absColor C01_example.turn))) ∧
    ((Option.none : Option Piece).isSome = true ↔ ((abs C01_example).at 36 = some (absColor C01_example.turn, Spec.Kind.pawn) ∧
      43 / 8 = Spec.lastRank (absColor C01_example.turn))) ∧
    ((Option.none : Option Piece).isSome = true ↔ ((abs C01_example).at 6 = some (absColor C01_example.turn, Spec.Kind.pawn) ∧
      21 / 8 = Spec.lastRank (absColor C01_example.turn))) := by decide +kernel

/-- … and the rules do have a legal move with the coordinates of `e5d6` (the en-passant capture), so
the first clause of `C02_coords_spec` applies to it -/
example : ∃ m ∈ Spec.legalMoves (abs C01_example), m.src = 36 ∧ m.dst = 43 ∧ m.promo = Option.none ∧ m.ep = true := by
  decide +kernel

/-! ## C08 -/

/-- **C08_consumers.**  Take any history of table operations issued for positions — every `insert`
and `find` keyed by the position's hash, as the search does (`hash as usize`) — on a fresh
`tables × buckets` access layer, in any interleaving (C15: linearizable).  If afterwards the lookup
for position `p` returns an entry `e`, then `e` was inserted for a position `q`
* that hashes exactly like `p` (no hypothesis), and it is the most recent insert under that hash;
* with the same rule-relevant key as `p` — placement, side to move, castling rights, file of an
  available en-passant capture — provided the random keys are xor-independent on the atoms in which
  the inserted positions differ from `p` (`Keys.IndependentOn`, the exact content of "up to 64-bit
  chance", see `Props/C08.lean`);
* hence with the same legal moves as `p` when both are positions with a sane en-passant field
  (`Book.EpOK`: true of every `LegalPos`).
So what a consumer reads for `p` (best move, bound, evaluation) was computed for a position that the
rules cannot tell from `p`; only the clocks and the repetition history may differ. -/
theorem C08_consumers (K : Keys) (U : Atom → Prop) (hK : K.IndependentOn U)
    (tables buckets : Nat) (hT : 0 < tables) (hB : 0 < buckets) (ops : List PosOp) (p : State) (e : TT.Entry)
    (hU : ∀ q e', PosOp.insert q e' ∈ ops → ∀ a ∈ symmDiff (atoms q) (atoms p), U a)
    (hfind : (TT.run (TT.Access.new tables buckets) (ops.map (PosOp.toOp K))).find (hkey K p) = some e) :
    ∃ q, PosOp.insert q e ∈ ops ∧ hash K q = hash K p ∧
      TT.latest (ops.map (PosOp.toOp K)) (hkey K p) = some e ∧
      key q = key p ∧
      (Book.EpOK q → Book.EpOK p → (legalMoves q).map (·.1) = (legalMoves p).map (·.1)) := by
  have hlatest : TT.latest (ops.map (PosOp.toOp K)) (hkey K p) = some e := by
    rcases TT.C15_find tables buckets hT hB (ops.map (PosOp.toOp K)) (hkey K p) with h | h
    · rw [h] at hfind; cases hfind
    · rw [← h]; exact hfind
  obtain ⟨q, hq, hk⟩ := mem_toOp_insert K ops _ e (TT.latest_some_mem hlatest)
  have hh : hash K q = hash K p := hkey_inj K hk
  have hkey : key q = key p := (C08_hash_eq_iff_key_eq K U hK q p (hU q e hq)).1 hh
  exact ⟨q, hq, hh, hlatest, hkey, fun hq' hp' => Book.legalMoves_congr_key q p hkey hq' hp'⟩

/-- the same for legal positions: the stored entry belongs to a position with the same legal moves;
in particular a stored move that was legal where it was stored is legal where it is read -/
theorem C08_consumers_legal (K : Keys) (U : Atom → Prop) (hK : K.IndependentOn U)
    (tables buckets : Nat) (hT : 0 < tables) (hB : 0 < buckets) (ops : List PosOp) (p : State) (e : TT.Entry)
    (hlegal : ∀ q e', PosOp.insert q e' ∈ ops → LegalPos q = true) (hp : LegalPos p = true)
    (hU : ∀ q e', PosOp.insert q e' ∈ ops → ∀ a ∈ symmDiff (atoms q) (atoms p), U a)
    (hfind : (TT.run (TT.Access.new tables buckets) (ops.map (PosOp.toOp K))).find (hkey K p) = some e) :
    ∃ q, PosOp.insert q e ∈ ops ∧ key q = key p ∧ (legalMoves q).map (·.1) = (legalMoves p).map (·.1) ∧
      (∀ mv : Move, mv ∈ (legalMoves q).map (·.1) → mv ∈ (legalMoves p).map (·.1)) := by
  obtain ⟨q, hq, _, _, hk, hm⟩ := C08_consumers K U hK tables buckets hT hB ops p e hU hfind
  have := hm (Book.EpOK_of_legalPos q (hlegal q e hq)) (Book.EpOK_of_legalPos p hp)
  exact ⟨q, hq, hk, this, fun mv h => this ▸ h⟩

/-- without any hypothesis on the keys: what is read was stored under the same 64-bit hash, by the
most recent insert under it (pure C15; the gap to "same position" is exactly a hash collision) -/
theorem C08_consumers_hash (K : Keys) (tables buckets : Nat) (hT : 0 < tables) (hB : 0 < buckets)
    (ops : List PosOp) (p : State) (e : TT.Entry)
    (hfind : (TT.run (TT.Access.new tables buckets) (ops.map (PosOp.toOp K))).find (hkey K p) = some e) :
    ∃ q, PosOp.insert q e ∈ ops ∧ hash K q = hash K p := by
  have hlatest : TT.latest (ops.map (PosOp.toOp K)) (hkey K p) = some e := by
    rcases TT.C15_find tables buckets hT hB (ops.map (PosOp.toOp K)) (hkey K p) with h | h
    · rw [h] at hfind; cases hfind
    · rw [← h]; exact hfind
  obtain ⟨q, hq, hk⟩ := mem_toOp_insert K ops _ e (TT.latest_some_mem hlatest)
  exact ⟨q, hq, hkey_inj K hk⟩

/-- the repetition history (`ctx.history.contains(hash)` in `searcher.rs`): a hit for `p` means some past
position hashes like `p`, hence — keys independent — has the key of `p` (same placement, side, rights,
available en-passant capture: what the repetition rule compares) -/
theorem C08_consumers_history (K : Keys) (U : Atom → Prop) (hK : K.IndependentOn U) (past : List State) (p : State)
    (hU : ∀ q ∈ past, ∀ a ∈ symmDiff (atoms q) (atoms p), U a)
    (hhit : (past.map (hash K)).contains (hash K p) = true) :
    ∃ q ∈ past, hash K q = hash K p ∧ key q = key p := by
  rw [List.contains_iff_mem] at hhit
  obtain ⟨q, hq, hh⟩ := List.mem_map.1 hhit
  exact ⟨q, hq, hh, (C08_hash_eq_iff_key_eq K U hK q p (hU q hq)).1 hh⟩

/-! ### non-vacuity: the hypotheses of `C08_consumers` on a concrete history -/

namespace ComposeExample

/-- white Ke1 with the right `K`, black Ke3 -/
def s1 : State := { pieces := { wk := 0x10, bk := 0x100000 }, turn := .white,
                    castleW := ⟨true, false⟩, castleB := .noRights, ep := Option.none, halfmove := 0, fullmove := 1 }
/-- the same without the right (another key) -/
def s2 : State := { s1 with castleW := .noRights }
/-- `s1` with other clocks (the same key) -/
def s1' : State := { s1 with halfmove := 7, fullmove := 30 }

def e1 : TT.Entry := { (default : TT.Entry) with depth := 3, mv := 11 }
def e2 : TT.Entry := { (default : TT.Entry) with depth := 5, mv := 22 }

def history : List PosOp := [.insert s1 e1, .find s2, .insert s2 e2]

/-- the lookup for `s1'` (never inserted itself) returns the entry stored for `s1` … -/
theorem find_s1' : (TT.run (TT.Access.new 2 3) (history.map (PosOp.toOp toyKeys))).find (hkey toyKeys s1') = some e1 := by
  decide +kernel

/-- … the independence hypothesis holds for this history with the toy key table of `Props/C08.lean` … -/
theorem history_U : ∀ q e', PosOp.insert q e' ∈ history → ∀ a ∈ symmDiff (atoms q) (atoms s1'), toyU a := by
  intro q e' hq a ha
  simp only [history, List.mem_cons, List.not_mem_nil, or_false] at hq
  rcases hq with h | h | h
  · cases h
    have : symmDiff (atoms s1) (atoms s1') = [] := by decide +kernel
    rw [this] at ha; cases ha
  · cases h
  · cases h
    have : symmDiff (atoms s2) (atoms s1') = [Atom.castle .white .king] := by decide +kernel
    rw [this, List.mem_singleton] at ha
    subst ha; trivial

/-- … so the theorem applies: the entry read for `s1'` was stored for a position with the key of `s1'` -/
example : ∃ q, PosOp.insert q e1 ∈ history ∧ key q = key s1' := by
  obtain ⟨q, h1, _, _, h2, _⟩ :=
    C08_consumers toyKeys toyU toyKeys_independent 2 3 (by decide) (by decide) history s1' e1 history_U find_s1'
  exact ⟨q, h1, h2⟩

end ComposeExample

end Wee
