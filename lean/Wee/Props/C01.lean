import Wee.Proofs.MoveGenLemmas
import Wee.Proofs.ApplyClosed
import Wee.Proofs.MoveGenConc
/-!
# C01 — legal move generation is exactly the rules of chess

Rust: `weechess-core/src/movegen.rs` (`MoveGenerator::compute_legal_moves`, `compute_psuedo_legal_moves_into`,
`compute_{pawn,knight,king,bishop,rook,queen}_moves`, `GameStateHelper::expand_moves`,
`PseudoLegalMove::try_as_legal_move`), `weechess-engine/src/searcher.rs` (`Searcher::perft`).
Model: `Wee/Model/MoveGen.lean`.  Specification: `Wee/Spec/Chess.lean` (`pawnMovesFrom`, `pieceMovesFrom`,
`castleMoves`, `pseudoMoves`, `legalMoves`, `applyMove`, `perft`), abstraction `Wee/Spec/Abs.lean`
(`abs`, `toSpecMove`, `LegalPos`).

A generated move is compared with a specification move through `toSpecMove`, which reads ALL attributes of the
packed move through the accessors of C20 (piece, colour, origin, destination, captured kind, promotion kind,
en-passant flag, castle side, double-step flag).  So "`toSpecMove mv = some m`" says that every attribute of the
generated move is the attribute the rules prescribe (e.g. `capture` = kind of the piece standing on the target).

Layers (each a closed theorem, bottom-up):
1. per generator (`C01_knight`, `C01_slider_*`, `C01_king_steps`, `C01_castle`, `C01_pawn_*`, `C01_pawn`);
2. `C01_pseudo`: all pseudo-legal moves, no `unwrap` panic;
3. `C01_legal_filter`: `try_as_legal_move` keeps exactly the moves that do not leave the own king attacked;
4. `C01_moves`: the generated list is a permutation without duplicates of the legal moves of the rules;
5. `C01_perft`: the perft walk.
Layers 3–5 are first proved from the make-move correctness of property C02 as an explicit hypothesis
(`ApplyCorrect`; layer 5 also the closure of `LegalPos` under legal moves, `LegalClosed`) — theorems `*_of_C02` —
and then closed with the C02 theorems `Wee.C02.applyCorrect` / `Wee.C02.legalClosed`
(`Wee/Proofs/ApplyBridge.lean`, `ApplyClosed.lean`, which are proved on top of layers 1–2 of this file's helper
module): `C01_moves`, `C01_perft` have no hypothesis besides `LegalPos s` and `DisjointBoard s.pieces`.
C09 (attack tables, shifts), C10 (attacked squares, check) and C20 (move accessors) are used as proved theorems.

`DisjointBoard s.pieces` (no square holds two pieces) is not implied by `LegalPos s`, which only looks at the
mailbox reading `abs s`; it holds for every board built from a mailbox/FEN and is preserved by every generated
move (`C01_legal_results`), hence for every position reachable by the engine.
-/
namespace Wee
open Gen
open Wee.C10 (DisjointBoard)

/-! ## layer 1: the generators -/

/-- **Knights** (`compute_knight_moves`).  On a board without stacked pieces, a specification move is produced
by the knight loop (read through all accessors) iff it is one of the rule moves `Spec.pieceMovesFrom` of a knight
of the side to move: jump pattern inside the board, target not an own piece, `capture` = the kind standing on the
target, no other attribute set. -/
theorem C01_knight (s : State) (hd : DisjointBoard s.pieces) (sm : Option Spec.SMove) :
    sm ∈ (knightMoves (Helper.of s)).map toSpecMove ↔
      ∃ sq, (abs s).at sq = some (absColor s.turn, Spec.Kind.knight) ∧
        sm ∈ (Spec.pieceMovesFrom (abs s) (absColor s.turn) .knight sq).map some := by
  rw [mem_knightMoves s hd]
  simp only [mem_map_some, true_and]

/-- **Sliders** (`compute_bishop_moves`, `compute_rook_moves`, `compute_queen_moves`): the magic-table lookups of
C09 masked with `!own_pieces` give exactly the rule moves along the rays. -/
theorem C01_slider_bishop (s : State) (hd : DisjointBoard s.pieces) (sm : Option Spec.SMove) :
    sm ∈ (sliderMoves (Helper.of s) .bishop bishopAttacks).map toSpecMove ↔
      ∃ sq, (abs s).at sq = some (absColor s.turn, Spec.Kind.bishop) ∧
        sm ∈ (Spec.pieceMovesFrom (abs s) (absColor s.turn) .bishop sq).map some := by
  rw [mem_sliderMoves s hd .bishop .bishop rfl (by decide) bishopAttacks
    (fun sq hsq occ t => C09_bishop sq hsq occ t)]
  simp only [mem_map_some, true_and]

theorem C01_slider_rook (s : State) (hd : DisjointBoard s.pieces) (sm : Option Spec.SMove) :
    sm ∈ (sliderMoves (Helper.of s) .rook rookAttacks).map toSpecMove ↔
      ∃ sq, (abs s).at sq = some (absColor s.turn, Spec.Kind.rook) ∧
        sm ∈ (Spec.pieceMovesFrom (abs s) (absColor s.turn) .rook sq).map some := by
  rw [mem_sliderMoves s hd .rook .rook rfl (by decide) rookAttacks
    (fun sq hsq occ t => C09_rook sq hsq occ t)]
  simp only [mem_map_some, true_and]

theorem C01_slider_queen (s : State) (hd : DisjointBoard s.pieces) (sm : Option Spec.SMove) :
    sm ∈ (sliderMoves (Helper.of s) .queen queenAttacks).map toSpecMove ↔
      ∃ sq, (abs s).at sq = some (absColor s.turn, Spec.Kind.queen) ∧
        sm ∈ (Spec.pieceMovesFrom (abs s) (absColor s.turn) .queen sq).map some := by
  rw [mem_sliderMoves s hd .queen .queen rfl (by decide) queenAttacks
    (fun sq hsq occ t => C09_queen sq hsq occ t)]
  simp only [mem_map_some, true_and]

/-- **King steps** (first loop of `compute_king_moves`; `compute_king_moves = steps ++ castles`, `kingMoves_eq`).
The engine generates the rule moves of the king EXCEPT those whose destination is in `opposing_attacks()`
of the current position; by C10 that is: the destination is attacked by the opponent and does not hold an
opposing piece.  (Every such move is illegal: `C01_removed_illegal`.) -/
theorem C01_king_steps (s : State) (hd : DisjointBoard s.pieces) (sm : Option Spec.SMove) :
    sm ∈ (kingStepList (Helper.of s)).map toSpecMove ↔
      ∃ sq, (abs s).at sq = some (absColor s.turn, Spec.Kind.king) ∧
        ∃ m ∈ Spec.pieceMovesFrom (abs s) (absColor s.turn) .king sq,
          ¬ ((abs s).attackedBy (absColor s.turn).opp m.dst = true ∧
             ¬ ∃ k, (abs s).at m.dst = some ((absColor s.turn).opp, k)) ∧ sm = some m := by
  rw [mem_kingStepList s hd]
  apply exists_congr; intro sq
  apply and_congr_right; intro _
  apply exists_congr; intro m
  apply and_congr_right; intro hm
  apply and_congr_left; intro _
  obtain ⟨t, hatt, _, rfl⟩ := (mem_pieceMovesFrom _ _ _ _ _).1 hm
  rw [specStep_dst]
  have ht := attacksFrom_lt _ _ _ _ _ hatt
  rw [← Bool.not_eq_true, C10.C10_attacks_closed s hd s.turn.opp t ht, C10.absColor_opp]

/-- the four castling mask facts: path masks = the squares strictly between king and rook, check masks = the
king's square, the crossed square and the landing square (both colours, both sides) -/
theorem C01_castle_masks :
    (∀ j : Fin 64, test ((castlePathMasks[Side.king.idx]!)[Color.white.idx]!) j.val = [5, 6].contains j.val) ∧
    (∀ j : Fin 64, test ((castlePathMasks[Side.queen.idx]!)[Color.white.idx]!) j.val = [3, 2, 1].contains j.val) ∧
    (∀ j : Fin 64, test ((castlePathMasks[Side.king.idx]!)[Color.black.idx]!) j.val = [61, 62].contains j.val) ∧
    (∀ j : Fin 64, test ((castlePathMasks[Side.queen.idx]!)[Color.black.idx]!) j.val = [59, 58, 57].contains j.val) ∧
    (∀ j : Fin 64, test ((castleCheckMasks[Side.king.idx]!)[Color.white.idx]!) j.val = [4, 5, 6].contains j.val) ∧
    (∀ j : Fin 64, test ((castleCheckMasks[Side.queen.idx]!)[Color.white.idx]!) j.val = [4, 3, 2].contains j.val) ∧
    (∀ j : Fin 64, test ((castleCheckMasks[Side.king.idx]!)[Color.black.idx]!) j.val = [60, 61, 62].contains j.val) ∧
    (∀ j : Fin 64, test ((castleCheckMasks[Side.queen.idx]!)[Color.black.idx]!) j.val = [60, 59, 58].contains j.val) :=
  castleMask_facts

/-- **Castling** (second loop of `compute_king_moves`).  If a castling right of the side to move implies that its
king stands on the home square (part of `LegalPos`), the castling moves generated are — as a list, in order, with
all attributes — the castling moves of the rules: right held, squares between king and rook empty, king's square,
crossed square and landing square not attacked (`Pos.attackedBy`, through C10). -/
theorem C01_castle (s : State) (hd : DisjointBoard s.pieces)
    (hking : ∀ side, (s.castle s.turn).forSide side = true →
      (abs s).at (Spec.kingHome (absColor s.turn)) = some (absColor s.turn, Spec.Kind.king)) :
    (castleList (Helper.of s)).map toSpecMove = (Spec.castleMoves (abs s) (absColor s.turn)).map some :=
  castleList_spec s hd hking

/-- `compute_king_moves` is the king-step loop followed by the castling loop -/
theorem C01_king_split (h : Helper) : kingMoves h = kingStepList h ++ castleList h := kingMoves_eq h

/-- `compute_pawn_moves` is the sequence of its five blocks (the two capture blocks being: captures, capture
promotions, en passant); `pawnPushSeg` … are those blocks, transcribed. -/
theorem C01_pawn_split (h : Helper) : pawnMoves h = (do
    let a ← pawnPushSeg h
    let b ← pawnPromoSeg h
    let c ← pawnDoubleSeg h
    let e ← pawnSideSeg h true
    let w ← pawnSideSeg h false
    pure (a ++ b.flatten ++ c ++ e ++ w)) := pawnMoves_eq h

/-- **Pawn pushes** (no promotion): never panics (`offset(..).unwrap()`), and generates exactly: own pawn on `o`,
`t` one step forward and empty, `t` not on the last rank; plain pawn move `o → t`, no flag set, no duplicates. -/
theorem C01_pawn_push (s : State) (hd : DisjointBoard s.pieces) :
    ∃ L, pawnPushSeg (Helper.of s) = some L ∧ (∀ sm, sm ∈ L.map toSpecMove ↔
      ∃ o t, (abs s).at o = some (absColor s.turn, Spec.Kind.pawn) ∧
        Spec.step o 0 (absColor s.turn).fwd = some t ∧ (abs s).occupied t = false ∧
        t / 8 ≠ Spec.lastRank (absColor s.turn) ∧
        sm = some { color := absColor s.turn, kind := .pawn, src := o, dst := t }) ∧
      (L.map toSpecMove).Nodup :=
  pawnPushSeg_spec s hd

/-- **Pawn promotions by push**: target on the last rank; the four promotion kinds Q, R, B, N. -/
theorem C01_pawn_promo (s : State) (hd : DisjointBoard s.pieces) :
    ∃ L, pawnPromoSeg (Helper.of s) = some L ∧ (∀ sm, sm ∈ L.flatten.map toSpecMove ↔
      ∃ o t, (abs s).at o = some (absColor s.turn, Spec.Kind.pawn) ∧
        Spec.step o 0 (absColor s.turn).fwd = some t ∧ (abs s).occupied t = false ∧
        t / 8 = Spec.lastRank (absColor s.turn) ∧
        ∃ k ∈ Spec.promoKinds,
          sm = some { color := absColor s.turn, kind := .pawn, src := o, dst := t, promo := some k }) ∧
      (L.flatten.map toSpecMove).Nodup :=
  pawnPromoSeg_spec s hd

/-- **Double pushes**: pawn on its home rank, both squares in front empty; the move carries the double-step flag. -/
theorem C01_pawn_double (s : State) (hd : DisjointBoard s.pieces) :
    ∃ L, pawnDoubleSeg (Helper.of s) = some L ∧ (∀ sm, sm ∈ L.map toSpecMove ↔
      ∃ o t1 t2, (abs s).at o = some (absColor s.turn, Spec.Kind.pawn) ∧
        o / 8 = Spec.homeRank (absColor s.turn) ∧
        Spec.step o 0 (absColor s.turn).fwd = some t1 ∧ Spec.step t1 0 (absColor s.turn).fwd = some t2 ∧
        (abs s).occupied t1 = false ∧ (abs s).occupied t2 = false ∧
        sm = some { color := absColor s.turn, kind := .pawn, src := o, dst := t2, dbl := true }) ∧
      (L.map toSpecMove).Nodup :=
  pawnDoubleSeg_spec s hd

/-- **Pawn captures** (no promotion), towards the east (`east = true`, file + 1) or west: an opposing piece of
kind `k` on the diagonal square; `capture = k`; `piece_at(target).unwrap()` cannot panic. -/
theorem C01_pawn_capture (s : State) (hd : DisjointBoard s.pieces) (east : Bool) :
    ∃ L, pawnCapSeg (Helper.of s) east = some L ∧ (∀ sm, sm ∈ L.map toSpecMove ↔
      ∃ o t k, (abs s).at o = some (absColor s.turn, Spec.Kind.pawn) ∧
        Spec.step o (capDf east) (absColor s.turn).fwd = some t ∧
        (abs s).at t = some ((absColor s.turn).opp, k) ∧
        t / 8 ≠ Spec.lastRank (absColor s.turn) ∧
        sm = some { color := absColor s.turn, kind := .pawn, src := o, dst := t, capture := some k }) ∧
      (L.map toSpecMove).Nodup :=
  pawnCapSeg_spec s hd east

/-- **Pawn capture-promotions**: as above on the last rank, times the four promotion kinds. -/
theorem C01_pawn_capture_promo (s : State) (hd : DisjointBoard s.pieces) (east : Bool) :
    ∃ L, pawnCapPromoSeg (Helper.of s) east = some L ∧ (∀ sm, sm ∈ L.flatten.map toSpecMove ↔
      ∃ o t k, (abs s).at o = some (absColor s.turn, Spec.Kind.pawn) ∧
        Spec.step o (capDf east) (absColor s.turn).fwd = some t ∧
        (abs s).at t = some ((absColor s.turn).opp, k) ∧
        t / 8 = Spec.lastRank (absColor s.turn) ∧
        ∃ kp ∈ Spec.promoKinds, sm = some { color := absColor s.turn, kind := .pawn, src := o, dst := t,
                                            capture := some k, promo := some kp }) ∧
      (L.flatten.map toSpecMove).Nodup :=
  pawnCapPromoSeg_spec s hd east

/-- **En passant**: if the en-passant target is a square of the board, one move per side from which an own pawn
attacks the target; flag set, `capture = Pawn`. -/
theorem C01_pawn_ep (s : State) (hd : DisjointBoard s.pieces) (hep : ∀ e, s.ep = some e → e < 64) (east : Bool) :
    ∃ L, pawnEpSeg (Helper.of s) east = some L ∧ (∀ sm, sm ∈ L.map toSpecMove ↔
      ∃ o t, (abs s).at o = some (absColor s.turn, Spec.Kind.pawn) ∧
        Spec.step o (capDf east) (absColor s.turn).fwd = some t ∧ s.ep = some t ∧
        sm = some { color := absColor s.turn, kind := .pawn, src := o, dst := t,
                    capture := some Spec.Kind.pawn, ep := true }) ∧
      (L.map toSpecMove).Nodup :=
  pawnEpSeg_spec s hd hep east

/-- **Pawns, assembled.**  If the en-passant target (when present) is an empty square of the board (part of
`LegalPos`), `compute_pawn_moves` does not panic and generates exactly `Spec.pawnMovesFrom` of every own pawn,
without duplicates. -/
theorem C01_pawn (s : State) (hd : DisjointBoard s.pieces)
    (hep : ∀ e, s.ep = some e → e < 64 ∧ (abs s).at e = Option.none) :
    ∃ L, pawnMoves (Helper.of s) = some L ∧ (∀ sm, sm ∈ L.map toSpecMove ↔
      ∃ o, (abs s).at o = some (absColor s.turn, Spec.Kind.pawn) ∧
        sm ∈ (Spec.pawnMovesFrom (abs s) (absColor s.turn) o).map some) ∧
      (L.map toSpecMove).Nodup := by
  obtain ⟨L, h1, h2, h3, _⟩ := pawnMoves_spec s hd hep
  refine ⟨L, h1, fun sm => ?_, h3⟩
  rw [h2]; simp only [mem_map_some]

/-! ## layer 2: all pseudo-legal moves -/

/-- the king steps that `compute_king_moves` drops, in the vocabulary of the rules -/
def DroppedKingStep (P : Spec.Pos) (m : Spec.SMove) : Prop :=
  m.kind = Spec.Kind.king ∧ m.castle = Option.none ∧ P.attackedBy P.turn.opp m.dst = true ∧
    ¬ ∃ k, P.at m.dst = some (P.turn.opp, k)

/-- **C01_pseudo.**  For a legal position without stacked pieces `compute_psuedo_legal_moves_into` never panics
(`pseudoLegalMoves s = some L`), produces no duplicates, and `L`, read through the accessors, is exactly the
specification's pseudo-legal list minus the king steps onto squares the opponent attacks now. -/
theorem C01_pseudo (s : State) (hl : LegalPos s = true) (hd : DisjointBoard s.pieces) :
    ∃ L, pseudoLegalMoves s = some L ∧ (L.map toSpecMove).Nodup ∧
      ∀ sm, sm ∈ L.map toSpecMove ↔
        ∃ m ∈ Spec.pseudoMoves (abs s), ¬ DroppedKingStep (abs s) m ∧ sm = some m := by
  obtain ⟨L, h1, h2⟩ := pseudoLegal_spec s hd (legalPos_ep s hl) (legalPos_king s hl)
  refine ⟨L, h1, pseudoLegal_nodup s hd (legalPos_ep s hl) (legalPos_king s hl) L h1, fun sm => ?_⟩
  rw [h2]
  apply exists_congr; intro m
  apply and_congr_right; intro _
  apply and_congr_left; intro _
  apply not_congr
  unfold RemovedKingStep DroppedKingStep
  apply and_congr_right; intro _
  apply and_congr_right; intro _
  by_cases ht : m.dst < 64
  · rw [C10.C10_attacks_closed s hd s.turn.opp m.dst ht, C10.absColor_opp]; exact Iff.rfl
  · rw [test_ge _ _ (by omega)]
    constructor
    · intro h; cases h
    · rintro ⟨h, _⟩
      obtain ⟨s', _, k, _, hm⟩ := (C10.attackedBy_iff _ _ _).1 h
      exact absurd (attacksFrom_lt _ _ _ _ _ hm) ht

/-- the specification's own pseudo-legal list has no duplicates (any position) -/
theorem C01_spec_pseudo_nodup (P : Spec.Pos) : (Spec.pseudoMoves P).Nodup := pseudoMoves_nodup P

/-! ## layer 3: the legality filter -/

/-- **C01_legal_filter.**  If make-move is correct for `mv` (`performMove` succeeds, the successor abstracts to
`Spec.applyMove`, the successor has no stacked pieces — this is what C02 provides) then `try_as_legal_move` keeps
the move, together with that successor, exactly when the mover's king is not attacked afterwards
(`Spec.isLegalAfter`), and never panics.  The check `king & colored_attacks(next.turn)` is C10 on the successor. -/
theorem C01_legal_filter (s : State) (mv : Move) (sm : Spec.SMove) (next : State)
    (hperf : performMove s mv = some (.ok next)) (habs : abs next = Spec.applyMove (abs s) sm)
    (hd' : DisjointBoard next.pieces) (hcol : sm.color = absColor s.turn) :
    tryAsLegal s mv = some (if Spec.isLegalAfter (abs s) sm = true then some (mv, next) else Option.none) :=
  tryAsLegal_spec s mv sm next hperf habs hd' hcol

/-- every move of the specification's pseudo-legal list is a move of the side to move -/
theorem C01_pseudo_color {P : Spec.Pos} {m : Spec.SMove} (h : m ∈ Spec.pseudoMoves P) : m.color = P.turn :=
  color_of_pseudo h

/-- **Dropped king steps are illegal.**  A king step onto an empty square attacked by the opponent leaves the king
attacked after the move (the attacker is neither captured nor blocked; vacating the origin only opens lines). -/
theorem C01_removed_illegal (s : State) (hd : DisjointBoard s.pieces) (m : Spec.SMove)
    (hm : m ∈ Spec.pseudoMoves (abs s)) (hr : RemovedKingStep s m) : Spec.isLegalAfter (abs s) m = false :=
  removed_illegal s hd m hm hr

/-! ## layer 4: the legal move list -/

/-- closure of the legal positions under generated legal moves (property C02, `C02_closed`) -/
def LegalClosed : Prop :=
  ∀ s, LegalPos s = true → DisjointBoard s.pieces → ∀ r ∈ legalMoves s, LegalPos r.2 = true

/-- `compute_legal_moves` does not panic; each result carries a successor that is the specification's successor -/
theorem C01_legal_results_of_C02 (AC : ApplyCorrect) (s : State) (hl : LegalPos s = true) (hd : DisjointBoard s.pieces) :
    (∃ L, legalMoves? s = some L) ∧
    ∀ r ∈ legalMoves s, ∃ sm, toSpecMove r.1 = some sm ∧ sm ∈ Spec.legalMoves (abs s) ∧
      abs r.2 = Spec.applyMove (abs s) sm ∧ DisjointBoard r.2.pieces := by
  obtain ⟨ps, L, _, hL, _, hr, _⟩ := legalMoves_spec AC s hl hd
  refine ⟨⟨L, hL⟩, ?_⟩
  have : legalMoves s = L := by unfold legalMoves; rw [hL]; rfl
  rw [this]; exact hr

/-- C01_moves from the C02 interface.  For every legal position (no stacked pieces), given make-move correctness (C02): the list
returned by `MoveGenerator::compute_legal_moves`, each move read through ALL its accessors, is a permutation of
the legal moves of the rules of chess (`Spec.legalMoves`: pseudo-legal by the rules, own king not attacked
afterwards, castling conditions), and contains no duplicates. -/
theorem C01_moves_of_C02 (AC : ApplyCorrect) (s : State) (hl : LegalPos s = true) (hd : DisjointBoard s.pieces) :
    ((legalMoves s).map (toSpecMove ∘ (·.1))).Perm ((Spec.legalMoves (abs s)).map some) ∧
    ((legalMoves s).map (toSpecMove ∘ (·.1))).Nodup := by
  obtain ⟨ps, L, hps, hL, hsub, _, hmem⟩ := legalMoves_spec AC s hl hd
  have hLe : legalMoves s = L := by unfold legalMoves; rw [hL]; rfl
  have hnd : (L.map (toSpecMove ∘ (·.1))).Nodup := by
    have h1 : L.map (toSpecMove ∘ (·.1)) = (L.map Prod.fst).map toSpecMove := by rw [List.map_map]
    rw [h1]
    exact List.Nodup.sublist (hsub.map toSpecMove)
      (pseudoLegal_nodup s hd (legalPos_ep s hl) (legalPos_king s hl) ps hps)
  rw [hLe]
  exact ⟨(List.perm_ext_iff_of_nodup hnd (legalMoves_nodup (abs s))).2 hmem, hnd⟩

/-- consequently the number of generated moves is the number of legal moves -/
theorem C01_count_of_C02 (AC : ApplyCorrect) (s : State) (hl : LegalPos s = true) (hd : DisjointBoard s.pieces) :
    (legalMoves s).length = (Spec.legalMoves (abs s)).length := by
  have := (C01_moves_of_C02 AC s hl hd).1.length_eq
  simpa using this

/-! ## layer 5: perft -/

/-- C01_perft from the C02 interface.  `Searcher::perft` on the generator counts the same nodes as the perft walk of the rules, for
every depth and every legal position — given make-move correctness and closure (both C02). -/
theorem C01_perft_of_C02 (AC : ApplyCorrect) (LC : LegalClosed) (d : Nat) :
    ∀ (s : State), LegalPos s = true → DisjointBoard s.pieces → perft d s = Spec.perft d (abs s) := by
  induction d using Nat.strongRecOn with
  | _ d ih =>
    intro s hl hd
    match d, ih with
    | 0, _ => rfl
    | 1, _ => exact C01_count_of_C02 AC s hl hd
    | d + 2, ih =>
      show ((legalMoves s).map fun r => perft (d + 1) r.2).sum =
        ((Spec.legalMoves (abs s)).map fun m => Spec.perft (d + 1) (Spec.applyMove (abs s) m)).sum
      let G : Option Spec.SMove → Nat := fun o =>
        match o with
        | some m => Spec.perft (d + 1) (Spec.applyMove (abs s) m)
        | Option.none => 0
      have h1 : (legalMoves s).map (fun r => perft (d + 1) r.2) =
          ((legalMoves s).map (toSpecMove ∘ (·.1))).map G := by
        rw [List.map_map]
        apply List.map_congr_left
        intro r hr
        obtain ⟨sm, e, _, habs, hd'⟩ := (C01_legal_results_of_C02 AC s hl hd).2 r hr
        have := ih (d + 1) (by omega) r.2 (LC s hl hd r hr) hd'
        rw [this, habs]
        show _ = G (toSpecMove r.1)
        rw [e]
      have h2 : (Spec.legalMoves (abs s)).map (fun m => Spec.perft (d + 1) (Spec.applyMove (abs s) m)) =
          ((Spec.legalMoves (abs s)).map some).map G := by
        rw [List.map_map]; rfl
      rw [h1, h2]
      exact ((C01_moves_of_C02 AC s hl hd).1.map G).sum_nat

/-! ## closed statements (C02 discharged) -/

/-- `compute_legal_moves` never panics on a legal position; every result `(mv, next)` reads as a legal move `sm`
of the rules, `next` is the rules' successor and again has no stacked pieces and is a legal position. -/
theorem C01_legal_results (s : State) (hl : LegalPos s = true) (hd : DisjointBoard s.pieces) :
    (∃ L, legalMoves? s = some L) ∧
    ∀ r ∈ legalMoves s, ∃ sm, toSpecMove r.1 = some sm ∧ sm ∈ Spec.legalMoves (abs s) ∧
      abs r.2 = Spec.applyMove (abs s) sm ∧ DisjointBoard r.2.pieces ∧ LegalPos r.2 = true := by
  obtain ⟨h1, h2⟩ := C01_legal_results_of_C02 C02.applyCorrect s hl hd
  refine ⟨h1, fun r hr => ?_⟩
  obtain ⟨sm, a, b, c, d⟩ := h2 r hr
  exact ⟨sm, a, b, c, d, C02.legalClosed s hl hd r hr⟩

/-- **C01_moves.**  For every legal position (one king per side, side not to move not in check, no pawns on the
back ranks, castling rights only with king and rook at home, en-passant target only behind a pawn that has just
double-stepped — `LegalPos`) whose bitboards do not overlap: the list returned by
`MoveGenerator::compute_legal_moves`, each move read through ALL its accessors (moving piece and colour, origin,
destination, captured kind, promotion kind, en-passant flag, castling side, double-step flag), is a permutation of
the legal moves of the rules of chess (`Spec.legalMoves`), and contains no duplicates. -/
theorem C01_moves (s : State) (hl : LegalPos s = true) (hd : DisjointBoard s.pieces) :
    ((legalMoves s).map (toSpecMove ∘ (·.1))).Perm ((Spec.legalMoves (abs s)).map some) ∧
    ((legalMoves s).map (toSpecMove ∘ (·.1))).Nodup :=
  C01_moves_of_C02 C02.applyCorrect s hl hd

/-- the number of generated moves is the number of legal moves (e.g. 0 exactly in mate and stalemate) -/
theorem C01_count (s : State) (hl : LegalPos s = true) (hd : DisjointBoard s.pieces) :
    (legalMoves s).length = (Spec.legalMoves (abs s)).length :=
  C01_count_of_C02 C02.applyCorrect s hl hd

/-- **C01_perft.**  For every depth and every legal position, `Searcher::perft` over the generator and
`by_performing_move` counts exactly the nodes of the perft walk of the rules. -/
theorem C01_perft (d : Nat) (s : State) (hl : LegalPos s = true) (hd : DisjointBoard s.pieces) :
    perft d s = Spec.perft d (abs s) :=
  C01_perft_of_C02 C02.applyCorrect C02.legalClosed d s hl hd

/-! ## the same, quantified over mailbox positions

`conc P` is the engine state of the mailbox position `P` — the state the FEN reader builds for the canonical FEN of
`P` (C11: `parseFen (Spec.writeFen P) = .ok (conc P)`).  It never has stacked pieces and reads back as `P`, so no
bitboard side condition is left. -/

theorem legalPos_size (P : Spec.Pos) (hP : Spec.LegalPos P = true) : P.cells.size = 64 := by
  unfold Spec.LegalPos at hP
  simp only [Bool.and_eq_true, beq_iff_eq] at hP
  exact hP.1.1.1.1.1.1.1.1.1

/-- **C01_moves, for every legal chess position `P`** (as a mailbox): the engine's move list in the state of `P`
is a duplicate-free permutation of the legal moves of the rules in `P`, attribute by attribute. -/
theorem C01_moves_pos (P : Spec.Pos) (hP : Spec.LegalPos P = true) :
    ((legalMoves (conc P)).map (toSpecMove ∘ (·.1))).Perm ((Spec.legalMoves P).map some) ∧
    ((legalMoves (conc P)).map (toSpecMove ∘ (·.1))).Nodup := by
  have habs := abs_conc P (legalPos_size P hP)
  have hl : LegalPos (conc P) = true := by unfold LegalPos; rw [habs]; exact hP
  have := C01_moves (conc P) hl (disjointBoard_conc P)
  rw [habs] at this
  exact this

/-- **C01_perft, for every legal chess position `P`** and every depth. -/
theorem C01_perft_pos (d : Nat) (P : Spec.Pos) (hP : Spec.LegalPos P = true) :
    perft d (conc P) = Spec.perft d P := by
  have habs := abs_conc P (legalPos_size P hP)
  have hl : LegalPos (conc P) = true := by unfold LegalPos; rw [habs]; exact hP
  have := C01_perft d (conc P) hl (disjointBoard_conc P)
  rw [habs] at this
  exact this

/-! ## non-vacuity -/

/-- White: Ke1, Ng1, Pa7, Pe5; Black: Kh8, Nb8, Pd5 which has just double-stepped (en-passant target d6);
White to move.  18 legal moves: 5 king, 3 knight, a8=Q/R/B/N, axb8=Q/R/B/N, e6, exd6 e.p. -/
def C01_example : State :=
  { pieces := { wk := 0x10, wn := 0x40, wp := 0x0001001000000000, bk := 0x8000000000000000,
                bn := 0x0200000000000000, bp := 0x0000000800000000 }
    turn := .white, castleW := .noRights, castleB := .noRights, ep := some 43, halfmove := 0, fullmove := 1 }

/-- the hypotheses of the theorems are satisfiable: the example is a legal position without stacked pieces … -/
example : DisjointBoard C01_example.pieces := by decide
set_option maxRecDepth 1000000 in
example : LegalPos C01_example = true := by decide +kernel

/-- … the start position is a `DisjointBoard` … -/
example : DisjointBoard C10.startPieces := by decide

/-- … and on the example both sides of `C01_moves` evaluate to 18 moves with the same members
(kernel evaluation of the model and of the specification, independent of the theorems) -/
example : (legalMoves C01_example).length = 18 ∧ (Spec.legalMoves (abs C01_example)).length = 18 := by
  decide +kernel
set_option maxRecDepth 1000000 in
example : ((legalMoves C01_example).map (toSpecMove ∘ (·.1))).all
    (fun x => ((Spec.legalMoves (abs C01_example)).map some).contains x) = true := by decide +kernel

/-- the theorems instantiated -/
example : ((legalMoves C01_example).map (toSpecMove ∘ (·.1))).Perm ((Spec.legalMoves (abs C01_example)).map some) :=
  (C01_moves C01_example (by decide +kernel) (by decide)).1
example (d : Nat) : perft d C01_example = Spec.perft d (abs C01_example) :=
  C01_perft d C01_example (by decide +kernel) (by decide)

/-- the hypotheses of the castling theorem hold e.g. when no right is held, and when the king is at home -/
example : ∀ side, (C01_example.castle C01_example.turn).forSide side = true →
    (abs C01_example).at (Spec.kingHome (absColor C01_example.turn)) =
      some (absColor C01_example.turn, Spec.Kind.king) := legalPos_king C01_example (by decide +kernel)

/-- the en-passant hypothesis of `C01_pawn` on the example (target d6 = 43, empty) -/
example : ∀ e, C01_example.ep = some e → e < 64 ∧ (abs C01_example).at e = Option.none :=
  legalPos_ep C01_example (by decide +kernel)

/-- one instance of the interface `ApplyCorrect` evaluated: every generated legal move of the example has a
successor that abstracts to the rules' successor, is disjoint and legal -/
example : ((legalMoves C01_example).all fun r =>
    match toSpecMove r.1 with
    | some sm => decide (abs r.2 = Spec.applyMove (abs C01_example) sm) && decide (DisjointBoard r.2.pieces) &&
        LegalPos r.2
    | Option.none => false) = true := by decide +kernel

/-- White Ke1, Pe2; Black Ke8; White to move: 6 moves, 30 nodes at depth 2 — the perft walk of the model and of
the rules evaluated by the kernel (the magic tables of the start position make the same evaluation of its 20 moves
too slow for the kernel; the correspondence harness covers it) -/
def C01_kpk : State :=
  { pieces := { wk := 0x10, wp := 0x1000, bk := 0x1000000000000000 }
    turn := .white, castleW := .noRights, castleB := .noRights, ep := Option.none, halfmove := 0, fullmove := 1 }

set_option maxRecDepth 1000000 in
example : perft (1 + 1) C01_kpk = 30 ∧ Spec.perft (1 + 1) (abs C01_kpk) = 30 := by decide +kernel

end Wee
