import Wee.Proofs.EvalLemmas
import Wee.Proofs.ShortcutSound
/-!
# C05 — no-move positions score as mate or draw; others never as mate

Rust: `weechess-engine/src/eval/mod.rs` (`Evaluator::evaluate`, `Evaluation::{mate_in_ply,
is_terminal, POS_INF, NEG_INF}`), after the repair of defect F3 (`if !king_has_move ||
state.is_check()`).  Model: `Wee/Model/Eval.lean` (`evaluate`, `kingHasMove`, `Ev.mateInPly`,
`Ev.isTerminal`), `Wee/Model/MoveGen.lean` (`legalMoves?`), `Wee/Model/Board.lean` (`State.isCheck`).

The statements are at model level and *relative to the model's move generator* (`legalMoves? s`
is `MoveGenerator::compute_legal_moves`; that it is the rules of chess is C01).

* `C05_mono` and friends: arithmetic of the mate score, no hypotheses.
* `C05_mate`: no hypotheses besides "no legal move, in check" (since F3 is repaired the full
  generator is always consulted when the side to move is in check).
* `C05_stalemate`: needs the soundness of the `king_has_move` shortcut for positions NOT in check,
  `ShortcutSoundNoCheck s`; `C05_shortcut_sound` proves it from the ray lemmas (C09) for every
  placement without stacked pieces, giving `C05_stalemate_closed`.
* `C05_nonterminal_branch`: a position with a legal move always gets the heuristic score, clamped to
  `[NEG_INF + 1, POS_INF - 1]` since the repair of defect F10 (`clampHeuristic`);
  `C05_nonterminal_partial`: that score is non-terminal when `|material| + positional < 10000`
  (kept from the development before the repair; since the repair the bound is not needed any more:
  `C05_nonterminal_unconditional`, `C05_all` in `Wee/Props/Clamped.lean`).
-/
namespace Wee.C05
open Gen

/-! ## 6. the mate score -/

/-- `ply as i32` (two's-complement wrap of a `usize`) as used by `mate_in_ply` -/
def plyAsI32 (ply : Nat) : Int := ((ply % 2^32 + 2^31) % 2^32 : Nat) - 2^31

theorem mateInPly_eq (d : Nat) :
    Ev.mateInPly d = 10000 + 100 * max (10 - plyAsI32 d) 0 := rfl

theorem plyAsI32_small {d : Nat} (h : d < 2^31) : plyAsI32 d = d := by
  unfold plyAsI32; omega

/-- **C05_mono (a).**  `POS_INF ≤ mate_in_ply d` for every `d : usize` (wrap included). -/
theorem C05_mono_ge (d : Nat) : Ev.posInf ≤ Ev.mateInPly d := by
  rw [mateInPly_eq]; show (10000 : Int) ≤ _; omega

/-- **C05_mono (b).**  Mate scores never increase with ply: `d ≤ d' < 2^31` ⇒
`mate_in_ply d' ≤ mate_in_ply d`.  (For `d' ≥ 2^31` the cast `ply as i32` goes negative and the
"bonus" grows: `C05_mono_wrap_counterexample`; unreachable, plies are bounded by the search depth.) -/
theorem C05_mono_le {d d' : Nat} (h : d ≤ d') (h' : d' < 2^31) : Ev.mateInPly d' ≤ Ev.mateInPly d := by
  rw [mateInPly_eq, mateInPly_eq, plyAsI32_small h', plyAsI32_small (by omega)]
  show (10000 : Int) + _ ≤ 10000 + _; omega

/-- strictly faster mates within the bonus window score strictly higher -/
theorem C05_mono_lt {d d' : Nat} (h : d < d') (h' : d' ≤ 10) : Ev.mateInPly d' < Ev.mateInPly d := by
  rw [mateInPly_eq, mateInPly_eq, plyAsI32_small (by omega), plyAsI32_small (by omega)]
  show (10000 : Int) + _ < 10000 + _; omega

/-- **C05_mono.** -/
theorem C05_mono (d d' : Nat) :
    Ev.posInf ≤ Ev.mateInPly d ∧ (d ≤ d' → d' < 2^31 → Ev.mateInPly d' ≤ Ev.mateInPly d) :=
  ⟨C05_mono_ge d, C05_mono_le⟩

/-- the hypothesis `d' < 2^31` of `C05_mono_le` cannot be dropped on a 64-bit target -/
theorem C05_mono_wrap_counterexample : ¬ (Ev.mateInPly (2^31) ≤ Ev.mateInPly 0) := by decide

/-- concrete values: mate now = 11000, mate in 3 plies = 10700, beyond 10 plies = `POS_INF` -/
example : Ev.mateInPly 0 = 11000 ∧ Ev.mateInPly 3 = 10700 ∧ Ev.mateInPly 10 = 10000 ∧
    Ev.mateInPly 57 = 10000 ∧ Ev.posInf = 10000 ∧ Ev.negInf = -10000 := by decide

/-- mate scores are terminal, from both perspectives; a draw is not -/
theorem C05_mate_terminal (d : Nat) :
    Ev.isTerminal (Ev.mateInPly d) = true ∧ Ev.isTerminal (-(Ev.mateInPly d)) = true := by
  have h := C05_mono_ge d
  have hp : Ev.posInf = 10000 := rfl
  have hn : Ev.negInf = -10000 := rfl
  unfold Ev.isTerminal
  rw [hp] at h
  rw [hp, hn]
  constructor <;> simp
  · right; exact h
  · left; exact h

theorem C05_even_not_terminal : Ev.isTerminal 0 = false := by decide

/-- each side has exactly one king -/
def OneKingEach (s : State) : Prop := ∀ c, popcount (s.pieces.get c .king) = 1

/-! ## 7. mate and stalemate -/

/-- **C05_mate.**  The side to move is in check and `compute_legal_moves` returns no move ⇒
`evaluate` returns `-mate_in_ply(depth)` from the side to move's perspective and
`+mate_in_ply(depth)` from the opponent's, for every depth.  No other hypothesis: the repaired
guard `!king_has_move || is_check` is entered whenever the side to move is in check, and a checked
king exists (so `first_square().unwrap()` cannot panic). -/
theorem C05_mate (s : State) (c : Color) (d : Nat)
    (hno : legalMoves? s = some []) (hchk : s.isCheck = true) :
    evaluate s c d = some (if s.turn = c then - Ev.mateInPly d else Ev.mateInPly d) := by
  -- a checked king exists
  have hk : ∃ khm, kingHasMove s = some khm := by
    unfold kingHasMove
    cases hf : firstOne (s.pieces.get s.turn .king) with
    | some k => exact ⟨_, rfl⟩
    | none =>
      exfalso
      have h0 := (firstOne_eq_none _).1 hf
      unfold State.isCheck isCheckB at hchk
      rw [h0] at hchk
      simp [bbAny] at hchk
  obtain ⟨khm, hk⟩ := hk
  unfold evaluate
  rw [hk]
  simp only [hchk, Bool.or_true, if_true, hno, List.isEmpty_nil, Bool.and_self]
  cases s.turn <;> cases c <;> simp

/-- **Shortcut soundness off check** — what `C05_stalemate` needs from the `king_has_move`
shortcut.  In words: if the side to move is NOT in check and its king has a neighbour square that
is empty and not in the opponent's attack map (`Board::colored_attacks(!turn)`, computed with the
king on the board), then `compute_legal_moves` returns at least one move.
It is FALSE without `¬ isCheck` — defect F3 of the pinned tree: on
`3R2k1/5ppp/8/8/8/8/8/4K3 b` the model computes `kingHasMove = some true`, `isCheck = true`,
`legalMoves? = some []` (`#eval`; the kernel needs minutes per rook look-up, so it is not a
`decide` example here).  It is PROVED below for every placement without stacked pieces
(`C05_shortcut_sound`). -/
def ShortcutSoundNoCheck (s : State) : Prop :=
  s.isCheck = false → kingHasMove s = some true → legalMoves? s ≠ some []

/-- **C05_shortcut_sound.**  `ShortcutSoundNoCheck` holds for every state whose twelve piece
bitboards are pairwise disjoint (`DisjointBoard`, the hypothesis of C10; true of every board built
from a mailbox and preserved by moves).  Proof: the king step `k → t` is generated
(`compute_king_moves`), performed, and `try_as_legal_move` keeps it: by C09 the opponent's attack
set after the step can contain a king square only if it contained that square, `k` or `t` before
— and none of these was attacked (not in check; `t` outside the attack map). -/
theorem C05_shortcut_sound (s : State) (hd : C10.DisjointBoard s.pieces) : ShortcutSoundNoCheck s :=
  fun hchk hkhm => shortcut_sound_no_check s hd hchk hkhm

/-- **C05_stalemate.**  The side to move is not in check and `compute_legal_moves` returns no
move ⇒ `evaluate` returns exactly `Evaluation::EVEN` from both perspectives.  Hypotheses: the side
to move has a king (`kingHasMove s ≠ none`; without one the Rust code panics) and
`ShortcutSoundNoCheck s`. -/
theorem C05_stalemate (s : State) (c : Color) (d : Nat)
    (hno : legalMoves? s = some []) (hchk : s.isCheck = false)
    (hking : kingHasMove s ≠ none) (hsound : ShortcutSoundNoCheck s) :
    evaluate s c d = some 0 := by
  cases hk : kingHasMove s with
  | none => exact absurd hk hking
  | some khm =>
    cases khm with
    | true => exact absurd hno (hsound hchk hk)
    | false =>
      unfold evaluate
      rw [hk]
      simp [hchk, hno]

/-- **C05_stalemate_closed.**  No hypothesis on the shortcut left: on a placement without stacked
pieces, with a king of the side to move on the board, "not in check and `compute_legal_moves`
empty" ⇒ `evaluate` returns `Evaluation::EVEN`, from both perspectives, at every depth. -/
theorem C05_stalemate_closed (s : State) (c : Color) (d : Nat) (hd : C10.DisjointBoard s.pieces)
    (hno : legalMoves? s = some []) (hchk : s.isCheck = false) (hking : kingHasMove s ≠ none) :
    evaluate s c d = some 0 :=
  C05_stalemate s c d hno hchk hking (C05_shortcut_sound s hd)

/-! ### non-vacuity: a knight mate and a pawn stalemate (no sliders, so the kernel can run the
move generator without building magic tables) -/

/-- `6nk/5Npp/8/8/8/8/8/K7 b - - 0 1`: Black is mated by the knight on f7 -/
def mateS : State :=
  { pieces := { wk := 0x1, wn := 0x0020000000000000, bk := 0x8000000000000000, bn := 0x4000000000000000,
                bp := 0x00C0000000000000 },
    turn := .black, castleW := .noRights, castleB := .noRights, ep := none, halfmove := 0, fullmove := 1 }

/-- `k7/P7/1K6/8/8/8/8/8 b - - 0 1`: Black is stalemated -/
def staleS : State :=
  { pieces := { wk := 0x0000020000000000, wp := 0x0001000000000000, bk := 0x0100000000000000 },
    turn := .black, castleW := .noRights, castleB := .noRights, ep := none, halfmove := 0, fullmove := 1 }

/-- the hypotheses of `C05_mate` hold for `mateS`; the conclusion computed directly -/
example : legalMoves? mateS = some [] ∧ mateS.isCheck = true ∧
    evaluate mateS .black 3 = some (-10700) ∧ evaluate mateS .white 3 = some 10700 := by decide +kernel

/-- the hypotheses of `C05_stalemate` hold for `staleS` (the shortcut says "no king move", so
`ShortcutSoundNoCheck` holds vacuously there); the conclusion computed directly -/
example : legalMoves? staleS = some [] ∧ staleS.isCheck = false ∧ kingHasMove staleS = some false ∧
    evaluate staleS .black 3 = some 0 ∧ evaluate staleS .white 3 = some 0 := by decide +kernel
example : C10.DisjointBoard staleS.pieces ∧ kingHasMove staleS ≠ none := by decide +kernel
/-- `4k3/8/8/8/8/8/4P3/4K3 w - - 0 1`: a quiet position with king moves -/
def quietS : State :=
  { pieces := { wk := 0x10, wp := 0x1000, bk := 0x1000000000000000 },
    turn := .white, castleW := .noRights, castleB := .noRights, ep := none, halfmove := 0, fullmove := 1 }

/-- a non-vacuous instance of `ShortcutSoundNoCheck`: not in check, the shortcut fires, and the
generator does return moves -/
example : quietS.isCheck = false ∧ kingHasMove quietS = some true ∧ ShortcutSoundNoCheck quietS ∧
    C10.DisjointBoard quietS.pieces := by
  refine ⟨by decide +kernel, by decide +kernel, fun _ _ => by decide +kernel, by decide +kernel⟩

/-! ## 8. positions with a legal move -/

/-- **C05_nonterminal_branch** (structural part of `C05_nonterminal`).  If `compute_legal_moves`
returns at least one move (and the side to move has a king), `evaluate` returns the heuristic
weighted sum, clamped to `[NEG_INF + 1, POS_INF - 1]` since the repair of defect F10
(`eval.clamp(..)` at the end of `Evaluator::evaluate`) — whether or not the `king_has_move`
shortcut fired, in check or not. -/
theorem C05_nonterminal_branch (s : State) (c : Color) (d : Nat) (m : Move × State)
    (ms : List (Move × State)) (hm : legalMoves? s = some (m :: ms)) (hking : kingHasMove s ≠ none) :
    evaluate s c d = some (clampHeuristic (evalHeuristic (Variation.of s) c)) := by
  cases hk : kingHasMove s with
  | none => exact absurd hk hking
  | some khm =>
    unfold evaluate
    rw [hk]
    simp only [hm]
    split <;> simp

/-- material difference `evaluate_piece_worths(c) - evaluate_piece_worths(!c)` in centipawns
(pawn 100, knight 300, bishop 350, rook 500, queen 900, king 10000) -/
def materialDiff (s : State) (c : Color) : Int :=
  evalWorths (Variation.of s) c - evalWorths (Variation.of s) c.opp

/-- the three positional differences -/
def positionalDiff (s : State) (c : Color) : Nat :=
  (evalSquares (Variation.of s) c - evalSquares (Variation.of s) c.opp).natAbs
  + (evalKingEdge (Variation.of s) c - evalKingEdge (Variation.of s) c.opp).natAbs
  + (evalBadPawns (Variation.of s) c - evalBadPawns (Variation.of s) c.opp).natAbs

/-- term-by-term bound: `|score| ≤ |material| + |Δ piece-square| + |Δ king-edge| + |Δ pawns|`
(every weight has modulus ≤ 1 and `x ↦ (x as f32 * w) as i32` does not increase the modulus). -/
theorem C05_heuristic_bound (s : State) (c : Color) :
    (evalHeuristic (Variation.of s) c).natAbs ≤ (materialDiff s c).natAbs + positionalDiff s c := by
  have := evalHeuristic_abs_le (Variation.of s) (egw_bounded s) c
  unfold materialDiff positionalDiff; omega

/-- **C05_nonterminal_partial.**  A position with a legal move whose material difference plus
positional differences stays below `POS_INF = 10000` gets a non-terminal score (and the clamp of
F10's repair does not change it: `clampHeuristic_id`).  Since the repair the hypothesis `hb` is
redundant — `C05_nonterminal_unconditional` (`Wee/Props/Clamped.lean`) — the theorem is kept with its
signature.  What was missing before the repair for the full `C05_nonterminal_statement`: a bound `positionalDiff s c ≤ K` with
`K ≤ 1000` for legal positions (the only unconditional bound is the crude
`positionalDiff ≤ 1497600 + 2280 + 720` of `C13_evaluator_bounds`, because an arbitrary `State` may
hold 64 pieces of each kind), and `legalMoves? s` being the rules of chess (C01). -/
theorem C05_nonterminal_partial (s : State) (c : Color) (d : Nat) (m : Move × State)
    (ms : List (Move × State)) (hm : legalMoves? s = some (m :: ms)) (hking : kingHasMove s ≠ none)
    (hb : (materialDiff s c).natAbs + positionalDiff s c < 10000) :
    ∃ e, evaluate s c d = some e ∧ Ev.isTerminal e = false := by
  refine ⟨_, C05_nonterminal_branch s c d m ms hm hking, ?_⟩
  have h := C05_heuristic_bound s c
  rw [clampHeuristic_id_natAbs (by omega)]
  have hp : Ev.posInf = 10000 := rfl
  have hn : Ev.negInf = -10000 := rfl
  unfold Ev.isTerminal
  rw [hp, hn]
  simp only [Bool.or_eq_false_iff, decide_eq_false_iff_not]
  constructor <;> eomega

/-- the hypotheses of `C05_nonterminal_partial` hold for `quietS` (score 125 = pawn 100 + 25) -/
example : (∃ m ms, legalMoves? quietS = some (m :: ms)) ∧ kingHasMove quietS ≠ none ∧
    (materialDiff quietS .white).natAbs + positionalDiff quietS .white < 10000 ∧
    evaluate quietS .white 0 = some 125 := by
  refine ⟨?_, by decide +kernel, by decide +kernel, by decide +kernel⟩
  cases h : legalMoves? quietS with
  | none => exact absurd h (by decide +kernel)
  | some l =>
    cases l with
    | nil => exact absurd h (by decide +kernel)
    | cons m ms => exact ⟨m, ms, rfl⟩

/-- **Full statement of `C05_nonterminal`** as in DESIGN.md (NOT proved).  `C05_nonterminal_partial`
reduces it to the bound `positionalDiff s c ≤ 10000 - 9000 = 1000` for positions with one king and
at most 16 men a side; that bound needs per-piece-type table bounds and a sharper range of
`end_game_weight` than the crude `|egw| ≤ 19` used here, and with `|material| < 9000` it is tight
(piece-square sums alone can reach `0.8 · 2 · 15 · 50 = 1200`), so the threshold 9000 may have to
be lowered.  The threshold was needed at all because the "heuristic" score is unbounded in the
material: nine queens, two rooks and a minor piece against a bare king already give ≥ 10000.
(Proved as `C05_nonterminal` in `Wee/Props/C05Closed.lean`; since the repair of F10 — the heuristic
result is clamped — the statement holds without the material and men hypotheses:
`C05_nonterminal_all` in `Wee/Props/Clamped.lean`.) -/
def C05_nonterminal_statement : Prop :=
  ∀ (s : State) (c : Color) (d : Nat), OneKingEach s → (∀ c, (Piece.all.map (pieceCount s c)).sum ≤ 16) →
    (∃ m ms, legalMoves? s = some (m :: ms)) → (materialDiff s c).natAbs < 9000 →
    ∃ e, evaluate s c d = some e ∧ Ev.isTerminal e = false

end Wee.C05
