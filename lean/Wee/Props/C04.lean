import Wee.Proofs.SearchCtlSafe
import Wee.Props.C05
/-!
# C04 — search always ends, obeys Stop promptly and never panics

Rust: `weechess-engine/src/searcher.rs` — `analyze_iterative`, `analyze_recursive`, `quiescence_search`,
`CancellationToken`, after the repair of defect F2 (a root without legal moves is not searched: `max_depth = 0`;
`assert!(!line.is_empty())` became "no line → no report").
Model: `Wee/Model/Search.lean`.  Helper lemmas: `Wee/Proofs/SearchCtl.lean` (flat run equations, the generic induction
`searchNode_walk` over the whole recursion), `Wee/Proofs/SearchCtlSafe.lean` (its no-panic instance on top of C01/C02).

What is proved (every theorem is about the model, which reproduces the engine's event sequences exactly):

* `C04_termination_*`: the model functions are total functions satisfying the recursive equations of the Rust code
  (kernel-checked recursion: structural on the remaining depth / the move list / the iteration count; well-founded on
  the fuel for `quiescence_search`).
* `C04_rem_inv_*`, `C04_no_underflow`: `current_depth + remaining = max_depth` along the recursion, every stored entry has
  `depth ≤ max_depth`; hence neither `max_depth - current_depth` nor `entry.max_depth - entry.depth` underflows.
* `C04_quiesce_fuel`: the fuel of the quiescence model is never exhausted.
* `C04_stop_bound`, `C04_stop_worker`, `C04_stop_iterate`: once the flag is visible to the polls, every node/worker run
  ends at or before the next multiple of 10000 of the worker's node counter; the interrupted iteration is the last.
  Since the repair of F11 (the flag is also read at the top of every iteration but the first) the rest of the Stop
  contract — the loop ends at the next iteration boundary, a total node bound, the unbounded loop needs only finitely
  many iterations — is in `Wee/Props/C04Stop.lean`.
* `C04_terminal_root`: a mated/stalemated root ends normally, reports no move, returns a re-usable artifact.
* `C04_no_panic`: no panic for any legal root, any depth, worker count, cancellation instant, re-used memory included,
  under the hypothesis `PrioritizedOK` (a fact about the incoming memory; true of a fresh one: `C04_no_panic_fresh`
  has no hypothesis besides the legal root).
* `C04_artifact_reusable`: the returned artifact satisfies what the next search needs.

`receiver_dropped`: in the model the sink is the returned `events` list; the Rust closure ignores the send result
(`_ = sink.send(event)`), so nothing in the search depends on the receiver — there is nothing to state.

Before the repair of F11 a bound on the *total* number of nodes after `Stop` was false of the code: the flag was read
only when a worker's own counter hits a multiple of 10000 and that counter restarts at 0 in every iteration, so an
iteration of fewer than 10000 nodes never saw the flag and the loop went on to the next depth — for ever, without a depth
limit, on a root whose iterations all stay small (DESIGN §C04, S3; witness `C04Stop.old_loop_never_stops`).  The repaired
loop reads the flag at every iteration boundary; `C04_stop_worker` is the per-worker, per-iteration bound, the total
bound is `C04Stop.C04_stop_total_bound`.
-/
namespace Wee.SearchCtl
open Wee Wee.Search
open Wee.C10 (DisjointBoard)

/-! ## termination -/

/-- **C04_termination (`analyze_recursive`).**  `searchNode` is a total function that satisfies the two defining
equations (remaining depth 0: entry, then quiescence; remaining depth `rem+1`: entry, then the move loop whose
recursive calls have remaining depth `rem`) — definitionally. -/
theorem C04_termination_searchNode (ctx : Ctx) (rem : Nat) (a : NodeArgs) :
    searchNode ctx 0 a = nodeM ctx a (leafM a) ∧
    searchNode ctx (rem+1) a = nodeM ctx a (expandM ctx (searchNode ctx rem) a (Wee.hash ctx.keys a.s)) :=
  ⟨rfl, rfl⟩

/-- **C04_termination (`quiescence_search`).**  `quiesce` (well-founded recursion on the fuel, mutual with its
capture loop) satisfies the equations of the Rust function; the only model-specific outcome is fuel `0`. -/
theorem C04_termination_quiesce (ev : State → Color → Nat → Option Eval) (fuel depth : Nat) (beta alpha : Eval)
    (r : Move × State) (rest : List (Move × State)) :
    quiesce.loop ev fuel depth beta [] alpha = .ok alpha ∧
    quiesce.loop ev fuel depth beta (r :: rest) alpha =
      (if (!Move.isCapture r.1) = true then quiesce.loop ev fuel depth beta rest alpha
       else match quiesce ev fuel r.2 (depth + 1) (-beta) (-alpha) with
        | .error e => .error e
        | .ok v => if -v ≥ beta then .ok beta else quiesce.loop ev fuel depth beta rest (if -v > alpha then -v else alpha)) :=
  ⟨quiesce.loop.eq_1 .., quiesce.loop.eq_2 ..⟩

/-- **C04_termination (`analyze_iterative`).**  The iteration loop runs at most `limit` iterations and stops at the
first finished state; with a depth limit the limit is that number, a terminal root has limit 0.  Since the repair of
F11 every iteration but the first begins with a read of the cancellation flag (`boundaryPoll`), which can end the loop. -/
theorem C04_termination_iterLoop (ctx : Ctx) (root : State) (rootHash : UInt64) (workersOf : Nat → Nat)
    (n depth : Nat) (st : IterSt) :
    iterLoop ctx root rootHash workersOf 0 depth st = st ∧
    iterLoop ctx root rootHash workersOf (n+1) depth st =
      (if st.finished then st
       else if (boundaryPoll ctx depth st).finished then boundaryPoll ctx depth st
       else iterLoop ctx root rootHash workersOf n (depth + 1)
        (iterStep ctx root rootHash (workersOf depth) depth (boundaryPoll ctx depth st))) :=
  ⟨rfl, rfl⟩

/-! ## the usize subtractions -/

/-- **searchNode_rem_inv (root).**  The root call of a worker has `current_depth + remaining = max_depth`
(`0 + search_depth = search_depth`). -/
theorem C04_rem_inv_root (root : State) (searchDepth : Nat) (best : Option Move) :
    RemInv searchDepth (rootArgs root searchDepth best) := remInv_root root searchDepth best

/-- **searchNode_rem_inv (step).**  If a node with remaining depth `rem+1` has `current_depth + (rem+1) = max_depth`,
each child (`max_depth + ext`, `current_depth + 1 + ext`, remaining `rem`) has it again, with or without the check
extension. -/
theorem C04_rem_inv_child (rem : Nat) (a : NodeArgs) (next : State) (alpha : Eval) (h : RemInv (rem+1) a) :
    RemInv rem (childArgs a next alpha) := remInv_child rem a next alpha h

/-- under the invariant the model's test "remaining = 0" is the Rust test `current_depth >= max_depth`, and
`max_depth - current_depth` is the remaining depth (no underflow) -/
theorem C04_rem_inv_meaning (rem : Nat) (a : NodeArgs) (h : RemInv rem a) :
    (rem = 0 ↔ a.curDepth ≥ a.maxDepth) ∧ a.curDepth ≤ a.maxDepth ∧ a.maxDepth - a.curDepth = rem := by
  unfold RemInv at h; omega

/-- the invariant is satisfiable: the root of a depth-5 worker and its children -/
example : RemInv 5 (rootArgs default 5 Option.none) ∧
    RemInv 4 (childArgs (rootArgs default 5 Option.none) default 0) :=
  ⟨C04_rem_inv_root _ _ _, C04_rem_inv_child 4 _ _ _ (C04_rem_inv_root _ _ _)⟩

/-- **C04_no_underflow.**  A worker started on a table all of whose entries have `depth ≤ max_depth` never reaches
the `usize` underflow of `max_depth - current_depth` or `entry.max_depth - entry.depth` (the model's
`.panic "usize subtraction underflow"`), and leaves a table with the same property — for every root, depth, previous
best move, generator state, poll count, history and cancellation instant.  No hypothesis on the position. -/
theorem C04_no_underflow (ctx : Ctx) (root : State) (searchDepth : Nat) (best : Option Move) (tt : TT.Access)
    (rng : Rng.ChaCha8) (polls : Nat) (h : tt.All DepthOK) :
    (runWorker ctx root searchDepth best tt rng polls).1 ≠ .error (.panic "usize subtraction underflow") ∧
    (runWorker ctx root searchDepth best tt rng polls).2.tt.All DepthOK :=
  ⟨(runWorker_depthOK ctx root searchDepth best tt rng polls h).2,
   (runWorker_depthOK ctx root searchDepth best tt rng polls h).1⟩

/-- the same for the whole search: the artifact's table keeps `depth ≤ max_depth` -/
theorem C04_no_underflow_iterate (root : State) (rng0 : Rng.ChaCha8) (maxDepth : Option Nat) (art : Artifact)
    (workersOf : Nat → Nat) (cancelAt : Option Nat) (fuelDepth : Nat) (h : art.tt.All DepthOK) :
    (iterate root rng0 maxDepth art workersOf cancelAt fuelDepth).artifact.tt.All DepthOK :=
  iterate_tt_inv (fun tt => tt.All DepthOK) root rng0 maxDepth art workersOf cancelAt fuelDepth
    (fun sd best tt rng polls h => (runWorker_depthOK _ root sd best tt rng polls h).1) h

/-- the hypothesis holds for every fresh table -/
example (nT nB : Nat) : (TT.Access.new nT nB).All DepthOK := TT.Access.All.new _ _ _

/-! ## quiescence fuel -/

/-- **C04_quiesce_fuel.**  Let `G` be a set of positions closed under the capture moves the generator returns, on
which every such capture removes exactly one piece from the board (`popcount occ` drops by one).  Started on a
position of `G` with the fuel `quiesceFuel s = popcount occ + 2`, the quiescence model never reports
"fuel exhausted" — the fuel is a proof device, not a behaviour.  The hypothesis holds for `G` = legal positions without
stacked pieces (`C04_captures_shrink`, derived from C02), which gives `C04_quiesce_total`. -/
theorem C04_quiesce_fuel (ev : State → Color → Nat → Option Eval) (G : State → Prop)
    (hG : ∀ s, G s → ∀ ms, legalMoves? s = some ms → ∀ r ∈ ms, Move.isCapture r.1 = true →
      G r.2 ∧ popcount r.2.pieces.occ + 1 = popcount s.pieces.occ)
    (s : State) (hs : G s) (d : Nat) (α β : Eval) :
    quiesce ev (quiesceFuel s) s d α β ≠
      .error (.panic "quiescence fuel exhausted (cannot happen: each capture removes a piece)") := by
  intro h
  refine quiesce_walk (F := fun fuel s => G s ∧ popcount s.pieces.occ < fuel)
    (Allowed := fun e => e ≠ .panic "quiescence fuel exhausted (cannot happen: each capture removes a piece)")
    ⟨?_, fun _ _ _ _ => stop_panic_ne (by decide), fun _ _ _ _ _ => stop_panic_ne (by decide), ?_⟩
    (quiesceFuel s) s d α β _ ⟨hs, by unfold quiesceFuel; omega⟩ h rfl
  · intro s hF; exact absurd hF.2 (Nat.not_lt_zero _)
  · intro fuel s ms r hF hL hr hcap
    obtain ⟨h1, h2⟩ := hG s hF.1 ms hL r hr hcap
    exact ⟨h1, by omega⟩

/-- **C04_captures_shrink.**  In a legal position without stacked pieces every move of the generator's list that is
flagged as a capture (ordinary, promoting or en passant) leaves exactly one piece fewer on the board.  From C02
(`abs next = Spec.applyMove (abs s) sm`) and the `MoveFits` facts about the captured piece. -/
theorem C04_captures_shrink (s : State) (hl : LegalPos s = true) (hd : DisjointBoard s.pieces) (r : Move × State)
    (hr : r ∈ legalMoves s) (hcap : Move.isCapture r.1 = true) :
    popcount r.2.pieces.occ + 1 = popcount s.pieces.occ :=
  captures_shrink_exact s ⟨hl, hd⟩ r hr hcap

/-- checked directly on the example position of C01 (8 captures: 4 promoting, one en passant, …) -/
example : ∀ r ∈ legalMoves C01_example, Move.isCapture r.1 = true →
    popcount r.2.pieces.occ + 1 = popcount C01_example.pieces.occ := by decide +kernel

/-- **C04_quiesce_total.**  On every legal position `quiescence_search` returns a value: no panic of the generator or
the evaluator, no fuel exhaustion. -/
theorem C04_quiesce_total (s : State) (hl : LegalPos s = true) (hd : DisjointBoard s.pieces)
    (d : Nat) (α β : Eval) : ∃ v, quiesce evaluate (quiesceFuel s) s d α β = .ok v := by
  cases h : quiesce evaluate (quiesceFuel s) s d α β with
  | ok v => exact ⟨v, rfl⟩
  | error e => exact absurd h (quiesce_safe capturesShrink _ s d α β e ⟨hl, hd⟩ (by unfold quiesceFuel; omega))

/-- the closure hypothesis of `C04_quiesce_fuel` is satisfiable: the stalemate position of C05 (no moves at all) -/
example : ∀ s, s = C05.staleS → ∀ ms, legalMoves? s = some ms → ∀ r ∈ ms, Move.isCapture r.1 = true →
    r.2 = C05.staleS ∧ popcount r.2.pieces.occ + 1 = popcount s.pieces.occ := by
  intro s hs ms hms r hr _
  subst hs
  have : legalMoves? C05.staleS = some [] := by decide +kernel
  rw [this] at hms
  cases hms
  cases hr

/-! ## Stop -/

/-- **C04_stop_bound.**  Assume the cancellation flag answers "cancelled" from the `k`-th poll on and `k` polls have
already happened (`Stop` is visible).  Then a call of `analyze_recursive` — at any node, with everything below it —
either returns `SearchInterrupt` exactly when the worker's node counter reaches the next multiple of 10000, or
returns (normally, or with a panic of the model) strictly before that multiple.  It never executes a node whose count
is a multiple of 10000 without stopping.  The counters only grow and `Stop` stays visible. -/
theorem C04_stop_bound (ctx : Ctx) (k : Nat) (hk : ctx.cancelAt = some k) (rem : Nat) (a : NodeArgs) (st : St)
    (hp : k ≤ st.polls) :
    ((searchNode ctx rem a).run.run st).1 = .error .interrupt ∧
      ((searchNode ctx rem a).run.run st).2.nodes = (st.nodes / Gen.pollInterval + 1) * Gen.pollInterval
    ∨
    ((searchNode ctx rem a).run.run st).1 ≠ .error .interrupt ∧
      st.nodes ≤ ((searchNode ctx rem a).run.run st).2.nodes ∧
      ((searchNode ctx rem a).run.run st).2.nodes < (st.nodes / Gen.pollInterval + 1) * Gen.pollInterval ∧
      k ≤ ((searchNode ctx rem a).run.run st).2.polls := by
  have h := searchNode_stop_bound ctx k hk rem a st hp
  generalize (searchNode ctx rem a).run.run st = out at h
  obtain ⟨r, st'⟩ := out
  have key : ∀ st' : St, StopI k (st.nodes / Gen.pollInterval) st.nodes st' →
      st.nodes ≤ st'.nodes ∧ st'.nodes < (st.nodes / Gen.pollInterval + 1) * Gen.pollInterval ∧ k ≤ st'.polls := by
    intro st' ⟨h1, h2, h3⟩
    refine ⟨h3, ?_, h1⟩
    unfold Gen.pollInterval at *
    omega
  cases r with
  | ok v => exact Or.inr ⟨(by intro e; cases e), key st' h⟩
  | error e =>
    cases e with
    | interrupt => exact Or.inl ⟨rfl, h.2⟩
    | panic w => exact Or.inr ⟨(by intro e; cases e), key st' h.2⟩

/-- **C04_stop_worker.**  A worker started when `Stop` is visible returns `SearchInterrupt` with exactly 10000 counted
nodes, or finishes its iteration with fewer than 10000 counted nodes (then it has not read the flag at all). -/
theorem C04_stop_worker (ctx : Ctx) (k : Nat) (hk : ctx.cancelAt = some k) (root : State) (searchDepth : Nat)
    (best : Option Move) (tt : TT.Access) (rng : Rng.ChaCha8) (polls : Nat) (hp : k ≤ polls) :
    (runWorker ctx root searchDepth best tt rng polls).1 = .error .interrupt ∧
      (runWorker ctx root searchDepth best tt rng polls).2.nodes = Gen.pollInterval
    ∨
    (runWorker ctx root searchDepth best tt rng polls).1 ≠ .error .interrupt ∧
      (runWorker ctx root searchDepth best tt rng polls).2.nodes < Gen.pollInterval := by
  rw [runWorker_eq]
  rcases C04_stop_bound ctx k hk searchDepth (rootArgs root searchDepth best) { tt, rng, nodes := 0, polls } hp
    with h | h
  · left
    refine ⟨h.1, ?_⟩
    have := h.2
    simp only [Nat.zero_div, Nat.zero_add, Nat.one_mul] at this
    exact this
  · right
    refine ⟨h.1, ?_⟩
    have := h.2.2.1
    simp only [Nat.zero_div, Nat.zero_add, Nat.one_mul] at this
    exact this

/-- **stop_idempotent.**  `Stop` sent before the first node (every poll answers "cancelled": `cancelAt = some 0`) —
and likewise a repeated `Stop`, since the flag is only ever set — gives the same contract for every worker of every
iteration: interrupt at exactly 10000 counted nodes, or completion below 10000. -/
theorem C04_stop_before_start (ctx : Ctx) (hk : ctx.cancelAt = some 0) (root : State) (searchDepth : Nat)
    (best : Option Move) (tt : TT.Access) (rng : Rng.ChaCha8) (polls : Nat) :
    (runWorker ctx root searchDepth best tt rng polls).1 = .error .interrupt ∧
      (runWorker ctx root searchDepth best tt rng polls).2.nodes = Gen.pollInterval
    ∨
    (runWorker ctx root searchDepth best tt rng polls).1 ≠ .error .interrupt ∧
      (runWorker ctx root searchDepth best tt rng polls).2.nodes < Gen.pollInterval :=
  C04_stop_worker ctx 0 hk root searchDepth best tt rng polls (Nat.zero_le _)

/-- the hypotheses are satisfiable: `Stop` before the first poll -/
example : ∃ (ctx : Ctx) (k polls : Nat), ctx.cancelAt = some k ∧ k ≤ polls :=
  ⟨{ keys := { turn := fun _ => 0, piece := fun _ _ _ => 0, castle := fun _ _ => 0, epFile := fun _ => 0 },
     history := [], cancelAt := some 0 }, 0, 0, rfl, Nat.le_refl _⟩

/-- **C04_stop_iterate.**  Once a worker of iteration `depth` is interrupted, (1) the workers after it are not run
(`runWorkers` returns at once on an interrupted accumulator), (2) the iteration step sets `finished` — node count and
previous best move untouched, the table keeps the inserts made before the interrupt — and (3) the iteration loop
returns that state: no further iteration is run, whatever the remaining depth budget.
(Since the repair of F11 the workers of an iteration run on the state `st' = boundaryPoll ctx depth st` left by the
read of the flag at the top of the loop body — `st` with one more counted poll if `depth > 0` —, which did not end the
loop: hypothesis `hb`.  The case that it does end the loop is `C04_stop_ends_within_one_iteration` in
`Wee/Props/C04Stop.lean`.) -/
theorem C04_stop_iterate (ctx : Ctx) (root : State) (rootHash : UInt64) (workersOf : Nat → Nat) (n depth : Nat)
    (st : IterSt) (hf : st.finished = false) (hb : (boundaryPoll ctx depth st).finished = false)
    (hp : (workersOut ctx root (workersOf depth) depth (boundaryPoll ctx depth st)).panic = Option.none)
    (hi : (workersOut ctx root (workersOf depth) depth (boundaryPoll ctx depth st)).interrupted = true) :
    let st' := boundaryPoll ctx depth st
    (∀ l bestMv, runWorkers ctx root depth bestMv l (workersOut ctx root (workersOf depth) depth st') =
      workersOut ctx root (workersOf depth) depth st') ∧
    (iterStep ctx root rootHash (workersOf depth) depth st').finished = true ∧
    (iterStep ctx root rootHash (workersOf depth) depth st').nodes = st.nodes ∧
    (iterStep ctx root rootHash (workersOf depth) depth st').bestMv = st.bestMv ∧
    (iterStep ctx root rootHash (workersOf depth) depth st').tt = (workersOut ctx root (workersOf depth) depth st').tt ∧
    iterLoop ctx root rootHash workersOf (n+1) depth st = iterStep ctx root rootHash (workersOf depth) depth st' := by
  intro st'
  have h := iterStep_interrupted ctx root rootHash (workersOf depth) depth st' hp hi
  refine ⟨fun l bestMv => runWorkers_stopped ctx root depth bestMv l _ (by rw [hi]; rfl), h.1,
    by rw [h.2.2.2.1]; exact boundaryPoll_nodes ctx depth st, by rw [h.2.2.2.2]; exact boundaryPoll_bestMv ctx depth st,
    h.2.2.1, iterLoop_interrupted ctx root rootHash workersOf n depth st hf hb hp hi⟩

/-- the step from a worker's interrupt to the accumulator: the first interrupted worker ends `runWorkers` -/
theorem C04_stop_workers (ctx : Ctx) (root : State) (depth : Nat) (bestMv : Option Move)
    (i : Nat) (seed : UInt64) (rest : List (Nat × UInt64)) (acc : WorkersOut) (st : St)
    (h : (acc.interrupted || acc.panic.isSome) = false)
    (hw : runWorker ctx root ((depth - i % 2) + 1) (if i == 0 then bestMv else Option.none) acc.tt
      (Rng.seedFromU64 seed) acc.polls = (.error .interrupt, st)) :
    runWorkers ctx root depth bestMv ((i, seed) :: rest) acc =
      { acc with tt := st.tt, polls := st.polls, interrupted := true } :=
  runWorkers_cons_interrupt ctx root depth bestMv i seed rest acc st h hw

/-! ## terminal root -/

/-- **C04_terminal_root.**  A position without legal moves (checkmate or stalemate) is not searched: the search
ends normally (no panic), emits no `BestMove` and no `Progress` event (at most the saturation warning of the incoming
table), and returns the incoming artifact with the root's key added to the history — in particular the table is
untouched, so the artifact is as re-usable as it was.  For every depth limit including none, every worker count and
every cancellation instant. -/
theorem C04_terminal_root (root : State) (rng0 : Rng.ChaCha8) (maxDepth : Option Nat) (art : Artifact)
    (workersOf : Nat → Nat) (cancelAt : Option Nat) (fuelDepth : Nat) (h : legalMoves root = []) :
    (iterate root rng0 maxDepth art workersOf cancelAt fuelDepth).panic = Option.none ∧
    (iterate root rng0 maxDepth art workersOf cancelAt fuelDepth).artifact =
      { art with history := Wee.hash art.keys.keys root :: art.history } ∧
    (∀ ev line, Event.best ev line ∉ (iterate root rng0 maxDepth art workersOf cancelAt fuelDepth).events) ∧
    (∀ d n, Event.progress d n ∉ (iterate root rng0 maxDepth art workersOf cancelAt fuelDepth).events) := by
  have hfin : iterFinal root rng0 maxDepth art workersOf cancelAt fuelDepth = iterInit rng0 art := by
    unfold iterFinal iterLimit
    rw [h]
    rfl
  rw [iterate_eq]
  simp only [hfin]
  refine ⟨rfl, rfl, ?_, ?_⟩
  · intro ev line hm
    unfold iterInit at hm
    split at hm
    · simp at hm
    · cases hm
  · intro d n hm
    unfold iterInit at hm
    split at hm
    · simp at hm
    · cases hm

/-- the hypothesis is satisfiable: the mate and the stalemate of C05 -/
example : legalMoves C05.mateS = [] ∧ legalMoves C05.staleS = [] := by decide +kernel

/-! ## no panic -/

/-- the panic sources of the model, i.e. the `unwrap`/`assert!`/arithmetic sites of the search path:
1. `pseudoLegalMoves = none` (`Square::offset(..).unwrap()` in move generation), also inside `legalMoves?`;
2. `tryAsLegal = none` (`by_performing_move(..).unwrap()` on a buffer move — the prioritized move need not be
   pseudo-legal in the root);
3. `evaluate = none` (`first_square().unwrap()` without a king);
4. the two `usize` subtractions of the table probe;
5. the quiescence fuel (model only).
`C04_no_panic` excludes each: 1–3 by C01/C02 on legal positions (`Good`), closed under the moves searched; 2 for the
prioritized move by `PrioritizedOK` (kept as an invariant of the table at the root's key: only the root node writes
under that key, because every other node with that key is cut off by the history — C17); 4 by `C04_no_underflow`;
5 by `C04_captures_shrink`.
**C04_no_panic**: for every legal root (without stacked pieces), every generator state, depth limit (including none),
worker schedule, cancellation instant and every well-formed memory — fresh or re-used — whose entry for the root's
key, if any, carries a legal move of the root, the search does not panic. -/
theorem C04_no_panic (root : State) (rng0 : Rng.ChaCha8) (maxDepth : Option Nat) (art : Artifact)
    (workersOf : Nat → Nat) (cancelAt : Option Nat) (fuelDepth : Nat) (tables buckets : Nat)
    (hT : 0 < tables) (hB : 0 < buckets)
    (hl : LegalPos root = true) (hdj : DisjointBoard root.pieces)
    (hdep : art.tt.All DepthOK) (hinv : TT.AInv Gen.bucketSize tables buckets art.tt)
    (hprio : PrioritizedOK art root) :
    (iterate root rng0 maxDepth art workersOf cancelAt fuelDepth).panic = Option.none :=
  (iterate_safe root rng0 maxDepth art workersOf cancelAt fuelDepth tables buckets hT hB capturesShrink ⟨hl, hdj⟩ hdep
    hinv hprio).1

/-- **C04_no_panic, fresh memory.**  For a fresh `tables × buckets` memory the three table hypotheses hold: the only
hypothesis left is that the root is a legal position. -/
theorem C04_no_panic_fresh (root : State) (rng0 : Rng.ChaCha8) (maxDepth : Option Nat) (keys : KeyTable)
    (history : List UInt64) (workersOf : Nat → Nat) (cancelAt : Option Nat) (fuelDepth : Nat) (tables buckets : Nat)
    (hT : 0 < tables) (hB : 0 < buckets)
    (hl : LegalPos root = true) (hdj : DisjointBoard root.pieces) :
    (iterate root rng0 maxDepth { keys, tt := TT.Access.new tables buckets, history } workersOf cancelAt
      fuelDepth).panic = Option.none :=
  C04_no_panic root rng0 maxDepth _ workersOf cancelAt fuelDepth tables buckets hT hB hl hdj
    (TT.Access.All.new _ _ _) (TT.AInv.new _ _)
    (fun e he => by rw [TT.Access.new_find hT hB] at he; cases he)

/-- the position hypotheses are satisfiable (the example position of C01, 18 legal moves, one of them en passant);
the table hypotheses by any fresh table (`C04_no_panic_fresh`) -/
example : DisjointBoard C01_example.pieces := by decide
set_option maxRecDepth 1000000 in
example : LegalPos C01_example = true := by decide +kernel

/-! ## the artifact can seed the next search -/

/-- **C04_artifact_reusable.**  Whatever happens in the search (completion, interrupt, terminal root), the returned
artifact has the same hasher, a history that extends the old one by the root's key, and a table that still satisfies
the access-layer invariant of C15 (`tables × buckets` shape, bucket invariants, routing, counters) and
`depth ≤ max_depth` for every entry — the table hypotheses of `C04_no_panic` / `C04_no_underflow` for the next search.
No hypothesis on the position. -/
theorem C04_artifact_reusable (root : State) (rng0 : Rng.ChaCha8) (maxDepth : Option Nat) (art : Artifact)
    (workersOf : Nat → Nat) (cancelAt : Option Nat) (fuelDepth : Nat) (tables buckets : Nat)
    (hT : 0 < tables) (hB : 0 < buckets)
    (hdep : art.tt.All DepthOK) (hinv : TT.AInv Gen.bucketSize tables buckets art.tt) :
    (iterate root rng0 maxDepth art workersOf cancelAt fuelDepth).artifact.keys = art.keys ∧
    (iterate root rng0 maxDepth art workersOf cancelAt fuelDepth).artifact.history =
      Wee.hash art.keys.keys root :: art.history ∧
    (iterate root rng0 maxDepth art workersOf cancelAt fuelDepth).artifact.tt.All DepthOK ∧
    TT.AInv Gen.bucketSize tables buckets (iterate root rng0 maxDepth art workersOf cancelAt fuelDepth).artifact.tt :=
  ⟨rfl, rfl, C04_no_underflow_iterate root rng0 maxDepth art workersOf cancelAt fuelDepth hdep,
   iterate_tt_inv (fun tt => TT.AInv Gen.bucketSize tables buckets tt) root rng0 maxDepth art workersOf cancelAt
     fuelDepth (fun sd best tt rng polls h => runWorker_ainv _ root _ _ _ (by decide) hT hB sd best tt rng polls h) hinv⟩

/-- for the same root the `PrioritizedOK` hypothesis is handed on as well (for another root it is a statement about
key collisions, C03) -/
theorem C04_artifact_reusable_same_root (root : State) (rng0 : Rng.ChaCha8) (maxDepth : Option Nat) (art : Artifact)
    (workersOf : Nat → Nat) (cancelAt : Option Nat) (fuelDepth : Nat) (tables buckets : Nat)
    (hT : 0 < tables) (hB : 0 < buckets)
    (hl : LegalPos root = true) (hdj : DisjointBoard root.pieces)
    (hdep : art.tt.All DepthOK) (hinv : TT.AInv Gen.bucketSize tables buckets art.tt)
    (hprio : PrioritizedOK art root) :
    PrioritizedOK (iterate root rng0 maxDepth art workersOf cancelAt fuelDepth).artifact root :=
  (iterate_safe root rng0 maxDepth art workersOf cancelAt fuelDepth tables buckets hT hB capturesShrink ⟨hl, hdj⟩ hdep
    hinv hprio).2.2.2

end Wee.SearchCtl
