import Wee.Props.C03Report
import Wee.Props.C13
/-!
# What the repair of defect F10 buys: the material provisos disappear

**Defect F10** (found by the proof of `C03_no_report_overmaterial`, see `Wee/Props/C03Report.lean`): with extreme material
the heuristic evaluation exceeded not only `POS_INF = 10000` but `mate_in_ply(0) = 11000`, the root's search window; no
move could raise alpha, nothing was stored, and the search of a legal position with legal moves reported no line (UCI: no
`bestmove`).  **Repair** (`/repo` commit 1b229f7, `weechess-engine/src/eval/mod.rs`, end of `Evaluator::evaluate`):
`eval.clamp(Evaluation(NEG_INF.0 + 1), Evaluation(POS_INF.0 - 1))` on the HEURISTIC result only (the mate / stalemate
returns and `Evaluator::estimate` are untouched).  Model: `clampHeuristic` in `Wee/Model/Eval.lean`, applied to both
heuristic returns of `evaluate`.  Lemmas: `Wee/Proofs/ClampLemmas.lean`.

With the clamp, for EVERY state — no material hypothesis, no count of men, no legality:

1. `clampHeuristic`: range, oddness, monotonicity, identity on `(-10000, 10000)` (§1);
2. C05 "others never as mate" for ALL positions: `C05_nonterminal_unconditional`, `C05_terminal_only_mate`, `C05_all`,
   `C05_nonterminal_all` (the statement `C05_nonterminal_statement` without `|material| < 9000` and without "≤ 16 men") (§2);
3. `EvalBelowMate_all` (in `C03Report.lean`): static evaluations at plies `1 ≤ d < 2^31` are strictly inside
   `(-mate0, mate0)` on every set of states; hence C03 part D and C07 "exactly one `bestmove`" without `EvalBelowMate` /
   `PotentialOK`: `C03_report` (`C03_report_statement` of `C03.lean` closed), `C03_at_least_one_report_unconditional`, `…_any_schedule_unconditional`, `C03_report_session_unconditional`,
   `C03_at_least_one_report_legal_root`, `MemOK.iterate_unconditional`, `MemOK.searchS_unconditional`,
   `C07_writer_exactly_one_unconditional`, `…_any_schedule_unconditional`, `C07_session_exactly_one_unconditional` (§3);
4. C06 / C17 without `MaterialBounded` / `TreeBounded`: the underlying lemmas (`C06.static_ok`, `C06.quiesce_sound`,
   `C06.searchNode_sound`, the completeness lemmas) were generalised and `C06.Domain` lost its field `bounded`, so
   `C06_static_ok_all`, `C06_quiesce_sound_all`, `C06_sound_fresh_all`, `C06_complete_one_worker_all`,
   `C06_complete_some_report_any_workers_all`, `C17_win_all`, `C17_win_two_moves_all`, `C06_search_any_schedule_all`,
   `C07_writer_exactly_one_mate_all` (§4).  The existing theorems keep their names and signatures; their hypotheses
   `MaterialBounded` / `TreeBounded` / `RootBounded` / `EvalBelowMate` / `PotentialOK` are now redundant.
5. non-vacuity on the two F10 positions (the 43-knight position `knRoot` and the 15-queen position `qRoot`) and on the
   eleven-queen position of C05 (§5).
-/

/-! ## 1. the clamp -/
namespace Wee.C05

/-- **range**: the clamped score lies in `[NEG_INF + 1, POS_INF - 1] = [-9999, 9999]` -/
theorem C05_clamp_range (e : Eval) :
    Ev.negInf + 1 ≤ clampHeuristic e ∧ clampHeuristic e ≤ Ev.posInf - 1 ∧ -9999 ≤ clampHeuristic e ∧ clampHeuristic e ≤ 9999 :=
  ⟨(clampHeuristic_range e).1, (clampHeuristic_range e).2, clampHeuristic_range e⟩

/-- **oddness**: the bounds are symmetric (`NEG_INF + 1 = -(POS_INF - 1)`), so clamping commutes with negation — this is
what keeps C13 (`evaluate(White) = -evaluate(Black)`) true after the repair -/
theorem C05_clamp_odd (e : Eval) : clampHeuristic (-e) = - clampHeuristic e := clampHeuristic_neg e

/-- **monotonicity**: clamping never reverses the order of two scores (move ordering by score is preserved up to ties at
the two ends) -/
theorem C05_clamp_mono {a b : Eval} (h : a ≤ b) : clampHeuristic a ≤ clampHeuristic b := clampHeuristic_mono h

/-- **identity** strictly inside `(-10000, 10000)`: scores of ordinary positions are not changed by the repair
(`C05_nonterminal`: one king, at most 16 men a side and `|material| < 9000` suffice) -/
theorem C05_clamp_id {e : Eval} (h1 : -10000 < e) (h2 : e < 10000) : clampHeuristic e = e := clampHeuristic_id h1 h2

/-- saturation: everything from `POS_INF - 1` up becomes `9999`, everything from `NEG_INF + 1` down `-9999`; clamping is
idempotent and never increases the modulus -/
theorem C05_clamp_saturate (e : Eval) :
    (9999 ≤ e → clampHeuristic e = 9999) ∧ (e ≤ -9999 → clampHeuristic e = -9999) ∧
    clampHeuristic (clampHeuristic e) = clampHeuristic e ∧ (clampHeuristic e).natAbs ≤ e.natAbs :=
  ⟨@clampHeuristic_sat_hi e, @clampHeuristic_sat_lo e, clampHeuristic_idem e, clampHeuristic_natAbs_le e⟩

/-- a clamped score is never terminal -/
theorem C05_clamp_not_terminal (e : Eval) : Ev.isTerminal (clampHeuristic e) = false := clampHeuristic_not_terminal e

/-- on ordinary positions `evaluate` still returns the unclamped weighted sum: one king and at most 16 men a side, a legal
move, `|material| < 9000` (the hypotheses of `C05_nonterminal`) -/
theorem C05_evaluate_unclamped (s : State) (c : Color) (d : Nat) (hk : OneKingEach s) (hmen : ∀ c, men s c ≤ 16)
    (hm : ∃ m ms, legalMoves? s = some (m :: ms)) (hmat : (materialDiff s c).natAbs < 9000) :
    evaluate s c d = some (evalHeuristic (Variation.of s) c) := by
  obtain ⟨m, ms, hm⟩ := hm
  have h := C05_heuristic_lt s c hk hmen hmat
  rw [C05_nonterminal_branch s c d m ms hm (kingHasMove_ne_none s hk), clampHeuristic_id h.1 h.2]

/-! ## 2. C05 for all positions -/

/-- **C05_nonterminal_unconditional.**  For EVERY state `s` (legal or not, any material, any number of men), every
perspective and depth: if `compute_legal_moves` lists at least one move and `Evaluator::evaluate` returns `e` (i.e. does
not panic: the side to move has a king), then `e` is the clamped heuristic sum and is NOT a terminal (mate) score:
`NEG_INF < e < POS_INF`. -/
theorem C05_nonterminal_unconditional (s : State) (c : Color) (d : Nat) (e : Eval) (m : Move × State)
    (ms : List (Move × State)) (hm : legalMoves? s = some (m :: ms)) (h : evaluate s c d = some e) :
    e = clampHeuristic (evalHeuristic (Variation.of s) c) ∧ Ev.isTerminal e = false ∧ -10000 < e ∧ e < 10000 := by
  have he := evaluate_of_move hm h
  have hr := clampHeuristic_range (evalHeuristic (Variation.of s) c)
  refine ⟨he, by rw [he]; exact clampHeuristic_not_terminal _, ?_, ?_⟩ <;> (rw [he]; eomega)

/-- **C05_terminal_only_mate.**  For every state, perspective and depth: a TERMINAL result of `Evaluator::evaluate`
(`e ≤ NEG_INF` or `e ≥ POS_INF`) arises only in the checkmate branch — no legal move, in check, value `∓mate_in_ply(depth)`.
(`C06_static_ok` without the material bound and for both perspectives.) -/
theorem C05_terminal_only_mate (s : State) (c : Color) (d : Nat) (e : Eval) (h : evaluate s c d = some e)
    (ht : Ev.isTerminal e = true) :
    legalMoves? s = some [] ∧ s.isCheck = true ∧ e = (if s.turn = c then - Ev.mateInPly d else Ev.mateInPly d) :=
  evaluate_terminal h ht

/-- **C05_all** — the full property C05 ("no-move positions score as mate or draw; others never as mate") WITHOUT the
proviso `|material| < 9000`.  For every state `s`, perspective `c`, depth `d`:

1. no legal move and in check ⇒ `evaluate = -mate_in_ply(d)` from the side to move's perspective, `+mate_in_ply(d)` from the
   opponent's (no further hypothesis);
2. no legal move and not in check ⇒ `evaluate = 0` (on a placement without stacked pieces with a king of the side to move:
   the hypotheses of `C05_stalemate_closed`);
3. at least one legal move (and a king of the side to move) ⇒ `evaluate` returns the clamped heuristic sum, and that value
   is not terminal — for ALL positions;
4. conversely, whatever `evaluate` returns: if it is terminal then the position is checkmate. -/
theorem C05_all (s : State) (c : Color) (d : Nat) :
    (legalMoves? s = some [] → s.isCheck = true →
      evaluate s c d = some (if s.turn = c then - Ev.mateInPly d else Ev.mateInPly d)) ∧
    (legalMoves? s = some [] → s.isCheck = false → C10.DisjointBoard s.pieces → kingHasMove s ≠ none →
      evaluate s c d = some 0) ∧
    (∀ m ms, legalMoves? s = some (m :: ms) → kingHasMove s ≠ none →
      ∃ e, evaluate s c d = some e ∧ e = clampHeuristic (evalHeuristic (Variation.of s) c) ∧
        Ev.isTerminal e = false) ∧
    (∀ e, evaluate s c d = some e → Ev.isTerminal e = true → legalMoves? s = some [] ∧ s.isCheck = true) :=
  ⟨fun hno hchk => C05_mate s c d hno hchk,
   fun hno hchk hd hking => C05_stalemate_closed s c d hd hno hchk hking,
   fun m ms hm hking => ⟨_, C05_nonterminal_branch s c d m ms hm hking, rfl, clampHeuristic_not_terminal _⟩,
   fun _ h ht => ⟨(evaluate_terminal h ht).1, (evaluate_terminal h ht).2.1⟩⟩

/-- `C05_nonterminal_statement` (DESIGN.md) without its hypotheses "at most 16 men a side" and `|material| < 9000` -/
def C05_nonterminal_all_statement : Prop :=
  ∀ (s : State) (c : Color) (d : Nat), OneKingEach s → (∃ m ms, legalMoves? s = some (m :: ms)) →
    ∃ e, evaluate s c d = some e ∧ Ev.isTerminal e = false

/-- **C05_nonterminal_all.**  A position with one king a side and a legal move never gets a terminal score — whatever
its material. -/
theorem C05_nonterminal_all : C05_nonterminal_all_statement := by
  intro s c d hk ⟨m, ms, hm⟩
  exact ⟨_, C05_nonterminal_branch s c d m ms hm (kingHasMove_ne_none s hk), clampHeuristic_not_terminal _⟩

/-- the old statement is the special case -/
example : C05_nonterminal_all_statement → C05_nonterminal_statement :=
  fun h s c d hk _ hm _ => h s c d hk hm

end Wee.C05

/-! ## 3. C03 part D and C07 without the evaluation bound -/
namespace Wee
open Wee.Search
open Wee.C10 (DisjointBoard)

/-- `EvalBelowMate_all` (proved in `Wee/Props/C03Report.lean`) spelled out: for every state, perspective, ply
`1 ≤ depth < 2^31`, a static evaluation is strictly inside the root window `(-11000, 11000)` -/
theorem C03_static_inside_root_window (s : State) (p : Color) (depth : Nat) (v : Int) (h1 : 1 ≤ depth)
    (h2 : depth < 2^31) (hev : evaluate s p depth = some v) : -11000 < v ∧ v < 11000 := by
  have := EvalBelowMate_all (fun _ => True) s trivial p depth v h1 h2 hev
  rwa [M0_eq] at this

/-- **C03_report: the full statement D of `Wee/Props/C03.lean` (`C03_report_statement`) is a theorem.**  It was "open only in
the evaluation bound" (`C03_report_statement_of_eval_bound`); the repair of F10 closes it. -/
theorem C03_report : C03_report_statement :=
  C03_report_statement_of_eval_bound (EvalBelowMate_all _)

/-- **`MemOK.iterate` without the evaluation bound**: every search on a region hands back a memory satisfying the invariant -/
theorem MemOK.iterate_unconditional {R : State → Prop} (hR : Region R) (root : State) (hroot : R root)
    (art : Artifact) (h : MemOK R art) (rng0 : Rng.ChaCha8) (maxDepth : Option Nat) (workersOf : Nat → Nat)
    (cancelAt : Option Nat) (fuelDepth : Nat) (hlim : maxDepth.getD fuelDepth ≤ 1000000000) :
    (Search.iterate root rng0 maxDepth art workersOf cancelAt fuelDepth).panic = Option.none ∧
    (Search.iterate root rng0 maxDepth art workersOf cancelAt fuelDepth).artifact.keys = art.keys ∧
    MemOK R (Search.iterate root rng0 maxDepth art workersOf cancelAt fuelDepth).artifact :=
  MemOK.iterate hR (EvalBelowMate_all R) root hroot art h rng0 maxDepth workersOf cancelAt fuelDepth hlim

/-- **`MemOK.searchS` without the evaluation bound** (every schedule of the workers) -/
theorem MemOK.searchS_unconditional {R : State → Prop} (hR : Region R) (root : State) (hroot : R root)
    (art : Artifact) (h : MemOK R art) (rng0 : Rng.ChaCha8) (maxDepth : Option Nat) (workersOf : Nat → Nat)
    (cancelAt : Option Nat) (fuelDepth : Nat) (hlim : maxDepth.getD fuelDepth ≤ 1000000000) (out : Outcome)
    (hout : SearchS root rng0 maxDepth art workersOf cancelAt fuelDepth out) :
    out.panic = Option.none ∧ out.artifact.keys = art.keys ∧ MemOK R out.artifact :=
  MemOK.searchS hR (EvalBelowMate_all R) root hroot art h rng0 maxDepth workersOf cancelAt fuelDepth hlim out hout

/-- **C03_at_least_one_report_unconditional.**  `C03_at_least_one_report` with the hypothesis `EvalBelowMate` removed: for
every region `R` (legal positions without stacked pieces, closed under legal moves), every root of `R` with at least one
legal move, every incoming artifact satisfying `MemOK` — fresh or left by any earlier searches —, every seed, every depth
limit `≥ 1`, every worker-count function with at least one worker in the first iteration, every cancellation instant: the
search does not panic and reports at least one `BestMove`, whose line is non-empty and legal from the root.
No hypothesis on the material is left: the former counterexample `C03_no_report_overmaterial` is gone with defect F10. -/
theorem C03_at_least_one_report_unconditional {R : State → Prop} (hR : Region R) (root : State) (hroot : R root)
    (hmoves : legalMoves root ≠ []) (art : Artifact) (hmem : MemOK R art) (rng0 : Rng.ChaCha8) (maxDepth : Option Nat)
    (fuelDepth : Nat) (hlim : 1 ≤ maxDepth.getD fuelDepth) (workersOf : Nat → Nat) (hw : 0 < workersOf 0)
    (cancelAt : Option Nat) :
    let out := iterate root rng0 maxDepth art workersOf cancelAt fuelDepth
    out.panic = Option.none ∧ ∃ ev line, Event.best ev line ∈ out.events ∧ line ≠ [] ∧ LineLegal root line :=
  C03_at_least_one_report R hR (EvalBelowMate_all R) root hroot hmoves art hmem rng0 maxDepth fuelDepth hlim workersOf hw
    cancelAt

/-- the same for every outcome under every schedule of the workers (`SearchS`) -/
theorem C03_at_least_one_report_any_schedule_unconditional {R : State → Prop} (hR : Region R) (root : State)
    (hroot : R root) (hmoves : legalMoves root ≠ [])
    (art : Artifact) (hmem : MemOK R art) (rng0 : Rng.ChaCha8) (maxDepth : Option Nat) (fuelDepth : Nat)
    (hlim : 1 ≤ maxDepth.getD fuelDepth) (workersOf : Nat → Nat) (hw : 0 < workersOf 0) (cancelAt : Option Nat)
    (out : Outcome) (hout : SearchS root rng0 maxDepth art workersOf cancelAt fuelDepth out) :
    out.panic = Option.none ∧ ∃ ev line, Event.best ev line ∈ out.events ∧ line ≠ [] ∧ LineLegal root line :=
  C03_at_least_one_report_any_schedule hR (EvalBelowMate_all R) root hroot hmoves art hmem rng0 maxDepth fuelDepth hlim
    workersOf hw cancelAt out hout

/-- **C03_at_least_one_report_legal_root.**  `C03_at_least_one_report_of_potential` without the root condition
`PotentialOK`: for EVERY legal root (no stacked pieces) with a legal move — the initial position included —, every memory
satisfying `MemOK` on the positions reachable from the root, every seed, depth limit `≥ 1`, worker counts with at least one
worker in the first iteration, every cancellation instant: the search does not panic and reports at least one `BestMove`
with a non-empty legal line. -/
theorem C03_at_least_one_report_legal_root (root : State) (hl : LegalPos root = true) (hd : DisjointBoard root.pieces)
    (hmoves : legalMoves root ≠ [])
    (art : Artifact) (hmem : MemOK (Reach (fun s => s = root)) art) (rng0 : Rng.ChaCha8) (maxDepth : Option Nat)
    (fuelDepth : Nat) (hlim : 1 ≤ maxDepth.getD fuelDepth) (workersOf : Nat → Nat) (hw : 0 < workersOf 0)
    (cancelAt : Option Nat) :
    let out := iterate root rng0 maxDepth art workersOf cancelAt fuelDepth
    out.panic = Option.none ∧ ∃ ev line, Event.best ev line ∈ out.events ∧ line ≠ [] ∧ LineLegal root line :=
  C03_at_least_one_report_unconditional (Region.reach (fun s => s = root) (fun s h => by subst h; exact ⟨hl, hd⟩)) root
    (Reach.root root rfl) hmoves art hmem rng0 maxDepth fuelDepth hlim workersOf hw cancelAt

/-- **C03_report_session_unconditional** (the quantifier over histories of searches on one memory, no evaluation bound) -/
theorem C03_report_session_unconditional {R : State → Prop} (hR : Region R) (qs : List SearchReq) (art : Artifact)
    (hmem : MemOK R art) (hqs : ∀ q ∈ qs, R q.root ∧ q.maxDepth.getD q.fuelDepth ≤ 1000000000) :
    ∀ p ∈ sessionOut art qs,
      p.2.panic = Option.none ∧ MemOK R p.2.artifact ∧
      (∀ ev line, Event.best ev line ∈ p.2.events → line ≠ [] ∧ LineLegal p.1.root line) ∧
      (legalMoves p.1.root ≠ [] →
        1 ≤ p.1.maxDepth.getD p.1.fuelDepth → 0 < p.1.workersOf 0 → ∃ ev line, Event.best ev line ∈ p.2.events) :=
  C03_report_session hR (EvalBelowMate_all R) qs art hmem hqs

end Wee

namespace Wee.Uci
open Wee Wee.Search
open Wee.C10 (DisjointBoard)

/-- **C07_writer_exactly_one_unconditional.**  For every root with a legal move in a region, ANY incoming memory satisfying
`MemOK`, any seed, any depth limit `≥ 1`, any worker counts with at least one worker in the first iteration, any
cancellation instant: the search thread does not panic and the writer thread prints EXACTLY ONE `bestmove` line; it is its
last line and names a legal move of the root (`LegalToken`).  No evaluation hypothesis. -/
theorem C07_writer_exactly_one_unconditional {R : State → Prop} (hR : Region R) (root : State)
    (hroot : R root) (hmoves : legalMoves root ≠ [])
    (art : Artifact) (hmem : MemOK R art) (rng0 : Rng.ChaCha8) (maxDepth : Option Nat) (fuelDepth : Nat)
    (hlim : 1 ≤ maxDepth.getD fuelDepth) (workersOf : Nat → Nat) (hw : 0 < workersOf 0) (cancelAt : Option Nat) :
    let out := iterate root rng0 maxDepth art workersOf cancelAt fuelDepth
    out.panic = Option.none ∧
    ∃ t, bestmoves (writerLines out.events) = [t] ∧ (writerLines out.events).getLast? = some (.bestmove t) ∧
      LegalToken root t :=
  C07_writer_exactly_one_always hR (EvalBelowMate_all R) root hroot hmoves art hmem rng0 maxDepth fuelDepth hlim workersOf
    hw cancelAt

/-- the same for every outcome under every schedule of the workers -/
theorem C07_writer_exactly_one_any_schedule_unconditional {R : State → Prop} (hR : Region R) (root : State)
    (hroot : R root) (hmoves : legalMoves root ≠ [])
    (art : Artifact) (hmem : MemOK R art) (rng0 : Rng.ChaCha8) (maxDepth : Option Nat) (fuelDepth : Nat)
    (hlim : 1 ≤ maxDepth.getD fuelDepth) (workersOf : Nat → Nat) (hw : 0 < workersOf 0) (cancelAt : Option Nat)
    (out : Outcome) (hout : SearchS root rng0 maxDepth art workersOf cancelAt fuelDepth out) :
    out.panic = Option.none ∧
    ∃ t, bestmoves (writerLines out.events) = [t] ∧ (writerLines out.events).getLast? = some (.bestmove t) ∧
      LegalToken root t :=
  C07_writer_exactly_one_any_schedule hR (EvalBelowMate_all R) root hroot hmoves art hmem rng0 maxDepth fuelDepth hlim
    workersOf hw cancelAt out hout

/-- **C07_session_exactly_one_unconditional.**  `C07_session_exactly_one_always` without `EvalBelowMate`: a whole session of
the command loop on a region `R` of legal positions (every `go` issued in a position of `R` that has a legal move; fresh
memories satisfy `MemOK R`), ANY transcript (any schedules, seeds, cancellation instants, at least one worker in the first
iteration, depth limits between 1 and `10^9`, memory handed on from search to search): **the number of `bestmove` lines
EQUALS the number of `go` lines read**, and the memory left at the end satisfies `MemOK R`. -/
theorem C07_session_exactly_one_unconditional {R : State → Prop} (hR : Region R)
    (Fresh : Artifact → Prop) (hfresh : ∀ a, Fresh a → MemOK R a) (K : Keys) (tbl : Book.Table)
    (s : Sess) (lines : List String) (s' : Sess) (touts : List (Out × State))
    (hrun : runT (fun p => (Book.lookup K tbl p).isSome) s lines = some (s', touts))
    (hpos : ∀ o p, (o, p) ∈ touts → o.isStart = true → R p ∧ legalMoves p ≠ [])
    (t : List (WLine × State)) (last' : Option Artifact)
    (htr : Transcript (sessionSpecW Fresh K tbl) Option.none Option.none touts t last' Option.none) :
    Transcript.nbest t = (processed lines).countP isGo ∧ (∀ m0, last' = some m0 → MemOK R m0) :=
  C07_session_exactly_one_always hR (EvalBelowMate_all R) Fresh hfresh K tbl s lines s' touts hrun hpos t last' htr

end Wee.Uci

/-! ## 4. C06 / C17 without `MaterialBounded` / `TreeBounded` -/
namespace Wee.C06
open Wee Wee.Search Wee.Outcome
open Wee.C10 (DisjointBoard)

/-- **C06_static_ok_all.**  For EVERY state: `evaluate(state, turn_to_move, depth)` is terminal only in the mate branch. -/
theorem C06_static_ok_all (s : State) (d : Nat) (e : Eval)
    (h : evaluate s s.turn d = some e) (ht : Ev.isTerminal e = true) :
    legalMoves? s = some [] ∧ s.isCheck = true ∧ e = - Ev.mateInPly d := static_ok h ht

/-- with a legal move the static value (from the side to move) is strictly inside `(-10000, 10000)`, and it never claims a
win for the side to move — for every state -/
theorem C06_static_nonterminal_all (s : State) (d : Nat) (e : Eval) (h : evaluate s s.turn d = some e) :
    e < 10000 ∧ (legalMoves? s ≠ some [] → -10000 < e) :=
  ⟨static_lt h, fun hm => (static_nonterminal h hm).1⟩

/-- **C06_quiesce_sound_all.**  Every value returned by `quiescence_search` (any fuel, depth, window `alpha < beta`) on ANY
position is `SoundVal`. -/
theorem C06_quiesce_sound_all (fuel : Nat) (s : State) (depth : Nat) (α β r : Eval) (hαβ : α < β)
    (h : quiesce evaluate fuel s depth α β = .ok r) : SoundVal s α β r :=
  quiesce_sound fuel s depth α β r hαβ h

/-- a `Domain` is now: closed under legal moves, the generator does not panic, no harmful collision — nothing about the
evaluation -/
example (K : Keys) (D : State → Prop) (h1 : ∀ s, D s → ∀ r ∈ legalMoves s, D r.2) (h2 : ∀ s, D s → legalMoves? s ≠ none)
    (h3 : ∀ s s', D s → D s' → (hash K s).toNat = (hash K s').toNat → ∀ e, SoundEntry s e → SoundEntry s' e) :
    Domain K D := ⟨h1, h2, h3⟩

/-- **C06_sound_fresh_all** (soundness half of C06 from fresh memory, NO material hypothesis).  For every legal root
position (placement without overlaps) — the initial position, positions with nine queens, … —, every key table without
harmful collision among the reachable positions, fresh memory of any geometry, every seed, depth limit, cancellation
point and worker counts: every report with a winning terminal evaluation is a true forced mate for the side to move, and
with one worker per iteration the reported first move leads to a position in which the opponent is `Lost`. -/
theorem C06_sound_fresh_all (root : State) (hl : LegalPos root = true) (hd : DisjointBoard root.pieces)
    (keys : KeyTable) (hcf : CollisionFree keys.keys (Reachable root))
    (nT nB : Nat) (hT : 0 < nT) (hB : 0 < nB) (history : List UInt64)
    (rng0 : Rng.ChaCha8) (maxDepth : Option Nat) (workersOf : Nat → Nat) (cancelAt : Option Nat) (fuelDepth : Nat) :
    let out := iterate root rng0 maxDepth { keys := keys, tt := TT.Access.new nT nB, history := history }
      workersOf cancelAt fuelDepth
    (∀ ev ∈ out.events, ClaimTrue root ev) ∧ ((∀ d, workersOf d = 1) → ∀ ev ∈ out.events, MoveKeeps root ev) := by
  intro out
  have h := C06_iterate_sound ⟨by decide, hT, hB⟩ { keys := keys, tt := TT.Access.new nT nB, history := history }
    (Domain.ofRoot_all hl hd hcf) root (Reachable.refl root) (TTInv.fresh _ _ hT hB)
    rng0 maxDepth workersOf cancelAt fuelDepth
  exact ⟨h.2.2.1, h.2.2.2⟩

/-- **C06_complete_one_worker_all** (completeness half of C06 for one worker per iteration, NO material hypothesis):
`C06_complete_one_worker` without `TreeBounded root`. -/
theorem C06_complete_one_worker_all (root : State) (n d : Nat) (keys : KeyTable) (nT nB : Nat) (rng0 : Rng.ChaCha8)
    (fuelDepth : Nat)
    (hl : LegalPos root = true) (hdj : DisjointBoard root.pieces)
    (hcf : CollisionFree keys.keys (Reachable root)) (hcfn : CollisionFreeN keys.keys (Reachable root))
    (hT : 0 < nT) (hB : 0 < nB) (hw : forcedMate n root = true) (hnd : n ≤ d) :
    let out := iterate root rng0 (some d) { keys := keys, tt := TT.Access.new nT nB, history := [] } (fun _ => 1)
      Option.none fuelDepth
    out.panic = Option.none ∧
    ∃ ev line, (bestReports out.events).getLast? = some (ev, line) ∧ Ev.posInf ≤ ev ∧
      ∃ r ∈ legalMoves root, line.head? = some r.1 ∧ Lost r.2 := by
  intro out
  have hnp : out.panic = Option.none :=
    SearchCtl.C04_no_panic_fresh root rng0 (some d) keys [] (fun _ => 1) Option.none fuelDepth nT nB hT hB hl hdj
  obtain ⟨n₀, hn₀, hw₀, hmin⟩ := exists_least (fun k => forcedMate k root) n hw
  have dom := Domain.ofRoot_all hl hdj hcf
  have hclosed : ∀ s, Reachable root s → ∀ r ∈ legalMoves s, Reachable root r.2 := dom.closed
  have hwH := (solver_hist_equiv hclosed hcfn (Reachable.refl root) hw₀ hmin n₀ (Nat.le_refl _) root
    (Reachable.refl root)).1 hw₀
  have coll := collH_single hclosed hcfn (Reachable.refl root) hw₀ hmin
  obtain ⟨ev, line, r, h1, h2, h3, h4, h5, _⟩ := iterate_complete hT hB keys [] root dom (Reachable.refl root) n₀ d
    coll hwH (by omega) rng0 fuelDepth hnp
  exact ⟨hnp, ev, line, h1, h2, r, h3, h4, h5⟩

/-- **C06_complete_some_report_any_workers_all**: `C06_complete_some_report_any_workers` without `TreeBounded root`. -/
theorem C06_complete_some_report_any_workers_all (root : State) (n d : Nat) (keys : KeyTable) (nT nB : Nat)
    (rng0 : Rng.ChaCha8) (workersOf : Nat → Nat) (fuelDepth : Nat)
    (hl : LegalPos root = true) (hdj : DisjointBoard root.pieces)
    (hcf : CollisionFree keys.keys (Reachable root)) (hcfn : CollisionFreeN keys.keys (Reachable root))
    (hT : 0 < nT) (hB : 0 < nB) (hw : forcedMate n root = true) (hnd : n ≤ d) (hwk : ∀ k, 0 < workersOf k) :
    let out := iterate root rng0 (some d) { keys := keys, tt := TT.Access.new nT nB, history := [] } workersOf
      Option.none fuelDepth
    out.panic = Option.none ∧
    ∃ ev line, (bestReports out.events).getLast? = some (ev, line) ∧ Ev.posInf ≤ ev := by
  intro out
  have hnp : out.panic = Option.none :=
    SearchCtl.C04_no_panic_fresh root rng0 (some d) keys [] workersOf Option.none fuelDepth nT nB hT hB hl hdj
  obtain ⟨n₀, hn₀, hw₀, hmin⟩ := exists_least (fun k => forcedMate k root) n hw
  have dom := Domain.ofRoot_all hl hdj hcf
  have hclosed : ∀ s, Reachable root s → ∀ r ∈ legalMoves s, Reachable root r.2 := dom.closed
  have hwH := (solver_hist_equiv hclosed hcfn (Reachable.refl root) hw₀ hmin n₀ (Nat.le_refl _) root
    (Reachable.refl root)).1 hw₀
  have coll := collH_single hclosed hcfn (Reachable.refl root) hw₀ hmin
  obtain ⟨ev, line, h1, h2⟩ := iterate_complete_any hT hB keys [] root dom (Reachable.refl root) n₀ d
    coll hwH (by omega) workersOf hwk rng0 fuelDepth hnp
  exact ⟨hnp, ev, line, h1, h2⟩

/-- **C17_win_all**: `C17_win` (winning although a winning move repeats a recorded position; general incoming history)
without `TreeBounded root`. -/
theorem C17_win_all (root : State) (n d : Nat) (keys : KeyTable) (history : List UInt64) (nT nB : Nat)
    (rng0 : Rng.ChaCha8) (fuelDepth : Nat)
    (hl : LegalPos root = true) (hdj : DisjointBoard root.pieces)
    (hcf : CollisionFree keys.keys (Reachable root))
    (hcoll : CollH keys.keys (hash keys.keys root :: history) (Reachable root) n)
    (hT : 0 < nT) (hB : 0 < nB) (hw : fmH keys.keys (hash keys.keys root :: history) n root = true) (hnd : n ≤ d) :
    let out := iterate root rng0 (some d) { keys := keys, tt := TT.Access.new nT nB, history := history } (fun _ => 1)
      Option.none fuelDepth
    out.panic = Option.none ∧
    ∃ ev line, (bestReports out.events).getLast? = some (ev, line) ∧ Ev.posInf ≤ ev ∧
      ∃ r ∈ legalMoves root, line.head? = some r.1 ∧ Lost r.2 ∧
        (hash keys.keys root :: history).contains (hash keys.keys r.2) = false := by
  intro out
  have hnp : out.panic = Option.none :=
    SearchCtl.C04_no_panic_fresh root rng0 (some d) keys history (fun _ => 1) Option.none fuelDepth nT nB hT hB hl hdj
  obtain ⟨ev, line, r, h1, h2, h3, h4, h5, h6⟩ := iterate_complete hT hB keys history root
    (Domain.ofRoot_all hl hdj hcf) (Reachable.refl root) n d hcoll hw hnd rng0 fuelDepth hnp
  exact ⟨hnp, ev, line, h1, h2, r, h3, h4, h5, h6⟩

/-- **C17_win_two_moves_all**: `C17_win_two_moves` without `TreeBounded root`. -/
theorem C17_win_two_moves_all (root : State) (n d : Nat) (r1 r2 : Move × State) (keys : KeyTable)
    (history : List UInt64) (nT nB : Nat) (rng0 : Rng.ChaCha8) (fuelDepth : Nat)
    (hl : LegalPos root = true) (hdj : DisjointBoard root.pieces)
    (hcf : CollisionFree keys.keys (Reachable root))
    (hcoll : CollH keys.keys (hash keys.keys root :: history) (Reachable root) (n + 1))
    (hT : 0 < nT) (hB : 0 < nB) (hr1 : r1 ∈ legalMoves root) (hr2 : r2 ∈ legalMoves root)
    (hrec : history.contains (hash keys.keys r1.2) = true)
    (hfree : (hash keys.keys root :: history).contains (hash keys.keys r2.2) = false)
    (hwin : liH keys.keys (hash keys.keys root :: history) n r2.2 = true) (hnd : n + 1 ≤ d) :
    let out := iterate root rng0 (some d) { keys := keys, tt := TT.Access.new nT nB, history := history } (fun _ => 1)
      Option.none fuelDepth
    ∃ ev line, (bestReports out.events).getLast? = some (ev, line) ∧ Ev.posInf ≤ ev ∧ line.head? ≠ some r1.1 ∧
      ∃ r ∈ legalMoves root, line.head? = some r.1 ∧ Lost r.2 := by
  intro out
  have hw : fmH keys.keys (hash keys.keys root :: history) (n + 1) root = true :=
    (fmH_succ_iff _ _ n root).2 ⟨r2, hr2, hfree, hwin⟩
  obtain ⟨_, ev, line, h1, h2, r, h3, h4, h5, h6⟩ := C17_win_all root (n + 1) d keys history nT nB rng0 fuelDepth hl hdj
    hcf hcoll hT hB hw hnd
  refine ⟨ev, line, h1, h2, fun h => ?_, r, h3, h4, h5⟩
  rw [h4] at h
  have h' : r.1 = r1.1 := Option.some.inj h
  have hdom := Domain.ofRoot_all (K := keys.keys) hl hdj hcf
  obtain ⟨ms, hms⟩ := hdom.gen (Reachable.refl root)
  have hrr := legal_unique hms h3 hr1 h'
  rw [hrr, List.contains_cons, hrec, Bool.or_true] at h6
  cases h6

end Wee.C06

namespace Wee
open Wee.Search Wee.Env
open Wee.C10 (DisjointBoard)

/-- **C06_search_any_schedule_all** (C06 soundness for the whole search under arbitrary schedules of the workers, from a
legal root and fresh memory, NO material hypothesis).  For every legal root, key table without harmful collision among the
reachable positions, fresh memory of any geometry, any history, seed, depth limit, worker counts, cancellation instant, and
EVERY outcome `out` of the search when in every iteration the workers race in an arbitrary interleaving of their atomic
table operations: the table handed back is sound again and every winning `BestMove` report is a true forced win. -/
theorem C06_search_any_schedule_all (root : State) (hl : LegalPos root = true) (hd : DisjointBoard root.pieces)
    (keys : KeyTable) (hcf : C06.CollisionFree keys.keys (C06.Reachable root))
    (nT nB : Nat) (hT : 0 < nT) (hB : 0 < nB) (history : List UInt64)
    (rng0 : Rng.ChaCha8) (maxDepth : Option Nat) (workersOf : Nat → Nat) (cancelAt : Option Nat) (fuelDepth : Nat)
    (out : Outcome)
    (hout : SearchS root rng0 maxDepth { keys := keys, tt := TT.Access.new nT nB, history := history } workersOf
      cancelAt fuelDepth out) :
    C06.TTInv keys.keys (C06.Reachable root) Gen.bucketSize nT nB out.artifact.tt ∧
    ∀ ev ∈ out.events, C06.ClaimTrue root ev :=
  C06_search_any_schedule ⟨by decide, hT, hB⟩ { keys := keys, tt := TT.Access.new nT nB, history := history }
    (C06.Domain.ofRoot_all hl hd hcf) root (C06.Reachable.refl root) (C06.TTInv.fresh _ _ hT hB)
    rng0 maxDepth workersOf cancelAt fuelDepth out hout

end Wee

namespace Wee.Uci
open Wee Wee.Search
open Wee.C10 (DisjointBoard)

/-- **C07_writer_exactly_one_mate_all**: `C07_writer_exactly_one_mate` (the printed `bestmove` keeps the forced mate)
without `TreeBounded root`. -/
theorem C07_writer_exactly_one_mate_all (root : State) (n d : Nat) (keys : KeyTable) (nT nB : Nat) (rng0 : Rng.ChaCha8)
    (fuelDepth : Nat)
    (hl : LegalPos root = true) (hdj : DisjointBoard root.pieces)
    (hcf : C06.CollisionFree keys.keys (C06.Reachable root)) (hcfn : C06.CollisionFreeN keys.keys (C06.Reachable root))
    (hT : 0 < nT) (hB : 0 < nB) (hw : Outcome.forcedMate n root = true) (hnd : n ≤ d) :
    let out := iterate root rng0 (some d) { keys := keys, tt := TT.Access.new nT nB, history := [] } (fun _ => 1)
      Option.none fuelDepth
    out.panic = Option.none ∧
    ∃ r ∈ legalMoves root, bestmoves (writerLines out.events) = [Move.lan r.1] ∧
      (writerLines out.events).getLast? = some (.bestmove (Move.lan r.1)) ∧
      LegalToken root (Move.lan r.1) ∧ Outcome.Lost r.2 := by
  intro out
  obtain ⟨hnp, ev, line, hlast, _, r, hr, hhead, hlost⟩ :=
    C06.C06_complete_one_worker_all root n d keys nT nB rng0 fuelDepth hl hdj hcf hcfn hT hB hw hnd
  have hb : bestmoves (writerLines out.events) = [Move.lan r.1] := bestmoves_of_last_report (ev := ev) hlast hhead
  have ht : WLine.bestmove (Move.lan r.1) ∈ writerLines out.events :=
    mem_bestmoves.1 (by rw [hb]; exact List.mem_singleton.2 rfl)
  exact ⟨hnp, r, hr, hb, bestmove_is_last _ _ ht, legalToken_of_mem root hl hdj r hr, hlost⟩

end Wee.Uci

/-! ## 5. non-vacuity: the two F10 positions and the eleven queens of C05 -/
namespace Wee.C05
open Wee.C10 (DisjointBoard)

/-- on a legal position (no stacked pieces) with a legal move, `evaluate` is exactly the clamped heuristic sum — the form
used below to evaluate positions whose move generation is too expensive for the kernel (sliders) through C01 -/
theorem C05_evaluate_legal (s : State) (c : Color) (d : Nat) (hl : LegalPos s = true) (hd : DisjointBoard s.pieces)
    (hmoves : legalMoves s ≠ []) :
    evaluate s c d = some (clampHeuristic (evalHeuristic (Variation.of s) c)) := by
  obtain ⟨L, hL⟩ := (C01_legal_results s hl hd).1
  have hLe : legalMoves s = L := by unfold legalMoves; rw [hL]; rfl
  cases L with
  | nil => exact absurd hLe hmoves
  | cons m ms =>
    exact C05_nonterminal_branch s c d m ms hL (kingHasMove_ne_none s (C02.oneKingEach_of_legal s hl hd))

/-- the eleven queens of `C05_unbounded_example` (heuristic sum 10020): all clauses of `C05_all` / the hypotheses of
`C05_nonterminal_unconditional` are satisfied there, and the result is the non-terminal 9999 -/
example : (∃ m ms, legalMoves? elevenQ = some (m :: ms)) ∧ evalHeuristic (Variation.of elevenQ) .white = 10020 ∧
    evaluate elevenQ .white 0 = some 9999 ∧ Ev.isTerminal 9999 = false :=
  ⟨C05_unbounded_example.2.2.1, C05_unbounded_example.2.2.2.2.1, C05_unbounded_example_repaired.1,
    C05_unbounded_example_repaired.2.2.1⟩

end Wee.C05

namespace Wee
open Wee.Search
open Wee.C10 (DisjointBoard)

/-- the first F10 position, `6nk/6pp/8/8/8/8/QQQQQQQQ/KQQQQQQQ b - - 0 1`: Black (king h8, knight g8, pawns g7 h7; the
g-pawn is pinned by the queen on b2) to move against a king and 15 queens -/
def qRoot : State :=
  { pieces := { wq := 0xFFFE, wk := 1, bp := 0x00C0000000000000, bn := 0x4000000000000000, bk := 0x8000000000000000 },
    turn := .black, castleW := .noRights, castleB := .noRights, ep := Option.none, halfmove := 0, fullmove := 1 }
/-- after h7-h6 -/
def qS1 : State :=
  { pieces := { wq := 0xFFFE, wk := 1, bp := 18155135997837312, bn := 0x4000000000000000, bk := 0x8000000000000000 },
    turn := .white, castleW := .noRights, castleB := .noRights, ep := Option.none, halfmove := 0, fullmove := 2 }
/-- after Ng8-f6 -/
def qS2 : State :=
  { pieces := { wq := 0xFFFE, wk := 1, bp := 0x00C0000000000000, bn := 35184372088832, bk := 0x8000000000000000 },
    turn := .white, castleW := .noRights, castleB := .noRights, ep := Option.none, halfmove := 1, fullmove := 2 }

set_option maxRecDepth 1000000 in
theorem q_legal : LegalPos qRoot = true ∧ LegalPos qS1 = true ∧ LegalPos qS2 = true := by
  refine ⟨by decide +kernel, by decide +kernel, by decide +kernel⟩
theorem q_disjoint : DisjointBoard qRoot.pieces ∧ DisjointBoard qS1.pieces ∧ DisjointBoard qS2.pieces := by decide

set_option maxRecDepth 1000000 in
/-- the numbers of legal moves by the rules of chess (`Spec.legalMoves`: ray walks, no magic tables — the kernel can run
it); by C01 these are the lengths of the lists `compute_legal_moves` returns -/
theorem q_count0 : (Spec.legalMoves (abs qRoot)).length = 5 := by decide +kernel
set_option maxRecDepth 1000000 in
theorem q_count1 : (Spec.legalMoves (abs qS1)).length = 98 := by decide +kernel
set_option maxRecDepth 1000000 in
theorem q_count2 : (Spec.legalMoves (abs qS2)).length = 96 := by decide +kernel

theorem q_moves_ne : legalMoves qRoot ≠ [] ∧ legalMoves qS1 ≠ [] ∧ legalMoves qS2 ≠ [] := by
  refine ⟨fun h => ?_, fun h => ?_, fun h => ?_⟩
  · have := C01_count qRoot q_legal.1 q_disjoint.1
    rw [h, q_count0] at this; cases this
  · have := C01_count qS1 q_legal.2.1 q_disjoint.2.1
    rw [h, q_count1] at this; cases this
  · have := C01_count qS2 q_legal.2.2 q_disjoint.2.2
    rw [h, q_count2] at this; cases this

set_option maxRecDepth 1000000 in
/-- the heuristic sums of the two successors are far above `mate_in_ply(0) = 11000` … -/
theorem q_heuristic : evalHeuristic (Variation.of qS1) .white = 12922 ∧ evalHeuristic (Variation.of qS2) .white = 12882 := by
  refine ⟨by decide +kernel, by decide +kernel⟩

/-- … and `Evaluator::evaluate` now returns `±9999` for them, at every depth (before the repair: 12922 / 12882, above the
root window, which is why the search of `qRoot` reported nothing) -/
theorem q_eval (d : Nat) : evaluate qS1 .white d = some 9999 ∧ evaluate qS1 .black d = some (-9999) ∧
    evaluate qS2 .white d = some 9999 ∧ evaluate qS2 .black d = some (-9999) := by
  have e1 := C05.C05_evaluate_legal qS1 .white d q_legal.2.1 q_disjoint.2.1 q_moves_ne.2.1
  have e2 := C05.C05_evaluate_legal qS2 .white d q_legal.2.2 q_disjoint.2.2 q_moves_ne.2.2
  rw [q_heuristic.1] at e1
  rw [q_heuristic.2] at e2
  have b1 := C13.C13_neg' qS1 .white d
  have b2 := C13.C13_neg' qS2 .white d
  rw [e1] at b1
  rw [e2] at b2
  exact ⟨e1, b1, e2, b2⟩

/-- **the search of the 15-queen position now reports** and is answered by exactly one `bestmove`, on any memory satisfying
`MemOK` on the positions reachable from it, for every seed, depth limit `≥ 1`, worker counts, cancellation instant -/
theorem q_reports (art : Artifact) (hmem : MemOK (Reach (fun s => s = qRoot)) art)
    (rng0 : Rng.ChaCha8) (maxDepth : Option Nat) (fuelDepth : Nat) (hlim : 1 ≤ maxDepth.getD fuelDepth)
    (workersOf : Nat → Nat) (hw : 0 < workersOf 0) (cancelAt : Option Nat) :
    let out := iterate qRoot rng0 maxDepth art workersOf cancelAt fuelDepth
    out.panic = Option.none ∧ (∃ ev line, Event.best ev line ∈ out.events ∧ line ≠ [] ∧ LineLegal qRoot line) ∧
    ∃ t, Uci.bestmoves (Uci.writerLines out.events) = [t] ∧ Uci.LegalToken qRoot t := by
  intro out
  obtain ⟨hnp, hrep⟩ := C03_at_least_one_report_legal_root qRoot q_legal.1 q_disjoint.1 q_moves_ne.1 art hmem rng0
    maxDepth fuelDepth hlim workersOf hw cancelAt
  obtain ⟨_, t, h1, _, h3⟩ := Uci.C07_writer_exactly_one_unconditional
    (Region.reach (fun s => s = qRoot) (fun s h => by subst h; exact ⟨q_legal.1, q_disjoint.1⟩)) qRoot
    (Reach.root qRoot rfl) q_moves_ne.1 art hmem rng0 maxDepth fuelDepth hlim workersOf hw cancelAt
  exact ⟨hnp, hrep, t, h1, h3⟩

/-- the second F10 position (43 knights, `knRoot` of `Wee/Props/C03Report.lean`): successors evaluate to 9999
(`kn_eval1 … kn_eval3`, kernel-run of the model's evaluator and move generator) and the search reports
(`C03_report_overmaterial_repaired`); the same through the theorem for legal roots -/
example (art : Artifact) (hmem : MemOK (Reach (fun s => s = knRoot)) art) (rng0 : Rng.ChaCha8) (d : Nat) (hd : 1 ≤ d)
    (workersOf : Nat → Nat) (hw : 0 < workersOf 0) (cancelAt : Option Nat) :
    ∃ ev line, Event.best ev line ∈ (iterate knRoot rng0 (some d) art workersOf cancelAt).events ∧ line ≠ [] ∧
      LineLegal knRoot line :=
  (C03_at_least_one_report_legal_root knRoot kn_legal.1 kn_disjoint.1 kn_moves_ne art hmem rng0 (some d) 64 hd workersOf
    hw cancelAt).2

/-- the initial position — promotion potential 10400 a side, for which `EvalBelowMate` had to stay a hypothesis — is now
covered: every search of it on a memory satisfying `MemOK` reports (hypotheses of `C03_at_least_one_report_legal_root`:
legal, no stacked pieces, a legal move) -/
example : LegalPos c02Start = true ∧ DisjointBoard c02Start.pieces ∧ ¬ PotentialOK c02Start := by
  refine ⟨by decide +kernel, by decide +kernel, by decide +kernel⟩

end Wee

namespace Wee.C06
open Wee Wee.Search Wee.Outcome
open Wee.C10 (DisjointBoard)

/-- **`C06_complete_one_worker_all` instantiated** on `compRoot` / `compKeys` of `Wee/Props/C06Complete.lean` (all its
hypotheses hold there: `compRoot_hyps`; the `TreeBounded` component is no longer used) -/
example (nT nB : Nat) (hT : 0 < nT) (hB : 0 < nB) (rng0 : Rng.ChaCha8) (d : Nat) (hd : 1 ≤ d) :
    let out := iterate compRoot rng0 (some d) { keys := compKeys, tt := TT.Access.new nT nB, history := [] }
      (fun _ => 1) Option.none
    out.panic = Option.none ∧
    ∃ ev line, (bestReports out.events).getLast? = some (ev, line) ∧ Ev.posInf ≤ ev ∧
      ∃ r ∈ legalMoves compRoot, line.head? = some r.1 ∧ Lost r.2 :=
  C06_complete_one_worker_all compRoot 1 d compKeys nT nB rng0 64 compRoot_hyps.1 compRoot_hyps.2.1
    compRoot_hyps.2.2.2.1 compRoot_hyps.2.2.2.2.1 hT hB compRoot_hyps.2.2.2.2.2 hd

/-- **`C06_sound_fresh_all` applies to the initial position** (which `TreeBounded_of_potential` could not reach: promotion
potential 10400 a side): for every key table without harmful collision among the positions reachable from it, every
winning report of every search of the initial position from fresh memory is a true forced mate -/
example (keys : KeyTable) (hcf : CollisionFree keys.keys (Reachable c02Start)) (nT nB : Nat) (hT : 0 < nT) (hB : 0 < nB)
    (history : List UInt64) (rng0 : Rng.ChaCha8) (maxDepth : Option Nat) (workersOf : Nat → Nat) (cancelAt : Option Nat) :
    ∀ ev ∈ (iterate c02Start rng0 maxDepth { keys := keys, tt := TT.Access.new nT nB, history := history } workersOf
      cancelAt).events, ClaimTrue c02Start ev :=
  (C06_sound_fresh_all c02Start (by decide +kernel) (by decide +kernel) keys hcf nT nB hT hB history rng0 maxDepth
    workersOf cancelAt 64).1

/-- the static-evaluation lemmas on an over-material position: the 15-queen successor `qS1` (White to move, heuristic sum
12922) has a non-terminal static value, so `C06_static_ok_all` never misreads it as a mate -/
example (d : Nat) : evaluate qS1 qS1.turn d = some 9999 ∧ Ev.isTerminal 9999 = false :=
  ⟨(q_eval d).1, by decide⟩

end Wee.C06
