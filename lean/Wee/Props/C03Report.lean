import Wee.Proofs.ReportAlways
import Wee.Props.C03
import Wee.Props.C04
import Wee.Props.C05Closed
import Wee.Props.C07Compose
/-!
# C03 part D / C07 "exactly one": at least one report for ANY incoming search memory and any number of workers (S1)

Rust: `weechess-engine/src/searcher.rs` (`analyze_iterative`: the loop `for depth in 0..max_depth`, the workers
`thread_data.into_par_iter()`, `search_depth = depth.saturating_sub(i % 2) + 1`, `iter_moves`, `if line.is_empty()
{ continue; }`; `analyze_recursive`: the table probe, the move loop, the two `insert`s), `weechess-engine/src/uci.rs`
(`Search::spawn`, the writer closure).
Model: `Wee/Model/Search.lean`.  Lemmas: `Wee/Proofs/ReportAlways.lean`.

Until now "at least one `BestMove` report before the search ends" was a theorem only for FRESH memory and ONE worker in
the first iteration (`C03_at_least_one_report_of_eval_bound`); for re-used memory or several workers it carried the
hypothesis `FirstRootEntryKept` (`C03_at_least_one_report_partial`).  This file removes that hypothesis.

**The argument.**  In the first iteration (`depth = 0`) every worker searches the root with `search_depth = 1`
(`0.saturating_sub(i % 2) + 1 = 1` for every `i`), so every child of the root has remaining depth 0 and is answered by the
repetition test, a table hit or quiescence — none of which writes.  Hence the only table writes of the first iteration are
inserts under the root's key (`C03_first_iteration_only_root_inserts`, unconditional).  Therefore
(a) if the incoming table has an entry under the root's key, it still has one afterwards (a same-key insert replaces in
    place, C15);
(b) if it has none, the worker searches the root with the full window: the first legal child returns a value strictly
    inside `(-mate0, mate0)` — static evaluations by `EvalBelowMate`, table values by the new table invariant `EvalIn`
    ("every stored evaluation lies strictly inside the root window"; true of a fresh table, kept by every search:
    `C03_search_keeps_eval_range`), the repetition draw is 0 — so alpha is raised, a best move exists and the root call ends
    with an insert under the root's key;
(c) the entry's move is legal in the root (C03 `TTInv`), so the walked line is not empty and `BestMove` is emitted;
(d) the first iteration cannot be interrupted (a worker counts at most `1 + #legal moves ≤ 4099 < 10000` nodes —
    `legalMoves_few` — and the flag is only read at multiples of 10000) and does not panic (C04).

Contents
* the memory invariant `MemOK` (fresh: `MemOK.fresh`; kept by every search: `MemOK.iterate`, under every schedule:
  `MemOK.searchS`);
* `C03_first_iteration_only_root_inserts` (sequential model) and `…_any_schedule` (every interleaving);
* `C03_first_root_entry_kept`; `C03_at_least_one_report` (= the full statement `C03_report_always_statement`);
  `C03_report_session` (every search of every history of searches on one memory reports);
  `C03_at_least_one_report_any_schedule` (every outcome of `SearchS`);
* `C07_writer_exactly_one_always`, `C07_writer_exactly_one_any_schedule` (exactly one `bestmove` line per search),
  `C07_session_exactly_one_always` (whole sessions: the number of `bestmove` lines EQUALS the number of `go` lines);
* the evaluation bound: `EvalBelowMate_all` (every set of states, since the repair of defect F10), and, from the
  development before the repair, from a condition decidable on the root (`EvalBelowMate_of_potential`,
  `C03_at_least_one_report_of_potential`);
* the former limit of the statement — defect F10 of the engine on over-material positions, FOUND by this file (the removed
  theorem `C03_no_report_overmaterial`: with static evaluations `≥ mate_in_ply(0)` a search of a legal non-terminal root
  reported nothing; replayed on the real binary) and repaired in `/repo` (the heuristic result of `Evaluator::evaluate` is
  clamped): `kn_evalBelowMate_repaired`, `C03_report_overmaterial_repaired`;
* non-vacuity examples for every theorem.

Hypotheses that remain, and why: `EvalBelowMate R` — kept in the signatures of the theorems of this file, but since the
repair of F10 it is TRUE of every `R` (`EvalBelowMate_all`), so it is no restriction any more; the theorems without it are
in `Wee/Props/Clamped.lean` (`C03_at_least_one_report_unconditional`, `C07_session_exactly_one_unconditional`, …).  Before
the repair it could not be dropped (the counterexample) and stayed a hypothesis for the initial position (potential 10400:
the best proved bound `|score| ≤ 0.95·|material| + 1450` gives 11330 there, above `mate_in_ply(0)` = 11000).
`CollisionFree` (the content of "up to 64-bit chance"); at least one worker in the first iteration (with none nothing is
searched); depth limit `≥ 1` (`go depth 0` owes no report) and, for the preservation of the memory invariant only, `≤ 10^9`
(plies below `2^31`).
-/
namespace Wee
open Wee.Search
open Wee.C10 (DisjointBoard)

/-! ## the memory invariant -/

/-- **What a search memory must satisfy** (all four are true of a fresh memory and kept by every search):
keys collision-free on the region (the content of "up to 64-bit chance"); the C03 table invariant `TInv` (shape of a
reachable table; every stored move legal in the positions of its key); `depth ≤ max_depth` in every entry (C04); and
the evaluation range `EvalIn`: every stored evaluation lies strictly inside `(-mate_in_ply(0), mate_in_ply(0))`. -/
structure MemOK (R : State → Prop) (art : Artifact) : Prop where
  cf : CollisionFree art.keys.keys R
  tinv : TInv art.keys.keys R art.tt
  depth : art.tt.All SearchCtl.DepthOK
  evals : EvalIn art.tt

/-- `MemOK` is C07's `ArtOK` plus the evaluation range -/
theorem MemOK_iff_artOK (R : State → Prop) (art : Artifact) : MemOK R art ↔ Uci.ArtOK R art ∧ EvalIn art.tt :=
  ⟨fun h => ⟨⟨h.cf, h.tinv, h.depth⟩, h.evals⟩, fun h => ⟨h.1.1, h.1.2.1, h.1.2.2, h.2⟩⟩

/-- a fresh memory of any shape, with any history, satisfies the invariant for every key table that is collision-free on
the region -/
theorem MemOK.fresh {R : State → Prop} (keys : KeyTable) (history : List UInt64) (nT nB : Nat) (hT : 0 < nT)
    (hB : 0 < nB) (hcf : CollisionFree keys.keys R) :
    MemOK R { keys := keys, tt := TT.Access.new nT nB, history := history } :=
  ⟨hcf, C03_TTInv_new keys.keys R hT hB, TT.Access.All.new _ _ _, EvalIn.new nT nB⟩

/-- the entry under the root's key, if any, carries a legal move of the root (C04's `PrioritizedOK`, from `TTInv`) -/
theorem MemOK.prioritized {R : State → Prop} {art : Artifact} (h : MemOK R art) (root : State) (hroot : R root) :
    SearchCtl.PrioritizedOK art root := fun e he => h.tinv.2 _ e he root hroot rfl

/-- **C03_search_keeps_eval_range / `MemOK.iterate`: every search hands back a memory satisfying the invariant.**
`R` a region (legal positions closed under legal moves) on which static evaluations are strictly inside the mate window
(`EvalBelowMate`), a root in it, an incoming memory satisfying `MemOK`, ANY seed, worker counts, cancellation instant, and
a depth limit of at most `10^9` iterations (so that plies stay below `2^31`, where `ply as i32` would wrap — unreachable in
practice, the tree grows exponentially).  Then the search does not panic and the artifact it hands back has the same keys
and satisfies `MemOK` again: stored evaluations are `alpha'` / `beta` of windows inside `[-mate0, mate0]`, and every value
that raises alpha or causes a cut-off is strictly inside (`searchNode_inside`). -/
theorem MemOK.iterate {R : State → Prop} (hR : Region R) (hE : EvalBelowMate R) (root : State) (hroot : R root)
    (art : Artifact) (h : MemOK R art) (rng0 : Rng.ChaCha8) (maxDepth : Option Nat) (workersOf : Nat → Nat)
    (cancelAt : Option Nat) (fuelDepth : Nat) (hlim : maxDepth.getD fuelDepth ≤ 1000000000) :
    (iterate root rng0 maxDepth art workersOf cancelAt fuelDepth).panic = Option.none ∧
    (iterate root rng0 maxDepth art workersOf cancelAt fuelDepth).artifact.keys = art.keys ∧
    MemOK R (iterate root rng0 maxDepth art workersOf cancelAt fuelDepth).artifact := by
  obtain ⟨nT, nB, hT, hB, hinv⟩ := h.tinv.1
  obtain ⟨hk, htt⟩ := C03_artifact_inv hR root hroot art h.cf h.tinv rng0 maxDepth workersOf cancelAt fuelDepth
  obtain ⟨hnp, hdep, _, _⟩ := SearchCtl.iterate_safe root rng0 maxDepth art workersOf cancelAt fuelDepth nT nB hT hB
    SearchCtl.capturesShrink (hR.good root hroot) h.depth hinv (h.prioritized root hroot)
  refine ⟨hnp, hk, ?_, ?_, hdep, ?_⟩
  · rw [hk]; exact h.cf
  · rw [hk]; exact htt
  · exact iterate_evalIn hR hE root hroot art h.cf h.tinv h.evals rng0 maxDepth workersOf cancelAt fuelDepth hlim

/-- **C03_search_keeps_eval_range** (the evaluation-range component of `MemOK.iterate`, stated alone): under `EvalBelowMate`,
with collision-free keys and an incoming table satisfying the C03 invariant and `EvalIn`, the table of the artifact handed
back satisfies `EvalIn` — for every seed, depth limit `≤ 10^9`, worker counts, cancellation instant. -/
theorem C03_search_keeps_eval_range {R : State → Prop} (hR : Region R) (hE : EvalBelowMate R) (root : State)
    (hroot : R root) (art : Artifact) (hcf : CollisionFree art.keys.keys R) (htt : TInv art.keys.keys R art.tt)
    (hin : EvalIn art.tt) (rng0 : Rng.ChaCha8) (maxDepth : Option Nat) (workersOf : Nat → Nat) (cancelAt : Option Nat)
    (fuelDepth : Nat) (hlim : maxDepth.getD fuelDepth ≤ 1000000000) :
    EvalIn (iterate root rng0 maxDepth art workersOf cancelAt fuelDepth).artifact.tt :=
  iterate_evalIn hR hE root hroot art hcf htt hin rng0 maxDepth workersOf cancelAt fuelDepth hlim

/-! ## the first iteration only writes under the root's key -/

theorem insertsAt_eq_run (tt : TT.Access) (k : Nat) (es : List TT.Entry) :
    insertsAt tt k es = TT.run tt (es.map (TT.Op.insert k)) := by
  unfold insertsAt TT.run
  rw [List.foldl_map]
  rfl

/-- **C03_first_iteration_only_root_inserts** (sequential model; unconditional).  For ANY artifact (no invariant assumed —
whatever the table holds and whatever the reads return), any root, seed, number of workers, cancellation instant, and
whatever the workers' outcomes (normal, interrupted, panic): the table after the workers of the first iteration — and
hence the table the first `iterStep` hands on — is the incoming table after a sequence of inserts ALL under the root's
key.  (`search_depth = 0.saturating_sub(i % 2) + 1 = 1` for every worker `i`; the children of the root have remaining
depth 0 and go to the repetition test, a table hit or quiescence, none of which writes.)  In particular no other key is
inserted, so nothing can displace an entry except an insert under the root's own key. -/
theorem C03_first_iteration_only_root_inserts (root : State) (rng0 : Rng.ChaCha8) (art : Artifact)
    (workersOf : Nat → Nat) (cancelAt : Option Nat) :
    (∃ ops : List TT.Op, (∀ op ∈ ops, ∃ e, op = TT.Op.insert (hash art.keys.keys root).toNat e) ∧
      (firstWorkers root rng0 art workersOf cancelAt).tt = TT.run art.tt ops) ∧
    (∃ ops : List TT.Op, (∀ op ∈ ops, ∃ e, op = TT.Op.insert (hash art.keys.keys root).toNat e) ∧
      (iterStep (iterCtx root art cancelAt) root (hash art.keys.keys root) (workersOf 0) 0 (iterInit rng0 art)).tt =
        TT.run art.tt ops) := by
  obtain ⟨es, hes⟩ := runWorkers_first_table (iterCtx root art cancelAt) root Option.none
    ((List.range (workersOf 0)).zip (drawSeeds (workersOf 0) rng0).1)
    { tt := art.tt, polls := 0, evals := [], sumNodes := 0 }
  have hops : ∀ op ∈ es.map (TT.Op.insert (hash art.keys.keys root).toNat),
      ∃ e, op = TT.Op.insert (hash art.keys.keys root).toNat e := by
    intro op hop
    obtain ⟨e, _, rfl⟩ := List.mem_map.1 hop
    exact ⟨e, rfl⟩
  have h1 : (firstWorkers root rng0 art workersOf cancelAt).tt =
      TT.run art.tt (es.map (TT.Op.insert (hash art.keys.keys root).toNat)) := by
    rw [← insertsAt_eq_run]; exact hes
  refine ⟨⟨_, hops, h1⟩, ?_⟩
  rw [SearchCtl.iterStep_tt]
  split
  · exact ⟨[], (fun _ h => nomatch h), rfl⟩
  · exact ⟨_, hops, h1⟩

/-- consequence: after the first iteration an entry under the root's key is in the table iff it was there before or one
of the workers inserted something (for a table of the shape of a reachable table) -/
theorem C03_first_iteration_root_key (root : State) (rng0 : Rng.ChaCha8) (art : Artifact) (hwf : TTWf art.tt)
    (workersOf : Nat → Nat) (cancelAt : Option Nat) :
    ∃ es : List TT.Entry,
      (firstWorkers root rng0 art workersOf cancelAt).tt = insertsAt art.tt (hash art.keys.keys root).toNat es ∧
      (((firstWorkers root rng0 art workersOf cancelAt).tt.find (hash art.keys.keys root).toNat).isSome = true ↔
        ((art.tt.find (hash art.keys.keys root).toNat).isSome = true ∨ es ≠ [])) := by
  obtain ⟨es, hes⟩ := runWorkers_first_table (iterCtx root art cancelAt) root Option.none
    ((List.range (workersOf 0)).zip (drawSeeds (workersOf 0) rng0).1)
    { tt := art.tt, polls := 0, evals := [], sumNodes := 0 }
  refine ⟨es, hes, ?_⟩
  rw [show (firstWorkers root rng0 art workersOf cancelAt).tt = _ from hes]
  exact (insertsAt_find _ es art.tt hwf).2

/-! ## at least one report -/

/-- **C03_first_root_entry_kept**: the hypothesis `FirstRootEntryKept` of `C03_at_least_one_report_partial` HOLDS for any
incoming memory satisfying `MemOK`, any number `≥ 1` of workers in the first iteration, any seed, any cancellation
instant, any history — for a root with at least one legal move in a region with `EvalBelowMate`.  (That the root has fewer
than `pollInterval - 1 = 9999` legal moves, which the earlier theorems `C07_report_any_cancel` … carried as a hypothesis, is
now a lemma: `legalMoves_few`, at most `64·64 + 2` moves in every legal position.) -/
theorem C03_first_root_entry_kept {R : State → Prop} (hR : Region R) (hE : EvalBelowMate R) (root : State)
    (hroot : R root) (hmoves : legalMoves root ≠ [])
    (art : Artifact) (hmem : MemOK R art) (rng0 : Rng.ChaCha8) (workersOf : Nat → Nat) (hw : 0 < workersOf 0)
    (cancelAt : Option Nat) : FirstRootEntryKept root rng0 art workersOf cancelAt := by
  obtain ⟨nT, nB, hT, hB, hinv⟩ := hmem.tinv.1
  exact (first_root_entry_kept_always hR hE root hroot hmoves
    (legalMoves_few root (hR.good root hroot).1 (hR.good root hroot).2) art nT nB hT hB hmem.depth hinv
    (hmem.prioritized root hroot) hmem.evals rng0 workersOf cancelAt (Or.inl hw)).1

/-- **Full statement of D, for any memory and any workers** (the strengthening of `C03_report_statement`): for every region
`R` with `EvalBelowMate`, every root of `R` with at least one legal move, every incoming artifact
satisfying `MemOK` — fresh or left by any earlier searches —, every seed, every depth limit `≥ 1` (a number, or none with
`fuelDepth ≥ 1`), every worker-count function with at least one worker in the first iteration, every cancellation
instant: the search does not panic and reports at least one `BestMove`, whose line is non-empty and legal from the root. -/
def C03_report_always_statement : Prop :=
  ∀ (R : State → Prop), Region R → EvalBelowMate R → ∀ (root : State), R root → legalMoves root ≠ [] →
  ∀ (art : Artifact), MemOK R art →
  ∀ (rng0 : Rng.ChaCha8) (maxDepth : Option Nat) (fuelDepth : Nat), 1 ≤ maxDepth.getD fuelDepth →
  ∀ (workersOf : Nat → Nat), 0 < workersOf 0 → ∀ (cancelAt : Option Nat),
    let out := iterate root rng0 maxDepth art workersOf cancelAt fuelDepth
    out.panic = Option.none ∧ ∃ ev line, Event.best ev line ∈ out.events ∧ line ≠ [] ∧ LineLegal root line

/-- **C03_at_least_one_report.**  The full statement holds: `FirstRootEntryKept` is no longer a hypothesis, the memory may be
re-used, the first iteration may have any number of workers, `Stop` may arrive at any moment, and "does not panic" is a
conclusion (C04), not a hypothesis.  What remains is the domain of the property: the root has a legal move (a terminal
root is not searched, F2), the depth limit is at least 1
(`go depth 0` owes no report), there is at least one worker, and static evaluations of the region stay strictly below
`mate_in_ply(0)` in absolute value (`EvalBelowMate`; since the repair of defect F10 this holds of every region,
`EvalBelowMate_all`, so the hypothesis is redundant: `C03_at_least_one_report_unconditional` in `Wee/Props/Clamped.lean`;
before the repair it could not be dropped — the removed counterexample `C03_no_report_overmaterial`). -/
theorem C03_at_least_one_report : C03_report_always_statement := by
  intro R hR hE root hroot hmoves art hmem rng0 maxDepth fuelDepth hlim workersOf hw cancelAt
  obtain ⟨nT, nB, hT, hB, hinv⟩ := hmem.tinv.1
  have hnp := (SearchCtl.iterate_safe root rng0 maxDepth art workersOf cancelAt fuelDepth nT nB hT hB
    SearchCtl.capturesShrink (hR.good root hroot) hmem.depth hinv (hmem.prioritized root hroot)).1
  have hkept := C03_first_root_entry_kept hR hE root hroot hmoves art hmem rng0 workersOf hw cancelAt
  have hlim' : 1 ≤ (match maxDepth with | some d => d | Option.none => fuelDepth) := by
    cases maxDepth <;> exact hlim
  exact ⟨hnp, C03_at_least_one_report_partial hR root hroot art hmem.cf hmem.tinv rng0 maxDepth workersOf cancelAt
    fuelDepth hmoves hlim' hkept⟩

/-- the first of these reports comes from the first iteration: it is already among the events of the first `iterStep` -/
theorem C03_first_iteration_reports {R : State → Prop} (hR : Region R) (hE : EvalBelowMate R) (root : State)
    (hroot : R root) (hmoves : legalMoves root ≠ [])
    (art : Artifact) (hmem : MemOK R art) (rng0 : Rng.ChaCha8) (workersOf : Nat → Nat) (hw : 0 < workersOf 0)
    (cancelAt : Option Nat) :
    ∃ ev line, Event.best ev line ∈ (iterate root rng0 (some 1) art workersOf cancelAt).events :=
  let ⟨ev, line, h, _⟩ := (C03_at_least_one_report R hR hE root hroot hmoves art hmem rng0 (some 1) 64
    (Nat.le_refl _) workersOf hw cancelAt).2
  ⟨ev, line, h⟩

/-! ## histories of searches -/

/-- run the requests one after the other, each on the artifact the previous one returned; pair each request with the
outcome of its search -/
def sessionOut : Artifact → List SearchReq → List (SearchReq × Outcome)
  | _, [] => []
  | art, q :: qs =>
    let out := iterate q.root q.rng0 q.maxDepth art q.workersOf q.cancelAt q.fuelDepth
    (q, out) :: sessionOut out.artifact qs

/-- `sessionOut` is C03's `session` with the outcomes kept -/
theorem sessionOut_session : ∀ (qs : List SearchReq) (art : Artifact),
    (sessionOut art qs).map (fun p => (p.1.root, p.2.events)) = session art qs := by
  intro qs
  induction qs with
  | nil => intro _; rfl
  | cons q qs ih => intro art; simp only [sessionOut, session, List.map_cons, ih]

/-- **C03_report_session** (the quantifier over histories).  Any number of searches of any positions of the region, with any
seeds, worker counts and cancellation instants and depth limits `≤ 10^9`, run one after the other on the memory handed on
from one to the next — starting from ANY memory satisfying `MemOK`, e.g. a fresh one.  Then for EVERY search of the
history: it does not panic; it hands back a memory satisfying `MemOK` (so the invariant holds for every history of
searches); every line it reports is non-empty and legal from its root; and if its root has a legal move,
its depth limit is at least 1 and it has at least one worker in its first iteration, it reports at least once. -/
theorem C03_report_session {R : State → Prop} (hR : Region R) (hE : EvalBelowMate R) (qs : List SearchReq) :
    ∀ (art : Artifact), MemOK R art → (∀ q ∈ qs, R q.root ∧ q.maxDepth.getD q.fuelDepth ≤ 1000000000) →
      ∀ p ∈ sessionOut art qs,
        p.2.panic = Option.none ∧ MemOK R p.2.artifact ∧
        (∀ ev line, Event.best ev line ∈ p.2.events → line ≠ [] ∧ LineLegal p.1.root line) ∧
        (legalMoves p.1.root ≠ [] →
          1 ≤ p.1.maxDepth.getD p.1.fuelDepth → 0 < p.1.workersOf 0 → ∃ ev line, Event.best ev line ∈ p.2.events) := by
  induction qs with
  | nil => intro art _ _ p hp; cases hp
  | cons q qs ih =>
    intro art hmem hqs p hp
    obtain ⟨hq, hqd⟩ := hqs q List.mem_cons_self
    obtain ⟨hnp, hk, hmem'⟩ := MemOK.iterate hR hE q.root hq art hmem q.rng0 q.maxDepth q.workersOf q.cancelAt q.fuelDepth hqd
    rcases List.mem_cons.1 hp with rfl | hp
    · refine ⟨hnp, hmem', ?_, fun hm hl hw => ?_⟩
      · exact C03_reported_lines_legal hR q.root hq art hmem.cf hmem.tinv q.rng0 q.maxDepth q.workersOf q.cancelAt
          q.fuelDepth
      · obtain ⟨_, ev, line, h, _⟩ := C03_at_least_one_report R hR hE q.root hq hm art hmem q.rng0 q.maxDepth
          q.fuelDepth hl q.workersOf hw q.cancelAt
        exact ⟨ev, line, h⟩
    · exact ih _ hmem' (fun q' hq' => hqs q' (List.mem_cons_of_mem _ hq')) p hp

end Wee

/-! ## the evaluation bound from a condition decidable on the root -/

namespace Wee
open Wee.Search
open Wee.C10 (DisjointBoard)

/-- the four possible values of `Evaluator::evaluate`, from any perspective (the heuristic sum is clamped to
`[NEG_INF + 1, POS_INF - 1]` since the repair of F10) -/
theorem evaluate_values {s : State} {p : Color} {d : Nat} {e : Eval} (h : evaluate s p d = some e) :
    e = - Ev.mateInPly d ∨ e = Ev.mateInPly d ∨ e = 0 ∨ e = clampHeuristic (evalHeuristic (Variation.of s) p) := by
  unfold evaluate at h
  cases hk : kingHasMove s with
  | none => rw [hk] at h; cases h
  | some khm =>
    rw [hk] at h
    simp only at h
    by_cases hc : (!khm || s.isCheck) = true
    · rw [if_pos hc] at h
      cases hl : legalMoves? s with
      | none => rw [hl] at h; cases h
      | some ms =>
        rw [hl] at h
        simp only at h
        by_cases h1 : (ms.isEmpty && s.isCheck) = true
        · rw [if_pos h1] at h
          cases Option.some.inj h
          split
          · exact Or.inl rfl
          · exact Or.inr (Or.inl rfl)
        · rw [if_neg h1] at h
          by_cases h2 : ms.isEmpty = true
          · rw [if_pos h2] at h; exact Or.inr (Or.inr (Or.inl (Option.some.inj h).symm))
          · rw [if_neg h2] at h; exact Or.inr (Or.inr (Or.inr (Option.some.inj h).symm))
    · rw [if_neg hc] at h; exact Or.inr (Or.inr (Or.inr (Option.some.inj h).symm))

/-- a mate score at a ply `1 ≤ d < 2^31` is at most `mate_in_ply(1) = 10900` -/
theorem mateInPly_le {d : Nat} (h1 : 1 ≤ d) (h2 : d < 2^31) : 10000 ≤ Ev.mateInPly d ∧ Ev.mateInPly d ≤ 10900 := by
  rw [C05.mateInPly_eq, C05.plyAsI32_small h2]
  constructor
  · show (10000 : Int) ≤ 10000 + _; omega
  · show (10000 : Int) + _ ≤ 10900; omega

/-- **The root condition**: each side has at most 16 men and a promotion potential
`phi = 900·pawns + 300·knights + 350·bishops + 500·rooks + 900·queens` of at most 10000 (every pawn counted as a queen).
Decidable on the position; it is inherited by every position reachable by legal moves (`C05_potential_monotone`).  It is
weaker than C06's `RootBounded` (potential below 9000).  The start position (potential 10400 a side) does not satisfy
it; a position after the exchange of, say, a knight and a pawn of each side does. -/
def PotentialOK (s : State) : Prop := (∀ c, men s c ≤ 16) ∧ (∀ c, phi s c ≤ 10000)

instance (s : State) : Decidable (PotentialOK s) := by
  unfold PotentialOK
  have : ∀ (P : Color → Prop) [∀ c, Decidable (P c)], Decidable (∀ c, P c) := fun P _ =>
    decidable_of_iff (P .white ∧ P .black) ⟨fun h c => by cases c <;> simp [h.1, h.2], fun h => ⟨h _, h _⟩⟩
  infer_instance

/-- the legal positions (no stacked pieces) that satisfy the root condition -/
def PotRegion (s : State) : Prop := LegalPos s = true ∧ DisjointBoard s.pieces ∧ PotentialOK s

/-- they form a region: closed under listed legal moves -/
theorem potRegion_region : Region PotRegion := by
  refine ⟨fun s h => ⟨h.1, h.2.1⟩, fun s h r hr => ?_⟩
  obtain ⟨hl, hd, hmen, hphi⟩ := h
  refine ⟨C02_closed s hl hd r hr, (C02_successor_invariants s hl hd r hr).1, fun c => ?_, fun c => ?_⟩
  · exact Nat.le_trans (C06.C05_potential_monotone s hl hd r hr c).2 (hmen c)
  · exact Nat.le_trans (C06.C05_potential_monotone s hl hd r hr c).1 (hphi c)

/-- the material difference is bounded by the larger potential -/
theorem materialDiff_le_potential (s : State) (c : Color) (hk : C05.OneKingEach s) (hphi : ∀ c, phi s c ≤ 10000) :
    -10000 ≤ C05.materialDiff s c ∧ C05.materialDiff s c ≤ 10000 := by
  have h1 := hphi c
  have h2 := hphi c.opp
  have k1 : pieceCount s c .king = 1 := hk c
  have k2 : pieceCount s c.opp .king = 1 := hk c.opp
  unfold C05.materialDiff
  rw [evalWorths_eq, evalWorths_eq]
  unfold phi at h1 h2
  simp only [show (Variation.of s).s = s from rfl, k1, k2]
  constructor <;> eomega

/-- **EvalBelowMate_all** (since the repair of defect F10).  For EVERY set `R` of states — no legality, no bound on the
material or on the number of men — every static evaluation at a ply `1 ≤ depth < 2^31` is strictly inside
`(-mate_in_ply(0), mate_in_ply(0)) = (-11000, 11000)`: a mate score is at most `mate_in_ply(1) = 10900`, a draw is 0, and
the heuristic score is clamped to `[-9999, 9999]` (`eval.clamp(NEG_INF + 1, POS_INF - 1)` at the end of
`Evaluator::evaluate`).  So the hypothesis `EvalBelowMate R` of the C03 part D / C07 theorems is always true. -/
theorem EvalBelowMate_all (R : State → Prop) : EvalBelowMate R := by
  intro s _ p depth v h1 h2 hev
  have hm := mateInPly_le h1 h2
  rw [M0_eq]
  rcases evaluate_values hev with h | h | h | h <;> rw [h]
  · constructor <;> eomega
  · constructor <;> eomega
  · constructor <;> eomega
  · have := clampHeuristic_range (evalHeuristic (Variation.of s) p)
    constructor <;> eomega

/-- **EvalBelowMate_of_potential.**  On the region of the legal positions with at most 16 men and a promotion potential of
at most 10000 a side, every static evaluation at a ply `1 ≤ depth < 2^31` is strictly inside
`(-mate_in_ply(0), mate_in_ply(0)) = (-11000, 11000)`.  Before the repair of F10 this needed the root condition (the
heuristic score is within `0.95·|material| + 1450 ≤ 10950`, `C05_positional_bound` + `materialDiff_le_potential`); now it is
the instance `R := PotRegion` of `EvalBelowMate_all`. -/
theorem EvalBelowMate_of_potential : EvalBelowMate PotRegion := EvalBelowMate_all _

/-- the bound for any region whose positions satisfy the root condition -/
theorem EvalBelowMate_of_potential_region {R : State → Prop} (hR : Region R) (hpot : ∀ s, R s → PotentialOK s) :
    EvalBelowMate R :=
  EvalBelowMate.mono (fun s hs => ⟨(hR.good s hs).1, (hR.good s hs).2, hpot s hs⟩) EvalBelowMate_of_potential

/-- everything reachable from a root satisfying the root condition satisfies it -/
theorem reach_potential (root : State) (hl : LegalPos root = true) (hd : DisjointBoard root.pieces)
    (hpot : PotentialOK root) : ∀ s, Reach (fun s => s = root) s → PotRegion s := by
  intro s hs
  induction hs with
  | root s h0 => subst h0; exact ⟨hl, hd, hpot⟩
  | step s r _ hr ih => exact potRegion_region.closed s ih r hr

/-- **C03_at_least_one_report_of_potential.**  `C03_at_least_one_report` with the evaluation bound discharged: for every
legal root (no stacked pieces) with at most 16 men and a promotion potential of at most 10000 a side — a condition the
kernel decides on the root alone —, with a legal move, every memory satisfying `MemOK` on the positions reachable from the
root, every seed, depth limit `≥ 1`, worker counts with at least one worker in the first iteration, and every
cancellation instant: the search does not panic and reports at least one `BestMove` with a non-empty legal line. -/
theorem C03_at_least_one_report_of_potential (root : State) (hl : LegalPos root = true) (hd : DisjointBoard root.pieces)
    (hpot : PotentialOK root) (hmoves : legalMoves root ≠ [])
    (art : Artifact) (hmem : MemOK (Reach (fun s => s = root)) art) (rng0 : Rng.ChaCha8) (maxDepth : Option Nat)
    (fuelDepth : Nat) (hlim : 1 ≤ maxDepth.getD fuelDepth) (workersOf : Nat → Nat) (hw : 0 < workersOf 0)
    (cancelAt : Option Nat) :
    let out := iterate root rng0 maxDepth art workersOf cancelAt fuelDepth
    out.panic = Option.none ∧ ∃ ev line, Event.best ev line ∈ out.events ∧ line ≠ [] ∧ LineLegal root line :=
  have hR : Region (Reach (fun s => s = root)) := Region.reach _ (fun s h => by subst h; exact ⟨hl, hd⟩)
  C03_at_least_one_report _ hR
    (EvalBelowMate_of_potential_region hR (fun s hs => (reach_potential root hl hd hpot s hs).2.2))
    root (Reach.root root rfl) hmoves art hmem rng0 maxDepth fuelDepth hlim workersOf hw cancelAt

end Wee

/-! ## every schedule of the workers (`SearchS`) -/

namespace Wee
open Wee.Search Wee.Env
open Wee.C10 (DisjointBoard)

/-- **C03_first_iteration_only_root_inserts, any schedule.**  Let the workers of the first iteration race in ANY
interleaving `H` of their atomic table operations (`Interleaving`, `Wee/Model/SearchEnv.lean`), on ANY shared table, with
any seeds and poll offsets.  Then every insert of `H` — of whichever worker, whatever it has read — goes under the root's
key.  (Each worker guarantees this in every environment: `runWorkerE_rootkey`.) -/
theorem C03_first_iteration_only_root_inserts_any_schedule (ctx : Ctx) (root : State) (tt : TT.Access)
    (seeds : List UInt64) (pollsOf : Nat → Nat) (started : List Worker)
    (hsub : started.Sublist (workersOfIteration 0 Option.none seeds pollsOf)) (H : History)
    (hI : Interleaving ctx root tt started H) :
    ∀ p ∈ H, ∀ k e, p.2 = TOp.insert k e → k = (hash ctx.keys root).toNat :=
  interleaving_guarantee (fun k _ => k = (hash ctx.keys root).toNat)
    (fun i h env _ => runWorkerE_rootkey env ctx root started[i] tt
      (mem_workersOfIteration_first (hsub.subset (List.getElem_mem h))).1) hI

/-- **C03_at_least_one_report_any_schedule.**  `C03_at_least_one_report` for EVERY outcome of `analyze_iterative` when in
every iteration the workers race in an arbitrary interleaving of their atomic table operations (`SearchS`; any poll
offsets; the sequential model `iterate` is one such outcome, `Interleave_iterate_is_schedule`): the search does not panic
and reports at least one `BestMove`, whose line is non-empty and legal from the root.  Hypotheses as there.
Proof of the new part: no worker of the first iteration panics (C04, any schedule) or is interrupted (each counts at most
`1 + #legal moves` nodes in every environment: `root1E_nodes`), so all are started and joined; all inserts go under the
root's key; if there is an insert, or the key was there before, the key is in the final table (same-key inserts replace in
place); otherwise no worker wrote anything, every worker ran as if alone, and worker 0 alone would have inserted
(`firstWorker_run`) — contradiction. -/
theorem C03_at_least_one_report_any_schedule {R : State → Prop} (hR : Region R) (hE : EvalBelowMate R) (root : State)
    (hroot : R root) (hmoves : legalMoves root ≠ [])
    (art : Artifact) (hmem : MemOK R art) (rng0 : Rng.ChaCha8) (maxDepth : Option Nat) (fuelDepth : Nat)
    (hlim : 1 ≤ maxDepth.getD fuelDepth) (workersOf : Nat → Nat) (hw : 0 < workersOf 0) (cancelAt : Option Nat)
    (out : Outcome) (hout : SearchS root rng0 maxDepth art workersOf cancelAt fuelDepth out) :
    out.panic = Option.none ∧ ∃ ev line, Event.best ev line ∈ out.events ∧ line ≠ [] ∧ LineLegal root line := by
  obtain ⟨nT, nB, hT, hB, hinv⟩ := hmem.tinv.1
  have hnp := (C04_search_any_schedule root rng0 maxDepth art workersOf cancelAt fuelDepth nT nB hT hB
    (hR.good root hroot).1 (hR.good root hroot).2 hmem.depth hinv (hmem.prioritized root hroot) out hout).1
  have hup : ∀ s, upTo (fun _ => R) (maxDepth.getD fuelDepth) s ↔ R s := upTo_const _
  have hleg := (C03_search_any_schedule hR.graded (maxDepth.getD fuelDepth) root hroot art
    (hmem.cf.congr (fun s hs => (hup s).1 hs)) (hmem.tinv.congr (fun s hs => (hup s).1 hs)) rng0 maxDepth workersOf
    cancelAt fuelDepth (Nat.le_refl _) out hout).2.2
  obtain ⟨st, hl, rfl⟩ := hout
  have key : ∀ lim, 1 ≤ lim →
      LoopS { keys := art.keys.keys, history := hash art.keys.keys root :: art.history, cancelAt := cancelAt } root
        (hash art.keys.keys root) workersOf lim 0
        { tt := art.tt, rng := rng0, events := [], nodes := 0, bestEval := Ev.negInf, bestMv := Option.none, polls := 0 } st →
      ∃ ev line, Event.best ev line ∈ st.events := by
    intro lim h1 hl'
    obtain ⟨n, rfl⟩ : ∃ n, lim = n + 1 := ⟨lim - 1, by omega⟩
    exact loopS_first_reports hR hE
      { keys := art.keys.keys, history := hash art.keys.keys root :: art.history, cancelAt := cancelAt } root hroot hmoves
      (legalMoves_few root (hR.good root hroot).1 (hR.good root hroot).2) hmem.cf nT nB hT hB (by simp) workersOf hw n
      { tt := art.tt, rng := rng0, events := [], nodes := 0, bestEval := Ev.negInf, bestMv := Option.none, polls := 0 }
      st rfl rfl
      ⟨⟨hmem.depth, hinv, hmem.prioritized root hroot⟩, hmem.evals⟩ hmem.tinv.2 hl'
  obtain ⟨ev, line, hmem'⟩ := key _ (by
    have : (legalMoves root).isEmpty = false := by
      cases h : legalMoves root with
      | nil => exact absurd h hmoves
      | cons _ _ => rfl
    rw [this]
    simp only [Bool.false_eq_true, ↓reduceIte]
    cases maxDepth <;> exact hlim) hl
  refine ⟨hnp, ev, line, ?_, ?_⟩
  · dsimp only
    split
    · exact List.mem_append_left _ hmem'
    · exact hmem'
  · refine hleg ev line ?_
    dsimp only
    split
    · exact List.mem_append_left _ hmem'
    · exact hmem'

/-- the sequential statement is the instance `out := iterate …` -/
example {R : State → Prop} (hR : Region R) (hE : EvalBelowMate R) (root : State)
    (hroot : R root) (hmoves : legalMoves root ≠ [])
    (art : Artifact) (hmem : MemOK R art) (rng0 : Rng.ChaCha8) (maxDepth : Option Nat) (fuelDepth : Nat)
    (hlim : 1 ≤ maxDepth.getD fuelDepth) (workersOf : Nat → Nat) (hw : 0 < workersOf 0) (cancelAt : Option Nat) :
    ∃ ev line, Event.best ev line ∈ (iterate root rng0 maxDepth art workersOf cancelAt fuelDepth).events :=
  let ⟨_, ev, line, h, _⟩ := C03_at_least_one_report_any_schedule hR hE root hroot hmoves art hmem rng0 maxDepth
    fuelDepth hlim workersOf hw cancelAt _ (Interleave_iterate_is_schedule root rng0 maxDepth art workersOf cancelAt fuelDepth)
  ⟨ev, line, h⟩

/-- **`MemOK.searchS`: every outcome of a search under arbitrary schedules hands back a memory satisfying the invariant**
(`MemOK.iterate` for `SearchS`): no panic (C04), same keys and `TInv` (C03), `depth ≤ max_depth` (C04), and the evaluation
range — every worker, relying on the others to store only values strictly inside the window, stores only such values
(`searchNodeE_inside`, rely/guarantee over the global history). -/
theorem MemOK.searchS {R : State → Prop} (hR : Region R) (hE : EvalBelowMate R) (root : State) (hroot : R root)
    (art : Artifact) (h : MemOK R art) (rng0 : Rng.ChaCha8) (maxDepth : Option Nat) (workersOf : Nat → Nat)
    (cancelAt : Option Nat) (fuelDepth : Nat) (hlim : maxDepth.getD fuelDepth ≤ 1000000000) (out : Outcome)
    (hout : SearchS root rng0 maxDepth art workersOf cancelAt fuelDepth out) :
    out.panic = Option.none ∧ out.artifact.keys = art.keys ∧ MemOK R out.artifact := by
  obtain ⟨nT, nB, hT, hB, hinv⟩ := h.tinv.1
  obtain ⟨hnp, hdep, _, _⟩ := C04_search_any_schedule root rng0 maxDepth art workersOf cancelAt fuelDepth nT nB hT hB
    (hR.good root hroot).1 (hR.good root hroot).2 h.depth hinv (h.prioritized root hroot) out hout
  have hup : ∀ s, upTo (fun _ => R) (maxDepth.getD fuelDepth) s ↔ R s := upTo_const _
  obtain ⟨hk, htt, _⟩ := C03_search_any_schedule hR.graded (maxDepth.getD fuelDepth) root hroot art
    (h.cf.congr (fun s hs => (hup s).1 hs)) (h.tinv.congr (fun s hs => (hup s).1 hs)) rng0 maxDepth workersOf
    cancelAt fuelDepth (Nat.le_refl _) out hout
  refine ⟨hnp, hk, ?_, ?_, hdep, ?_⟩
  · rw [hk]; exact h.cf
  · rw [hk]; exact htt.congr (fun s hs => (hup s).2 hs)
  · exact searchS_evalIn hR hE root hroot art h.cf h.tinv h.evals rng0 maxDepth workersOf cancelAt fuelDepth hlim out hout

end Wee

/-! ## C07: exactly one `bestmove` -/

namespace Wee.Uci
open Wee Wee.Search
open Wee.C10 (DisjointBoard)

/-- **C07_writer_exactly_one_always.**  For EVERY search covered by `C03_at_least_one_report` — a root with a legal move in a
region with `EvalBelowMate`, ANY incoming memory satisfying `MemOK` (fresh, or handed back by any earlier searches:
`MemOK.iterate`), any seed, any depth limit `≥ 1`, any worker counts with at least one worker in the first iteration, any
cancellation instant (`stop`, another `go`, `position`, `quit`, the timer, at any moment) — the search thread does not
panic and the writer thread prints EXACTLY ONE `bestmove` line; it is its last line, and it names a legal move of the
root whose text resolves back to exactly that move through the UCI token parser (`LegalToken`).  This removes the
restrictions "fresh memory" and "one worker in the first iteration" of `C07_writer_exactly_one_any_cancel`. -/
theorem C07_writer_exactly_one_always {R : State → Prop} (hR : Region R) (hE : EvalBelowMate R) (root : State)
    (hroot : R root) (hmoves : legalMoves root ≠ [])
    (art : Artifact) (hmem : MemOK R art) (rng0 : Rng.ChaCha8) (maxDepth : Option Nat) (fuelDepth : Nat)
    (hlim : 1 ≤ maxDepth.getD fuelDepth) (workersOf : Nat → Nat) (hw : 0 < workersOf 0) (cancelAt : Option Nat) :
    let out := iterate root rng0 maxDepth art workersOf cancelAt fuelDepth
    out.panic = Option.none ∧
    ∃ t, bestmoves (writerLines out.events) = [t] ∧ (writerLines out.events).getLast? = some (.bestmove t) ∧
      LegalToken root t := by
  intro out
  obtain ⟨hnp, ev, line, hmem', _, _⟩ := C03_at_least_one_report R hR hE root hroot hmoves art hmem rng0 maxDepth
    fuelDepth hlim workersOf hw cancelAt
  have hrep : ReportsLegal root out.events :=
    iterate_reportsLegal hR root hroot art hmem.cf hmem.tinv rng0 maxDepth workersOf cancelAt fuelDepth
  have hwr := writer_of_reportsLegal root (hR.good root hroot).1 (hR.good root hroot).2 out.events hrep
  have hone : (bestmoves (writerLines out.events)).length = 1 := by
    rw [bestmoves_length]; exact hwr.2.2.2 ⟨ev, line, hmem'⟩
  refine ⟨hnp, ?_⟩
  match hb : bestmoves (writerLines out.events), hone with
  | [t], _ =>
    have ht : WLine.bestmove t ∈ writerLines out.events := mem_bestmoves.1 (by rw [hb]; exact List.mem_singleton.2 rfl)
    exact ⟨t, rfl, bestmove_is_last _ t ht, hwr.1 t ht⟩

/-- **C07_writer_exactly_one_any_schedule.**  The same for EVERY outcome `out` of the search when the workers of every
iteration race in an arbitrary interleaving of their atomic table operations (`SearchS`): no panic, exactly one `bestmove`,
printed last, naming a legal move of the root. -/
theorem C07_writer_exactly_one_any_schedule {R : State → Prop} (hR : Region R) (hE : EvalBelowMate R) (root : State)
    (hroot : R root) (hmoves : legalMoves root ≠ [])
    (art : Artifact) (hmem : MemOK R art) (rng0 : Rng.ChaCha8) (maxDepth : Option Nat) (fuelDepth : Nat)
    (hlim : 1 ≤ maxDepth.getD fuelDepth) (workersOf : Nat → Nat) (hw : 0 < workersOf 0) (cancelAt : Option Nat)
    (out : Outcome) (hout : SearchS root rng0 maxDepth art workersOf cancelAt fuelDepth out) :
    out.panic = Option.none ∧
    ∃ t, bestmoves (writerLines out.events) = [t] ∧ (writerLines out.events).getLast? = some (.bestmove t) ∧
      LegalToken root t := by
  obtain ⟨hnp, ev, line, hmem', _, _⟩ := C03_at_least_one_report_any_schedule hR hE root hroot hmoves art hmem rng0
    maxDepth fuelDepth hlim workersOf hw cancelAt out hout
  have hup : ∀ s, upTo (fun _ => R) (maxDepth.getD fuelDepth) s ↔ R s := upTo_const _
  have hrep : ReportsLegal root out.events :=
    searchS_reportsLegal hR.graded (maxDepth.getD fuelDepth) root hroot art (hmem.cf.congr (fun s hs => (hup s).1 hs))
      (hmem.tinv.congr (fun s hs => (hup s).1 hs)) rng0 maxDepth workersOf cancelAt fuelDepth (Nat.le_refl _) out hout
  have hwr := writer_of_reportsLegal root (hR.good root hroot).1 (hR.good root hroot).2 out.events hrep
  have hone : (bestmoves (writerLines out.events)).length = 1 := by
    rw [bestmoves_length]; exact hwr.2.2.2 ⟨ev, line, hmem'⟩
  refine ⟨hnp, ?_⟩
  match hb : bestmoves (writerLines out.events), hone with
  | [t], _ =>
    have ht : WLine.bestmove t ∈ writerLines out.events := mem_bestmoves.1 (by rw [hb]; exact List.mem_singleton.2 rfl)
    exact ⟨t, rfl, bestmove_is_last _ t ht, hwr.1 t ht⟩

/-! ### whole sessions: exactly one `bestmove` per `go` -/

/-- the answers of a session in which every search has at least one worker in its first iteration and a depth limit between
1 and `10^9` (`go depth 0` owes no `bestmove`): a search answer is `writerLines out.events` for ANY outcome `out` of
`analyze_iterative` under ANY schedule of its workers (`SearchS`), any seed, cancellation instant, on the incoming memory
or — if there is none — on any memory satisfying `Fresh`; a book answer as in `sessionSpec`. -/
def sessionSpecW (Fresh : Artifact → Prop) (K : Keys) (tbl : Book.Table) : Answers Artifact where
  search mem p d ws m :=
    ∃ (art : Artifact) (rng0 : Rng.ChaCha8) (workersOf : Nat → Nat) (cancelAt : Option Nat) (fuelDepth : Nat)
      (out : Outcome),
      (match mem with | some a => art = a | Option.none => Fresh art) ∧
      0 < workersOf 0 ∧ 1 ≤ d.getD fuelDepth ∧ d.getD fuelDepth ≤ 1000000000 ∧
      SearchS p rng0 d art workersOf cancelAt fuelDepth out ∧ ws = writerLines out.events ∧ m = out.artifact
  book p ws := (sessionSpec Fresh K tbl).book p ws

/-- such a transcript is in particular a transcript of the specification `sessionSpec` of `C07_session_bestmoves` -/
theorem sessionSpecW_weaken (Fresh : Artifact → Prop) (K : Keys) (tbl : Book.Table) {last pend outs t last' pend'}
    (h : Transcript (sessionSpecW Fresh K tbl) last pend outs t last' pend') :
    Transcript (sessionSpec Fresh K tbl) last pend outs t last' pend' :=
  (Transcript.strengthen (A := sessionSpecW Fresh K tbl) (A' := sessionSpec Fresh K tbl) (fun _ => True) (fun _ => True)
    (fun _ _ _ _ _ _ _ ⟨art, rng0, workersOf, cancelAt, fuelDepth, out, h1, _, _, _, h5, h6, h7⟩ =>
      ⟨⟨art, rng0, workersOf, cancelAt, fuelDepth, out, h1, h5, trivial, h6, h7⟩, trivial⟩)
    (fun _ _ _ hb => hb) h (fun _ _ _ _ => trivial) (fun _ _ => trivial) (fun _ _ _ _ => trivial)).1

/-- `sessionSpecW` with the fact recorded that every search answer carries exactly one `bestmove` -/
def sessionProvedW (Fresh : Artifact → Prop) (K : Keys) (tbl : Book.Table) : Answers Artifact where
  search mem p d ws m := (sessionSpecW Fresh K tbl).search mem p d ws m ∧ (bestmoves ws).length = 1
  book := (sessionSpecW Fresh K tbl).book

/-- **C07_session_exactly_one_always.**  A whole session of the command loop at the model level, from a state without
running search and without stored artifact, reading ANY list of lines; the book predicate is `lookup(p).is_some()`.  `R` a
region with `EvalBelowMate`; memories built when none is handed over satisfy `MemOK R`; every `go` is issued in a position
of `R` that has a legal move.  `t` is ANY transcript for the tagged marks: every search replaced by the
writer lines of any outcome of `analyze_iterative` — any schedule of the workers, any seed, any cancellation instant, at
least one worker in the first iteration, depth limit between 1 and `10^9`; the memory handed on from search to search as
the loop does (so every search but the first of a game runs on RE-USED memory) —, every book mark by a book answer.  Then
**the number of `bestmove` lines EQUALS the number of `go` lines read**: every `go` is answered exactly once; the memory left
at the end satisfies `MemOK R` again. -/
theorem C07_session_exactly_one_always {R : State → Prop} (hR : Region R) (hE : EvalBelowMate R)
    (Fresh : Artifact → Prop) (hfresh : ∀ a, Fresh a → MemOK R a) (K : Keys) (tbl : Book.Table)
    (s : Sess) (lines : List String) (s' : Sess) (touts : List (Out × State))
    (hrun : runT (fun p => (Book.lookup K tbl p).isSome) s lines = some (s', touts))
    (hpos : ∀ o p, (o, p) ∈ touts → o.isStart = true →
      R p ∧ legalMoves p ≠ [])
    (t : List (WLine × State)) (last' : Option Artifact)
    (htr : Transcript (sessionSpecW Fresh K tbl) Option.none Option.none touts t last' Option.none) :
    Transcript.nbest t = (processed lines).countP isGo ∧ (∀ m0, last' = some m0 → MemOK R m0) := by
  have hstr := Transcript.strengthen (A := sessionSpecW Fresh K tbl) (A' := sessionProvedW Fresh K tbl)
    (fun p => R p ∧ legalMoves p ≠ []) (MemOK R)
    (by
      rintro mem p d ws m ⟨hp, hm⟩ hmem ⟨art, rng0, workersOf, cancelAt, fuelDepth, out, hart, hw, hd1, hd2, hout, rfl, rfl⟩
      have ha : MemOK R art := by
        cases mem with
        | none => exact hfresh art hart
        | some a =>
          have e : art = a := hart
          rw [e]; exact hmem a rfl
      obtain ⟨_, t', hb, _, _⟩ := C07_writer_exactly_one_any_schedule hR hE p hp hm art ha rng0 d fuelDepth hd1
        workersOf hw cancelAt out hout
      exact ⟨⟨⟨art, rng0, workersOf, cancelAt, fuelDepth, out, hart, hw, hd1, hd2, hout, rfl, rfl⟩, by rw [hb]; rfl⟩,
        (MemOK.searchS hR hE p hp art ha rng0 d workersOf cancelAt fuelDepth hd2 out hout).2.2⟩)
    (fun _ _ _ hb => hb) htr hpos (fun _ e => nomatch e) (fun _ _ _ e => nomatch e)
  refine ⟨?_, hstr.2.1⟩
  exact C07_session_exactly_one (A := sessionProvedW Fresh K tbl) (fun mem p d ws m h => h.2)
    (by
      rintro p ws ⟨ms, order, i, hi, _, _, _, rfl⟩
      rfl)
    _ s lines s' touts hrun t Option.none last' hstr.1

end Wee.Uci

/-! ## the former limit of the statement: defect F10 (over-material positions), found here and repaired

`7k/6pp/NNNNN3/NNNNNNNN/NNNNNNNN/NNNNNNNN/NNNNNNNN/K1NNNNNN b - - 0 1`: Black (king h8, pawns g7 h7) to move against a king
and 43 knights.  The position is legal (`LegalPos`: one king a side, the side not to move not in check, no pawn on the
back ranks; `LegalPos` does not bound the number of men) and Black has three legal moves (g6, h6, Kg8).  After each of them
the HEURISTIC SUM from White's side is 12446 / 12434 / 12421 `≥ mate_in_ply(0) = 11000` (`kn_heuristic`).

**Before the repair** (`/repo` up to commit 1b229f7^) that sum was the static evaluation.  Every child of the root returned a
value `≥ mate0`, `-value ≤ -mate0 = alpha` never raised alpha, no best move existed, nothing was stored, the walked line was
empty and — since the repair of F2 turned the `assert!` into `continue` — the iteration reported nothing.  This file then
contained the kernel-checked theorems `kn_not_evalBelowMate` (`EvalBelowMate` fails on every region containing `knRoot`) and
`C03_no_report_overmaterial` (depth limit 1, fresh memory, any seed / workers / cancellation: NO `BestMove`, so no
`bestmove` line), and the run was replayed on the real engine (`position fen …`, `go depth 3`: `info … depth 1 … nodes 4`,
`depth 2 … nodes 11`, `depth 3 … nodes 26` — the model's node counts — and NO `bestmove`; the same for the queen position
`6nk/6pp/8/8/8/8/QQQQQQQQ/KQQQQQQQ b - - 0 1`, nodes 6, 22, 49).  A `go` that is never answered violates C07.  Defect F10.

**The repair** (commit 1b229f7, `weechess-engine/src/eval/mod.rs`): the heuristic result of `Evaluator::evaluate` is clamped,
`eval.clamp(Evaluation(NEG_INF.0 + 1), Evaluation(POS_INF.0 - 1))`; model: `clampHeuristic` in `Wee/Model/Eval.lean`.
Both theorems about the old model are now FALSE and were removed; in their place: the three successors evaluate to 9999
(`kn_eval1 … kn_eval3`), `EvalBelowMate` holds on every region (`EvalBelowMate_all`; `kn_evalBelowMate_repaired`), and the
search of `knRoot` reports and answers with exactly one `bestmove` (`C03_report_overmaterial_repaired`). -/

namespace Wee
open Wee.Search
open Wee.C10 (DisjointBoard)

/-- `7k/6pp/NNNNN3/NNNNNNNN/NNNNNNNN/NNNNNNNN/NNNNNNNN/K1NNNNNN b - - 0 1` -/
def knRoot : State :=
  { pieces := { wn := 35184372088828, wk := 1, bp := 54043195528445952, bk := 9223372036854775808 },
    turn := .black, castleW := .noRights, castleB := .noRights, ep := Option.none, halfmove := 0, fullmove := 1 }
/-- after g7-g6 -/
def knS1 : State :=
  { pieces := { wn := 35184372088828, wk := 1, bp := 36099165763141632, bk := 9223372036854775808 },
    turn := .white, castleW := .noRights, castleB := .noRights, ep := Option.none, halfmove := 0, fullmove := 2 }
/-- after h7-h6 -/
def knS2 : State :=
  { pieces := { wn := 35184372088828, wk := 1, bp := 18155135997837312, bk := 9223372036854775808 },
    turn := .white, castleW := .noRights, castleB := .noRights, ep := Option.none, halfmove := 0, fullmove := 2 }
/-- after Kh8-g8 -/
def knS3 : State :=
  { pieces := { wn := 35184372088828, wk := 1, bp := 54043195528445952, bk := 4611686018427387904 },
    turn := .white, castleW := .noRights, castleB := .noRights, ep := Option.none, halfmove := 1, fullmove := 2 }

set_option maxRecDepth 1000000 in
theorem kn_legal : LegalPos knRoot = true ∧ LegalPos knS1 = true ∧ LegalPos knS2 = true ∧ LegalPos knS3 = true := by
  decide +kernel
theorem kn_disjoint : DisjointBoard knRoot.pieces ∧ DisjointBoard knS1.pieces ∧ DisjointBoard knS2.pieces ∧
    DisjointBoard knS3.pieces := by decide
set_option maxRecDepth 1000000 in
theorem kn_check : knRoot.isCheck = false := by decide +kernel
set_option maxRecDepth 1000000 in
theorem kn_moves : legalMoves? knRoot = some [(47969, knS1), (49009, knS2), (64502, knS3)] := by decide +kernel

set_option maxRecDepth 1000000 in
/-- the heuristic sums of the three successors are still far above `mate_in_ply(0) = 11000` (these were the values of
`evaluate` before the repair) … -/
theorem kn_heuristic : evalHeuristic (Variation.of knS1) .white = 12446 ∧
    evalHeuristic (Variation.of knS2) .white = 12434 ∧ evalHeuristic (Variation.of knS3) .white = 12421 := by
  refine ⟨by decide +kernel, by decide +kernel, by decide +kernel⟩

set_option maxRecDepth 1000000 in
/-- … but `Evaluator::evaluate` now returns `POS_INF - 1 = 9999` for each of them (and `-9999` from Black's side) -/
theorem kn_eval1 : evaluate knS1 .white 1 = some 9999 := by decide +kernel
set_option maxRecDepth 1000000 in
theorem kn_eval2 : evaluate knS2 .white 1 = some 9999 := by decide +kernel
set_option maxRecDepth 1000000 in
theorem kn_eval3 : evaluate knS3 .white 1 = some 9999 := by decide +kernel
set_option maxRecDepth 1000000 in
theorem kn_eval_black : evaluate knS1 .black 1 = some (-9999) ∧ evaluate knS2 .black 1 = some (-9999) ∧
    evaluate knS3 .black 1 = some (-9999) := by
  refine ⟨by decide +kernel, by decide +kernel, by decide +kernel⟩

theorem kn_moves_ne : legalMoves knRoot ≠ [] := by
  unfold legalMoves; rw [kn_moves]; exact List.cons_ne_nil _ _

/-- the positions reachable from `knRoot` form a region -/
theorem kn_region : Region (Reach (fun s => s = knRoot)) :=
  Region.reach _ (fun s h => by subst h; exact ⟨kn_legal.1, kn_disjoint.1⟩)

/-- **kn_evalBelowMate_repaired** (replaces `kn_not_evalBelowMate`, which stated the opposite of the first conjunct for
the model before the repair of F10).  The hypothesis `EvalBelowMate` now HOLDS on everything reachable from `knRoot` (as on
every set of states: `EvalBelowMate_all`), and concretely the three successor evaluations are strictly inside the root
window `(-11000, 11000)`. -/
theorem kn_evalBelowMate_repaired : EvalBelowMate (Reach (fun s => s = knRoot)) ∧
    ∀ s, s = knS1 ∨ s = knS2 ∨ s = knS3 → ∃ v, evaluate s .white 1 = some v ∧ -M0 < v ∧ v < M0 := by
  refine ⟨EvalBelowMate_all _, fun s hs => ⟨9999, ?_, by rw [M0_eq]; decide, by rw [M0_eq]; decide⟩⟩
  rcases hs with rfl | rfl | rfl
  · exact kn_eval1
  · exact kn_eval2
  · exact kn_eval3

/-- **C03_report_overmaterial_repaired** (replaces `C03_no_report_overmaterial`, which proved — for the model before the
repair of F10 — that the search of this position emits NO `BestMove`).  The legal, non-terminal over-material position
`knRoot`, searched on ANY memory satisfying `MemOK` on the positions reachable from it (e.g. fresh memory of any shape with
collision-free keys: `MemOK.fresh`), with any seed, any depth limit `≥ 1`, any worker counts with at least one worker in the
first iteration, any cancellation instant: the search does not panic, reports at least one `BestMove` with a non-empty
legal line, and the writer prints EXACTLY ONE `bestmove` line, naming a legal move of the root. -/
theorem C03_report_overmaterial_repaired (art : Artifact) (hmem : MemOK (Reach (fun s => s = knRoot)) art)
    (rng0 : Rng.ChaCha8) (maxDepth : Option Nat) (fuelDepth : Nat) (hlim : 1 ≤ maxDepth.getD fuelDepth)
    (workersOf : Nat → Nat) (hw : 0 < workersOf 0) (cancelAt : Option Nat) :
    let out := iterate knRoot rng0 maxDepth art workersOf cancelAt fuelDepth
    LegalPos knRoot = true ∧ legalMoves knRoot ≠ [] ∧ out.panic = Option.none ∧
    (∃ ev line, Event.best ev line ∈ out.events ∧ line ≠ [] ∧ LineLegal knRoot line) ∧
    ∃ t, Uci.bestmoves (Uci.writerLines out.events) = [t] ∧ Uci.LegalToken knRoot t := by
  intro out
  obtain ⟨hnp, hrep⟩ := C03_at_least_one_report _ kn_region (EvalBelowMate_all _) knRoot (Reach.root knRoot rfl)
    kn_moves_ne art hmem rng0 maxDepth fuelDepth hlim workersOf hw cancelAt
  obtain ⟨_, t, h1, _, h3⟩ := Uci.C07_writer_exactly_one_always kn_region (EvalBelowMate_all _) knRoot
    (Reach.root knRoot rfl) kn_moves_ne art hmem rng0 maxDepth fuelDepth hlim workersOf hw cancelAt
  exact ⟨kn_legal.1, kn_moves_ne, hnp, hrep, t, h1, h3⟩

/-- on fresh memory of any shape, with any game history and any key table that is collision-free on the reachable positions -/
example (keys : KeyTable) (hcf : CollisionFree keys.keys (Reach (fun s => s = knRoot))) (history : List UInt64)
    (nT nB : Nat) (hT : 0 < nT) (hB : 0 < nB) (rng0 : Rng.ChaCha8) (workersOf : Nat → Nat) (hw : 0 < workersOf 0)
    (cancelAt : Option Nat) :
    ∃ ev line, Event.best ev line ∈ (iterate knRoot rng0 (some 1)
      { keys := keys, tt := TT.Access.new nT nB, history := history } workersOf cancelAt 64).events :=
  let ⟨_, _, _, ⟨ev, line, h, _⟩, _⟩ := C03_report_overmaterial_repaired _
    (MemOK.fresh keys history nT nB hT hB hcf) rng0 (some 1) 64 (Nat.le_refl _) workersOf hw cancelAt
  ⟨ev, line, h⟩

end Wee

/-! ## non-vacuity

The example of `Wee/Props/C03.lean`: `c03Root` = `k7/p7/P1P5/8/8/6p1/6Pp/7K w - - 0 1` (White's only legal move c6-c7
stalemates Black), region `c03R` = {root, successor}, toy key table `c03KeyTable` (root ↦ 0, successor ↦ 1),
`c03_evalBelowMate : EvalBelowMate c03R` (kernel evaluation of the evaluator).  Here with a memory that is NOT fresh, several
workers, a cancellation that is visible from the first poll, and a history of two searches.  All kernel-checked. -/

namespace Wee
open Wee.Search
open Wee.C10 (DisjointBoard)

/-- a re-used memory: the table already holds the root's entry (as an earlier search stored it) -/
def c03ArtUsed : Artifact := { keys := c03KeyTable, tt := c03Table, history := [hash c03KeyTable.keys c03Succ] }

theorem inside_zero : Inside 0 := ⟨by decide, by decide⟩

/-- `MemOK` holds of it: the four components discharged -/
theorem c03_memOK_used : MemOK c03R c03ArtUsed :=
  ⟨c03_collisionFree, c03_table_inv,
   TT.Access.All.insert (TT.Access.All.new _ _ _) _ _ (show (0 : Nat) ≤ 1 by decide),
   EvalIn.insert (EvalIn.new 2 4) _ _ inside_zero⟩

theorem c03_moves_ne : legalMoves c03Root ≠ [] := by rw [c03_moves_root]; exact List.cons_ne_nil _ _

/-- **`C03_at_least_one_report` instantiated** on a re-used memory: for every seed, every depth limit `≥ 1` (or none), every
worker-count function with at least one worker in the first iteration — e.g. 32 —, every cancellation instant — e.g.
`some 0`: cancelled before the first poll — the search does not panic and reports a non-empty legal line -/
example (rng0 : Rng.ChaCha8) (maxDepth : Option Nat) (fuelDepth : Nat) (hlim : 1 ≤ maxDepth.getD fuelDepth)
    (workersOf : Nat → Nat) (hw : 0 < workersOf 0) (cancelAt : Option Nat) :
    let out := iterate c03Root rng0 maxDepth c03ArtUsed workersOf cancelAt fuelDepth
    out.panic = Option.none ∧ ∃ ev line, Event.best ev line ∈ out.events ∧ line ≠ [] ∧ LineLegal c03Root line :=
  C03_at_least_one_report c03R c03_region c03_evalBelowMate c03Root (Or.inl rfl) c03_moves_ne c03ArtUsed
    c03_memOK_used rng0 maxDepth fuelDepth hlim workersOf hw cancelAt

example : (0 : Nat) < (fun d => if d = 0 then 32 else 1) 0 := by decide

/-- the same on fresh memory of any shape with any history (`MemOK.fresh`) and three workers -/
example (rng0 : Rng.ChaCha8) (d : Nat) (hd : 1 ≤ d) (history : List UInt64) (nT nB : Nat) (hT : 0 < nT) (hB : 0 < nB)
    (cancelAt : Option Nat) :
    ∃ ev line, Event.best ev line ∈ (iterate c03Root rng0 (some d)
      { keys := c03KeyTable, tt := TT.Access.new nT nB, history := history } (fun _ => 3) cancelAt).events :=
  let ⟨_, ev, line, h, _⟩ := C03_at_least_one_report c03R c03_region c03_evalBelowMate c03Root (Or.inl rfl) c03_moves_ne
    _ (MemOK.fresh c03KeyTable history nT nB hT hB c03_collisionFree) rng0 (some d) 64 hd (fun _ => 3)
    (by decide) cancelAt
  ⟨ev, line, h⟩

/-- the memory a search hands back satisfies `MemOK` again (`MemOK.iterate` instantiated) -/
example (rng0 : Rng.ChaCha8) (workersOf : Nat → Nat) (cancelAt : Option Nat) :
    MemOK c03R (iterate c03Root rng0 (some 5) c03ArtUsed workersOf cancelAt).artifact :=
  (MemOK.iterate c03_region c03_evalBelowMate c03Root (Or.inl rfl) c03ArtUsed c03_memOK_used rng0 (some 5) workersOf
    cancelAt 64 (by decide)).2.2

/-- **`C03_report_session` instantiated**: three searches of the example position on one memory — depth 3 with one worker;
no depth limit with `d + 2` workers in iteration `d`, stopped at once; depth 1 with 4 workers on a search that is stopped
at its first poll.  Every one of them reports, none panics, each hands back a memory satisfying `MemOK`. -/
example : ∀ p ∈ sessionOut c03Art
      [{ root := c03Root, rng0 := Rng.seedFromU64 1, maxDepth := some 3, workersOf := fun _ => 1, cancelAt := Option.none, fuelDepth := 64 },
       { root := c03Root, rng0 := Rng.seedFromU64 2, maxDepth := Option.none, workersOf := fun d => d + 2, cancelAt := some 0, fuelDepth := 5 },
       { root := c03Root, rng0 := Rng.seedFromU64 3, maxDepth := some 1, workersOf := fun _ => 4, cancelAt := some 1, fuelDepth := 64 }],
    p.2.panic = Option.none ∧ MemOK c03R p.2.artifact ∧ ∃ ev line, Event.best ev line ∈ p.2.events := by
  intro p hp
  have hall := C03_report_session c03_region c03_evalBelowMate _ c03Art
    (MemOK.fresh c03KeyTable [] 2 4 (by decide) (by decide) c03_collisionFree)
    (by intro q hq
        simp only [List.mem_cons, List.not_mem_nil, or_false] at hq
        rcases hq with rfl | rfl | rfl <;> exact ⟨Or.inl rfl, by decide⟩) p hp
  obtain ⟨h1, h2, _, h4⟩ := hall
  refine ⟨h1, h2, ?_⟩
  simp only [sessionOut, List.mem_cons, List.not_mem_nil, or_false] at hp
  rcases hp with rfl | rfl | rfl <;>
    exact h4 c03_moves_ne (by decide) (by decide)

/-- **`C03_first_iteration_only_root_inserts` instantiated** (it has no hypotheses): whatever the memory -/
example (art : Artifact) (rng0 : Rng.ChaCha8) (workersOf : Nat → Nat) (cancelAt : Option Nat) :
    ∃ ops : List TT.Op, (∀ op ∈ ops, ∃ e, op = TT.Op.insert (hash art.keys.keys c03Root).toNat e) ∧
      (firstWorkers c03Root rng0 art workersOf cancelAt).tt = TT.run art.tt ops :=
  (C03_first_iteration_only_root_inserts c03Root rng0 art workersOf cancelAt).1

/-- **any schedule, instantiated**: EVERY outcome of the search of the example with two racing workers in every iteration on
the fresh memory `ilArt` reports (one such outcome, under a schedule that is not sequential, is `InterleaveExample.il_searchS`) -/
example (rng0 : Rng.ChaCha8) (d : Nat) (hd : 1 ≤ d) (cancelAt : Option Nat) (out : Outcome)
    (hout : SearchS c03Root rng0 (some d) InterleaveExample.ilArt (fun _ => 2) cancelAt 64 out) :
    out.panic = Option.none ∧ ∃ ev line, Event.best ev line ∈ out.events ∧ line ≠ [] ∧ LineLegal c03Root line :=
  C03_at_least_one_report_any_schedule c03_region c03_evalBelowMate c03Root (Or.inl rfl) c03_moves_ne
    InterleaveExample.ilArt (MemOK.fresh c03KeyTable [] 2 4 (by decide) (by decide) c03_collisionFree) rng0 (some d) 64 hd
    (fun _ => 2) (by decide) cancelAt out hout

/-! ### the evaluation bound from the root condition -/

set_option maxRecDepth 1000000 in
/-- the example root satisfies the root condition (three pawns a side: potential 2700) … -/
theorem c03_potential : PotentialOK c03Root := by decide +kernel

/-- … every root satisfying C06's `RootBounded` does … -/
theorem PotentialOK_of_rootBounded {s : State} (h : C06.RootBounded s) : PotentialOK s :=
  ⟨h.1, fun c => Nat.le_of_lt (Nat.lt_of_lt_of_le (h.2 c) (by decide))⟩

set_option maxRecDepth 1000000 in
/-- … but the start position does not (potential 10400 a side: nine queens are reachable): for it `EvalBelowMate` stays an
explicit hypothesis -/
example : ¬ PotentialOK c02Start := by decide +kernel

theorem c03_reach_sub : ∀ s, Reach (fun s => s = c03Root) s → c03R s := by
  intro s h
  induction h with
  | root s h0 => exact Or.inl h0
  | step s r _ hr ih =>
    rcases ih with rfl | rfl
    · rw [c03_moves_root, List.mem_singleton] at hr; subst hr; exact Or.inr rfl
    · rw [c03_moves_succ] at hr; cases hr

/-- `C03_at_least_one_report_of_potential` instantiated: no evaluation hypothesis left -/
example (rng0 : Rng.ChaCha8) (d : Nat) (hd : 1 ≤ d) (workersOf : Nat → Nat) (hw : 0 < workersOf 0) (cancelAt : Option Nat) :
    let out := iterate c03Root rng0 (some d) c03ArtUsed workersOf cancelAt 64
    out.panic = Option.none ∧ ∃ ev line, Event.best ev line ∈ out.events ∧ line ≠ [] ∧ LineLegal c03Root line :=
  C03_at_least_one_report_of_potential c03Root c03_legal_root (by decide) c03_potential c03_moves_ne
    c03ArtUsed
    ⟨c03_memOK_used.cf.congr c03_reach_sub, c03_memOK_used.tinv.congr c03_reach_sub, c03_memOK_used.depth,
     c03_memOK_used.evals⟩ rng0 (some d) 64 hd workersOf hw cancelAt

end Wee

namespace Wee.Uci
open Wee Wee.Search

/-- **`C07_writer_exactly_one_always` instantiated**: on the re-used memory, with 8 workers in the first iteration and
whenever `Stop` arrives, the writer prints exactly `bestmove c6c7`, as its last line -/
example (rng0 : Rng.ChaCha8) (d : Nat) (hd : 1 ≤ d) (cancelAt : Option Nat) :
    let out := iterate c03Root rng0 (some d) c03ArtUsed (fun _ => 8) cancelAt 64
    out.panic = Option.none ∧ bestmoves (writerLines out.events) = ["c6c7"] ∧
      (writerLines out.events).getLast? = some (.bestmove "c6c7") := by
  intro out
  obtain ⟨hnp, t, h1, h2, h3⟩ := C07_writer_exactly_one_always c03_region c03_evalBelowMate c03Root (Or.inl rfl)
    c03_moves_ne c03ArtUsed c03_memOK_used rng0 (some d) 64 hd (fun _ => 8) (by decide) cancelAt
  have := c03_legalToken t h3
  subst this
  exact ⟨hnp, h1, h2⟩

/-- **`C07_session_exactly_one_always` instantiated** on the session of `Wee/Props/C07Compose.lean`
(`position fen k7/p7/P1P5/8/8/6p1/6Pp/7K w - - 0 1`, `go depth 1`, `isready`, `go depth 2`, `stop`; the second search runs on
the memory the first one handed back).  The session has transcripts of `sessionSpecW` (one is built by hand from the
sequential outcomes), and EVERY transcript — whatever the seeds, schedules, worker counts `≥ 1`, cancellation instants of
the two searches and however the writer lines interleave with `readyok` — contains exactly two `bestmove` lines. -/
example (K : Keys) :
    (∃ t last', Transcript (sessionSpecW (· = c03Art) K ∅) Option.none Option.none exTouts t last' Option.none) ∧
    ∀ t last', Transcript (sessionSpecW (· = c03Art) K ∅) Option.none Option.none exTouts t last' Option.none →
      Transcript.nbest t = 2 := by
  constructor
  · have hs1 : (sessionSpecW (· = c03Art) K ∅).search Option.none c03Root (some 1)
        (writerLines (iterate c03Root default (some 1) c03Art (fun _ => 1) Option.none 64).events)
        (iterate c03Root default (some 1) c03Art (fun _ => 1) Option.none 64).artifact :=
      ⟨c03Art, default, fun _ => 1, Option.none, 64, _, rfl, by decide, by decide, by decide,
        Interleave_iterate_is_schedule c03Root default (some 1) c03Art (fun _ => 1) Option.none 64, rfl, rfl⟩
    have hs2 : (sessionSpecW (· = c03Art) K ∅).search
        (some (iterate c03Root default (some 1) c03Art (fun _ => 1) Option.none 64).artifact) c03Root (some 2)
        (writerLines (iterate c03Root default (some 2)
          (iterate c03Root default (some 1) c03Art (fun _ => 1) Option.none 64).artifact (fun _ => 1) Option.none 64).events)
        (iterate c03Root default (some 2)
          (iterate c03Root default (some 1) c03Art (fun _ => 1) Option.none 64).artifact (fun _ => 1) Option.none 64).artifact :=
      ⟨_, default, fun _ => 1, Option.none, 64, _, rfl, by decide, by decide, by decide,
        Interleave_iterate_is_schedule c03Root default (some 2) _ (fun _ => 1) Option.none 64, rfl, rfl⟩
    exact ⟨_, _, .start (some 1) Option.none false c03Root (fun h => nomatch h) hs1
      (Transcript.emit_all _ (.line "readyok" c03Root (.join c03Root
        (.start (some 2) Option.none true c03Root (fun _ => rfl) hs2
          (Transcript.emit_all _ (.join c03Root (.done _ _)))))))⟩
  · intro t last' htr
    cases hrun : runT (fun p => (Book.lookup K (∅ : Book.Table) p).isSome) Sess.init exLines with
    | none => have := ex_runT K; rw [hrun] at this; cases this
    | some r =>
      obtain ⟨s', touts⟩ := r
      have ht : touts = exTouts := by have := ex_runT K; rw [hrun] at this; exact Option.some.inj this
      subst ht
      have hpos : ∀ o p, (o, p) ∈ exTouts → o.isStart = true →
          c03R p ∧ legalMoves p ≠ [] := by
        intro o p hm _
        have hp : p = c03Root := by
          simp only [exTouts, List.mem_cons, Prod.mk.injEq, List.not_mem_nil, or_false] at hm
          rcases hm with ⟨_, rfl⟩ | ⟨_, rfl⟩ | ⟨_, rfl⟩ | ⟨_, rfl⟩ | ⟨_, rfl⟩ <;> rfl
        subst hp
        exact ⟨Or.inl rfl, c03_moves_ne⟩
      have h := (C07_session_exactly_one_always c03_region c03_evalBelowMate (· = c03Art)
        (by rintro a rfl; exact MemOK.fresh c03KeyTable [] 2 4 (by decide) (by decide) c03_collisionFree)
        K ∅ Sess.init exLines s' exTouts hrun hpos t last' htr).1
      have hc : (processed exLines).countP isGo = 2 := by decide
      rw [hc] at h
      exact h

end Wee.Uci
