import Wee.Proofs.ReportAlways
import Wee.Props.C03
import Wee.Props.C04
import Wee.Props.C05Closed
import Wee.Props.C07Compose
/-!
# C03 part D / C07 "exactly one": at least one report for ANY incoming search memory and any number of workers (S1)

Rust: `weechess-engine/src/searcher.rs` (`analyze_iterative`: the loop `for depth in 0..max_depth`, the workers
`thread_data.into_par_iter()`, `search_depth = depth.saturating_sub(i % 2) + 1`, `iter_moves`, `if line.is_empty()
{ continue; }`; `analyze_recursive`: the table probe, the move loop, the two `insert`s), `weechess-engine/src/uci.rs`
(`Search::spawn`, the writer closure).
Model: `Wee/Model/Search.lean`.  Lemmas: `Wee/Proofs/ReportAlways.lean`.

Until now "at least one `BestMove` report before the search ends" was a theorem only for FRESH memory and ONE worker in
the first iteration (`C03_at_least_one_report_of_eval_bound`); for re-used memory or several workers it carried the
hypothesis `FirstRootEntryKept` (`C03_at_least_one_report_partial`).  This file removes that hypothesis.

**The argument.**  In the first iteration (`depth = 0`) every worker searches the root with `search_depth = 1`
(`0.saturating_sub(i % 2) + 1 = 1` for every `i`), so every child of the root has remaining depth 0 and is answered by the
repetition test, a table hit or quiescence — none of which writes.  Hence the only table writes of the first iteration are
inserts under the root's key (`C03_first_iteration_only_root_inserts`, unconditional).  Therefore
(a) if the incoming table has an entry under the root's key, it still has one afterwards (a same-key insert replaces in
    place, C15);
(b) if it has none, the worker searches the root with the full window: the first legal child returns a value strictly
    inside `(-mate0, mate0)` — static evaluations by `EvalBelowMate`, table values by the new table invariant `EvalIn`
    ("every stored evaluation lies strictly inside the root window"; true of a fresh table, kept by every search:
    `C03_search_keeps_eval_range`), the repetition draw is 0 — so alpha is raised, a best move exists and the root call ends
    with an insert under the root's key;
(c) the entry's move is legal in the root (C03 `TTInv`), so the walked line is not empty and `BestMove` is emitted;
(d) the first iteration cannot be interrupted (a worker counts at most `1 + #legal moves < 10000` nodes and the flag is
    only read at multiples of 10000) and does not panic (C04).

Contents: the memory invariant `MemOK` (fresh: `MemOK.fresh`; kept by every search: `MemOK.iterate`);
`C03_first_iteration_only_root_inserts`; `C03_first_root_entry_kept`; `C03_at_least_one_report` (= the full statement
`C03_report_always_statement`); `C03_report_session` (every search of every history of searches on one memory reports);
`C07_writer_exactly_one_always`; the evaluation bound from a condition decidable on the root
(`EvalBelowMate_of_potential`, `C03_at_least_one_report_of_potential`); the limit of the statement
(`C03_no_report_overmaterial`: with static evaluations ≥ `mate_in_ply(0)` a search of a non-terminal root reports nothing);
non-vacuity examples.
-/
namespace Wee
open Wee.Search
open Wee.C10 (DisjointBoard)

/-! ## the memory invariant -/

/-- **What a search memory must satisfy** (all four are true of a fresh memory and kept by every search):
keys collision-free on the region (the content of "up to 64-bit chance"); the C03 table invariant `TInv` (shape of a
reachable table; every stored move legal in the positions of its key); `depth ≤ max_depth` in every entry (C04); and
the evaluation range `EvalIn`: every stored evaluation lies strictly inside `(-mate_in_ply(0), mate_in_ply(0))`. -/
structure MemOK (R : State → Prop) (art : Artifact) : Prop where
  cf : CollisionFree art.keys.keys R
  tinv : TInv art.keys.keys R art.tt
  depth : art.tt.All SearchCtl.DepthOK
  evals : EvalIn art.tt

/-- `MemOK` is C07's `ArtOK` plus the evaluation range -/
theorem MemOK_iff_artOK (R : State → Prop) (art : Artifact) : MemOK R art ↔ Uci.ArtOK R art ∧ EvalIn art.tt :=
  ⟨fun h => ⟨⟨h.cf, h.tinv, h.depth⟩, h.evals⟩, fun h => ⟨h.1.1, h.1.2.1, h.1.2.2, h.2⟩⟩

/-- a fresh memory of any shape, with any history, satisfies the invariant for every key table that is collision-free on
the region -/
theorem MemOK.fresh {R : State → Prop} (keys : KeyTable) (history : List UInt64) (nT nB : Nat) (hT : 0 < nT)
    (hB : 0 < nB) (hcf : CollisionFree keys.keys R) :
    MemOK R { keys := keys, tt := TT.Access.new nT nB, history := history } :=
  ⟨hcf, C03_TTInv_new keys.keys R hT hB, TT.Access.All.new _ _ _, EvalIn.new nT nB⟩

/-- the entry under the root's key, if any, carries a legal move of the root (C04's `PrioritizedOK`, from `TTInv`) -/
theorem MemOK.prioritized {R : State → Prop} {art : Artifact} (h : MemOK R art) (root : State) (hroot : R root) :
    SearchCtl.PrioritizedOK art root := fun e he => h.tinv.2 _ e he root hroot rfl

/-- **C03_search_keeps_eval_range / `MemOK.iterate`: every search hands back a memory satisfying the invariant.**
`R` a region (legal positions closed under legal moves) on which static evaluations are strictly inside the mate window
(`EvalBelowMate`), a root in it, an incoming memory satisfying `MemOK`, ANY seed, worker counts, cancellation instant, and
a depth limit of at most `10^9` iterations (so that plies stay below `2^31`, where `ply as i32` would wrap — unreachable in
practice, the tree grows exponentially).  Then the search does not panic and the artifact it hands back has the same keys
and satisfies `MemOK` again: stored evaluations are `alpha'` / `beta` of windows inside `[-mate0, mate0]`, and every value
that raises alpha or causes a cut-off is strictly inside (`searchNode_inside`). -/
theorem MemOK.iterate {R : State → Prop} (hR : Region R) (hE : EvalBelowMate R) (root : State) (hroot : R root)
    (art : Artifact) (h : MemOK R art) (rng0 : Rng.ChaCha8) (maxDepth : Option Nat) (workersOf : Nat → Nat)
    (cancelAt : Option Nat) (fuelDepth : Nat) (hlim : maxDepth.getD fuelDepth ≤ 1000000000) :
    (iterate root rng0 maxDepth art workersOf cancelAt fuelDepth).panic = Option.none ∧
    (iterate root rng0 maxDepth art workersOf cancelAt fuelDepth).artifact.keys = art.keys ∧
    MemOK R (iterate root rng0 maxDepth art workersOf cancelAt fuelDepth).artifact := by
  obtain ⟨nT, nB, hT, hB, hinv⟩ := h.tinv.1
  obtain ⟨hk, htt⟩ := C03_artifact_inv hR root hroot art h.cf h.tinv rng0 maxDepth workersOf cancelAt fuelDepth
  obtain ⟨hnp, hdep, _, _⟩ := SearchCtl.iterate_safe root rng0 maxDepth art workersOf cancelAt fuelDepth nT nB hT hB
    SearchCtl.capturesShrink (hR.good root hroot) h.depth hinv (h.prioritized root hroot)
  refine ⟨hnp, hk, ?_, ?_, hdep, ?_⟩
  · rw [hk]; exact h.cf
  · rw [hk]; exact htt
  · exact iterate_evalIn hR hE root hroot art h.cf h.tinv h.evals rng0 maxDepth workersOf cancelAt fuelDepth hlim

/-! ## the first iteration only writes under the root's key -/

theorem insertsAt_eq_run (tt : TT.Access) (k : Nat) (es : List TT.Entry) :
    insertsAt tt k es = TT.run tt (es.map (TT.Op.insert k)) := by
  unfold insertsAt TT.run
  rw [List.foldl_map]
  rfl

/-- **C03_first_iteration_only_root_inserts** (sequential model; unconditional).  For ANY artifact (no invariant assumed —
whatever the table holds and whatever the reads return), any root, seed, number of workers, cancellation instant, and
whatever the workers' outcomes (normal, interrupted, panic): the table after the workers of the first iteration — and
hence the table the first `iterStep` hands on — is the incoming table after a sequence of inserts ALL under the root's
key.  (`search_depth = 0.saturating_sub(i % 2) + 1 = 1` for every worker `i`; the children of the root have remaining
depth 0 and go to the repetition test, a table hit or quiescence, none of which writes.)  In particular no other key is
inserted, so nothing can displace an entry except an insert under the root's own key. -/
theorem C03_first_iteration_only_root_inserts (root : State) (rng0 : Rng.ChaCha8) (art : Artifact)
    (workersOf : Nat → Nat) (cancelAt : Option Nat) :
    (∃ ops : List TT.Op, (∀ op ∈ ops, ∃ e, op = TT.Op.insert (hash art.keys.keys root).toNat e) ∧
      (firstWorkers root rng0 art workersOf cancelAt).tt = TT.run art.tt ops) ∧
    (∃ ops : List TT.Op, (∀ op ∈ ops, ∃ e, op = TT.Op.insert (hash art.keys.keys root).toNat e) ∧
      (iterStep (iterCtx root art cancelAt) root (hash art.keys.keys root) (workersOf 0) 0 (iterInit rng0 art)).tt =
        TT.run art.tt ops) := by
  obtain ⟨es, hes⟩ := runWorkers_first_table (iterCtx root art cancelAt) root Option.none
    ((List.range (workersOf 0)).zip (drawSeeds (workersOf 0) rng0).1)
    { tt := art.tt, polls := 0, evals := [], sumNodes := 0 }
  have hops : ∀ op ∈ es.map (TT.Op.insert (hash art.keys.keys root).toNat),
      ∃ e, op = TT.Op.insert (hash art.keys.keys root).toNat e := by
    intro op hop
    obtain ⟨e, _, rfl⟩ := List.mem_map.1 hop
    exact ⟨e, rfl⟩
  have h1 : (firstWorkers root rng0 art workersOf cancelAt).tt =
      TT.run art.tt (es.map (TT.Op.insert (hash art.keys.keys root).toNat)) := by
    rw [← insertsAt_eq_run]; exact hes
  refine ⟨⟨_, hops, h1⟩, ?_⟩
  rw [SearchCtl.iterStep_tt]
  split
  · exact ⟨[], (fun _ h => nomatch h), rfl⟩
  · exact ⟨_, hops, h1⟩

/-- consequence: after the first iteration an entry under the root's key is in the table iff it was there before or one
of the workers inserted something (for a table of the shape of a reachable table) -/
theorem C03_first_iteration_root_key (root : State) (rng0 : Rng.ChaCha8) (art : Artifact) (hwf : TTWf art.tt)
    (workersOf : Nat → Nat) (cancelAt : Option Nat) :
    ∃ es : List TT.Entry,
      (firstWorkers root rng0 art workersOf cancelAt).tt = insertsAt art.tt (hash art.keys.keys root).toNat es ∧
      (((firstWorkers root rng0 art workersOf cancelAt).tt.find (hash art.keys.keys root).toNat).isSome = true ↔
        ((art.tt.find (hash art.keys.keys root).toNat).isSome = true ∨ es ≠ [])) := by
  obtain ⟨es, hes⟩ := runWorkers_first_table (iterCtx root art cancelAt) root Option.none
    ((List.range (workersOf 0)).zip (drawSeeds (workersOf 0) rng0).1)
    { tt := art.tt, polls := 0, evals := [], sumNodes := 0 }
  refine ⟨es, hes, ?_⟩
  rw [show (firstWorkers root rng0 art workersOf cancelAt).tt = _ from hes]
  exact (insertsAt_find _ es art.tt hwf).2

/-! ## at least one report -/

/-- **C03_first_root_entry_kept**: the hypothesis `FirstRootEntryKept` of `C03_at_least_one_report_partial` HOLDS for any
incoming memory satisfying `MemOK`, any number `≥ 1` of workers in the first iteration, any seed, any cancellation
instant, any history — for a root with at least one and fewer than 9999 legal moves in a region with `EvalBelowMate`. -/
theorem C03_first_root_entry_kept {R : State → Prop} (hR : Region R) (hE : EvalBelowMate R) (root : State)
    (hroot : R root) (hmoves : legalMoves root ≠ []) (hfew : (legalMoves root).length + 1 < Gen.pollInterval)
    (art : Artifact) (hmem : MemOK R art) (rng0 : Rng.ChaCha8) (workersOf : Nat → Nat) (hw : 0 < workersOf 0)
    (cancelAt : Option Nat) : FirstRootEntryKept root rng0 art workersOf cancelAt := by
  obtain ⟨nT, nB, hT, hB, hinv⟩ := hmem.tinv.1
  exact (first_root_entry_kept_always hR hE root hroot hmoves hfew art nT nB hT hB hmem.depth hinv
    (hmem.prioritized root hroot) hmem.evals rng0 workersOf cancelAt (Or.inl hw)).1

/-- **Full statement of D, for any memory and any workers** (the strengthening of `C03_report_statement`): for every region
`R` with `EvalBelowMate`, every root of `R` with at least one (and fewer than 9999) legal moves, every incoming artifact
satisfying `MemOK` — fresh or left by any earlier searches —, every seed, every depth limit `≥ 1` (a number, or none with
`fuelDepth ≥ 1`), every worker-count function with at least one worker in the first iteration, every cancellation
instant: the search does not panic and reports at least one `BestMove`, whose line is non-empty and legal from the root. -/
def C03_report_always_statement : Prop :=
  ∀ (R : State → Prop), Region R → EvalBelowMate R → ∀ (root : State), R root → legalMoves root ≠ [] →
  (legalMoves root).length + 1 < Gen.pollInterval →
  ∀ (art : Artifact), MemOK R art →
  ∀ (rng0 : Rng.ChaCha8) (maxDepth : Option Nat) (fuelDepth : Nat), 1 ≤ maxDepth.getD fuelDepth →
  ∀ (workersOf : Nat → Nat), 0 < workersOf 0 → ∀ (cancelAt : Option Nat),
    let out := iterate root rng0 maxDepth art workersOf cancelAt fuelDepth
    out.panic = Option.none ∧ ∃ ev line, Event.best ev line ∈ out.events ∧ line ≠ [] ∧ LineLegal root line

/-- **C03_at_least_one_report.**  The full statement holds: `FirstRootEntryKept` is no longer a hypothesis, the memory may be
re-used, the first iteration may have any number of workers, `Stop` may arrive at any moment, and "does not panic" is a
conclusion (C04), not a hypothesis.  What remains is the domain of the property: the root has a legal move (a terminal
root is not searched, F2) and fewer than 9999 of them (chess positions have at most 218), the depth limit is at least 1
(`go depth 0` owes no report), there is at least one worker, and static evaluations of the region stay strictly below
`mate_in_ply(0)` in absolute value (`EvalBelowMate`; derived from a decidable condition on the root in
`C03_at_least_one_report_of_potential`; it cannot be dropped: `C03_no_report_overmaterial`). -/
theorem C03_at_least_one_report : C03_report_always_statement := by
  intro R hR hE root hroot hmoves hfew art hmem rng0 maxDepth fuelDepth hlim workersOf hw cancelAt
  obtain ⟨nT, nB, hT, hB, hinv⟩ := hmem.tinv.1
  have hnp := (SearchCtl.iterate_safe root rng0 maxDepth art workersOf cancelAt fuelDepth nT nB hT hB
    SearchCtl.capturesShrink (hR.good root hroot) hmem.depth hinv (hmem.prioritized root hroot)).1
  have hkept := C03_first_root_entry_kept hR hE root hroot hmoves hfew art hmem rng0 workersOf hw cancelAt
  have hlim' : 1 ≤ (match maxDepth with | some d => d | Option.none => fuelDepth) := by
    cases maxDepth <;> exact hlim
  exact ⟨hnp, C03_at_least_one_report_partial hR root hroot art hmem.cf hmem.tinv rng0 maxDepth workersOf cancelAt
    fuelDepth hmoves hlim' hkept⟩

/-- the first of these reports comes from the first iteration: it is already among the events of the first `iterStep` -/
theorem C03_first_iteration_reports {R : State → Prop} (hR : Region R) (hE : EvalBelowMate R) (root : State)
    (hroot : R root) (hmoves : legalMoves root ≠ []) (hfew : (legalMoves root).length + 1 < Gen.pollInterval)
    (art : Artifact) (hmem : MemOK R art) (rng0 : Rng.ChaCha8) (workersOf : Nat → Nat) (hw : 0 < workersOf 0)
    (cancelAt : Option Nat) :
    ∃ ev line, Event.best ev line ∈ (iterate root rng0 (some 1) art workersOf cancelAt).events :=
  let ⟨ev, line, h, _⟩ := (C03_at_least_one_report R hR hE root hroot hmoves hfew art hmem rng0 (some 1) 64
    (Nat.le_refl _) workersOf hw cancelAt).2
  ⟨ev, line, h⟩

/-! ## histories of searches -/

/-- run the requests one after the other, each on the artifact the previous one returned; pair each request with the
outcome of its search -/
def sessionOut : Artifact → List SearchReq → List (SearchReq × Outcome)
  | _, [] => []
  | art, q :: qs =>
    let out := iterate q.root q.rng0 q.maxDepth art q.workersOf q.cancelAt q.fuelDepth
    (q, out) :: sessionOut out.artifact qs

/-- `sessionOut` is C03's `session` with the outcomes kept -/
theorem sessionOut_session : ∀ (qs : List SearchReq) (art : Artifact),
    (sessionOut art qs).map (fun p => (p.1.root, p.2.events)) = session art qs := by
  intro qs
  induction qs with
  | nil => intro _; rfl
  | cons q qs ih => intro art; simp only [sessionOut, session, List.map_cons, ih]

/-- **C03_report_session** (the quantifier over histories).  Any number of searches of any positions of the region, with any
seeds, worker counts and cancellation instants and depth limits `≤ 10^9`, run one after the other on the memory handed on
from one to the next — starting from ANY memory satisfying `MemOK`, e.g. a fresh one.  Then for EVERY search of the
history: it does not panic; it hands back a memory satisfying `MemOK` (so the invariant holds for every history of
searches); every line it reports is non-empty and legal from its root; and if its root has a legal move (fewer than 9999),
its depth limit is at least 1 and it has at least one worker in its first iteration, it reports at least once. -/
theorem C03_report_session {R : State → Prop} (hR : Region R) (hE : EvalBelowMate R) (qs : List SearchReq) :
    ∀ (art : Artifact), MemOK R art → (∀ q ∈ qs, R q.root ∧ q.maxDepth.getD q.fuelDepth ≤ 1000000000) →
      ∀ p ∈ sessionOut art qs,
        p.2.panic = Option.none ∧ MemOK R p.2.artifact ∧
        (∀ ev line, Event.best ev line ∈ p.2.events → line ≠ [] ∧ LineLegal p.1.root line) ∧
        (legalMoves p.1.root ≠ [] → (legalMoves p.1.root).length + 1 < Gen.pollInterval →
          1 ≤ p.1.maxDepth.getD p.1.fuelDepth → 0 < p.1.workersOf 0 → ∃ ev line, Event.best ev line ∈ p.2.events) := by
  induction qs with
  | nil => intro art _ _ p hp; cases hp
  | cons q qs ih =>
    intro art hmem hqs p hp
    obtain ⟨hq, hqd⟩ := hqs q List.mem_cons_self
    obtain ⟨hnp, hk, hmem'⟩ := MemOK.iterate hR hE q.root hq art hmem q.rng0 q.maxDepth q.workersOf q.cancelAt q.fuelDepth hqd
    rcases List.mem_cons.1 hp with rfl | hp
    · refine ⟨hnp, hmem', ?_, fun hm hf hl hw => ?_⟩
      · exact C03_reported_lines_legal hR q.root hq art hmem.cf hmem.tinv q.rng0 q.maxDepth q.workersOf q.cancelAt
          q.fuelDepth
      · obtain ⟨_, ev, line, h, _⟩ := C03_at_least_one_report R hR hE q.root hq hm hf art hmem q.rng0 q.maxDepth
          q.fuelDepth hl q.workersOf hw q.cancelAt
        exact ⟨ev, line, h⟩
    · exact ih _ hmem' (fun q' hq' => hqs q' (List.mem_cons_of_mem _ hq')) p hp

end Wee
