import Wee.Proofs.WriterLemmas
import Wee.Props.C03
import Wee.Props.C04
import Wee.Props.C06Complete
import Wee.Props.Interleave
import Wee.Props.C16
import Wee.Props.C12Closed
import Wee.Props.C07
/-!
# C07 — "exactly one legal `bestmove` per `go`", composed from C03 / C04 / C06 / C12 / C16 with a model of the writer thread

Rust: `weechess-engine/src/uci.rs` — `Search::spawn` (the `write_handle` closure), `Client::exec` (`go` arm: book lookup
first, else `Search::spawn`), `Search::wait_cancel`.
Model: `Wee/Proofs/WriterLemmas.lean` (`WLine`, `writerLoop`, `writerTail`, `writerLines`: the writer thread as a function of
the event list of the search), `Wee/Model/Search.lean` (`iterate`, `Event`), `Wee/Model/SearchEnv.lean` (`SearchS`: the
search with every iteration's workers raced in an arbitrary interleaving), `Wee/Model/Book.lean` (`lookup`),
`Wee/Model/Uci.lean` (`step`, `run`).

`Wee/Props/C07.lean` proves that the marks `searchStarted … joinRunning` / `bookMove` of the session model are well
bracketed and that every `go` is answered by exactly one of them; it leaves open what is printed inside a bracket.  This file
closes that gap at the model level:

1. **the writer thread** (`writerLines`, for the events of `iterate` under the hypotheses of `C03_reported_lines_legal`, ANY
   seed, depth limit, worker counts, cancellation instant, incoming table satisfying the invariant):
   `C07_writer_at_most_one` (at most one `bestmove`, and it is the last line), `C07_writer_bestmove_legal` (it names a
   listed legal move of the root and its text resolves back to exactly that move through the UCI token parser,
   `MoveQuery::test` and `by_performing_moves`: `LegalToken`), `C07_writer_pv_legal` (every `info pv` is a non-empty legal
   line that `position … moves` replays: `LegalPv`), `C07_writer_one_iff_reported`;
   exactly one `bestmove`: `C07_writer_exactly_one` (hypotheses of `C03_at_least_one_report_of_eval_bound`),
   `C07_writer_exactly_one_any_cancel` (the same for EVERY cancellation instant — new: `C07_report_any_cancel` removes the
   "never cancelled" hypothesis of C03's part D, because the first iteration never reads the flag),
   `C07_writer_exactly_one_mate` (hypotheses of `C06_complete_one_worker`; the printed move keeps the forced mate);
   `C07_writer_terminal_root` (no legal move ⇒ no `bestmove`, no panic);
   `…_any_schedule`: the first three for every outcome of the search under arbitrary interleavings of the workers (`SearchS`);
2. **the book arm**: `C07_book_bestmove_legal`;
3. **whole sessions**: `C07_session_bestmoves` (number of `bestmove` lines ≤ number of `go` lines read; each is a
   `LegalToken` of the `Sess.pos` at its `go`; every `info pv` legal; no search thread panics; the artifact handed from
   search to search keeps the C03/C04 invariants), `C07_session_refined` (the invariant, for arbitrary initial states),
   `C07_session_join_barrier` (a search's `bestmove` precedes everything printed after its join mark),
   `C07_session_exactly_one` (equality of the counts when every answer has exactly one `bestmove`),
   `C07_session_transcript_exists` (the specification is satisfiable for every session: no vacuity).

What stays outside (runtime residue, as for C07 before): that the real writer thread receives exactly the events of the
search in order (one `mpsc` channel whose only sender is owned by the search thread), that `wait_cancel` really joins both
threads, and stdout buffering — checked on the real binary by `./check C07`.  Not proved: "at least one report" for re-used
memory or several workers in the first iteration (S1 of DESIGN), hence no unconditional "exactly one" for every `go`.
-/
namespace Wee.Uci
open Wee Wee.Search
open Wee.C10 (DisjointBoard)

/-! ## vocabulary -/

/-- **`LegalToken p t`** — `t` is the coordinate text (`Lan::into_notation`) of a move `r.1` that
`MoveGenerator::compute_legal_moves(p)` lists (with successor `r.2`), and reading `t` back the way the `position … moves`
arm does gives exactly that move: the token parser accepts `t`, the resulting query passes `MoveQuery::test` for `r.1` and
for no other listed move, `MoveSet::filter` returns `[r.1]`, and `State::by_performing_moves` yields the listed successor. -/
def LegalToken (p : State) (t : String) : Prop :=
  ∃ r ∈ legalMoves p, t = Move.lan r.1 ∧
    ∃ q, parseUciMoveToken t = some (some q) ∧
      (∀ m' ∈ (legalMoves p).map (·.1), (q.test m' = true ↔ m' = r.1)) ∧
      ((legalMoves p).map (·.1)).filter q.test = [r.1] ∧
      performQuery p q = some (.ok r.2)

/-- **`LegalPv p pv`** — `pv` is the list of coordinate texts of a NON-EMPTY line of successively legal moves from `p`, and
`position <p> moves pv…` replays it: every token has the move format and `by_performing_moves` ends in the end of the line. -/
def LegalPv (p : State) (pv : List String) : Prop :=
  ∃ l : List (Move × State), l ≠ [] ∧ LegalLine p l ∧ pv = l.map (fun r => Move.lan r.1) ∧
    ∃ qs : List MoveQuery, pv.map parseUciMoveToken = qs.map (fun q => some (some q)) ∧
      performQueries p qs = some (.ok (lineEnd p l))

/-- what C03 says about the events of a search of `root`: every reported line is non-empty and legal from `root` -/
def ReportsLegal (root : State) (evs : List Event) : Prop :=
  ∀ ev line, Event.best ev line ∈ evs → line ≠ [] ∧ LineLegal root line

/-- a listed legal move gives a legal token (C12) -/
theorem legalToken_of_mem (p : State) (hl : LegalPos p = true) (hd : DisjointBoard p.pieces) (r : Move × State)
    (hr : r ∈ legalMoves p) : LegalToken p (Move.lan r.1) := by
  obtain ⟨q, hq, hsel, hfil⟩ := SanP.C12_lan_legal p hl hd r.1 (List.mem_map_of_mem hr)
  obtain ⟨q', hq', hperf⟩ := performQuery_lan p hl hd (SanP.C12_wf p hl hd) r hr
  have : q' = q := by rw [hq] at hq'; cases hq'; rfl
  subst this
  exact ⟨r, hr, rfl, q', hq, hsel, hfil, hperf⟩

/-- a `LineLegal` list of moves is the move component of a `LegalLine` -/
theorem legalLine_of_lineLegal : ∀ (line : List Move) (s : State), LineLegal s line →
    ∃ l : List (Move × State), LegalLine s l ∧ l.map (·.1) = line := by
  intro line
  induction line with
  | nil => intro s _; exact ⟨[], trivial, rfl⟩
  | cons m ms ih =>
    intro s ⟨r, hr, hrm, hrest⟩
    obtain ⟨l, hl, e⟩ := ih r.2 hrest
    exact ⟨r :: l, ⟨hr, hl⟩, by rw [List.map_cons, hrm, e]⟩

theorem legalPv_of_lineLegal (p : State) (hl : LegalPos p = true) (hd : DisjointBoard p.pieces) (line : List Move)
    (hne : line ≠ []) (hline : LineLegal p line) : LegalPv p (line.map Move.lan) := by
  obtain ⟨l, hll, e⟩ := legalLine_of_lineLegal line p hline
  have hlne : l ≠ [] := by rintro rfl; exact hne e.symm
  have htxt : line.map Move.lan = l.map (fun r => Move.lan r.1) := by rw [← e, List.map_map]; rfl
  obtain ⟨qs, h1, h2⟩ := performQueries_line l p hl hd hll (wfLine_legal l p hl hd hll)
  exact ⟨l, hlne, hll, htxt, qs, by rw [htxt]; exact h1, h2⟩

/-! ## 1. the writer thread, for ANY event list -/

/-- **C07_writer_at_most_one** (structure of the closure; no hypothesis).  Whatever events the search sends, the writer
prints at most one `bestmove` line, and if it prints one it is its last line (it is printed after the channel has closed). -/
theorem C07_writer_at_most_one_events (evs : List Event) :
    (writerLines evs).countP WLine.isBestmove ≤ 1 ∧
    ∀ t, WLine.bestmove t ∈ writerLines evs → (writerLines evs).getLast? = some (.bestmove t) := by
  rw [← bestmoves_length]
  exact ⟨bestmoves_length_le_one evs, bestmove_is_last evs⟩

/-- the writer on events whose reported lines are non-empty and legal from a legal `root` -/
theorem writer_of_reportsLegal (root : State) (hl : LegalPos root = true) (hd : DisjointBoard root.pieces)
    (evs : List Event) (h : ReportsLegal root evs) :
    (∀ t, WLine.bestmove t ∈ writerLines evs → LegalToken root t) ∧
    (∀ pv, WLine.infoPv pv ∈ writerLines evs → LegalPv root pv) ∧
    ((writerLines evs).countP WLine.isBestmove = 1 ↔ ∃ ev line, Event.best ev line ∈ evs) := by
  refine ⟨fun t ht => ?_, fun pv hpv => ?_, ?_⟩
  · obtain ⟨ev, line, m, _, hmem, hhead, rfl⟩ := bestmove_from_report ht
    obtain ⟨_, hline⟩ := h ev line hmem
    cases line with
    | nil => cases hhead
    | cons m' rest =>
      cases hhead
      obtain ⟨r, hr, hrm, _⟩ := hline
      rw [← hrm]
      exact legalToken_of_mem root hl hd r hr
  · obtain ⟨ev, line, hmem, rfl⟩ := infoPv_mem_writerLines hpv
    obtain ⟨hne, hline⟩ := h ev line hmem
    exact legalPv_of_lineLegal root hl hd line hne hline
  · rw [← bestmoves_length]
    exact bestmoves_length_one_iff (fun ev line hm => (h ev line hm).1)

/-! ## 2. the writer thread on the events of `analyze_iterative`

`out := iterate root rng0 maxDepth art workersOf cancelAt fuelDepth`, hypotheses of `C03_reported_lines_legal`: a region `R`
of legal positions closed under legal moves with `root ∈ R`; the keys of the incoming artifact collision-free on `R`; its
table satisfies the invariant `TInv` (a fresh table does, and so does every table handed back by such a search).  ANY seed
`rng0`, depth limit, worker counts, cancellation instant, history. -/

section iterate
variable {R : State → Prop} (hR : Region R) (root : State) (hroot : R root) (art : Artifact)
  (hcf : CollisionFree art.keys.keys R) (htt : TInv art.keys.keys R art.tt)
  (rng0 : Rng.ChaCha8) (maxDepth : Option Nat) (workersOf : Nat → Nat) (cancelAt : Option Nat) (fuelDepth : Nat)

include hR hroot hcf htt in
theorem iterate_reportsLegal :
    ReportsLegal root (iterate root rng0 maxDepth art workersOf cancelAt fuelDepth).events :=
  fun ev line h => C03_reported_lines_legal hR root hroot art hcf htt rng0 maxDepth workersOf cancelAt fuelDepth ev line h

/-- **C07_writer_at_most_one.**  The writer thread of a search prints at most one `bestmove` line, and it is the last
line it prints.  (True of every event list, `C07_writer_at_most_one_events`; stated for the search for reference.) -/
theorem C07_writer_at_most_one :
    (writerLines (iterate root rng0 maxDepth art workersOf cancelAt fuelDepth).events).countP WLine.isBestmove ≤ 1 ∧
    ∀ t, WLine.bestmove t ∈ writerLines (iterate root rng0 maxDepth art workersOf cancelAt fuelDepth).events →
      (writerLines (iterate root rng0 maxDepth art workersOf cancelAt fuelDepth).events).getLast? = some (.bestmove t) :=
  C07_writer_at_most_one_events _

include hR hroot hcf htt in
/-- **C07_writer_bestmove_legal.**  If the writer prints `bestmove t`, then `t` is the coordinate text of a move that
`compute_legal_moves(root)` lists, and `t` read back by the UCI token parser + `MoveQuery::test` selects exactly that move
(`LegalToken`).  In particular the case "`best_line` is empty, nothing is printed although something was reported" does not
arise: reported lines are never empty (C03), and `best_line` is the line of the LAST report. -/
theorem C07_writer_bestmove_legal (t : String)
    (h : WLine.bestmove t ∈ writerLines (iterate root rng0 maxDepth art workersOf cancelAt fuelDepth).events) :
    LegalToken root t :=
  (writer_of_reportsLegal root (hR.good root hroot).1 (hR.good root hroot).2 _
    (iterate_reportsLegal hR root hroot art hcf htt rng0 maxDepth workersOf cancelAt fuelDepth)).1 t h

include hR hroot hcf htt in
/-- **C07_writer_pv_legal.**  Every `info pv` line of the writer is the list of coordinate texts of a non-empty line of
moves, each legal in the position reached so far, and `position <root> moves <pv>` replays it token by token (`LegalPv`). -/
theorem C07_writer_pv_legal (pv : List String)
    (h : WLine.infoPv pv ∈ writerLines (iterate root rng0 maxDepth art workersOf cancelAt fuelDepth).events) :
    LegalPv root pv :=
  (writer_of_reportsLegal root (hR.good root hroot).1 (hR.good root hroot).2 _
    (iterate_reportsLegal hR root hroot art hcf htt rng0 maxDepth workersOf cancelAt fuelDepth)).2.1 pv h

include hR hroot hcf htt in
/-- the count of `bestmove` lines is exactly one iff the search reported at all -/
theorem C07_writer_one_iff_reported :
    (writerLines (iterate root rng0 maxDepth art workersOf cancelAt fuelDepth).events).countP WLine.isBestmove = 1 ↔
      ∃ ev line, Event.best ev line ∈ (iterate root rng0 maxDepth art workersOf cancelAt fuelDepth).events :=
  (writer_of_reportsLegal root (hR.good root hroot).1 (hR.good root hroot).2 _
    (iterate_reportsLegal hR root hroot art hcf htt rng0 maxDepth workersOf cancelAt fuelDepth)).2.2

end iterate

/-- **C07_writer_exactly_one** (hypotheses of `C03_at_least_one_report_of_eval_bound`, the panic hypothesis discharged by
C04).  One worker in the first iteration, fresh memory of any shape, no cancellation, a root with a legal move, depth limit
`d ≥ 1`, static evaluations of the region strictly inside the mate window; any seed, any history, any worker counts for the
later iterations.  Then the search thread does not panic and the writer prints EXACTLY ONE `bestmove` line; it is its last
line and a `LegalToken` of the root. -/
theorem C07_writer_exactly_one {R : State → Prop} (hR : Region R) (hE : EvalBelowMate R)
    (root : State) (hroot : R root) (hmoves : legalMoves root ≠ [])
    (keys : KeyTable) (history : List UInt64) (nT nB : Nat) (hT : 0 < nT) (hB : 0 < nB)
    (hcf : CollisionFree keys.keys R) (rng0 : Rng.ChaCha8) (d : Nat) (hd : 1 ≤ d) (workersOf : Nat → Nat)
    (h1 : workersOf 0 = 1) (fuelDepth : Nat) :
    let out := iterate root rng0 (some d) { keys := keys, tt := TT.Access.new nT nB, history := history } workersOf
      Option.none fuelDepth
    out.panic = Option.none ∧
    ∃ t, bestmoves (writerLines out.events) = [t] ∧ (writerLines out.events).getLast? = some (.bestmove t) ∧
      LegalToken root t := by
  intro out
  have hl := (hR.good root hroot).1
  have hdj := (hR.good root hroot).2
  have hnp : out.panic = Option.none :=
    SearchCtl.C04_no_panic_fresh root rng0 (some d) keys history workersOf Option.none fuelDepth nT nB hT hB hl hdj
  obtain ⟨ev, line, hmem, _, _⟩ := C03_at_least_one_report_of_eval_bound hR hE root hroot hmoves keys history nT nB hT hB
    hcf rng0 d hd workersOf h1 fuelDepth hnp
  have hrep : ReportsLegal root out.events :=
    iterate_reportsLegal hR root hroot { keys := keys, tt := TT.Access.new nT nB, history := history } hcf
      (C03_TTInv_new keys.keys R hT hB) rng0 (some d) workersOf Option.none fuelDepth
  have hw := writer_of_reportsLegal root hl hdj out.events hrep
  have hone : (bestmoves (writerLines out.events)).length = 1 := by
    rw [bestmoves_length]; exact hw.2.2.2 ⟨ev, line, hmem⟩
  refine ⟨hnp, ?_⟩
  match hb : bestmoves (writerLines out.events), hone with
  | [t], _ =>
    have ht : WLine.bestmove t ∈ writerLines out.events := mem_bestmoves.1 (by rw [hb]; exact List.mem_singleton.2 rfl)
    exact ⟨t, rfl, bestmove_is_last _ t ht, hw.1 t ht⟩

/-- **C07_writer_exactly_one_mate** (hypotheses of `C06_complete_one_worker`).  A legal root with a forced mate within
`n ≤ d` plies, fresh memory, empty game history, one worker per iteration, no cancellation, keys without harmful collision
on the reachable tree, any seed.  Then the search thread does not panic and the writer prints exactly one `bestmove`, as its
last line; it is a `LegalToken` of the root, and the move it names leads to a position that is `Lost` for the opponent:
**the printed move keeps the forced mate**. -/
theorem C07_writer_exactly_one_mate (root : State) (n d : Nat) (keys : KeyTable) (nT nB : Nat) (rng0 : Rng.ChaCha8)
    (fuelDepth : Nat)
    (hl : LegalPos root = true) (hdj : DisjointBoard root.pieces) (htb : C06.TreeBounded root)
    (hcf : C06.CollisionFree keys.keys (C06.Reachable root)) (hcfn : C06.CollisionFreeN keys.keys (C06.Reachable root))
    (hT : 0 < nT) (hB : 0 < nB) (hw : Outcome.forcedMate n root = true) (hnd : n ≤ d) :
    let out := iterate root rng0 (some d) { keys := keys, tt := TT.Access.new nT nB, history := [] } (fun _ => 1)
      Option.none fuelDepth
    out.panic = Option.none ∧
    ∃ r ∈ legalMoves root, bestmoves (writerLines out.events) = [Move.lan r.1] ∧
      (writerLines out.events).getLast? = some (.bestmove (Move.lan r.1)) ∧
      LegalToken root (Move.lan r.1) ∧ Outcome.Lost r.2 := by
  intro out
  obtain ⟨hnp, ev, line, hlast, _, r, hr, hhead, hlost⟩ :=
    C06.C06_complete_one_worker root n d keys nT nB rng0 fuelDepth hl hdj htb hcf hcfn hT hB hw hnd
  have hb : bestmoves (writerLines out.events) = [Move.lan r.1] := bestmoves_of_last_report (ev := ev) hlast hhead
  have ht : WLine.bestmove (Move.lan r.1) ∈ writerLines out.events :=
    mem_bestmoves.1 (by rw [hb]; exact List.mem_singleton.2 rfl)
  exact ⟨hnp, r, hr, hb, bestmove_is_last _ _ ht, legalToken_of_mem root hl hdj r hr, hlost⟩

/-- **C07_report_any_cancel** (part D of C03 — at least one report — for EVERY cancellation instant).
`C03_at_least_one_report_of_eval_bound` assumes that the search is never cancelled.  In a UCI session every search that is
joined by a later command IS cancelled (`wait_cancel` sends `Stop`), possibly at once (`go`, `stop`).  This theorem removes
the assumption: `analyze_recursive` polls the flag only when its node counter reaches a multiple of 10000, the single
worker of the first iteration counts at most `1 + #legal moves` nodes, so — for a root with fewer than 9999 legal moves
(`hfew`; chess positions have at most 218) — the first iteration runs to its end whenever `Stop` arrives and reports.
Other hypotheses as there: one worker in the first iteration (true of the real engine for `depth < 3`), fresh memory, a
root with a legal move, depth limit `d ≥ 1`, evaluations of the region strictly inside the mate window. -/
theorem C07_report_any_cancel {R : State → Prop} (hR : Region R) (hE : EvalBelowMate R)
    (root : State) (hroot : R root) (hmoves : legalMoves root ≠ [])
    (hfew : (legalMoves root).length + 1 < Gen.pollInterval)
    (keys : KeyTable) (history : List UInt64) (nT nB : Nat) (hT : 0 < nT) (hB : 0 < nB)
    (hcf : CollisionFree keys.keys R) (rng0 : Rng.ChaCha8) (d : Nat) (hd : 1 ≤ d) (workersOf : Nat → Nat)
    (h1 : workersOf 0 = 1) (cancelAt : Option Nat) (fuelDepth : Nat) :
    let out := iterate root rng0 (some d) { keys := keys, tt := TT.Access.new nT nB, history := history } workersOf
      cancelAt fuelDepth
    out.panic = Option.none ∧ ∃ ev line, Event.best ev line ∈ out.events ∧ line ≠ [] ∧ LineLegal root line := by
  intro out
  have hl := (hR.good root hroot).1
  have hdj := (hR.good root hroot).2
  have hnp : out.panic = Option.none :=
    SearchCtl.C04_no_panic_fresh root rng0 (some d) keys history workersOf cancelAt fuelDepth nT nB hT hB hl hdj
  have hnp0 := SearchCtl.C04_no_panic_fresh root rng0 (some d) keys history workersOf Option.none fuelDepth nT nB hT hB hl hdj
  obtain ⟨L, hL⟩ := (C01_legal_results root hl hdj).1
  have hLe : legalMoves root = L := by unfold legalMoves; rw [hL]; rfl
  rw [hLe] at hfew
  have hfw := first_panic_reported root rng0 (some d) { keys := keys, tt := TT.Access.new nT nB, history := history }
    workersOf Option.none fuelDepth hmoves hd hnp0
  have hkept0 := first_root_entry_kept hR hE root hroot hmoves
    { keys := keys, tt := TT.Access.new nT nB, history := history } (TTWf.new hT hB)
    (fun k => TT.Access.new_find hT hB k) rng0 workersOf h1 hfw
  have hkept : FirstRootEntryKept root rng0 { keys := keys, tt := TT.Access.new nT nB, history := history } workersOf
      cancelAt := by
    unfold FirstRootEntryKept at hkept0 ⊢
    rw [NoPoll.firstWorkers_cancel root L hL hfew rng0 _ workersOf h1 cancelAt]
    exact hkept0
  have hcf' : CollisionFree
      ({ keys := keys, tt := TT.Access.new nT nB, history := history } : Artifact).keys.keys R := hcf
  have htt : TInv ({ keys := keys, tt := TT.Access.new nT nB, history := history } : Artifact).keys.keys R
      ({ keys := keys, tt := TT.Access.new nT nB, history := history } : Artifact).tt := C03_TTInv_new keys.keys R hT hB
  exact ⟨hnp, C03_at_least_one_report_partial hR root hroot
    { keys := keys, tt := TT.Access.new nT nB, history := history } hcf' htt rng0 (some d) workersOf
    cancelAt fuelDepth hmoves hd hkept⟩

/-- **C07_writer_exactly_one_any_cancel.**  As `C07_writer_exactly_one`, for EVERY cancellation instant (`go` followed by
`stop`, by another `go`, by `position`, by `quit`, or by the timer, at any moment): the search thread does not panic and the
writer prints EXACTLY ONE `bestmove` line, as its last line, naming a legal move of the root that resolves back to it. -/
theorem C07_writer_exactly_one_any_cancel {R : State → Prop} (hR : Region R) (hE : EvalBelowMate R)
    (root : State) (hroot : R root) (hmoves : legalMoves root ≠ [])
    (hfew : (legalMoves root).length + 1 < Gen.pollInterval)
    (keys : KeyTable) (history : List UInt64) (nT nB : Nat) (hT : 0 < nT) (hB : 0 < nB)
    (hcf : CollisionFree keys.keys R) (rng0 : Rng.ChaCha8) (d : Nat) (hd : 1 ≤ d) (workersOf : Nat → Nat)
    (h1 : workersOf 0 = 1) (cancelAt : Option Nat) (fuelDepth : Nat) :
    let out := iterate root rng0 (some d) { keys := keys, tt := TT.Access.new nT nB, history := history } workersOf
      cancelAt fuelDepth
    out.panic = Option.none ∧
    ∃ t, bestmoves (writerLines out.events) = [t] ∧ (writerLines out.events).getLast? = some (.bestmove t) ∧
      LegalToken root t := by
  intro out
  obtain ⟨hnp, ev, line, hmem, _, _⟩ := C07_report_any_cancel hR hE root hroot hmoves hfew keys history nT nB hT hB hcf
    rng0 d hd workersOf h1 cancelAt fuelDepth
  have hrep : ReportsLegal root out.events :=
    iterate_reportsLegal hR root hroot { keys := keys, tt := TT.Access.new nT nB, history := history } hcf
      (C03_TTInv_new keys.keys R hT hB) rng0 (some d) workersOf cancelAt fuelDepth
  have hw := writer_of_reportsLegal root (hR.good root hroot).1 (hR.good root hroot).2 out.events hrep
  have hone : (bestmoves (writerLines out.events)).length = 1 := by
    rw [bestmoves_length]; exact hw.2.2.2 ⟨ev, line, hmem⟩
  refine ⟨hnp, ?_⟩
  match hb : bestmoves (writerLines out.events), hone with
  | [t], _ =>
    have ht : WLine.bestmove t ∈ writerLines out.events := mem_bestmoves.1 (by rw [hb]; exact List.mem_singleton.2 rfl)
    exact ⟨t, rfl, bestmove_is_last _ t ht, hw.1 t ht⟩

/-- **C07_writer_terminal_root.**  A root without legal moves (mate or stalemate) is not searched (repair of F2): the search
thread does not panic, and the writer prints NO `bestmove` line — at most the saturation warning of the incoming table.
For every artifact, seed, depth limit, worker counts, cancellation instant. -/
theorem C07_writer_terminal_root (root : State) (rng0 : Rng.ChaCha8) (maxDepth : Option Nat) (art : Artifact)
    (workersOf : Nat → Nat) (cancelAt : Option Nat) (fuelDepth : Nat) (h : legalMoves root = []) :
    let out := iterate root rng0 maxDepth art workersOf cancelAt fuelDepth
    out.panic = Option.none ∧ bestmoves (writerLines out.events) = [] ∧
    (∀ t, WLine.bestmove t ∉ writerLines out.events) ∧
    (writerLines out.events = [] ∨ writerLines out.events = [.infoWarning]) := by
  intro out
  obtain ⟨hnp, _, hnb, hnpr⟩ := SearchCtl.C04_terminal_root root rng0 maxDepth art workersOf cancelAt fuelDepth h
  have hb : bestmoves (writerLines out.events) = [] := bestmoves_of_no_report hnb
  refine ⟨hnp, hb, fun t ht => ?_, ?_⟩
  · have := mem_bestmoves.2 ht; rw [hb] at this; cases this
  · -- the events are `[]` or `[warning]`
    have hev : ∀ e ∈ out.events, e = Event.warning := by
      intro e he
      cases e with
      | best ev line => exact absurd he (hnb ev line)
      | progress dd nn => exact absurd he (hnpr dd nn)
      | warning => rfl
    have hinit : out.events = [] ∨ out.events = [Event.warning] := by
      have heq : out.events = (iterate root rng0 maxDepth art workersOf cancelAt fuelDepth).events := rfl
      rw [iterate_eq] at heq
      have hfin : iterFinal root rng0 maxDepth art workersOf cancelAt fuelDepth = iterInit rng0 art := by
        unfold iterFinal iterLimit; rw [h]; rfl
      simp only [hfin] at heq
      unfold iterInit at heq
      split at heq
      · right; rw [heq]; rfl
      · left; rw [heq]
    rcases hinit with h0 | h0 <;> rw [h0]
    · left; rfl
    · right; rfl

/-! ## 3. every schedule of the workers (`SearchS`)

`out` is ANY outcome of `analyze_iterative` when in every iteration the workers race in an arbitrary interleaving of their
atomic table operations (`Wee/Props/Interleave.lean`); hypotheses of `C03_search_any_schedule` (depth-graded: collision
freedom and the table invariant only for the positions within `D` plies of the root, `D` ≥ the depth limit). -/

section anySchedule
variable {G : Nat → State → Prop} (hG : Graded G) (D : Nat) (root : State) (hroot : G 0 root)
  (art : Artifact) (hcf : CollisionFree art.keys.keys (upTo G D)) (htt : TInv art.keys.keys (upTo G D) art.tt)
  (rng0 : Rng.ChaCha8) (maxDepth : Option Nat) (workersOf : Nat → Nat) (cancelAt : Option Nat) (fuelDepth : Nat)
  (hD : maxDepth.getD fuelDepth ≤ D) (out : Outcome)
  (hout : SearchS root rng0 maxDepth art workersOf cancelAt fuelDepth out)

include hG hroot hcf htt hD hout in
theorem searchS_reportsLegal : ReportsLegal root out.events :=
  (C03_search_any_schedule hG D root hroot art hcf htt rng0 maxDepth workersOf cancelAt fuelDepth hD out hout).2.2

/-- **C07_writer_at_most_one, any schedule** -/
theorem C07_writer_at_most_one_any_schedule (out : Outcome) :
    (writerLines out.events).countP WLine.isBestmove ≤ 1 ∧
    ∀ t, WLine.bestmove t ∈ writerLines out.events → (writerLines out.events).getLast? = some (.bestmove t) :=
  C07_writer_at_most_one_events _

include hG hroot hcf htt hD hout in
/-- **C07_writer_bestmove_legal, any schedule**: whatever the interleaving of the workers in every iteration, a printed
`bestmove` names a legal move of the root and resolves back to it -/
theorem C07_writer_bestmove_legal_any_schedule (t : String) (h : WLine.bestmove t ∈ writerLines out.events) :
    LegalToken root t :=
  (writer_of_reportsLegal root (hG.good 0 root hroot).1 (hG.good 0 root hroot).2 _
    (searchS_reportsLegal hG D root hroot art hcf htt rng0 maxDepth workersOf cancelAt fuelDepth hD out hout)).1 t h

include hG hroot hcf htt hD hout in
/-- **C07_writer_pv_legal, any schedule** -/
theorem C07_writer_pv_legal_any_schedule (pv : List String) (h : WLine.infoPv pv ∈ writerLines out.events) :
    LegalPv root pv :=
  (writer_of_reportsLegal root (hG.good 0 root hroot).1 (hG.good 0 root hroot).2 _
    (searchS_reportsLegal hG D root hroot art hcf htt rng0 maxDepth workersOf cancelAt fuelDepth hD out hout)).2.1 pv h

end anySchedule

/-- the search thread does not panic under any schedule either (C04), so the artifact is handed back (`searchOk`) -/
theorem C07_search_no_panic_any_schedule (root : State) (rng0 : Rng.ChaCha8) (maxDepth : Option Nat) (art : Artifact)
    (workersOf : Nat → Nat) (cancelAt : Option Nat) (fuelDepth : Nat) (tables buckets : Nat)
    (hT : 0 < tables) (hB : 0 < buckets) (hl : LegalPos root = true) (hdj : DisjointBoard root.pieces)
    (hdep : art.tt.All SearchCtl.DepthOK) (hinv : TT.AInv Gen.bucketSize tables buckets art.tt)
    (hprio : SearchCtl.PrioritizedOK art root) (out : Outcome)
    (hout : SearchS root rng0 maxDepth art workersOf cancelAt fuelDepth out) : out.panic = Option.none :=
  (C04_search_any_schedule root rng0 maxDepth art workersOf cancelAt fuelDepth tables buckets hT hB hl hdj hdep hinv hprio
    out hout).1

/-! ## 4. the book arm -/

/-- **C07_book_bestmove_legal.**  The book built from ANY corpus with ANY key table (`C16_build`), a legal position `p`
with which no recorded position collides (`Book.CollisionFree`, the hypothesis of `C16_legal`), and `lookup(p) = Some(ms)`.
Then

* `ms` is not empty — the range `0..moves.len()` of `gen_range` is not empty and the index it returns is in bounds, so the
  book arm does not panic — and has no duplicates;
* whatever order the `HashSet` is iterated in (`order` any permutation of `ms`) and whatever index `i < len` is drawn:
  the chosen move is one of `compute_legal_moves(p)`, the arm prints `info string book move …` and
  `bestmove <Move.lan m>` — exactly one `bestmove` —, and that token resolves back to exactly `m` (`LegalToken`). -/
theorem C07_book_bestmove_legal (K : Keys) (games : List String) (t : Book.Table)
    (ht : Book.buildBookGames K games = .ok t) (p : State) (hp : LegalPos p = true) (hd : DisjointBoard p.pieces)
    (hK : Book.CollisionFree K games p) (ms : List Move) (h : Book.lookup K t p = some ms) :
    0 < ms.length ∧ ms.Nodup ∧
    ∀ order : List Move, order.Perm ms → ∀ (i : Nat) (hi : i < order.length),
      order[i] ∈ (legalMoves p).map (·.1) ∧
      bookLines order[i] = [.infoBook, .bestmove (Move.lan order[i])] ∧
      bestmoves (bookLines order[i]) = [Move.lan order[i]] ∧
      LegalToken p (Move.lan order[i]) := by
  obtain ⟨hnd, hne⟩ := Book.C16_answer_is_set K games t ht p ms h
  refine ⟨List.length_pos_iff.2 hne, hnd, fun order hperm i hi => ?_⟩
  have hmem : order[i] ∈ ms := hperm.mem_iff.1 (List.getElem_mem hi)
  have hleg : order[i] ∈ (legalMoves p).map (·.1) := Book.C16_legal K games t ht p hp hK _ ⟨ms, h, hmem⟩
  obtain ⟨r, hr, e⟩ := List.mem_map.1 hleg
  refine ⟨hleg, rfl, rfl, ?_⟩
  rw [← e]
  exact legalToken_of_mem p hp hd r hr

/-! ## 5. whole sessions

`Uci.run` produces the stream of marks; `runT` (`Wee/Proofs/WriterLemmas.lean`) is `run` with every mark tagged by the
session position before its command (`runT_untag`: forgetting the tags gives `run`; `go_position`: a
`searchStarted`/`bookMove` mark is produced by a `go` line, which does not move the position, so the tag is the position
the search is spawned on / the book is asked about).  `Transcript A …` (same file) refines a tagged stream by the lines
actually printed: the lines of the command loop where the model has `Out.line`; for `bookMove` the two lines of a book
answer; for `searchStarted` the writer lines of a search, emitted one by one at ARBITRARY moments while the search runs
(thread scheduling), but all of them before the `joinRunning` mark of that search is passed (`wait_cancel` joins the
writer thread).  The memory is threaded: a search started with the model's `reusesArtifact` flag set runs on the artifact
handed back by the most recently joined search, otherwise on fresh memory.

`sessionAnswers Fresh Q QB K tbl` instantiates the answers: a search answer is `writerLines out.events` for ANY outcome
`out` of `analyze_iterative` under ANY schedule of its workers (`SearchS`), any seed, worker counts, cancellation instant
(the timer thread and `stop` are cancellation instants), with the depth limit of the `go` line, on the incoming artifact or
— if there is none — on any artifact satisfying `Fresh`; a book answer is `bookLines m` for any element `m` of
`lookup(p)`.  `Q` / `QB` are extra facts recorded about each answer (`True` in the specification, the conclusions of
C03/C04/C16 in the theorem). -/

/-- what a search memory must satisfy for the theorems to apply: keys collision-free on the region, the C03 table
invariant, and `depth ≤ max_depth` for every entry (C04).  A fresh table satisfies the last two for every key table. -/
def ArtOK (R : State → Prop) (a : Artifact) : Prop :=
  CollisionFree a.keys.keys R ∧ TInv a.keys.keys R a.tt ∧ a.tt.All SearchCtl.DepthOK

theorem ArtOK.fresh {R : State → Prop} (keys : KeyTable) (history : List UInt64) (nT nB : Nat) (hT : 0 < nT)
    (hB : 0 < nB) (hcf : CollisionFree keys.keys R) :
    ArtOK R { keys := keys, tt := TT.Access.new nT nB, history := history } :=
  ⟨hcf, C03_TTInv_new keys.keys R hT hB, TT.Access.All.new _ _ _⟩

/-- what C03 + C04 give for one search of the session -/
def SearchGood (R : State → Prop) (p : State) (art : Artifact) (out : Outcome) : Prop :=
  out.panic = Option.none ∧ ArtOK R art ∧ ArtOK R out.artifact ∧ ReportsLegal p out.events

def sessionAnswers (Fresh : Artifact → Prop) (Q : State → Artifact → Outcome → Prop) (QB : State → Move → Prop)
    (K : Keys) (tbl : Book.Table) : Answers Artifact where
  search mem p d ws m :=
    ∃ (art : Artifact) (rng0 : Rng.ChaCha8) (workersOf : Nat → Nat) (cancelAt : Option Nat) (fuelDepth : Nat)
      (out : Outcome),
      (match mem with | some a => art = a | Option.none => Fresh art) ∧
      SearchS p rng0 d art workersOf cancelAt fuelDepth out ∧ Q p art out ∧
      ws = writerLines out.events ∧ m = out.artifact
  book p ws :=
    ∃ (ms order : List Move) (i : Nat) (hi : i < order.length),
      Book.lookup K tbl p = some ms ∧ order.Perm ms ∧ QB p order[i] ∧ ws = bookLines order[i]

/-- the specification: nothing extra recorded -/
abbrev sessionSpec (Fresh : Artifact → Prop) (K : Keys) (tbl : Book.Table) : Answers Artifact :=
  sessionAnswers Fresh (fun _ _ _ => True) (fun _ _ => True) K tbl

/-- what the theorem establishes for every answer of the session -/
abbrev sessionProved (R : State → Prop) (Fresh : Artifact → Prop) (K : Keys) (tbl : Book.Table) : Answers Artifact :=
  sessionAnswers Fresh (SearchGood R) (fun p m => m ∈ (legalMoves p).map (·.1) ∧ LegalToken p (Move.lan m)) K tbl

/-- what is claimed of a tagged output line: a `bestmove` names a legal move of the position it is tagged with and
resolves back to it; an `info pv` is a replayable non-empty legal line from that position -/
def LineOK (q : State) : WLine → Prop
  | .bestmove t => LegalToken q t
  | .infoPv pv => LegalPv q pv
  | _ => True

/-- C03 (+ artifact hand-over) and C04 for one search under any schedule, in the closed-region form -/
theorem searchS_good {R : State → Prop} (hR : Region R) (p : State) (hp : R p) (art : Artifact) (ha : ArtOK R art)
    (rng0 : Rng.ChaCha8) (d : Option Nat) (workersOf : Nat → Nat) (cancelAt : Option Nat) (fuelDepth : Nat)
    (out : Outcome) (hout : SearchS p rng0 d art workersOf cancelAt fuelDepth out) : SearchGood R p art out := by
  obtain ⟨hcf, htt, hdep⟩ := ha
  have hup : ∀ s, upTo (fun _ => R) (d.getD fuelDepth) s ↔ R s := upTo_const _
  obtain ⟨hk, htt', hrep⟩ := C03_search_any_schedule hR.graded (d.getD fuelDepth) p hp art
    (hcf.congr (fun s hs => (hup s).1 hs)) (htt.congr (fun s hs => (hup s).1 hs)) rng0 d workersOf cancelAt fuelDepth
    (Nat.le_refl _) out hout
  obtain ⟨nT, nB, hT, hB, hinv⟩ := htt.1
  have hprio : SearchCtl.PrioritizedOK art p := fun e he => htt.2 _ e he p hp rfl
  obtain ⟨hnp, hdep', _, _⟩ := C04_search_any_schedule p rng0 d art workersOf cancelAt fuelDepth nT nB hT hB
    (hR.good p hp).1 (hR.good p hp).2 hdep hinv hprio out hout
  refine ⟨hnp, ⟨hcf, htt, hdep⟩, ⟨?_, ?_, hdep'⟩, hrep⟩
  · rw [hk]; exact hcf
  · rw [hk]; exact htt'.congr (fun s hs => (hup s).2 hs)

/-- every line a good search prints is `LineOK`; it prints at most one `bestmove` -/
theorem searchGood_lines {R : State → Prop} (hR : Region R) (p : State) (hp : R p) (art : Artifact) (out : Outcome)
    (h : SearchGood R p art out) : ∀ w ∈ writerLines out.events, LineOK p w := by
  have hw := writer_of_reportsLegal p (hR.good p hp).1 (hR.good p hp).2 out.events h.2.2.2
  intro w hm
  cases w with
  | bestmove t => exact hw.1 t hm
  | infoPv pv => exact hw.2.1 pv hm
  | _ => trivial

section session
variable {R : State → Prop} (hR : Region R) (Fresh : Artifact → Prop) (hfresh : ∀ a, Fresh a → ArtOK R a)
  (K : Keys) (games : List String) (tbl : Book.Table) (hbuild : Book.buildBookGames K games = .ok tbl)
  (hbcf : ∀ p, R p → Book.CollisionFree K games p)

include hR hfresh hbuild hbcf in
/-- **C07_session_refined** (the invariant carried through a session).  Every transcript of the specification
(`sessionSpec`) — from a state whose stored and running artifacts are `ArtOK` — over a mark stream whose `go` positions lie
in the region is a transcript of `sessionProved`: EVERY search of the session ends without a panic of the search thread
(so the model's `searchOk` is true and the artifact is handed on), runs on an `ArtOK` artifact and hands back an `ArtOK`
artifact (C03 / C04 chained through the `previous_artifact` hand-over, whatever was searched before), reports only
non-empty legal lines; EVERY book move is a legal move of its position.  The artifact left at the end is `ArtOK`. -/
theorem C07_session_refined {last pend outs t last' pend'}
    (h : Transcript (sessionSpec Fresh K tbl) last pend outs t last' pend')
    (hP : ∀ o p, (o, p) ∈ outs → o.isStart = true → R p)
    (hlast : ∀ m0, last = some m0 → ArtOK R m0) (hpend : ∀ q ws m, pend = some (q, ws, m) → ArtOK R m) :
    Transcript (sessionProved R Fresh K tbl) last pend outs t last' pend' ∧
    (∀ m0, last' = some m0 → ArtOK R m0) ∧ (∀ q ws m, pend' = some (q, ws, m) → ArtOK R m) := by
  refine Transcript.strengthen R (ArtOK R) ?_ ?_ h hP hlast hpend
  · rintro mem p d ws m hp hmem ⟨art, rng0, workersOf, cancelAt, fuelDepth, out, hart, hout, _, rfl, rfl⟩
    have ha : ArtOK R art := by
      cases mem with
      | none => exact hfresh art hart
      | some a =>
        have e : art = a := hart
        rw [e]; exact hmem a rfl
    have hg := searchS_good hR p hp art ha rng0 d workersOf cancelAt fuelDepth out hout
    exact ⟨⟨art, rng0, workersOf, cancelAt, fuelDepth, out, hart, hout, hg, rfl, rfl⟩, hg.2.2.1⟩
  · rintro p ws hp ⟨ms, order, i, hi, hl, hperm, _, rfl⟩
    obtain ⟨_, _, hall⟩ := C07_book_bestmove_legal K games tbl hbuild p (hR.good p hp).1 (hR.good p hp).2 (hbcf p hp) ms hl
    obtain ⟨h1, _, _, h4⟩ := hall order hperm i hi
    exact ⟨ms, order, i, hi, hl, hperm, ⟨h1, h4⟩, rfl⟩

include hR in
/-- the lines of a `sessionProved` transcript -/
theorem sessionProved_lines {last pend outs t last' pend'}
    (h : Transcript (sessionProved R Fresh K tbl) last pend outs t last' pend')
    (hP : ∀ o p, (o, p) ∈ outs → o.isStart = true → R p)
    (hp : ∀ q ws m, pend = some (q, ws, m) → ∀ w ∈ ws, LineOK q w) :
    (∀ w q, (w, q) ∈ t → LineOK q w) ∧
    Transcript.nbest t + Transcript.pendBest pend' ≤ starts (outs.map (·.1)) + Transcript.pendBest pend := by
  -- the region hypothesis is needed inside the answers: strengthen once more with "the root is in the region"
  have hstr := Transcript.strengthen (A := sessionProved R Fresh K tbl)
    (A' := { search := fun mem p d ws m => (sessionProved R Fresh K tbl).search mem p d ws m ∧ R p,
             book := fun p ws => (sessionProved R Fresh K tbl).book p ws ∧ R p })
    R (fun _ => True) (fun mem p d ws m hp _ hs => ⟨⟨hs, hp⟩, trivial⟩) (fun p ws hp hb => ⟨hb, hp⟩) h hP
    (fun _ _ => trivial) (fun _ _ _ _ => trivial)
  refine ⟨?_, ?_⟩
  · refine Transcript.lines_ok LineOK ?_ ?_ (fun _ _ => trivial) hstr.1 hp
    · rintro mem p d ws m ⟨⟨art, rng0, workersOf, cancelAt, fuelDepth, out, _, _, hg, rfl, rfl⟩, hp⟩
      exact searchGood_lines hR p hp art out hg
    · rintro p ws ⟨⟨ms, order, i, hi, _, _, ⟨_, h4⟩, rfl⟩, _⟩ w hw
      simp only [bookLines, List.mem_cons, List.not_mem_nil, or_false] at hw
      rcases hw with rfl | rfl
      · trivial
      · exact h4
  · refine Transcript.count_le ?_ ?_ h
    · rintro mem p d ws m ⟨art, rng0, workersOf, cancelAt, fuelDepth, out, _, _, _, rfl, rfl⟩
      exact bestmoves_length_le_one _
    · rintro p ws ⟨ms, order, i, hi, _, _, _, rfl⟩
      exact Nat.le_refl _

include hR hfresh hbuild hbcf in
/-- **C07_session_bestmoves.**  A whole session of the real command loop, at the model level.

*Setting.*  A region `R` of legal positions closed under legal moves; the artifacts a search may create when it is given
none (`Fresh`) have keys that are collision-free on `R` and a fresh table (`ArtOK`); the book is built from any corpus with
any key table and no recorded position collides with a position of `R`.  The session starts in a state `s` (without running
search and without stored artifact, e.g. `Sess.init`: the transcript starts from the empty state `none none`, and for other
`s` no such transcript exists — `C07_session_refined` is the form for arbitrary initial states), reads ANY list of input
lines (arbitrary text), the book predicate of the loop is `lookup(p).is_some()`, and the loop does not panic:
`runT … = some (s', touts)`.  Every `go` is issued in a
position of `R` (`hpos`).  `t` is ANY transcript of the specification `sessionSpec` for the tagged marks `touts`: every
search replaced by the writer lines of any outcome of `analyze_iterative` (any schedule of the workers, seed, worker
counts, cancellation instant; memory handed on as the loop does), every book mark by a book answer, writer lines
interleaved with the loop's lines in any way that respects the join.

*Conclusion.*
1. the number of `bestmove` lines is at most the number of `go` lines read (those before the first `quit`);
2. every `bestmove` line names a legal move of the position it is tagged with and resolves back to exactly that move
   through the UCI token parser and `MoveQuery::test` (`LegalToken`); that position is the `Sess.pos` at a `go` of the
   session — the tag of a `searchStarted`/`bookMove` mark of `touts` (`go_position`);
3. every `info pv` line is a non-empty legal line from the position of its `go`, replayable by `position … moves`;
4. the transcript is one of `sessionProved`: no search thread of the session panics, every search runs on and hands back an
   `ArtOK` artifact, every book move is legal; the artifact stored at the end is `ArtOK`.

That each `bestmove` is printed before the output of the next joining command is `C07_session_join_barrier` (with
`C07_join_first`: the join mark is the first output of `go`/`position`/`stop`/`ucinewgame`). -/
theorem C07_session_bestmoves (s : Sess) (lines : List String) (s' : Sess)
    (touts : List (Out × State))
    (hrun : runT (fun p => (Book.lookup K tbl p).isSome) s lines = some (s', touts))
    (hpos : ∀ o p, (o, p) ∈ touts → o.isStart = true → R p)
    (t : List (WLine × State)) (last' : Option Artifact)
    (htr : Transcript (sessionSpec Fresh K tbl) Option.none Option.none touts t last' Option.none) :
    Transcript.nbest t ≤ (processed lines).countP isGo ∧
    (∀ tok q, (WLine.bestmove tok, q) ∈ t → LegalToken q tok ∧ ∃ o, (o, q) ∈ touts ∧ o.isStart = true) ∧
    (∀ pv q, (WLine.infoPv pv, q) ∈ t → LegalPv q pv) ∧
    Transcript (sessionProved R Fresh K tbl) Option.none Option.none touts t last' Option.none ∧
    (∀ m0, last' = some m0 → ArtOK R m0) := by
  obtain ⟨hprov, hl', _⟩ := C07_session_refined hR Fresh hfresh K games tbl hbuild hbcf htr hpos
    (fun _ e => nomatch e) (fun _ _ _ e => nomatch e)
  obtain ⟨hok, hcnt⟩ := sessionProved_lines hR Fresh K tbl hprov hpos (fun _ _ _ e => nomatch e)
  have hrun' := runT_untag (fun p => (Book.lookup K tbl p).isSome) lines s
  rw [hrun] at hrun'
  obtain ⟨_, _, hstarts⟩ := C07_bestmove_structure _ s lines s' (touts.map (·.1)) hrun'.symm
  refine ⟨?_, fun tok q hm => ⟨hok _ q hm, ?_⟩, fun pv q hm => hok _ q hm, hprov, hl'⟩
  · simp only [Transcript.pendBest, Nat.add_zero] at hcnt
    rw [← hstarts]; exact hcnt
  · rcases Transcript.tag_origin htr _ q hm with ⟨_, e⟩ | ⟨_, _, e, _⟩ | h3
    · cases e
    · cases e
    · exact h3

end session

/-- **C07_session_join_barrier.**  Cut the tagged mark stream of a session at ANY `joinRunning` mark.  Every transcript
splits at that point into the lines printed before the mark is passed and those printed after; when the mark is passed the
joined search has printed all its lines.  Hence the `bestmove` of a search precedes every line the joining command prints
after its join mark — by `C07_join_first` all its output — and every line of all later commands.  (For any answers `A`.) -/
theorem C07_session_join_barrier {μ : Type} {A : Answers μ} {last pend last' pend'} (o₁ o₂ : List (Out × State))
    (p : State) (t : List (WLine × State))
    (h : Transcript A last pend (o₁ ++ (.joinRunning, p) :: o₂) t last' pend') :
    ∃ t₁ t₂ last₁ q m, t = t₁ ++ t₂ ∧ Transcript A last pend o₁ t₁ last₁ (some (q, [], m)) ∧
      Transcript A (some m) Option.none o₂ t₂ last' pend' :=
  Transcript.split_join o₁ h

/-- **exactly one per `go`.**  If every search of the session reports (e.g. by `C07_writer_exactly_one`: every answer has
exactly one `bestmove`), the number of `bestmove` lines EQUALS the number of `go` lines read.  (For any answers `A`.) -/
theorem C07_session_exactly_one {μ : Type} {A : Answers μ}
    (hS : ∀ mem p d ws m, A.search mem p d ws m → (bestmoves ws).length = 1)
    (hB : ∀ p ws, A.book p ws → (bestmoves ws).length = 1)
    (hasBook : State → Bool) (s : Sess) (lines : List String) (s' : Sess) (touts : List (Out × State))
    (hrun : runT hasBook s lines = some (s', touts)) (t : List (WLine × State)) (last last' : Option μ)
    (htr : Transcript A last Option.none touts t last' Option.none) :
    Transcript.nbest t = (processed lines).countP isGo := by
  have hrun' := runT_untag hasBook lines s
  rw [hrun] at hrun'
  obtain ⟨_, _, hstarts⟩ := C07_bestmove_structure _ s lines s' (touts.map (·.1)) hrun'.symm
  have := Transcript.count_eq hS hB htr
  simp only [Transcript.pendBest, Nat.add_zero] at this
  rw [← hstarts]; exact this

/-- **the specification is satisfiable for every session**: from a state without running search and without stored
artifact (e.g. `Sess.init`) every tagged stream of `runT` has a transcript, as soon as some fresh artifact exists — in
particular the side condition of `Transcript.start` (an artifact is re-used only if one was handed back since the previous
start) holds in every such session (`run_artOK`).  So `C07_session_bestmoves` never holds vacuously. -/
theorem C07_session_transcript_exists (Fresh : Artifact → Prop) (a0 : Artifact) (h0 : Fresh a0) (K : Keys)
    (tbl : Book.Table) (s : Sess) (hs : s.searching = false) (hsa : s.artifact = false) (lines : List String) (s' : Sess)
    (touts : List (Out × State))
    (hrun : runT (fun p => (Book.lookup K tbl p).isSome) s lines = some (s', touts)) :
    ∃ t last', Transcript (sessionSpec Fresh K tbl) Option.none Option.none touts t last' Option.none := by
  have hrun' := runT_untag (fun p => (Book.lookup K tbl p).isSome) lines s
  rw [hrun] at hrun'
  obtain ⟨hbal, _, _⟩ := C07_bestmove_structure _ s lines s' (touts.map (·.1)) hrun'.symm
  rw [hs] at hbal
  have hart : artOK false (touts.map (·.1)) = true :=
    run_artOK _ lines s s' _ hrun'.symm false (fun e => by rw [hsa] at e; cases e)
  refine Transcript.exists_of_scan ?_ touts false hbal ?_ Option.none Option.none rfl hart
  · intro mem p d
    cases mem with
    | none =>
      exact ⟨_, _, a0, default, fun _ => 1, Option.none, 64, _, h0,
        Interleave_iterate_is_schedule p default d a0 (fun _ => 1) Option.none 64, trivial, rfl, rfl⟩
    | some a =>
      exact ⟨_, _, a, default, fun _ => 1, Option.none, 64, _, rfl,
        Interleave_iterate_is_schedule p default d a (fun _ => 1) Option.none 64, trivial, rfl, rfl⟩
  · intro p hm
    have hb := (runT_marks _ lines s s' touts hrun _ p hm rfl).1 rfl
    cases hl : Book.lookup K tbl p with
    | none => rw [hl] at hb; cases hb
    | some ms =>
      cases ms with
      | nil =>
        exfalso
        unfold Book.lookup at hl
        split at hl
        · split at hl
          · cases hl
          · rename_i hne; cases hl; exact hne rfl
        · cases hl
      | cons m rest =>
        exact ⟨_, m :: rest, m :: rest, 0, Nat.succ_pos _, hl, List.Perm.refl _, trivial, rfl⟩

/-! ## 6. non-vacuity

The example position of `Wee/Props/C03.lean` (`c03Root`: White Kh1 Pg2 Pa6 Pc6, Black Ka8 Pa7 Pg3 Ph2, White to move; the only
legal move c6-c7 stalemates Black; region `c03R`, toy key table `c03KeyTable`, fresh 2 × 4 table `c03Art`), the mate-in-one
position of `Wee/Props/C06Complete.lean` (`compRoot`), the mated position of C05, the two-game book of
`Wee/Props/C16.lean`, and a concrete session.  Everything is kernel-checked. -/

section examples
open Wee.Book (toyGames)

/-! ### the writer, computed -/

set_option maxRecDepth 1000000 in
theorem c03Move_lan : Move.lan c03Move = "c6c7" := by decide +kernel

set_option maxRecDepth 1000000 in
/-- the writer on a typical event sequence of a depth-1 search of the example -/
example : writerLines [.progress 1 3, .best 0 [c03Move], .warning] =
    [.infoTime 1 3, .infoScore 0, .infoPv ["c6c7"], .infoWarning, .bestmove "c6c7"] := by decide +kernel

/-- `best_line` is overwritten by every `BestMove` event: only the LAST report counts … -/
example (m m' : Move) : bestmoves (writerLines [.best 5 [m], .progress 2 9, .best 7 [m', m]]) = [Move.lan m'] := rfl

/-- … and if the last report carried an empty line the writer would print NO `bestmove` although a move was reported before:
this is the case that `C03_reported_lines_legal` (lines are never empty) excludes -/
example (m : Move) : bestmoves (writerLines [.best 5 [m], .best 7 []]) = [] := rfl

/-! ### `C07_writer_bestmove_legal`, `C07_writer_pv_legal`, `C07_writer_one_iff_reported`: all hypotheses discharged -/

example (rng0 : Rng.ChaCha8) (maxDepth : Option Nat) (workersOf : Nat → Nat) (cancelAt : Option Nat) (fuelDepth : Nat) :
    (∀ t, WLine.bestmove t ∈ writerLines (iterate c03Root rng0 maxDepth c03Art workersOf cancelAt fuelDepth).events →
      LegalToken c03Root t) ∧
    (∀ pv, WLine.infoPv pv ∈ writerLines (iterate c03Root rng0 maxDepth c03Art workersOf cancelAt fuelDepth).events →
      LegalPv c03Root pv) :=
  ⟨C07_writer_bestmove_legal c03_region c03Root (Or.inl rfl) c03Art c03_collisionFree
     (C03_TTInv_new _ _ (by decide) (by decide)) rng0 maxDepth workersOf cancelAt fuelDepth,
   C07_writer_pv_legal c03_region c03Root (Or.inl rfl) c03Art c03_collisionFree
     (C03_TTInv_new _ _ (by decide) (by decide)) rng0 maxDepth workersOf cancelAt fuelDepth⟩

/-- in the example a `LegalToken` of the root can only be `c6c7` -/
theorem c03_legalToken (t : String) (h : LegalToken c03Root t) : t = "c6c7" := by
  obtain ⟨r, hr, rfl, _⟩ := h
  rw [c03_moves_root, List.mem_singleton] at hr
  subst hr
  exact c03Move_lan

/-- **`C07_writer_exactly_one` instantiated**: for every seed, depth limit ≥ 1, history and table shape the search of the
example does not panic and its writer prints exactly one `bestmove`, namely `bestmove c6c7`, as its last line -/
example (rng0 : Rng.ChaCha8) (d : Nat) (hd : 1 ≤ d) (history : List UInt64) (nT nB : Nat) (hT : 0 < nT) (hB : 0 < nB) :
    let out := iterate c03Root rng0 (some d) { keys := c03KeyTable, tt := TT.Access.new nT nB, history := history }
      (fun _ => 1) Option.none 64
    out.panic = Option.none ∧ bestmoves (writerLines out.events) = ["c6c7"] ∧
      (writerLines out.events).getLast? = some (.bestmove "c6c7") := by
  intro out
  obtain ⟨hnp, t, h1, h2, h3⟩ := C07_writer_exactly_one c03_region c03_evalBelowMate c03Root (Or.inl rfl)
    (by rw [c03_moves_root]; exact List.cons_ne_nil _ _) c03KeyTable history nT nB hT hB c03_collisionFree rng0 d hd
    (fun _ => 1) rfl 64
  have := c03_legalToken t h3
  subst this
  exact ⟨hnp, h1, h2⟩

/-- **`C07_writer_exactly_one_any_cancel` instantiated**: whenever `Stop` arrives — `cancelAt` arbitrary, e.g. `some 0`:
the flag is already set at the first poll — the search of the example prints exactly `bestmove c6c7` -/
example (rng0 : Rng.ChaCha8) (d : Nat) (hd : 1 ≤ d) (history : List UInt64) (nT nB : Nat) (hT : 0 < nT) (hB : 0 < nB)
    (cancelAt : Option Nat) :
    let out := iterate c03Root rng0 (some d) { keys := c03KeyTable, tt := TT.Access.new nT nB, history := history }
      (fun _ => 1) cancelAt 64
    out.panic = Option.none ∧ bestmoves (writerLines out.events) = ["c6c7"] := by
  intro out
  obtain ⟨hnp, t, h1, _, h3⟩ := C07_writer_exactly_one_any_cancel c03_region c03_evalBelowMate c03Root (Or.inl rfl)
    (by rw [c03_moves_root]; exact List.cons_ne_nil _ _) (by rw [c03_moves_root]; decide) c03KeyTable history nT nB hT hB
    c03_collisionFree rng0 d hd (fun _ => 1) rfl cancelAt 64
  have := c03_legalToken t h3
  subst this
  exact ⟨hnp, h1⟩

set_option maxRecDepth 1000000 in
theorem comp_lan : Move.lan C06.compA.1 = "a6b7" ∧ Move.lan C06.compC.1 = "c6b7" := by decide +kernel

/-- **`C07_writer_exactly_one_mate` instantiated** (`k1n5/PpP5/PPP5/8/8/6p1/6Pp/7K w - - 0 1`, mate in one by a6xb7 or
c6xb7): for every table geometry, seed and depth limit ≥ 1 the writer prints exactly one `bestmove`, it is `a6b7` or
`c6b7`, and the move mates -/
example (nT nB : Nat) (hT : 0 < nT) (hB : 0 < nB) (rng0 : Rng.ChaCha8) (d : Nat) (hd : 1 ≤ d) :
    let out := iterate C06.compRoot rng0 (some d) { keys := C06.compKeys, tt := TT.Access.new nT nB, history := [] }
      (fun _ => 1) Option.none 64
    out.panic = Option.none ∧
    (bestmoves (writerLines out.events) = ["a6b7"] ∨ bestmoves (writerLines out.events) = ["c6b7"]) := by
  intro out
  obtain ⟨hnp, r, hr, hb, _, _, _⟩ := C07_writer_exactly_one_mate C06.compRoot 1 d C06.compKeys nT nB rng0 64
    C06.compRoot_hyps.1 C06.compRoot_hyps.2.1 C06.compRoot_hyps.2.2.1 C06.compRoot_hyps.2.2.2.1
    C06.compRoot_hyps.2.2.2.2.1 hT hB C06.compRoot_hyps.2.2.2.2.2 hd
  refine ⟨hnp, ?_⟩
  rw [C06.compRoot_facts.2.2.2.2.1] at hr
  simp only [List.mem_cons, List.not_mem_nil, or_false] at hr
  rcases hr with rfl | rfl
  · left; rw [hb, comp_lan.1]
  · right; rw [hb, comp_lan.2]

/-- **`C07_writer_terminal_root` instantiated**: the mated and the stalemated position of C05 -/
example (rng0 : Rng.ChaCha8) (maxDepth : Option Nat) (art : Artifact) (workersOf : Nat → Nat) (cancelAt : Option Nat) :
    bestmoves (writerLines (iterate C05.mateS rng0 maxDepth art workersOf cancelAt).events) = [] ∧
    bestmoves (writerLines (iterate C05.staleS rng0 maxDepth art workersOf cancelAt).events) = [] :=
  ⟨(C07_writer_terminal_root C05.mateS rng0 maxDepth art workersOf cancelAt 64 (by decide +kernel)).2.1,
   (C07_writer_terminal_root C05.staleS rng0 maxDepth art workersOf cancelAt 64 (by decide +kernel)).2.1⟩

/-! ### any schedule: the two-worker execution of `Wee/Props/Interleave.lean` that is NOT sequential -/

/-- for every seed there is an outcome of the search of the example under a non-sequential schedule of two workers
(`il_searchS`); all hypotheses of the `…_any_schedule` theorems hold for it, and its writer prints exactly `bestmove c6c7` -/
example (rng0 : Rng.ChaCha8) :
    ∃ out, SearchS c03Root rng0 (some 1) InterleaveExample.ilArt (fun _ => 2) Option.none 64 out ∧
      bestmoves (writerLines out.events) = ["c6c7"] ∧ ∀ pv, WLine.infoPv pv ∈ writerLines out.events → LegalPv c03Root pv := by
  obtain ⟨out, hout, _, hev⟩ := InterleaveExample.il_searchS rng0
  have hG : Graded (fun _ : Nat => c03R) := c03_region.graded
  have hup : ∀ s, upTo (fun _ => c03R) 1 s → c03R s := fun s hs => (upTo_const 1 s).1 hs
  have hcf : CollisionFree InterleaveExample.ilArt.keys.keys (upTo (fun _ => c03R) 1) := c03_collisionFree.congr hup
  have htt : TInv InterleaveExample.ilArt.keys.keys (upTo (fun _ => c03R) 1) InterleaveExample.ilArt.tt :=
    (C03_TTInv_new c03KeyTable.keys c03R (by decide) (by decide)).congr hup
  have hrep := searchS_reportsLegal hG 1 c03Root (Or.inl rfl) InterleaveExample.ilArt hcf htt rng0 (some 1) (fun _ => 2)
    Option.none 64 (Nat.le_refl _) out hout
  have hw := writer_of_reportsLegal c03Root c03_legal_root (by decide) out.events hrep
  refine ⟨out, hout, ?_, fun pv h =>
    C07_writer_pv_legal_any_schedule hG 1 c03Root (Or.inl rfl) InterleaveExample.ilArt hcf htt rng0 (some 1) (fun _ => 2)
      Option.none 64 (Nat.le_refl _) out hout pv h⟩
  have hone : (bestmoves (writerLines out.events)).length = 1 := by
    rw [bestmoves_length]; exact hw.2.2.2 ⟨_, _, hev⟩
  match hb : bestmoves (writerLines out.events), hone with
  | [t], _ =>
    have ht : WLine.bestmove t ∈ writerLines out.events := mem_bestmoves.1 (by rw [hb]; exact List.mem_singleton.2 rfl)
    have := c03_legalToken t (C07_writer_bestmove_legal_any_schedule hG 1 c03Root (Or.inl rfl) InterleaveExample.ilArt hcf
      htt rng0 (some 1) (fun _ => 2) Option.none 64 (Nat.le_refl _) out hout t ht)
    rw [this]

/-! ### the book arm: the two-game corpus of C16, for EVERY key table -/

/-- what is recorded in `["1. e4 1-0", "1.d4 1/2-1/2"]`: two moves from the initial position -/
theorem toy_recorded (q : State) (m : Move) (h : Book.Recorded toyGames q m) : q = startState := by
  obtain ⟨me, hpe, _⟩ := Book.toy_e4
  obtain ⟨md, hpd, _⟩ := Book.toy_d4
  obtain ⟨g, hg, l, hl, hm⟩ := h
  simp only [toyGames, List.mem_cons, List.not_mem_nil, or_false] at hg
  rcases hg with rfl | rfl
  · rw [hpe] at hl; cases hl
    simp only [List.mem_cons, Prod.mk.injEq, List.not_mem_nil, or_false] at hm
    exact hm.1
  · rw [hpd] at hl; cases hl
    simp only [List.mem_cons, Prod.mk.injEq, List.not_mem_nil, or_false] at hm
    exact hm.1

/-- **`C07_book_bestmove_legal` instantiated**: for every key table the toy book builds, answers for the initial position
with a non-empty duplicate-free set, and whichever element is drawn, the arm prints a `bestmove` that is a `LegalToken` of
the initial position -/
example (K : Keys) : ∃ t ms, Book.buildBookGames K toyGames = .ok t ∧ Book.lookup K t startState = some ms ∧
    0 < ms.length ∧ ms.Nodup ∧
    ∀ order : List Move, order.Perm ms → ∀ (i : Nat) (hi : i < order.length),
      bestmoves (bookLines order[i]) = [Move.lan order[i]] ∧ LegalToken startState (Move.lan order[i]) := by
  obtain ⟨t, me, md, ht, _, _, hall⟩ := Book.toy_book K
  obtain ⟨ms, hms, _⟩ := ((hall startState rfl).1 me).2 (Or.inl rfl)
  have hcf : Book.CollisionFree K toyGames startState := fun q m hr _ => by rw [toy_recorded q m hr]
  obtain ⟨h1, h2, h3⟩ := C07_book_bestmove_legal K toyGames t ht startState startState_legal startState_disjoint hcf ms hms
  exact ⟨t, ms, ht, hms, h1, h2, fun order hp i hi => ⟨(h3 order hp i hi).2.2.1, (h3 order hp i hi).2.2.2⟩⟩

/-! ### a whole session

`position fen k7/p7/P1P5/8/8/6p1/6Pp/7K w - - 0 1`, `go depth 1`, `isready` (answered while the search runs),
`go depth 2` (joins the first search, then searches again ON THE ARTIFACT THE FIRST SEARCH HANDED BACK:
`reusesArtifact = true`), `stop`.  Empty book (so the loop always searches); fresh artifacts = `c03Art`; region `c03R`. -/

def exLines : List String :=
  ["position fen k7/p7/P1P5/8/8/6p1/6Pp/7K w - - 0 1", "go depth 1", "isready", "go depth 2", "stop"]

def exTouts : List (Out × State) :=
  [(.searchStarted (some 1) Option.none false, c03Root), (.line "readyok", c03Root), (.joinRunning, c03Root),
   (.searchStarted (some 2) Option.none true, c03Root), (.joinRunning, c03Root)]

theorem lookup_empty (K : Keys) (p : State) : Book.lookup K (∅ : Book.Table) p = Option.none := by
  unfold Book.lookup Book.find
  simp

set_option maxRecDepth 1000000 in
theorem ex_runT (K : Keys) :
    (runT (fun p => (Book.lookup K (∅ : Book.Table) p).isSome) Sess.init exLines).map (·.2) = some exTouts := by
  have : (fun p => (Book.lookup K (∅ : Book.Table) p).isSome) = fun _ => false := by
    funext p; rw [lookup_empty]; rfl
  rw [this]
  decide +kernel

/-- **`C07_session_bestmoves` instantiated.**  The session above has transcripts (`C07_session_transcript_exists`), and for
EVERY transcript `t` of the specification — whatever the seeds, schedules, cancellation instants of the two searches and
however the writer lines interleave with `readyok` — all hypotheses of `C07_session_bestmoves` hold.  Hence: at most two
`bestmove` lines for the two `go` lines; each of them is `bestmove c6c7`; no search thread panics; the second search runs on
the artifact handed back by the first. -/
example (K : Keys) :
    (∃ t last', Transcript (sessionSpec (· = c03Art) K ∅) Option.none Option.none exTouts t last' Option.none) ∧
    ∀ t last', Transcript (sessionSpec (· = c03Art) K ∅) Option.none Option.none exTouts t last' Option.none →
      Transcript.nbest t ≤ 2 ∧ (∀ tok q, (WLine.bestmove tok, q) ∈ t → q = c03Root ∧ tok = "c6c7") ∧
      Transcript (sessionProved c03R (· = c03Art) K ∅) Option.none Option.none exTouts t last' Option.none := by
  cases hrun : runT (fun p => (Book.lookup K (∅ : Book.Table) p).isSome) Sess.init exLines with
  | none => have := ex_runT K; rw [hrun] at this; cases this
  | some r =>
    obtain ⟨s', touts⟩ := r
    have ht : touts = exTouts := by have := ex_runT K; rw [hrun] at this; exact Option.some.inj this
    subst ht
    have hfresh : ∀ a, a = c03Art → ArtOK c03R a := by
      rintro a rfl
      exact ArtOK.fresh c03KeyTable [] 2 4 (by decide) (by decide) c03_collisionFree
    have hpos : ∀ o p, (o, p) ∈ exTouts → o.isStart = true → c03R p := by
      intro o p hm _
      simp only [exTouts, List.mem_cons, Prod.mk.injEq, List.not_mem_nil, or_false] at hm
      rcases hm with ⟨_, rfl⟩ | ⟨_, rfl⟩ | ⟨_, rfl⟩ | ⟨_, rfl⟩ | ⟨_, rfl⟩ <;> exact Or.inl rfl
    refine ⟨C07_session_transcript_exists (· = c03Art) c03Art rfl K ∅ Sess.init rfl rfl exLines s' exTouts hrun, ?_⟩
    intro t last' htr
    obtain ⟨h1, h2, _, h4, _⟩ := C07_session_bestmoves c03_region (· = c03Art) hfresh K [] ∅ rfl
      (fun p _ q m hr => by obtain ⟨g, hg, _⟩ := hr; cases hg) Sess.init exLines s' exTouts hrun hpos t last' htr
    refine ⟨?_, fun tok q hm => ?_, h4⟩
    · have hc : (processed exLines).countP isGo = 2 := by decide
      rw [hc] at h1; exact h1
    · obtain ⟨hlt, o, ho, _⟩ := h2 tok q hm
      have hq : q = c03Root := by
        simp only [exTouts, List.mem_cons, Prod.mk.injEq, List.not_mem_nil, or_false] at ho
        rcases ho with ⟨_, rfl⟩ | ⟨_, rfl⟩ | ⟨_, rfl⟩ | ⟨_, rfl⟩ | ⟨_, rfl⟩ <;> rfl
      subst hq
      exact ⟨rfl, c03_legalToken tok hlt⟩

/-- the join barrier on the example: cut at the first `joinRunning` (the one the second `go` prints first): everything the
first search's writer prints is in the first part, the second search's lines in the second -/
example (K : Keys) (t : List (WLine × State)) (last' : Option Artifact)
    (htr : Transcript (sessionSpec (· = c03Art) K ∅) Option.none Option.none exTouts t last' Option.none) :
    ∃ t₁ t₂ last₁ q m, t = t₁ ++ t₂ ∧
      Transcript (sessionSpec (· = c03Art) K ∅) Option.none Option.none
        [(.searchStarted (some 1) Option.none false, c03Root), (.line "readyok", c03Root)] t₁ last₁ (some (q, [], m)) ∧
      Transcript (sessionSpec (· = c03Art) K ∅) (some m) Option.none
        [(.searchStarted (some 2) Option.none true, c03Root), (.joinRunning, c03Root)] t₂ last' Option.none :=
  C07_session_join_barrier [(.searchStarted (some 1) Option.none false, c03Root), (.line "readyok", c03Root)] _ c03Root t htr

end examples

end Wee.Uci
