import Wee.Proofs.TTLemmas
/-!
# C15 — the transposition table is a faithful bounded map

Rust: `searcher.rs`, `TranspositionBucket::{find, insert_or_replace}`, `TranspositionTable::{find,
insert, entries, max_entries}`, `TranspositionTableAccess::{insert, find, entries, max_entries}`.
Model: `Wee/Model/TT.lean` (`Wee.TT.insertB`, `findB`, `Table`, `Access`).

All theorems quantify over ARBITRARY sequences of operations applied to a fresh access layer of any
shape `tables × buckets` with `tables ≥ 1`, `buckets ≥ 1` (Rust: `with_tables` asserts
`tables.len() > 0`; `buckets = 0` makes `hash % 0` panic) and buckets of `Gen.bucketSize` (= 8) slots.

## Concurrency

In Rust every `TranspositionTableAccess::{insert, find}` computes `index = hash % tables.len()`
(pure, no shared state) and then runs the whole `TranspositionTable::{insert, find}` — bucket scan,
slot write and the `used_slots` update — under ONE `RwLock` guard (`write()` resp. `read()`) of ONE
sub-table; the result of `find` is copied out before the guard is dropped.  `entries`/`max_entries`
take the read locks one after the other and only read.  Therefore a concurrent history of inserts
and finds is linearizable: it is equivalent to the sequential history obtained by ordering the
operations by the moment they held their guard (the "ticket order" recorded inside the critical
section by the harness).  That sequential history is one of the `ops : List Op` quantified over
below, so `C15_find`, `C15_inv`, `C15_count`, `C15_retained`, `C15_no_overflow` hold for every
interleaving of every number of threads.  Moreover operations on different sub-tables commute
(`C15_insert_comm`, `C15_find_insert_comm`), so any two linearizations that agree on the per-lock
order — in particular the ticket-ordered log replayed on the model — produce the same state and
the same results.  What is trusted: `RwLock` mutual exclusion; lock poisoning is out of scope.
-/
namespace Wee.TT

/-- one operation on the access layer -/
inductive Op
  | insert (k : Nat) (e : Entry)
  | find (k : Nat)
deriving DecidableEq, Repr

/-- effect of one operation on the state (a `find` does not change the state; its result in state
`a` is `a.find k`) -/
def step (a : Access) : Op → Access
  | .insert k e => a.insert k e
  | .find _ => a

/-- state after a sequence of operations (head of the list = oldest operation) -/
def run (a : Access) (ops : List Op) : Access := ops.foldl step a

/-- the entry carried by an operation if it is an insert under exactly key `k` -/
def Op.entryFor (k : Nat) : Op → Option Entry
  | .insert k' e => if k' = k then some e else none
  | .find _ => none

/-- abstract history spec: the entry of the most recent `insert` under exactly key `k` -/
def latest (ops : List Op) (k : Nat) : Option Entry := ops.reverse.findSome? (Op.entryFor k)

/-! ## helper lemmas about `run` / `latest` -/

theorem run_snoc (a : Access) (ops : List Op) (op : Op) :
    run a (ops ++ [op]) = step (run a ops) op := by
  simp [run, List.foldl_append]

theorem run_append (a : Access) (ops ops' : List Op) :
    run a (ops ++ ops') = run (run a ops) ops' := by
  simp [run, List.foldl_append]

theorem latest_snoc_insert (ops : List Op) (k' : Nat) (e : Entry) (k : Nat) :
    latest (ops ++ [.insert k' e]) k = if k' = k then some e else latest ops k := by
  unfold latest
  rw [List.reverse_append]
  by_cases h : k' = k <;> simp [Op.entryFor, h]

theorem latest_snoc_find (ops : List Op) (k' : Nat) (k : Nat) :
    latest (ops ++ [.find k']) k = latest ops k := by
  unfold latest
  rw [List.reverse_append]
  simp [List.findSome?_cons, Op.entryFor]

theorem latest_some_mem {ops : List Op} {k : Nat} {e : Entry} (h : latest ops k = some e) :
    Op.insert k e ∈ ops := by
  obtain ⟨op, hm, hop⟩ := List.exists_of_findSome?_eq_some h
  rw [List.mem_reverse] at hm
  cases op with
  | find k' => simp [Op.entryFor] at hop
  | insert k' e' =>
    simp only [Op.entryFor] at hop
    split at hop
    · rename_i hk; subst hk; cases hop; exact hm
    · cases hop

theorem snoc_induction {α : Type} {P : List α → Prop} (nil : P [])
    (snoc : ∀ l a, P l → P (l ++ [a])) : ∀ l, P l := by
  intro l
  rw [← List.reverse_reverse l]
  induction l.reverse with
  | nil => exact nil
  | cons a t ih => rw [List.reverse_cons]; exact snoc _ a ih

/-- every reachable state satisfies the access-layer invariant -/
theorem run_inv {tables buckets : Nat} (hT : 0 < tables) (hB : 0 < buckets) (ops : List Op) :
    AInv Gen.bucketSize tables buckets (run (Access.new tables buckets) ops) := by
  induction ops using snoc_induction with
  | nil => exact AInv.new tables buckets
  | snoc ops op ih =>
    rw [run_snoc]
    cases op with
    | find k => exact ih
    | insert k e => exact ih.insert (by decide) hT hB k e

theorem step_inv {L nT nB : Nat} {a : Access} (h : AInv L nT nB a) (hL : 0 < L) (hT : 0 < nT)
    (hB : 0 < nB) (op : Op) : AInv L nT nB (step a op) := by
  cases op with
  | find k => exact h
  | insert k e => exact h.insert hL hT hB k e

/-! ## C15_find -/

/-- **C15 (faithfulness).** After any sequence of operations on a fresh `tables × buckets` access
layer, `find k` returns either nothing or the entry of the MOST RECENT insert under exactly the key
`k` — never an entry stored under another key, never an older entry of the same key.  Because `ops`
is arbitrary this also covers every intermediate `find`: the result of a `find k` executed after the
prefix `pre` of a history is `(run init pre).find k`. -/
theorem C15_find (tables buckets : Nat) (hT : 0 < tables) (hB : 0 < buckets) (ops : List Op)
    (k : Nat) :
    (run (Access.new tables buckets) ops).find k = none ∨
    (run (Access.new tables buckets) ops).find k = latest ops k := by
  induction ops using snoc_induction with
  | nil => exact Or.inl (Access.new_find hT hB k)
  | snoc ops op ih =>
    rw [run_snoc]
    cases op with
    | find k' => rw [latest_snoc_find]; exact ih
    | insert k' e =>
      have hinv := run_inv hT hB ops
      rw [latest_snoc_insert]
      by_cases hk : k' = k
      · subst hk
        rw [if_pos rfl]
        exact Or.inr (hinv.find_insert_self (by decide) hT hB k' e)
      · rw [if_neg hk]
        rcases hinv.find_insert_other (by decide) hT hB k' e k (Ne.symm hk) with h | h
        · exact Or.inl h
        · show (Access.insert _ k' e).find k = none ∨ (Access.insert _ k' e).find k = latest ops k
          rw [h]; exact ih

example : (run (Access.new 2 3) [.insert 7 default, .insert 13 { (default : Entry) with depth := 4 },
    .find 7, .insert 7 { (default : Entry) with depth := 9 }]).find 7
    = some { (default : Entry) with depth := 9 } := by decide

/-! ## C15_inv -/

/-- what the invariant says about bucket `j` of sub-table `i` -/
structure BucketOK (tables buckets i j : Nat) (b : List Slot) : Prop where
  /-- `BUCKET_SIZE` slots -/
  length : b.length = Gen.bucketSize
  /-- no two slots hold the same key -/
  noDup : ∀ (p q k : Nat) (x y : Entry),
    b[p]? = some (some (k, x)) → b[q]? = some (some (k, y)) → p = q
  /-- occupied slots form a prefix -/
  occupiedPrefix : ∃ (l : List (Nat × Entry)) (n : Nat), b = l.map some ++ List.replicate n none
  /-- every stored key routes to this sub-table and this bucket -/
  routed : ∀ (p k : Nat) (x : Entry), b[p]? = some (some (k, x)) →
    k % tables = i ∧ k % buckets = j

/-- **C15 (reachable-state invariant).** In every reachable state there are `tables` sub-tables of
`buckets` buckets; every bucket has `bucketSize` slots, holds no key twice, its occupied slots form
a prefix, and every stored key routes (`k % tables`, `k % buckets`) to the place where it is stored. -/
theorem C15_inv (tables buckets : Nat) (hT : 0 < tables) (hB : 0 < buckets) (ops : List Op) :
    (run (Access.new tables buckets) ops).tables.length = tables ∧
    ∀ i, i < tables →
      ((run (Access.new tables buckets) ops).tables.getD i default).buckets.length = buckets ∧
      ∀ j, j < buckets →
        BucketOK tables buckets i j ((run (Access.new tables buckets) ops).bucketAt i j) := by
  have h := run_inv hT hB ops
  refine ⟨h.len, fun i hi => ⟨(h.tinv i hi).len, fun j hj => ?_⟩⟩
  have hb := (h.tinv i hi).inv j hj
  refine ⟨(h.tinv i hi).blen j hj, nodup_keys_index hb.2, hb.1.exists_eq, ?_⟩
  intro p k x hp
  exact (h.tinv i hi).route j hj k (mem_keys_of_mem (List.mem_of_getElem? hp))

/-! ## C15_count -/

/-- **C15 (accounting).** `entries()` (the sum of the `used_slots` counters) equals the number of
occupied slots over all sub-tables and buckets; `max_entries()` is `tables · buckets · bucketSize`;
and `entries() ≤ max_entries()`. -/
theorem C15_count (tables buckets : Nat) (hT : 0 < tables) (hB : 0 < buckets) (ops : List Op) :
    (run (Access.new tables buckets) ops).entries =
      ((run (Access.new tables buckets) ops).tables.map fun t =>
        (t.buckets.map fun b => b.countP (fun s => s.isSome)).sum).sum ∧
    (run (Access.new tables buckets) ops).maxEntries = tables * buckets * Gen.bucketSize ∧
    (run (Access.new tables buckets) ops).entries ≤
      (run (Access.new tables buckets) ops).maxEntries := by
  have h := run_inv hT hB ops
  refine ⟨h.entries_eq, h.maxEntries_eq, ?_⟩
  rw [h.maxEntries_eq]
  exact h.entries_le

/-! ## C15_retained -/

/-- inserting `(k', e')` in state `a` hits the slot of key `k` under conditions (a)–(d):
(a) same sub-table and bucket, (b) different key, (c) the bucket is full, (d) the replacement index
`(k' ^^^ e'.mv) % bucketSize` is the slot holding `k`. -/
structure Displaces (tables buckets : Nat) (a : Access) (k' : Nat) (e' : Entry) (k : Nat) :
    Prop where
  sameTable : k' % tables = k % tables
  sameBucket : k' % buckets = k % buckets
  ne : k' ≠ k
  full : ∀ s, s ∈ a.bucketAt (k % tables) (k % buckets) → s ≠ none
  hit : ∃ x, (a.bucketAt (k % tables) (k % buckets))[(k' ^^^ e'.mv) % Gen.bucketSize]?
    = some (some (k, x))

/-- none of the inserts of `ops`, executed from state `a`, satisfies (a)–(d) against key `k` -/
def NoDisplace (tables buckets k : Nat) : Access → List Op → Prop
  | _, [] => True
  | a, .insert k' e' :: rest =>
    ¬ Displaces tables buckets a k' e' k ∧ NoDisplace tables buckets k (a.insert k' e') rest
  | a, .find _ :: rest => NoDisplace tables buckets k a rest

theorem retained_aux {tables buckets : Nat} (hT : 0 < tables) (hB : 0 < buckets) (k : Nat) :
    ∀ (post : List Op) (a : Access), AInv Gen.bucketSize tables buckets a →
      (a.find k).isSome → NoDisplace tables buckets k a post → ((run a post).find k).isSome := by
  intro post
  induction post with
  | nil => intro a _ hs _; exact hs
  | cons op rest ih =>
    intro a hinv hs hnd
    cases op with
    | find k' => exact ih a hinv hs hnd
    | insert k' e' =>
      obtain ⟨hnd1, hnd2⟩ := hnd
      refine ih (a.insert k' e') (hinv.insert (by decide) hT hB k' e') ?_ hnd2
      by_cases hk : k' = k
      · subst hk
        rw [hinv.find_insert_self (by decide) hT hB k' e']; rfl
      · rw [hinv.find_insert_frame (by decide) hT hB k' e' k (Ne.symm hk)]
        · exact hs
        · intro h1 h2 hf _ x hx
          exact hnd1 ⟨h1, h2, hk, hf, ⟨x, hx⟩⟩

/-- **C15 (retention).** After `insert k e`, as long as no later insert (a) routes to `k`'s bucket
(b) with a different key (c) while that bucket is full (d) with replacement index
`(k' ^^^ e'.mv) % bucketSize` equal to `k`'s slot, `find k` returns the latest entry inserted for
`k` (and that is an actual entry: `k` is still retrievable). -/
theorem C15_retained (tables buckets : Nat) (hT : 0 < tables) (hB : 0 < buckets)
    (pre post : List Op) (k : Nat) (e : Entry)
    (hnd : NoDisplace tables buckets k
      (run (Access.new tables buckets) (pre ++ [.insert k e])) post) :
    (run (Access.new tables buckets) (pre ++ .insert k e :: post)).find k =
      latest (pre ++ .insert k e :: post) k ∧
    (latest (pre ++ .insert k e :: post) k).isSome := by
  have heq : pre ++ Op.insert k e :: post = (pre ++ [.insert k e]) ++ post := by simp
  have hinv := run_inv hT hB (pre ++ [.insert k e])
  have hself : ((run (Access.new tables buckets) (pre ++ [.insert k e])).find k).isSome := by
    rw [run_snoc]
    show ((Access.insert _ k e).find k).isSome
    rw [(run_inv hT hB pre).find_insert_self (by decide) hT hB k e]; rfl
  have hsome := retained_aux hT hB k post _ hinv hself hnd
  rw [← run_append, ← heq] at hsome
  rcases C15_find tables buckets hT hB (pre ++ .insert k e :: post) k with h | h
  · rw [h] at hsome; cases hsome
  · exact ⟨h, by rw [← h]; exact hsome⟩

/-- hypotheses of `C15_retained` are satisfiable: an insert of another key into the non-full bucket
of `k`, and an insert routed elsewhere -/
example : NoDisplace 2 2 5 (run (Access.new 2 2) ([.insert 1 default] ++ [.insert 5 default]))
    [.insert 9 default, .find 5, .insert 4 default] := by
  refine ⟨fun h => ?_, fun h => ?_, trivial⟩
  · exact absurd (h.full none (by decide)) (by simp)
  · exact absurd h.sameTable (by decide)

/-- **C15 (displacement is the only way to lose an entry; the condition of `C15_retained` is
tight).** If an insert of a key `k'` that is not currently stored satisfies (a)–(d) against `k`,
then `k` is no longer found afterwards. -/
theorem C15_displaced (tables buckets : Nat) (hT : 0 < tables) (hB : 0 < buckets)
    (ops : List Op) (k' : Nat) (e' : Entry) (k : Nat)
    (habs : (run (Access.new tables buckets) ops).find k' = none)
    (hd : Displaces tables buckets (run (Access.new tables buckets) ops) k' e' k) :
    (run (Access.new tables buckets) (ops ++ [.insert k' e'])).find k = none := by
  have hinv := run_inv hT hB ops
  rw [run_snoc]
  obtain ⟨x, hx⟩ := hd.hit
  refine hinv.find_insert_displaced (by decide) hT hB k' e' k x hd.sameTable hd.sameBucket
    hd.full ?_ hx
  intro hm
  have := (hinv.find_isSome_iff hT k').2 (by rw [hd.sameTable, hd.sameBucket]; exact hm)
  rw [habs] at this
  cases this

/-! ## C15_no_overflow -/

/-- **C15 (no overflow ⇒ exact map).** If all keys ever inserted into bucket `(i, j)` come from a
set `S` of at most `bucketSize` keys (i.e. fewer than `bucketSize + 1` distinct keys were routed to
the bucket), then the bucket behaves as an exact map: for every key routed there, `find` returns
precisely the latest inserted entry (`none` iff the key was never inserted). -/
theorem C15_no_overflow (tables buckets : Nat) (hT : 0 < tables) (hB : 0 < buckets)
    (i j : Nat) (S : List Nat) (hS : S.length ≤ Gen.bucketSize) (ops : List Op)
    (hall : ∀ k' e', Op.insert k' e' ∈ ops → k' % tables = i → k' % buckets = j → k' ∈ S)
    (k : Nat) (hi : k % tables = i) (hj : k % buckets = j) :
    (run (Access.new tables buckets) ops).find k = latest ops k := by
  induction ops using snoc_induction generalizing k with
  | nil => exact Access.new_find hT hB k
  | snoc ops op ih =>
    have ih' := ih (fun k' e' hm => hall k' e' (List.mem_append_left _ hm))
    rw [run_snoc]
    cases op with
    | find k' => rw [latest_snoc_find]; exact ih' k hi hj
    | insert k' e' =>
      have hinv := run_inv hT hB ops
      rw [latest_snoc_insert]
      by_cases hk : k' = k
      · subst hk
        rw [if_pos rfl]
        exact hinv.find_insert_self (by decide) hT hB k' e'
      · rw [if_neg hk]
        show (Access.insert _ k' e').find k = latest ops k
        rw [hinv.find_insert_frame (by decide) hT hB k' e' k (Ne.symm hk)]
        · exact ih' k hi hj
        · -- the bucket cannot be full of keys different from `k'`: that would be
          -- `bucketSize + 1` distinct keys inside `S`
          intro h1 h2 hf habs
          exfalso
          have hiT : k % tables < tables := Nat.mod_lt _ hT
          have hjB : k % buckets < buckets := Nat.mod_lt _ hB
          obtain ⟨hbinv, hblen⟩ := hinv.bucket_inv hiT hjB
          have hnd : (k' :: keys ((run (Access.new tables buckets) ops).bucketAt
              (k % tables) (k % buckets))).Nodup := List.nodup_cons.2 ⟨habs, hbinv.2⟩
          have hsub : (k' :: keys ((run (Access.new tables buckets) ops).bucketAt
              (k % tables) (k % buckets))) ⊆ S := by
            intro k'' hm
            rcases List.mem_cons.1 hm with rfl | hm
            · exact hall k'' e' (by simp) (by rw [h1, hi]) (by rw [h2, hj])
            · obtain ⟨r1, r2⟩ := (hinv.tinv _ hiT).route _ hjB k'' hm
              have hfound := (hinv.find_isSome_iff hT k'').2 (by rw [r1, r2]; exact hm)
              have hl := ih' k'' (by rw [r1, hi]) (by rw [r2, hj])
              cases hf' : (run (Access.new tables buckets) ops).find k'' with
              | none => rw [hf'] at hfound; cases hfound
              | some x =>
                rw [hf'] at hl
                exact hall k'' x (List.mem_append_left _ (latest_some_mem hl.symm))
                  (by rw [r1, hi]) (by rw [r2, hj])
          have hlen := hnd.length_le_of_subset hsub
          have hfull : Full ((run (Access.new tables buckets) ops).bucketAt
              (k % tables) (k % buckets)) := hf
          rw [List.length_cons, hfull.keys_length, hblen] at hlen
          omega

/-- hypotheses of `C15_no_overflow` are satisfiable (two keys in the single bucket of a 1×1 table) -/
example : ∀ k' e', Op.insert k' e' ∈
      [Op.insert 3 default, .find 4, .insert 11 default, .insert 3 { (default : Entry) with eval := 5 }] →
    k' % 1 = 0 → k' % 1 = 0 → k' ∈ [3, 11] := by
  intro k' e' hm _ _
  simp at hm
  rcases hm with h | h | h <;> simp [h.1]

/-! ## Concurrency: operations on different sub-tables commute -/

/-- Inserts that lock different sub-tables commute (state equality), for every state whose number of
sub-tables is `tables` — in particular every reachable one.  Together with the fact that each
operation runs entirely under the lock of its sub-table this justifies replaying the ticket-ordered
log: any total order compatible with the per-lock orders yields the same state. -/
theorem C15_insert_comm (tables buckets : Nat) (hT : 0 < tables) (hB : 0 < buckets)
    (ops : List Op) (k1 k2 : Nat) (e1 e2 : Entry) (hne : k1 % tables ≠ k2 % tables) :
    ((run (Access.new tables buckets) ops).insert k1 e1).insert k2 e2 =
    ((run (Access.new tables buckets) ops).insert k2 e2).insert k1 e1 := by
  apply Access.insert_comm
  rw [(run_inv hT hB ops).len]
  exact hne

/-- A `find` on one sub-table returns the same result whether it is ordered before or after an
insert into a different sub-table. -/
theorem C15_find_insert_comm (tables buckets : Nat) (hT : 0 < tables) (hB : 0 < buckets)
    (ops : List Op) (k1 k2 : Nat) (e1 : Entry) (hne : k1 % tables ≠ k2 % tables) :
    ((run (Access.new tables buckets) ops).insert k1 e1).find k2 =
    (run (Access.new tables buckets) ops).find k2 := by
  apply Access.find_insert_of_ne_table
  rw [(run_inv hT hB ops).len]
  exact hne

/-- the hypothesis of the commutation lemmas is satisfiable (keys 7 and 4 with 2 sub-tables) -/
example : 7 % 2 ≠ 4 % 2 := by decide

/-! ## Non-vacuity: a concrete history that fills a bucket and displaces an entry -/

/-- entry with raw move `m` and depth `d` -/
def mkE (m d : Nat) : Entry := { kind := 0, mv := m, depth := d, maxDepth := d, eval := 0 }

/-- 1 sub-table, 1 bucket: keys 10..17 fill the bucket (slots 0..7) -/
def fill8 : List Op := (List.range 8).map fun i => Op.insert (10 + i) (mkE 0 i)

-- all eight keys are retrievable, the counter says 8 = capacity
example : (List.range 8).map (fun i => (run (Access.new 1 1) fill8).find (10 + i)) =
    (List.range 8).map (fun i => some (mkE 0 i)) := by decide
example : (run (Access.new 1 1) fill8).entries = 8 ∧ (run (Access.new 1 1) fill8).maxEntries = 8 := by
  decide
-- a ninth key `21` with raw move `0` goes to slot `(21 ^^^ 0) % 8 = 5`, displacing key `15` only
example : (run (Access.new 1 1) (fill8 ++ [.insert 21 (mkE 0 99)])).find 21 = some (mkE 0 99) := by
  decide
example : (run (Access.new 1 1) (fill8 ++ [.insert 21 (mkE 0 99)])).find 15 = none := by decide
example : (run (Access.new 1 1) (fill8 ++ [.insert 21 (mkE 0 99)])).find 14 = some (mkE 0 4) := by
  decide
example : (run (Access.new 1 1) (fill8 ++ [.insert 21 (mkE 0 99)])).entries = 8 := by decide
-- the same key with raw move `3` goes to slot `(21 ^^^ 3) % 8 = 6` instead
example : (run (Access.new 1 1) (fill8 ++ [.insert 21 (mkE 3 99)])).find 16 = none ∧
    (run (Access.new 1 1) (fill8 ++ [.insert 21 (mkE 3 99)])).find 15 = some (mkE 0 5) := by decide
-- same-key overwrite in a full bucket does not displace anybody and does not count
example : (run (Access.new 1 1) (fill8 ++ [.insert 12 (mkE 7 42)])).find 12 = some (mkE 7 42) ∧
    (run (Access.new 1 1) (fill8 ++ [.insert 12 (mkE 7 42)])).entries = 8 := by decide
-- `latest` is the spec: the displaced key's latest entry still exists in the history
example : latest (fill8 ++ [.insert 21 (mkE 0 99)]) 15 = some (mkE 0 5) := by decide
-- routing: in a 2×3 layout key 7 lives in sub-table 1, bucket 1
example : ((run (Access.new 2 3) [.insert 7 (mkE 1 1)]).bucketAt 1 1).head? = some (some (7, mkE 1 1)) := by
  decide
-- inserts into the SAME sub-table do not commute in general (both go to slot 5 of the full bucket):
-- the hypothesis of `C15_insert_comm` is needed
example :
    (((run (Access.new 1 1) fill8).insert 21 (mkE 0 1)).insert 29 (mkE 0 2)).find 21 = none ∧
    (((run (Access.new 1 1) fill8).insert 29 (mkE 0 2)).insert 21 (mkE 0 1)).find 21
      = some (mkE 0 1) := by decide
/-- the `Displaces` hypothesis of `C15_displaced` is satisfiable -/
example : Displaces 1 1 (run (Access.new 1 1) fill8) 21 (mkE 0 99) 15 := by
  refine ⟨rfl, rfl, by decide, by decide, ⟨mkE 0 5, by decide⟩⟩

end Wee.TT
