import Wee.Proofs.AttackLemmas
import Wee.Proofs.AttackLeapers
/-!
# C10 — check detection and attacked-square sets are correct

Rust: `board.rs` (`AttackMap::from_occupancy`, `Board::{new, attack_map, colored_attacks,
colored_pawn_attacks, is_check}`, `#[derive(Clone)] struct Board` with
`colored_attack_map : ArrayMap<Color, OnceCell<AttackMap>>`), `state.rs` (`State::is_check`),
`attacks.rs` (`AttackGenerator::compute`).
Model: `Wee/Model/Board.lean` (`attackMap`, `coloredAttacks`, `coloredPawnAttacks`, `isCheckB`,
`State.isCheck`), `Wee/Model/AttackCache.lean` (`CachedBoard`, `Query`, `step`, `run`, `Heap`).
Spec: `Wee/Spec/Chess.lean` (`attacksFrom`, `Pos.attackedBy`, `Pos.inCheck`) through `Wee/Spec/Abs.lean`.

Two layers.

* **Cache** (`C10_cache*`, no hypotheses beyond "the object was made by `Board::new` or cloned from
  such an object"): whatever sequence of `colored_attacks / colored_pawn_attacks / is_check / clone`
  is performed, on the object or on any of its clones, every cell is empty or holds the pure value
  and every answer is the pure function of the placement.  What makes this inductive is that no
  operation writes `piece_occupancy` (`step_spec`: `(b.step q).1.pieces = b.pieces`).
* **Values** (`C10_attacks`, `C10_pawn`, `C10_check`): the pure functions are the rules of chess on
  the mailbox abstraction.  Hypotheses: `AttackTablesCorrect` (= property C09: each table lookup is
  the coordinate-geometry list) and `DisjointBoard m` (no square holds two different pieces; true of
  every board built from a mailbox — `Board::from(&ArrayMap<Square, PieceIndex>)` — and preserved by
  legal moves; without it `piece_at`, hence the abstraction, sees only the first of two stacked
  pieces while `from_occupancy` lets both attack).
-/
namespace Wee.C10

/-! ## the cache -/

/-- **C10_cache.**  Take a `Board` whose cells are sound (`CacheInv`: each `OnceCell` is empty or
holds `AttackMap::from_occupancy` of the board's own placement — in particular a fresh `Board::new`,
see `C10_cache_new`).  After ANY sequence of calls `colored_attacks(c)`, `colored_pawn_attacks(c)`,
`is_check(c)`, `clone()` on that object
* the placement is unchanged and the cells are still sound,
* the answers, in order, are exactly the pure answers (`coloredAttacks`, `coloredPawnAttacks`,
  `isCheckB` of the placement; for `clone` the same placement),
* every board handed out by `clone` has the same placement and sound cells (so the theorem applies
  to it again). -/
theorem C10_cache (b : CachedBoard) (h : CacheInv b) (qs : List Query) :
    (b.run qs).1.pieces = b.pieces ∧ CacheInv (b.run qs).1 ∧
    (b.run qs).2.map Answer.obs = qs.map (pureAnswer b.pieces) ∧
    ∀ b', Answer.board b' ∈ (b.run qs).2 → b'.pieces = b.pieces ∧ CacheInv b' :=
  run_spec qs b h

/-- the same, started from `Board::new(piece_occupancy)` -/
theorem C10_cache_new (m : PieceMap) (qs : List Query) :
    CacheInv ((CachedBoard.new m).run qs).1 ∧
    ((CachedBoard.new m).run qs).2.map Answer.obs = qs.map (pureAnswer m) := by
  obtain ⟨_, h2, h3, _⟩ := run_spec qs (CachedBoard.new m) (cacheInv_new m)
  exact ⟨h2, h3⟩

/-- one call (the induction step): `get_or_init` never changes the placement, keeps the cells sound
and returns the pure value whether the cell was empty or filled. -/
theorem C10_cache_step (b : CachedBoard) (h : CacheInv b) (q : Query) :
    (b.step q).1.pieces = b.pieces ∧ CacheInv (b.step q).1 ∧ AnswerOK b.pieces q (b.step q).2 :=
  step_spec b q h

/-- **Order independence.**  The answer to a query does not depend on what was asked before it:
after any two histories `qs₁`, `qs₂` on a fresh board the same query gets the same answer. -/
theorem C10_cache_history_independent (m : PieceMap) (qs₁ qs₂ : List Query) (q : Query) :
    Answer.obs (((CachedBoard.new m).run qs₁).1.step q).2 =
    Answer.obs (((CachedBoard.new m).run qs₂).1.step q).2 := by
  obtain ⟨p1, i1, _, _⟩ := run_spec qs₁ (CachedBoard.new m) (cacheInv_new m)
  obtain ⟨p2, i2, _, _⟩ := run_spec qs₂ (CachedBoard.new m) (cacheInv_new m)
  rw [(step_spec _ q i1).2.2.1, (step_spec _ q i2).2.2.1, p1, p2]

/-- **Order independence, permutation form.**  Asking the same queries in a different order gives the
same answers, permuted the same way. -/
theorem C10_cache_perm (m : PieceMap) (qs₁ qs₂ : List Query) (hp : qs₁.Perm qs₂) :
    (((CachedBoard.new m).run qs₁).2.map Answer.obs).Perm (((CachedBoard.new m).run qs₂).2.map Answer.obs) := by
  rw [(C10_cache_new m qs₁).2, (C10_cache_new m qs₂).2]
  exact hp.map _

/-- **Clones.**  Start with one fresh board and perform any sequence of operations, each addressed to
any object that exists at that time (the original or any clone, clones of clones included; `clone`
creates a new object that copies the cells as they are at that moment).  Every object always has the
original placement and sound cells, and every answer is the pure answer — so it does not matter
whether a board was cloned before or after a query was made on it. -/
theorem C10_cache_clones (m : PieceMap) (ops : List (Nat × Query)) :
    HeapInv m (Heap.run [CachedBoard.new m] ops).1 ∧
    (Heap.run [CachedBoard.new m] ops).2.length = ops.length ∧
    ∀ p ∈ ops.zip (Heap.run [CachedBoard.new m] ops).2, ∀ x, p.2 = some x →
      Answer.obs x = pureAnswer m p.1.2 :=
  heap_run_spec m ops [CachedBoard.new m]
    (by intro b hb; simp at hb; subst hb; exact ⟨rfl, cacheInv_new m⟩)

/-- a filled cell is never overwritten (`OnceCell` semantics) -/
theorem C10_cache_once (b : CachedBoard) (c c' : Color) (v : UInt64 × UInt64)
    (hv : b.cell c' = some v) : (b.attackMapCached c).1.cell c' = some v :=
  attackMapCached_cell_mono b c c' v hv

/-! ### non-vacuity of the cache theorems -/

/-- `CacheInv` is satisfiable: every fresh board -/
example (m : PieceMap) : CacheInv (CachedBoard.new m) := cacheInv_new m

/-- a concrete 4-call history with a clone in the middle, on an arbitrary placement:
`is_check(White)` fills the BLACK cell only; the clone taken then carries exactly that; the later
`colored_attacks(White)` fills the white cell of the original but not of the clone. -/
example (m : PieceMap) :
    (CachedBoard.new m).run [.isCheck .white, .clone, .attacks .white, .pawnAttacks .black] =
      (⟨m, some (attackMap m .white), some (attackMap m .black)⟩,
       [.bool (isCheckB m .white),
        .board ⟨m, Option.none, some (attackMap m .black)⟩,
        .bb (coloredAttacks m .white),
        .bb (coloredPawnAttacks m .black)]) := rfl

/-- the same calls with the clone taken first: the clone's cells differ (both empty), the answers do not -/
example (m : PieceMap) :
    ((CachedBoard.new m).run [.clone, .isCheck .white, .attacks .white, .pawnAttacks .black]).2 =
       [.board ⟨m, Option.none, Option.none⟩,
        .bool (isCheckB m .white),
        .bb (coloredAttacks m .white),
        .bb (coloredPawnAttacks m .black)] := rfl

/-- heap form: query the original, clone it, query the clone (object 1), clone the clone -/
example (m : PieceMap) :
    (Heap.run [CachedBoard.new m] [(0, .attacks .black), (0, .clone), (1, .isCheck .white), (1, .clone), (2, .pawnAttacks .white)]).1 =
      [⟨m, Option.none, some (attackMap m .black)⟩,
       ⟨m, Option.none, some (attackMap m .black)⟩,
       ⟨m, some (attackMap m .white), some (attackMap m .black)⟩] := rfl

/-- Observation recorded in DESIGN.md (not part of the property): the derived `PartialEq` of `Board`
compares the cells, so a queried board is unequal to a fresh board of the same placement. -/
example (m : PieceMap) (c : Color) : ((CachedBoard.new m).step (.attacks c)).1 ≠ CachedBoard.new m := by
  cases c <;> simp [CachedBoard.step, CachedBoard.attacks, CachedBoard.attackMapCached, CachedBoard.new,
    CachedBoard.cell, CachedBoard.setCell]

/-! ## the values -/

/-- **C10_attacks.**  Assume the attack tables are right (C09) and no square holds two pieces.  Then
for every colour `c` and square `t`, bit `t` of `Board::colored_attacks(c)` is set exactly when
some piece of colour `c` (standing on `s`, of kind `k`, as the mailbox reading `absCell` of the board
shows it) attacks `t` according to the rules (`Spec.attacksFrom`, with "occupied" = the mailbox cell
is not empty), and `t` does not hold a piece of colour `c`. -/
theorem C10_attacks (T : AttackTablesCorrect) (m : PieceMap) (hd : DisjointBoard m) (c : Color)
    (t : Nat) (ht : t < 64) :
    test (coloredAttacks m c) t = true ↔
      (∃ s, s < 64 ∧ ∃ k, absCell m s = some (absColor c, k) ∧
        t ∈ Spec.attacksFrom (fun n => (absCell m n).isSome) (absColor c) k s) ∧
      ¬ ∃ k, absCell m t = some (absColor c, k) :=
  attacks_abs T hd c t ht

/-- bits 64.. do not exist: the attack set is a set of squares -/
theorem C10_attacks_range (m : PieceMap) (c : Color) (t : Nat) (ht : 64 ≤ t) :
    test (coloredAttacks m c) t = false ∧ test (coloredPawnAttacks m c) t = false :=
  ⟨test_ge _ t ht, test_ge _ t ht⟩

/-- **C10_attacks, against the specification predicate.**  For a game state `st`:
`colored_attacks(c)` has `t` ⇔ `Pos.attackedBy (abs st) c t` and `t` is not an own piece. -/
theorem C10_attacks_spec (T : AttackTablesCorrect) (st : State) (hd : DisjointBoard st.pieces) (c : Color)
    (t : Nat) (ht : t < 64) :
    test (coloredAttacks st.pieces c) t = true ↔
      (abs st).attackedBy (absColor c) t = true ∧ ¬ ∃ k, (abs st).at t = some (absColor c, k) := by
  rw [attackedBy_iff, abs_occupied, C10_attacks T st.pieces hd c t ht]
  simp only [abs_at]

/-- **C10_pawn.**  `Board::colored_pawn_attacks(c)` has `t` exactly when some pawn of colour `c`
attacks `t` by the rules and `t` does not hold a piece of colour `c`. -/
theorem C10_pawn (T : AttackTablesCorrect) (m : PieceMap) (hd : DisjointBoard m) (c : Color)
    (t : Nat) (ht : t < 64) :
    test (coloredPawnAttacks m c) t = true ↔
      (∃ s, s < 64 ∧ absCell m s = some (absColor c, Spec.Kind.pawn) ∧
        t ∈ Spec.attacksFrom (fun n => (absCell m n).isSome) (absColor c) Spec.Kind.pawn s) ∧
      ¬ ∃ k, absCell m t = some (absColor c, k) :=
  pawnAttacks_abs T hd c t ht

/-- **C10_check.**  `Board::is_check(c)` is true exactly when some square holding a king of colour
`c` is attacked, by the rules, by a piece of the other colour. -/
theorem C10_check (T : AttackTablesCorrect) (m : PieceMap) (hd : DisjointBoard m) (c : Color) :
    isCheckB m c = true ↔
      ∃ s, s < 64 ∧ absCell m s = some (absColor c, Spec.Kind.king) ∧
        ∃ s', s' < 64 ∧ ∃ k, absCell m s' = some ((absColor c).opp, k) ∧
          s ∈ Spec.attacksFrom (fun n => (absCell m n).isSome) (absColor c).opp k s' :=
  check_abs T hd c

/-- **C10_check, against the specification predicate**: `Board::is_check(c)` = `Pos.inCheck (abs st) c`. -/
theorem C10_check_spec (T : AttackTablesCorrect) (st : State) (hd : DisjointBoard st.pieces) (c : Color) :
    isCheckB st.pieces c = (abs st).inCheck (absColor c) := by
  rw [Bool.eq_iff_iff, C10_check T st.pieces hd c, inCheck_iff]
  simp only [attackedBy_iff, abs_occupied, abs_at]

/-- `State::is_check()` = the side to move is in check by the rules. -/
theorem C10_state_check (T : AttackTablesCorrect) (st : State) (hd : DisjointBoard st.pieces) :
    st.isCheck = (abs st).inCheck (abs st).turn :=
  C10_check_spec T st hd st.turn

/-- what the cached object answers is therefore the rules of chess: e.g. `is_check(c)` asked at any
point of any history on a board of a disjoint placement -/
theorem C10_check_cached (T : AttackTablesCorrect) (st : State) (hd : DisjointBoard st.pieces)
    (qs : List Query) (c : Color) :
    (((CachedBoard.new st.pieces).run qs).1.step (.isCheck c)).2 = .bool ((abs st).inCheck (absColor c)) := by
  obtain ⟨p1, i1, _, _⟩ := run_spec qs (CachedBoard.new st.pieces) (cacheInv_new _)
  have h := (step_spec _ (.isCheck c) i1).2.2.1
  rw [p1] at h
  rw [← C10_check_spec T st hd c]
  generalize (((CachedBoard.new st.pieces).run qs).1.step (.isCheck c)).2 = a at h
  cases a <;> simp [Answer.obs, pureAnswer, CachedBoard.new] at h ⊢
  exact h

/-! ### non-vacuity of the value theorems -/

/-- the placement of the initial position -/
def startPieces : PieceMap :=
  { wp := 0x000000000000FF00, wn := 0x0000000000000042, wb := 0x0000000000000024,
    wr := 0x0000000000000081, wq := 0x0000000000000008, wk := 0x0000000000000010,
    bp := 0x00FF000000000000, bn := 0x4200000000000000, bb := 0x2400000000000000,
    br := 0x8100000000000000, bq := 0x0800000000000000, bk := 0x1000000000000000 }

/-- the start position is a `DisjointBoard` -/
example : DisjointBoard startPieces := by decide

/-- `DisjointBoard` is a real restriction: two pieces on one square are rejected -/
example : ¬ DisjointBoard { wk := 0x10, bq := 0x10 } := by decide

/-- ... and it is needed: a white pawn and a black knight stacked on e4, white king on f2.  The
engine lets the hidden knight give check; the mailbox reading (`piece_at` returns the first match,
the white pawn) has no black knight, so by the rules there is no check. -/
def stackedState : State :=
  { pieces := { wk := 0x2000, wp := 0x10000000, bn := 0x10000000, bk := 0x1000000000000000 }
    turn := .white, castleW := .noRights, castleB := .noRights, ep := Option.none, halfmove := 0, fullmove := 1 }

example : ¬ DisjointBoard stackedState.pieces ∧ isCheckB stackedState.pieces .white = true ∧
    (abs stackedState).inCheck .white = false := by
  decide +kernel

/-- the model computes: white king e1, black knight f3, black king e8 — white is in check, black is not -/
example : isCheckB { wk := 0x10, bn := 0x200000, bk := 0x1000000000000000 } .white = true ∧
    isCheckB { wk := 0x10, bn := 0x200000, bk := 0x1000000000000000 } .black = false := by
  decide +kernel

/-- `AttackTablesCorrect` is the statement of C09.  Its three leaper fields are closed facts checked
here by kernel evaluation (`Wee/Proofs/AttackLeapers.lean`); the two slider fields are C09_rook /
C09_bishop.  So the hypothesis `T` of the theorems above can be replaced by the two slider facts. -/
theorem C10_tables_of_sliders
    (rook : ∀ sq, sq < 64 → ∀ (occ : UInt64) (t : Nat), t < 64 →
      test (rookAttacks sq occ) t = (Spec.slide (fun n => test occ n) Spec.rookDirs sq).contains t)
    (bishop : ∀ sq, sq < 64 → ∀ (occ : UInt64) (t : Nat), t < 64 →
      test (bishopAttacks sq occ) t = (Spec.slide (fun n => test occ n) Spec.bishopDirs sq).contains t) :
    AttackTablesCorrect :=
  attackTables_of_sliders rook bishop

end Wee.C10
