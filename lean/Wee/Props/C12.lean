import Wee.Proofs.SanLemmas
/-!
# C12 — move text resolves to exactly the intended move

Rust: `notation.rs` (`mod san`: `San::try_from_notation` → `MoveQuery`; `mod lan`: `Lan::into_notation`),
`moves.rs` (`MoveQuery::test`, `MoveSet::find/filter`), `uci.rs` (move tokens of `position … moves`).
Model: `Wee/Model/San.lean` (`parseSanChars`, `parseSan`, `MoveQuery.test`, `parseUciMoveToken`,
`parseSquare`, `sliceBytes`), `Wee/Model/Move.lean` (`Move.lan`, accessors).
Independent SAN writer: `Wee/Spec/San.lean` (`SanParts`, `partsText`, `denotes`, `spellings`,
`fullSpelling`); packed move → spec move: `toSpecMove` (`Wee/Spec/Abs.lean`).

All theorems are generic in the list `L` of legal moves: they use only the structural facts collected
in `WFMoves L` (`Wee/Proofs/SanLemmas.lean`), never the move generator.  That legal move lists of
legal positions satisfy `WFMoves` is `C12_wf_statement` below (it follows from the C01
characterisation of `legalMoves`, not proved here); `WFMoves` is decidable and is checked by
evaluation for concrete lists (examples at the end).

## What `WFMoves L` says (all about packed moves of `L`, through the Rust accessors)

* `acc`      every move is accessor-consistent (`AccOK`): piece code pawn…king, capture code `< 7`,
             promotion ∈ {none, Q, R, B, N}, only pawns promote, castling moves are king moves
             (origin/destination `< 64` hold for every `u32`: `origin_lt`, `dest_lt`);
* `inj`      a move is determined by (piece, origin, destination, promotion);
* `capFn`    whether a move captures is a function of (piece kind, destination)
             (NOT of the destination alone: with an en-passant square `d6`, `exd6` captures and `Nd6`
             does not; and not merely of (piece, origin, destination): the query of `Nd5` carries no origin);
* `promoFn`  whether a move promotes is a function of (piece kind, destination);
* `pieceFn`  one piece per origin square;  `oneKing`: all king moves start on one square;
* `castle`   at most one castling move per side.

`capFn`, `promoFn`, `oneKing` are needed because `MoveQuery::test` is more lenient than SAN: a query
without `x` does not constrain the capture flag, a query without promotion suffix does not constrain
the promotion (`e8` matches `e8=Q`, `e8=R`, …), a query with promotion `Q` also matches a
non-promoting *queen* move (`promotion().unwrap_or(piece())`), and `Kg1` matches the castling move
`O-O` (a king move to g1).  None of this produces a second match inside a chess move list, which is
exactly what the three hypotheses record.
-/
namespace Wee.SanP
open Wee

/-! ## 1. The scanner reads back what the independent writer wrote -/

/-- **C12_parse_written.**  For all SAN parts `s` (any piece kind, optional origin file `< 8`,
optional origin rank `< 8`, capture flag, destination `< 64`, optional promotion to Q/R/B/N —
`WFParts s`), with or without `=` before the promotion letter, followed by nothing, `+` or `#`:
`San::try_from_notation` succeeds on the text written by `Spec.partsText` and returns exactly the
query with these fields (piece = the kind, `pawn` when no letter is written; castle unset;
`is_capture = Some(true)` iff an `x` was written, otherwise unset). -/
theorem C12_parse_written (s : Spec.SanParts) (hs : WFParts s) (eqSign : Bool) (mark : String)
    (hmark : mark = "" ∨ mark = "+" ∨ mark = "#") :
    parseSan (Spec.partsText s eqSign ++ mark) =
      some { piece := some (kindPiece s.kind)
             originRank := s.fromRank
             originFile := s.fromFile
             destRank := some (s.dst / 8)
             destFile := some (s.dst % 8)
             promotion := s.promo.map kindPiece
             castle := Option.none
             isCapture := if s.capture then some true else Option.none } :=
  parse_written s hs eqSign mark hmark

example : WFParts { kind := .knight, fromFile := some 2, fromRank := Option.none, capture := true,
                    dst := 35, promo := Option.none } :=
  ⟨fun f h => (by cases h; decide), fun r h => (by cases h), (by decide), fun k h => (by cases h)⟩

/-- the same on `List Char` (the form the scanner works on) -/
theorem C12_parse_written_chars (s : Spec.SanParts) (hs : WFParts s) (eqSign : Bool)
    (mark : List Char) (hmark : mark = [] ∨ mark = ['+'] ∨ mark = ['#']) :
    parseSanChars ((Spec.partsText s eqSign).toList ++ mark) = some (expectedQuery s) := by
  rw [partsText_toList]; exact parse_written_chars s hs eqSign mark hmark

/-- castling texts: `O-O`, `O-O-O`, with optional `+`/`#` -/
theorem C12_parse_castle (mark : String) (hmark : mark = "" ∨ mark = "+" ∨ mark = "#") :
    parseSan ("O-O" ++ mark) = some { castle := some .king } ∧
    parseSan ("O-O-O" ++ mark) = some { castle := some .queen } :=
  parse_castle mark hmark

/-! ## 2. The parsed query selects exactly the spelled move -/

/-- **C12_unique_parts** (the heart).  `L` well-formed, `m ∈ L` reads as the spec move `sm`, and the
SAN parts denote — by the SAN rules `Spec.denotes`, among the spec readings of `L` — exactly `sm`.
Then the text of these parts (either promotion style, any check mark) parses, and the resulting
query matches `m` and no other move of `L`.  Covers every disambiguation, including over-full ones. -/
theorem C12_unique_parts (L : List Move) (hwf : WFMoves L) (m : Move) (hm : m ∈ L)
    (sm : Spec.SMove) (hsm : toSpecMove m = some sm) (parts : Spec.SanParts)
    (hden : Spec.denotes (L.filterMap toSpecMove) parts = [sm])
    (eqSign : Bool) (mark : String) (hmark : mark = "" ∨ mark = "+" ∨ mark = "#") :
    ∃ q, parseSan (Spec.partsText parts eqSign ++ mark) = some q ∧
      ∀ m' ∈ L, (q.test m' = true ↔ m' = m) := by
  obtain ⟨hwfp, hsel⟩ := unique_parts L hwf m hm sm hsm parts hden
  exact ⟨_, parse_written parts hwfp eqSign mark hmark, hsel⟩

/-- castling: `O-O` / `O-O-O` select exactly the castling move of that side -/
theorem C12_unique_castle (L : List Move) (hwf : WFMoves L) (m : Move) (hm : m ∈ L)
    (sm : Spec.SMove) (hsm : toSpecMove m = some sm) (kingSide : Bool)
    (hc : sm.castle = some kingSide)
    (mark : String) (hmark : mark = "" ∨ mark = "+" ∨ mark = "#") :
    ∃ q, parseSan ((if kingSide then "O-O" else "O-O-O") ++ mark) = some q ∧
      ∀ m' ∈ L, (q.test m' = true ↔ m' = m) := by
  obtain ⟨_, hsmeq⟩ := (toSpecMove_eq_some m sm).1 hsm
  have hcast : sm.castle = (Move.castleSide m).map (fun s => s == .king) := congrArg Spec.SMove.castle hsmeq
  rw [hc] at hcast
  have hside := isCastle_of_spec m kingSide hcast.symm
  have key : ∀ s, Move.isCastle m s = true → ∀ m' ∈ L, (Move.isCastle m' s = true ↔ m' = m) := by
    intro s hs m' hm'
    refine ⟨fun h => ?_, fun e => e ▸ hs⟩
    unfold Move.isCastle at h hs
    have h1 : Move.castleSide m' = some s := eq_of_beq h
    have h2 : Move.castleSide m = some s := eq_of_beq hs
    exact hwf.castle m' hm' m hm (by rw [h1]; simp) (h1.trans h2.symm)
  cases kingSide with
  | true =>
    refine ⟨_, (parse_castle mark hmark).1, fun m' hm' => ?_⟩
    rw [test_castle]; exact key _ hside m' hm'
  | false =>
    refine ⟨_, (parse_castle mark hmark).2, fun m' hm' => ?_⟩
    rw [test_castle]; exact key _ hside m' hm'

/-- `Spec.spellings p m` is `spellingsIn` at the legal moves and check mark of `p` -/
theorem C12_spellings_generic (p : Spec.Pos) (m : Spec.SMove) :
    Spec.spellings p m = spellingsIn (Spec.legalMoves p) (Spec.checkMark p m) m :=
  spellings_eq p m

/-- **C12_unique.**  Every admissible spelling `t` of `m` produced by the independent writer
(`spellingsIn` = `Spec.spellings` with the legal list and the check mark as parameters: minimal /
file / rank / full disambiguation kept only if it denotes `m` alone, `x`, `=Q` or `Q`, optional
`+`/`#`, `O-O`, `O-O-O`) parses, and the query matches `m` and no other move of `L`.  Hence
`MoveSet::filter` yields exactly `[m]` and `State::by_performing_moves` performs `m`. -/
theorem C12_unique (L : List Move) (hwf : WFMoves L) (m : Move) (hm : m ∈ L)
    (sm : Spec.SMove) (hsm : toSpecMove m = some sm)
    (mark : String) (hmark : mark = "" ∨ mark = "+" ∨ mark = "#")
    (t : String) (ht : t ∈ spellingsIn (L.filterMap toSpecMove) mark sm) :
    ∃ q, parseSan t = some q ∧ ∀ m' ∈ L, (q.test m' = true ↔ m' = m) := by
  unfold spellingsIn at ht
  split at ht
  next hc =>
    rcases mem_withMarks _ _ _ ht with rfl | rfl
    · exact C12_unique_castle L hwf m hm sm hsm true hc "" (Or.inl rfl)
    · exact C12_unique_castle L hwf m hm sm hsm true hc mark hmark
  next hc =>
    rcases mem_withMarks _ _ _ ht with rfl | rfl
    · exact C12_unique_castle L hwf m hm sm hsm false hc "" (Or.inl rfl)
    · exact C12_unique_castle L hwf m hm sm hsm false hc mark hmark
  next hc =>
    rw [List.mem_flatMap] at ht
    obtain ⟨s, hs, ht⟩ := ht
    rw [List.mem_filter] at hs
    have hden : Spec.denotes (L.filterMap toSpecMove) s = [sm] := eq_of_beq hs.2
    rw [List.mem_flatMap] at ht
    obtain ⟨u, hu, ht⟩ := ht
    have hu' : u = Spec.partsText s true ∨ u = Spec.partsText s false := by
      split at hu <;> simp at hu <;> simp [hu]
    rcases hu' with rfl | rfl <;> rcases mem_withMarks _ _ _ ht with rfl | rfl
    · exact C12_unique_parts L hwf m hm sm hsm s hden true "" (Or.inl rfl)
    · exact C12_unique_parts L hwf m hm sm hsm s hden true mark hmark
    · exact C12_unique_parts L hwf m hm sm hsm s hden false "" (Or.inl rfl)
    · exact C12_unique_parts L hwf m hm sm hsm s hden false mark hmark

/-- the check mark the writer appends is nothing, `+` or `#` -/
theorem checkMark_cases (p : Spec.Pos) (m : Spec.SMove) :
    Spec.checkMark p m = "" ∨ Spec.checkMark p m = "+" ∨ Spec.checkMark p m = "#" := by
  unfold Spec.checkMark
  simp only
  split
  · split
    · exact Or.inr (Or.inr rfl)
    · exact Or.inr (Or.inl rfl)
  · exact Or.inl rfl

/-- **C12_unique_pos**: `C12_unique` for the writer `Spec.spellings` itself: if the packed list `L`
reads as the legal moves of the spec position `p` (C01), every spelling the independent writer
produces for `m` in `p` resolves to `m` alone. -/
theorem C12_unique_pos (L : List Move) (hwf : WFMoves L) (p : Spec.Pos)
    (hL : L.filterMap toSpecMove = Spec.legalMoves p) (m : Move) (hm : m ∈ L)
    (sm : Spec.SMove) (hsm : toSpecMove m = some sm)
    (t : String) (ht : t ∈ Spec.spellings p sm) :
    ∃ q, parseSan t = some q ∧ ∀ m' ∈ L, (q.test m' = true ↔ m' = m) := by
  rw [spellings_eq, ← hL] at ht
  exact C12_unique L hwf m hm sm hsm _ (checkMark_cases p sm) t ht

/-- the filter of `MoveSet::filter` / `State::by_performing_moves` then returns exactly `[m]`
(if `L` has no duplicates) -/
theorem C12_unique_filter (L : List Move) (hnd : L.Nodup) (m : Move) (hm : m ∈ L) (q : MoveQuery)
    (hq : ∀ m' ∈ L, (q.test m' = true ↔ m' = m)) : L.filter q.test = [m] := by
  induction L with
  | nil => cases hm
  | cons a L ih =>
    rw [List.nodup_cons] at hnd
    by_cases ha : a = m
    · subst ha
      have hrest : L.filter q.test = [] := by
        rw [List.filter_eq_nil_iff]
        intro x hx hxt
        have := (hq x (List.mem_cons_of_mem _ hx)).1 hxt
        exact hnd.1 (this ▸ hx)
      rw [List.filter_cons, if_pos ((hq a (List.mem_cons_self ..)).2 rfl), hrest]
    · have hm' : m ∈ L := by
        rcases List.mem_cons.1 hm with h | h
        · exact absurd h.symm ha
        · exact h
      have hat : ¬ q.test a = true := fun h => ha ((hq a (List.mem_cons_self ..)).1 h)
      rw [List.filter_cons, if_neg hat]
      exact ih hnd.2 hm' (fun m' h' => hq m' (List.mem_cons_of_mem _ h'))

/-! ## 3. Negative cases -/

/-- **C12_negative.**  `sm` is a non-castling move that is not (the reading of) any move of `L`
and whose attributes are sane relative to `L` (`NegOK L sm`: squares on the board, promotion only
Q/R/B/N by a pawn, `L` has no *other* move with the same kind/origin/destination/promotion, and no
move of `L` of that kind to that destination promotes if `sm` does not).  Then its fully
disambiguated spelling parses and the query matches NO move of `L` (`by_performing_moves` answers
`Unknown`).  `WFMoves` is only used for accessor consistency. -/
theorem C12_negative (L : List Move) (hwf : WFMoves L) (sm : Spec.SMove)
    (hnot : ∀ m' ∈ L, toSpecMove m' ≠ some sm) (hok : NegOK L sm)
    (mark : String) (hmark : mark = "" ∨ mark = "+" ∨ mark = "#") :
    ∃ q, parseSan (Spec.fullSpelling sm ++ mark) = some q ∧ ∀ m' ∈ L, q.test m' = false := by
  obtain ⟨hwfp, hsel⟩ := negative_parts L hwf.acc sm hnot hok
  rw [fullSpelling_eq sm hok.noCastle]
  exact ⟨_, parse_written (fullParts sm) hwfp true mark hmark, hsel⟩

/-! ## 4. Coordinate notation -/

/-- **C12_lan_text.**  `Lan::into_notation` writes origin square, destination square and the
lower-case promotion letter (nothing when the move does not promote). -/
theorem C12_lan_text (m : Move) :
    Move.lan m = sqName (Move.origin m) ++ sqName (Move.dest m) ++ lanSuffix (Move.promotion m) := by
  rw [lan_eq, lanText, promoSuffix_eq]

/-- **C12_lan_parse.**  The UCI token parser (`uci.rs`, `position … moves`) does not panic on that
text, accepts it, and produces the query "origin = …, destination = …, promotion = …" -/
theorem C12_lan_parse (m : Move) (hacc : AccOK m) :
    parseUciMoveToken (Move.lan m) =
      some (some { originRank := some (Move.origin m / 8), originFile := some (Move.origin m % 8),
                   destRank := some (Move.dest m / 8), destFile := some (Move.dest m % 8),
                   promotion := Move.promotion m }) := by
  rw [lan_eq]
  exact lan_parse _ _ (origin_lt m) (dest_lt m) _ hacc.promotion

/-- what that query tests -/
theorem C12_lan_test (m m' : Move) :
    (lanQuery (Move.origin m) (Move.dest m) (Move.promotion m)).test m' = true ↔
      Move.origin m' = Move.origin m ∧ Move.dest m' = Move.dest m ∧
      (∀ p, Move.promotion m = some p → p = (Move.promotion m').getD (Move.piece m')) :=
  lanQuery_test_iff _ _ _ m'

/-- **C12_lan.**  The coordinate text written for a move of a well-formed list selects that move
again, and only it. -/
theorem C12_lan (L : List Move) (hwf : WFMoves L) (m : Move) (hm : m ∈ L) :
    ∃ q, parseUciMoveToken (Move.lan m) = some (some q) ∧ ∀ m' ∈ L, (q.test m' = true ↔ m' = m) :=
  ⟨_, C12_lan_parse m (hwf.acc m hm), lan_unique L hwf m hm⟩

/-- castling is written as the king's two-square move -/
theorem C12_lan_castle :
    Move.lan (Move.byCastling .white .king) = "e1g1" ∧ Move.lan (Move.byCastling .white .queen) = "e1c1" ∧
    Move.lan (Move.byCastling .black .king) = "e8g8" ∧ Move.lan (Move.byCastling .black .queen) = "e8c8" ∧
    (∀ c s, Move.piece (Move.byCastling c s) = .king ∧ Move.isCastle (Move.byCastling c s) s = true ∧
       Move.promotion (Move.byCastling c s) = none) :=
  lan_castle

/-! ## 5. Link to the generator (not proved here) -/

/-- legal move lists of legal positions are well-formed; follows from the C01 characterisation of
`legalMoves` (each legal move is generated once, with consistent attributes). -/
def C12_wf_statement : Prop :=
  ∀ s : State, LegalPos s = true → WFMoves ((legalMoves s).map (·.1))

/-! ## 6. Non-vacuity: the hypotheses hold for real move lists

The lists below are `(legalMoves s).map (·.1)` for the given FEN, computed with `#eval` on the model
(the kernel cannot evaluate `legalMoves` itself: well-founded recursion in the generator). -/

/-- start position, 20 moves -/
def startMoves : List Move :=
  [268451969, 268453009, 268454049, 268455089, 268456129, 268457169, 268458209, 268459249, 302014593,
   302015633, 302016673, 302017713, 302018753, 302019793, 302020833, 302021873, 268451858, 268453906,
   268457058, 268459106]

/-- `r3k2r/1P6/8/3pP3/8/2N3N1/8/R3K2R w KQkq d6 0 1`: 49 moves with both castlings, an en-passant
capture, promotions with and without capture, two knights reaching the same squares -/
def richMoves : List Move :=
  [268481089, 273737489, 272688913, 271640337, 270591761, 273998609, 272950033, 271901457, 270852881,
   285322817, 268436770, 268438818, 268443938, 268448034, 268460322, 268464418, 268469538, 268537122,
   268440930, 268448098, 268464482, 268473698, 268475746, 268438598, 268440646, 268446790, 268447814,
   268448838, 402659398, 335546438, 268436484, 268437508, 268438532, 268443652, 268451844, 268460036,
   268468228, 268476420, 268484612, 268754948, 268440692, 268441716, 268450932, 268459124, 268467316,
   268475508, 268483700, 268491892, 268762228]

/-- `4k3/8/8/8/4r3/8/4N3/4K3 w - - 0 1`: the knight is pinned, only four king moves are legal -/
def pinMoves : List Move := [268438598, 268440646, 268446790, 268448838]

set_option maxRecDepth 1000000 in
example : WFMoves startMoves := by decide +kernel

set_option maxRecDepth 1000000 in
theorem richMoves_wf : WFMoves richMoves := by decide +kernel

set_option maxRecDepth 1000000 in
theorem pinMoves_wf : WFMoves pinMoves := by decide +kernel

/-- the move `Nc3-e4` of `richMoves` (the other knight can also go to e4) -/
def nce4 : Spec.SMove := { color := .white, kind := .knight, src := 18, dst := 28 }

set_option maxRecDepth 1000000 in
/-- hypotheses of `C12_unique` hold for `Nce4+` (and `Ne4` is *not* among the spellings) -/
example : (268464418 : Move) ∈ richMoves ∧ toSpecMove 268464418 = some nce4 ∧
    "Nce4+" ∈ spellingsIn (richMoves.filterMap toSpecMove) "+" nce4 ∧
    "Ne4" ∉ spellingsIn (richMoves.filterMap toSpecMove) "+" nce4 := by decide +kernel

/-- so `Nce4+` resolves to exactly that move in `richMoves` -/
example : ∃ q, parseSan "Nce4+" = some q ∧ ∀ m' ∈ richMoves, (q.test m' = true ↔ m' = 268464418) :=
  C12_unique richMoves richMoves_wf 268464418 (by decide) nce4 (by decide +kernel) "+"
    (Or.inr (Or.inl rfl)) "Nce4+" (by decide +kernel)

set_option maxRecDepth 1000000 in
/-- hypotheses of `C12_unique_castle` hold for `O-O` in `richMoves` -/
example : (402659398 : Move) ∈ richMoves ∧
    (toSpecMove 402659398).map (·.castle) = some (some true) := by decide +kernel

/-- the coordinate text of the capture-promotion `b7xa8=N` selects it again -/
example : Move.lan 270852881 = "b7a8n" ∧
    ∃ q, parseUciMoveToken (Move.lan 270852881) = some (some q) ∧
      ∀ m' ∈ richMoves, (q.test m' = true ↔ m' = 270852881) :=
  ⟨by decide +kernel, C12_lan richMoves richMoves_wf 270852881 (by decide)⟩

/-- the pinned knight's pseudo-legal move `Ne2-c3` -/
def nc3 : Spec.SMove := { color := .white, kind := .knight, src := 12, dst := 18 }

set_option maxRecDepth 1000000 in
/-- hypotheses of `C12_negative` hold for the pinned knight's move -/
example : (∀ m' ∈ pinMoves, toSpecMove m' ≠ some nc3) ∧ NegOK pinMoves nc3 := by
  refine ⟨by decide +kernel, ⟨rfl, by decide, by decide, fun k h => (by cases h), ?_, ?_⟩⟩
  · exact det_of_noMatch pinMoves nc3 (by decide +kernel)
  · intro _; decide +kernel

end Wee.SanP
