import Wee.Proofs.MateComplete3
import Wee.Props.C06
import Wee.Props.C04
import Wee.Props.C17
/-!
# C06 — completeness: shallow forced mates are found (one worker per iteration); C17 — the consequence for recorded positions

Rust: `weechess-engine/src/searcher.rs` (`analyze_iterative`, `analyze_recursive`, `quiescence_search`,
`TranspositionTableMoveIterator`, `StateHistory`).  Model: `Wee/Model/Search.lean`.  Specification: `Wee/Spec/Outcome.lean`
(`forcedMate n`, `lostIn n`, `Win`, `Lost`).  Proofs: `Wee/Proofs/MateComplete.lean` (node level),
`Wee/Proofs/MateComplete2.lean` (root call, iteration, deepening loop).

What is proved here (for every seed / generator state, every table geometry, one worker per iteration, no cancellation):

* `C06_search_complete` — the node-level induction: `analyze_recursive` with window `(α, β)` and remaining depth `rem`
  returns `≥ min β POS_INF` on a visible forced mate within `rem` plies and `≤ max α NEG_INF` on a visible forced loss
  within `rem` plies, given the table invariant `CompleteTT`; "visible" = the mating strategy avoids the keys recorded
  in the state history (`fmH` / `liH`), because a non-root node with a recorded key is valued as a draw.
* `C06_complete_tt_preserved` — every returning call (hence every worker) re-establishes `CompleteTT`.
* `C06_complete_one_worker` — **completeness from fresh memory and an empty game history**: `forcedMate n root`, depth
  limit `d ≥ n` ⇒ no panic, the LAST `BestMove` report is winning (`≥ POS_INF`), its line is non-empty and starts with a
  legal move of the root into a position that is `Lost` for the opponent.
* `C06_complete_some_report_any_workers` — any number of workers per iteration, run one after the other: no panic
  and the last `BestMove` report is winning (no claim about its first move).
* `C17_win` — the same with an arbitrary incoming history, for forced mates that avoid the recorded positions; the
  reported first move leads to an unrecorded position.  `C17_win_two_moves` is the shape of `C17_win_statement`
  (a repeating winning move and another winning move: the other one is reported).  `C17_win_statement_vacuous`
  records that `C17_win_statement` as written in `Props/C17.lean` has unsatisfiable hypotheses.

What is NOT proved — and is FALSE of the model and of the real engine: the clause `lostIn (n - 1) r.2` of
`C06_complete_statement` (the reported move keeps the *shortest* mate).  A table entry with a larger remaining depth
may be used at a node with a smaller one (the probe asks `≥`), mate scores are stored without ply adjustment, so
through a tempo-losing transposition the search proves a mate longer than the iteration's depth with the (stale)
score of a shorter one, and `alpha` is only replaced by a strictly larger value.  Replayable instances (one worker,
depth 5 = the mate distance; compiled model `weedriver run` and real engine `weeharness` give identical events):

* `search 3040019196 5 1 - 2 64 0 8/1k6/R7/8/8/8/8/5RK1 w - - 0 1` → last report `best:10400:268481620,…` (Rf1-f6);
  the moves that keep the mate in 5 are 268483204 (Ra6-g6) and 268484228 (Ra6-h6); Rf1-f6 mates in 7
  (`matekeep 5 …` / `matekeep 7 …`); table 512/1024 entries.
* `search 1409875085 5 1 - 4 256 0 3Q4/8/k7/4R3/8/8/8/1K6 w - - 0 1` → last report `best:10500:268475972,…` (Re5-h5),
  not among the four moves keeping the mate in 5; here even the ply encoded in the score (5) is wrong: the oracle
  request `matecheck 10500 268475972 3Q4/8/k7/4R3/8/8/8/1K6 w - - 0 1` answers `first-move-loses-the-mate`.

* `search 548665608 5 1 - 2 64 0 8/6Q1/8/8/4P3/8/8/1k1K4 w - - 0 1` (the table geometry `./check C06` uses; 12127
  nodes) → last report `best:10500:268450661,…`; the moves keeping the mate in 5 are 268473189 and 268486501;
  `matecheck 10500 268450661 8/6Q1/8/8/4P3/8/8/1k1K4 w - - 0 1` answers `first-move-loses-the-mate`.

These runs have 10⁴ … 5·10⁴ nodes and `quiesce` is defined by well-founded recursion, so they cannot be turned into
kernel-checked theorems (`decide +kernel` does not unfold it); they are checked with the compiled model and the real
code only.  What IS proved about the reported move: it leads to a `Lost` position (existing soundness).
For several workers per iteration (run one after the other) only "the last report is winning" is proved
(`C06_complete_some_report_any_workers`), not the first-move clause (`C06_complete_statement` quantifies over
`workersOf` and asks for it).
-/
namespace Wee.C06
open Wee Wee.Search Wee.Outcome
open Wee.C10 (DisjointBoard)

/-! ## 1. the history-aware solver -/

/-- `inHist K H s`: the Zobrist key of `s` is one of the recorded keys `H` (`state_history.lookup(&hash).is_some()`) -/
example (K : Keys) (H : List UInt64) (s : State) : inHist K H s = H.contains (hash K s) := rfl

/-- **`fmH K H n s`** — the side to move can force mate within `n` plies by a strategy all of whose positions after the
first move have unrecorded keys; **`liH K H n s`** — the side to move is mated, or every legal move leads to an
unrecorded position where the opponent has such a strategy within `n - 1` plies.  These are `forcedMate` / `lostIn` of
`Spec/Outcome.lean` with the extra condition `!inHist` on every successor: `analyze_recursive` returns `EVEN` for a
non-root node with a recorded key (C17), so a mate through such a node is invisible to it — and a defence that reaches
such a node refutes the mate in the engine's eyes. -/
example (K : Keys) (H : List UInt64) (n : Nat) (s : State) :
    (fmH K H 0 s = false) ∧
    (fmH K H (n+1) s = (legalMoves s).any fun r => !inHist K H r.2 && liH K H n r.2) ∧
    (liH K H 0 s = isMated s) ∧
    (liH K H (n+1) s = if (legalMoves s).isEmpty then s.isCheck
      else (legalMoves s).all fun r => !inHist K H r.2 && fmH K H n r.2) :=
  ⟨by rw [fmH.eq_1], by rw [fmH.eq_2], by rw [liH.eq_1], by rw [liH.eq_2]⟩

/-- the history-aware solver only finds true forced mates, and more plies never lose one -/
theorem C06_solverH_sound (K : Keys) (H : List UInt64) (n : Nat) (s : State) :
    (fmH K H n s = true → forcedMate n s = true) ∧ (liH K H n s = true → lostIn n s = true) ∧
    (fmH K H n s = true → fmH K H (n+1) s = true) ∧ (liH K H n s = true → liH K H (n+1) s = true) :=
  ⟨(solverH_sub K H n s).1, (solverH_sub K H n s).2, (solverH_mono K H n s).1, (solverH_mono K H n s).2⟩

/-- with an empty history nothing is excluded: the two solvers coincide -/
theorem C06_solverH_nil (K : Keys) (n : Nat) : ∀ s,
    fmH K [] n s = forcedMate n s ∧ liH K [] n s = lostIn n s := by
  induction n with
  | zero => intro s; exact ⟨by rw [fmH.eq_1, forcedMate.eq_1], by rw [liH.eq_1, lostIn.eq_1]⟩
  | succ n ih =>
    intro s
    constructor
    · rw [fmH.eq_2, forcedMate.eq_2]
      congr 1
      funext r
      rw [(ih r.2).2]
      rfl
    · rw [liH.eq_2, lostIn.eq_2]
      congr 2
      funext r
      rw [(ih r.2).1]
      rfl

/-! ## 2. values, entries, the table invariant -/

/-- **`CVal`**: what completeness asks of the value `r` of a fail-hard node with window `(α, β)` and remaining depth
`rem`: a visible forced mate within `rem` plies gives `r ≥ min β POS_INF`, a visible forced loss within `rem` plies
gives `r ≤ max α NEG_INF` -/
example (K : Keys) (H : List UInt64) (s : State) (rem : Nat) (α β r : Eval) : CVal K H s rem α β r ↔
    ((fmH K H rem s = true → β ≤ r ∨ 10000 ≤ r) ∧ (liH K H rem s = true → r ≤ α ∨ r ≤ -10000)) := Iff.rfl

/-- **`CompleteEntry`**: what a stored entry `e` (remaining depth `R = e.maxDepth - e.depth`) claims about a position
`s` with its key, for depths `k ≤ R` up to the bound `B`: an `Exact` (or `UpperBound`) value is winning if `s` is a
visible forced mate within `k`; an `Exact` or `LowerBound` value is losing if `s` is a visible forced loss within `k`
(a cut-off `ev ≥ β` in such a position forces `β ≤ NEG_INF`).  `UpperBound` entries are never written by
`analyze_recursive` (the kind stays `UpperBound` only while `best_move` is `None`, and then nothing is stored); they get
the symmetric clause so that no invariant about kinds is needed.
**`CompleteTT`**: every entry found under the key of a position of `D` is complete for it. -/
example (K : Keys) (H : List UInt64) (B : Nat) (s : State) (e : TT.Entry) : CompleteEntry K H B s e ↔
    ∀ k, k ≤ e.maxDepth - e.depth → k ≤ B →
      ((e.kind = kindExact ∨ e.kind = kindUpper) → fmH K H k s = true → 10000 ≤ e.eval) ∧
      (e.kind ≠ kindUpper → liH K H k s = true → e.eval ≤ -10000) := Iff.rfl
example (K : Keys) (H : List UInt64) (D : State → Prop) (B : Nat) (tt : TT.Access) : CompleteTT K H D B tt ↔
    ∀ s e, D s → tt.find (hash K s).toNat = some e → CompleteEntry K H B s e := Iff.rfl

/-- **`CollH K H D B`** — no harmful key collision for completeness: positions of `D` with equal keys have the same
visible mate distances up to `B`.  **`CollisionFreeN K D`** — the same for the plain solver and all distances; for
an empty incoming history it implies `CollH` up to the root's mate distance (`collH_single`: along a shortest mate no
position can repeat the root).  Like `CollisionFree` these cannot be asked of all `State`s (more than `2^64`), only of
the positions a search can reach; they are the precise content of "up to 64-bit chance". -/
example (K : Keys) (H : List UInt64) (D : State → Prop) (B : Nat) : CollH K H D B ↔
    ∀ s s', D s → D s' → hash K s = hash K s' → ∀ n, n ≤ B →
      fmH K H n s = fmH K H n s' ∧ liH K H n s = liH K H n s' := Iff.rfl
example (K : Keys) (D : State → Prop) : CollisionFreeN K D ↔
    ∀ s s', D s → D s' → hash K s = hash K s' → ∀ n,
      forcedMate n s = forcedMate n s' ∧ lostIn n s = lostIn n s' := Iff.rfl

/-! ## 3. `analyze_recursive` -/

/-- **C06_search_complete** (node level; nothing is left open).  Let `D` be a `Domain` for the keys `K` of the search,
`H` its state history, the table have positive geometry, satisfy the shape invariant and `CompleteTT … B`, and keys not
collide harmfully (`CollH … B`).  For every remaining depth `rem ≤ B` and node `a` with position in `D`, window
`alpha < beta`, bookkeeping `max_depth = current_depth + rem` (true along the recursion: the check extension is added
to both) and a legal (or no) prioritised move: if the call returns `r` in state `st'`, then

* the table satisfies the shape invariant and `CompleteTT` again, and at least one node was counted;
* if the node is the root (`current_depth = 0`) or its key is not recorded:
  `fmH rem a.s` ⇒ `beta ≤ r ∨ POS_INF ≤ r`, and `liH rem a.s` ⇒ `r ≤ alpha ∨ r ≤ NEG_INF`;
* if it is not the root and its key is recorded, `r = 0` (C17).

Cases covered: draw by history, the three table-hit paths (an entry is only used with at least the remaining depth;
mate scores stored at another ply are still `≥ POS_INF` / `≤ NEG_INF`), quiescence at the horizon (only "mated now"
matters: no legal move ⇒ `-mate_in_ply`), the move loop (the strategy move is in the buffer whatever the order and the
jitter; once it has been searched `alpha ≥ min beta POS_INF` or a cut-off happened; in a lost node every child returns
`≥ min(-alpha, POS_INF)`, so `alpha` never rises above `max alpha₀ NEG_INF` and a cut-off needs `beta ≤ NEG_INF`), the
"no node searched" exit (the node counter strictly grows when a legal move is in the buffer, so the exit is only
taken without legal moves, where the static value is the mate score), the `LowerBound` store of a cut-off and the
final store. -/
theorem C06_search_complete {K : Keys} {H : List UInt64} {D : State → Prop} {B L nT nB : Nat} (g : Geo L nT nB)
    (dom : Domain K D) (coll : CollH K H D B) (ctx : Ctx) (hK : ctx.keys = K) (hH : ctx.history = H)
    (rem : Nat) (a : NodeArgs) (hD : D a.s) (hab : a.alpha < a.beta) (hrem : a.maxDepth = a.curDepth + rem)
    (hB : rem ≤ B) (hprio : PrioOK a) (st : St) (hshape : TT.AInv L nT nB st.tt) (hct : CompleteTT K H D B st.tt)
    (r : Eval) (st' : St) (hrun : (searchNode ctx rem a).run.run st = (.ok r, st')) :
    TT.AInv L nT nB st'.tt ∧ CompleteTT K H D B st'.tt ∧ st.nodes < st'.nodes ∧
    ((a.curDepth = 0 ∨ H.contains (hash K a.s) = false) →
      (fmH K H rem a.s = true → a.beta ≤ r ∨ Ev.posInf ≤ r) ∧
      (liH K H rem a.s = true → r ≤ a.alpha ∨ r ≤ Ev.negInf)) ∧
    (0 < a.curDepth → H.contains (hash K a.s) = true → r = 0) := by
  obtain ⟨h1, h2, h3, h4⟩ := searchNode_complete g dom coll ctx hK hH rem a hD hab hrem hB hprio st.nodes st
    ⟨⟨hshape, hct⟩, Nat.le_refl _⟩ r st' hrun
  exact ⟨h1.1, h1.2, h2, fun h => by rw [posInf_eq, negInf_eq]; exact h3 h, h4⟩

/-- **C06_complete_tt_preserved.**  Every returning call of `analyze_recursive` (same hypotheses) leaves a table that
satisfies `CompleteTT` again: the `LowerBound` entry of a cut-off and the final entry are complete for the node's
position, and by `CollH` for every position of the domain with the same key.  (On the interrupt and panic paths the
table is not inspected here: completeness is about searches that run to their end.) -/
theorem C06_complete_tt_preserved {K : Keys} {H : List UInt64} {D : State → Prop} {B L nT nB : Nat} (g : Geo L nT nB)
    (dom : Domain K D) (coll : CollH K H D B) (ctx : Ctx) (hK : ctx.keys = K) (hH : ctx.history = H)
    (rem : Nat) (a : NodeArgs) (hD : D a.s) (hab : a.alpha < a.beta) (hrem : a.maxDepth = a.curDepth + rem)
    (hB : rem ≤ B) (hprio : PrioOK a) (st : St) (hshape : TT.AInv L nT nB st.tt) (hct : CompleteTT K H D B st.tt)
    (r : Eval) (st' : St) (hrun : (searchNode ctx rem a).run.run st = (.ok r, st')) :
    CompleteTT K H D B st'.tt :=
  (C06_search_complete g dom coll ctx hK hH rem a hD hab hrem hB hprio st hshape hct r st' hrun).2.1

/-- the same for a whole worker (`runWorker` = the root call with the root window), together with its value:
a visible forced mate of the root within the worker's search depth gives a winning value -/
theorem C06_complete_worker {K : Keys} {H : List UInt64} {D : State → Prop} {B L nT nB : Nat} (g : Geo L nT nB)
    (dom : Domain K D) (coll : CollH K H D B) (ctx : Ctx) (hK : ctx.keys = K) (hH : ctx.history = H)
    (root : State) (hD : D root) (depth : Nat) (hdB : depth + 1 ≤ B)
    (best : Option Move) (hbest : BestOK root best) (tt : TT.Access) (htt : TTInv K D L nT nB tt)
    (hct : CompleteTT K H D B tt) (rng : Rng.ChaCha8) (polls : Nat) (e : Eval) (stw : St)
    (hrun : runWorker ctx root (depth + 1) best tt rng polls = (.ok e, stw)) :
    CompleteTT K H D B stw.tt ∧ (fmH K H (depth + 1) root = true → Ev.posInf ≤ e) := by
  have hexec : exec (searchNode ctx (depth + 1) (rootArgs root (depth + 1) best))
      { tt := tt, rng := rng, nodes := 0, polls := polls } = (.ok e, stw) := by
    rw [← runWorker_eq]; exact hrun
  obtain ⟨_, c2, _, c4, _⟩ := C06_search_complete g dom coll ctx hK hH (depth + 1) (rootArgs root (depth + 1) best) hD
    (show - Ev.mateInPly 0 < Ev.mateInPly 0 by decide) (show depth + 1 = 0 + (depth + 1) by omega) hdB hbest
    { tt := tt, rng := rng, nodes := 0, polls := polls } htt.1 hct e stw hexec
  refine ⟨c2, fun hw => ?_⟩
  have hv : Ev.mateInPly 0 ≤ e ∨ Ev.posInf ≤ e := (c4 (Or.inl rfl)).1 hw
  rw [root_window.2, posInf_eq] at hv
  rw [posInf_eq]
  eomega

/-! ## 4. `analyze_iterative`: completeness for one worker per iteration -/

/-- **C06_complete_one_worker** (completeness half of C06 for one worker per iteration).
Hypotheses: a legal root position (placement without overlaps) whose reachable tree satisfies the material bound of
C05 (`TreeBounded root`: REDUNDANT since the repair of defect F10, kept for the signature — `C06_complete_one_worker_all`
in `Wee/Props/Clamped.lean` drops it, as do `C06_complete_some_report_any_workers_all`, `C17_win_all`,
`C17_win_two_moves_all` for the theorems below); a key table without harmful collision among the positions reachable from the root — `CollisionFree` (what
soundness needs) and `CollisionFreeN` (equal keys ⇒ equal mate distances); fresh memory of any geometry
`nT, nB > 0`; an EMPTY game history; the side to move can force mate within `n` plies; depth limit `d ≥ n`; one worker
per iteration; never cancelled; any generator state.  Then

* the search does not panic (C04);
* there is at least one `BestMove` report and the LAST one has a winning terminal evaluation `ev ≥ POS_INF`
  (the loop ends with it: `best_eval >= POS_INF` breaks);
* its line is non-empty and starts with a legal move `r.1` of the root that leads to a position `r.2` in which the
  opponent is `Lost` (mated or unable to avoid mate).

Proof: let `n₀ ≤ n` be the least distance.  Iterations `depth = 0 … n₀-1` search with `search_depth = depth + 1 ≤ n₀`;
below the root the remaining depth is `< n₀`, so every position where the induction is applied is won/lost in fewer
than `n₀` plies and therefore — by `CollisionFreeN` — has a key different from the root's, the only recorded one
(`solver_hist_equiv`).  `CompleteTT` is preserved by every iteration.  An iteration whose value is `≥ POS_INF` leaves
its root entry (the root's insert is the last write; nothing below the root writes under a recorded key), so the line
is non-empty, the report is emitted and the loop ends; the iteration with `search_depth = n₀` has such a value by
`C06_search_complete` and the root window `(-11000, 11000) ∋ POS_INF`.  The first move: existing soundness
(`SoundTT`, the pairing of the root's value with the root entry for one worker). -/
theorem C06_complete_one_worker (root : State) (n d : Nat) (keys : KeyTable) (nT nB : Nat) (rng0 : Rng.ChaCha8)
    (fuelDepth : Nat)
    (hl : LegalPos root = true) (hdj : DisjointBoard root.pieces) (htb : TreeBounded root)
    (hcf : CollisionFree keys.keys (Reachable root)) (hcfn : CollisionFreeN keys.keys (Reachable root))
    (hT : 0 < nT) (hB : 0 < nB) (hw : forcedMate n root = true) (hnd : n ≤ d) :
    let out := iterate root rng0 (some d) { keys := keys, tt := TT.Access.new nT nB, history := [] } (fun _ => 1)
      Option.none fuelDepth
    out.panic = Option.none ∧
    ∃ ev line, (bestReports out.events).getLast? = some (ev, line) ∧ Ev.posInf ≤ ev ∧
      ∃ r ∈ legalMoves root, line.head? = some r.1 ∧ Lost r.2 := by
  intro out
  have hnp : out.panic = Option.none :=
    SearchCtl.C04_no_panic_fresh root rng0 (some d) keys [] (fun _ => 1) Option.none fuelDepth nT nB hT hB hl hdj
  obtain ⟨n₀, hn₀, hw₀, hmin⟩ := exists_least (fun k => forcedMate k root) n hw
  have dom := Domain.ofRoot hl hdj htb hcf
  have hclosed : ∀ s, Reachable root s → ∀ r ∈ legalMoves s, Reachable root r.2 := dom.closed
  have hwH := (solver_hist_equiv hclosed hcfn (Reachable.refl root) hw₀ hmin n₀ (Nat.le_refl _) root
    (Reachable.refl root)).1 hw₀
  have coll := collH_single hclosed hcfn (Reachable.refl root) hw₀ hmin
  obtain ⟨ev, line, r, h1, h2, h3, h4, h5, _⟩ := iterate_complete hT hB keys [] root dom (Reachable.refl root) n₀ d
    coll hwH (by omega) rng0 fuelDepth hnp
  exact ⟨hnp, ev, line, h1, h2, r, h3, h4, h5⟩

/-- **C06_complete_some_report_any_workers** ("some winning report" for any number of workers per iteration, run one
after the other as the model runs them).  Same hypotheses as `C06_complete_one_worker`, but `workersOf k ≥ 1` workers
in iteration `k`.  Then the search does not panic and the LAST `BestMove` report has a winning evaluation.
The first-move clause is not claimed here: with several workers the reported evaluation is the maximum over the
workers while the line is read from the shared table (`C06_report_pairing_partial`).
Proof: `CompleteTT` and soundness survive every worker; the entries under the root's key are written by root calls
only (`Exact`, or the `LowerBound` of a cut-off at `beta = mate_in_ply(0)`); in the iteration with
`search_depth = n₀` worker 0 returns `≥ POS_INF` and leaves a root entry with remaining depth `n₀`; every later worker
(search depth `n₀ - 1` or `n₀`) finds it at the root's probe and returns without touching the table, so the line read
afterwards is non-empty and the maximum of the workers' values is `≥ POS_INF`.
The model does not interleave the workers' table operations (as for soundness, see `C06.lean`). -/
theorem C06_complete_some_report_any_workers (root : State) (n d : Nat) (keys : KeyTable) (nT nB : Nat)
    (rng0 : Rng.ChaCha8) (workersOf : Nat → Nat) (fuelDepth : Nat)
    (hl : LegalPos root = true) (hdj : DisjointBoard root.pieces) (htb : TreeBounded root)
    (hcf : CollisionFree keys.keys (Reachable root)) (hcfn : CollisionFreeN keys.keys (Reachable root))
    (hT : 0 < nT) (hB : 0 < nB) (hw : forcedMate n root = true) (hnd : n ≤ d) (hwk : ∀ k, 0 < workersOf k) :
    let out := iterate root rng0 (some d) { keys := keys, tt := TT.Access.new nT nB, history := [] } workersOf
      Option.none fuelDepth
    out.panic = Option.none ∧
    ∃ ev line, (bestReports out.events).getLast? = some (ev, line) ∧ Ev.posInf ≤ ev := by
  intro out
  have hnp : out.panic = Option.none :=
    SearchCtl.C04_no_panic_fresh root rng0 (some d) keys [] workersOf Option.none fuelDepth nT nB hT hB hl hdj
  obtain ⟨n₀, hn₀, hw₀, hmin⟩ := exists_least (fun k => forcedMate k root) n hw
  have dom := Domain.ofRoot hl hdj htb hcf
  have hclosed : ∀ s, Reachable root s → ∀ r ∈ legalMoves s, Reachable root r.2 := dom.closed
  have hwH := (solver_hist_equiv hclosed hcfn (Reachable.refl root) hw₀ hmin n₀ (Nat.le_refl _) root
    (Reachable.refl root)).1 hw₀
  have coll := collH_single hclosed hcfn (Reachable.refl root) hw₀ hmin
  obtain ⟨ev, line, h1, h2⟩ := iterate_complete_any hT hB keys [] root dom (Reachable.refl root) n₀ d
    coll hwH (by omega) workersOf hwk rng0 fuelDepth hnp
  exact ⟨hnp, ev, line, h1, h2⟩

/-! ## 5. C17: winning although a winning move repeats a recorded position -/

/-- **C17_win** (general incoming history).  As `C06_complete_one_worker`, but the artifact carries an arbitrary
history of recorded keys.  `H` = the root's key followed by that history is what the search runs with.  If the side
to move has a forced mate within `n ≤ d` plies that avoids the recorded keys (`fmH … H n root`) and equal keys mean
equal visible mate distances up to `n` (`CollH`), then the search does not panic, its last `BestMove` report is
winning, and the reported first move leads to a position that is `Lost` for the opponent and whose key is NOT
recorded: the search wins without repeating a position of the game. -/
theorem C17_win (root : State) (n d : Nat) (keys : KeyTable) (history : List UInt64) (nT nB : Nat)
    (rng0 : Rng.ChaCha8) (fuelDepth : Nat)
    (hl : LegalPos root = true) (hdj : DisjointBoard root.pieces) (htb : TreeBounded root)
    (hcf : CollisionFree keys.keys (Reachable root))
    (hcoll : CollH keys.keys (hash keys.keys root :: history) (Reachable root) n)
    (hT : 0 < nT) (hB : 0 < nB) (hw : fmH keys.keys (hash keys.keys root :: history) n root = true) (hnd : n ≤ d) :
    let out := iterate root rng0 (some d) { keys := keys, tt := TT.Access.new nT nB, history := history } (fun _ => 1)
      Option.none fuelDepth
    out.panic = Option.none ∧
    ∃ ev line, (bestReports out.events).getLast? = some (ev, line) ∧ Ev.posInf ≤ ev ∧
      ∃ r ∈ legalMoves root, line.head? = some r.1 ∧ Lost r.2 ∧
        (hash keys.keys root :: history).contains (hash keys.keys r.2) = false := by
  intro out
  have hnp : out.panic = Option.none :=
    SearchCtl.C04_no_panic_fresh root rng0 (some d) keys history (fun _ => 1) Option.none fuelDepth nT nB hT hB hl hdj
  obtain ⟨ev, line, r, h1, h2, h3, h4, h5, h6⟩ := iterate_complete hT hB keys history root
    (Domain.ofRoot hl hdj htb hcf) (Reachable.refl root) n d hcoll hw hnd rng0 fuelDepth hnp
  exact ⟨hnp, ev, line, h1, h2, r, h3, h4, h5, h6⟩

/-- **C17_win_two_moves** (the situation of `C17_win_statement`).  Two legal first moves `r1`, `r2` of the root; `r1`
leads into a position whose key is recorded in the incoming history (so the search values it as a draw although it
may win); `r2` leads to an unrecorded position in which the opponent is lost within `n` plies along lines that avoid
recorded keys (`liH`).  Then the search of depth `d ≥ n + 1` ends with a winning `BestMove` report whose first move is
not the repeating move `r1` (and leads to a `Lost`, unrecorded position). -/
theorem C17_win_two_moves (root : State) (n d : Nat) (r1 r2 : Move × State) (keys : KeyTable)
    (history : List UInt64) (nT nB : Nat) (rng0 : Rng.ChaCha8) (fuelDepth : Nat)
    (hl : LegalPos root = true) (hdj : DisjointBoard root.pieces) (htb : TreeBounded root)
    (hcf : CollisionFree keys.keys (Reachable root))
    (hcoll : CollH keys.keys (hash keys.keys root :: history) (Reachable root) (n + 1))
    (hT : 0 < nT) (hB : 0 < nB) (hr1 : r1 ∈ legalMoves root) (hr2 : r2 ∈ legalMoves root)
    (hrec : history.contains (hash keys.keys r1.2) = true)
    (hfree : (hash keys.keys root :: history).contains (hash keys.keys r2.2) = false)
    (hwin : liH keys.keys (hash keys.keys root :: history) n r2.2 = true) (hnd : n + 1 ≤ d) :
    let out := iterate root rng0 (some d) { keys := keys, tt := TT.Access.new nT nB, history := history } (fun _ => 1)
      Option.none fuelDepth
    ∃ ev line, (bestReports out.events).getLast? = some (ev, line) ∧ Ev.posInf ≤ ev ∧ line.head? ≠ some r1.1 ∧
      ∃ r ∈ legalMoves root, line.head? = some r.1 ∧ Lost r.2 := by
  intro out
  have hw : fmH keys.keys (hash keys.keys root :: history) (n + 1) root = true :=
    (fmH_succ_iff _ _ n root).2 ⟨r2, hr2, hfree, hwin⟩
  obtain ⟨_, ev, line, h1, h2, r, h3, h4, h5, h6⟩ := C17_win root (n + 1) d keys history nT nB rng0 fuelDepth hl hdj htb
    hcf hcoll hT hB hw hnd
  refine ⟨ev, line, h1, h2, fun h => ?_, r, h3, h4, h5⟩
  rw [h4] at h
  have h' : r.1 = r1.1 := Option.some.inj h
  have hdom := Domain.ofRoot hl hdj htb hcf
  obtain ⟨ms, hms⟩ := hdom.gen (Reachable.refl root)
  have hrr := legal_unique hms h3 hr1 h'
  rw [hrr, List.contains_cons, hrec, Bool.or_true] at h6
  cases h6

/-- **`C17_win_statement` is vacuous as written.**  Its hypotheses ask that the key of `r1.2` is recorded and that the
key of every state `q ≠ r1.2` is not.  The Zobrist key does not read the move counters, so `r1.2` with another
half-move clock is a different state with the same key: the hypotheses are contradictory and the statement holds for
every `WinIn` without saying anything about the search.  (Besides, it asks for `events.getLast? = some (.best …)`,
which a trailing saturation warning would falsify, and has no legality hypothesis on the root.)  `C17_win` /
`C17_win_two_moves` above are the non-vacuous form: "recorded" is a property of keys, the mate must avoid them. -/
theorem C17_win_statement_vacuous (WinIn : Nat → State → Prop) : SearchCtl.C17_win_statement WinIn := by
  intro root n r1 r2 rng0 art tables buckets _ _ _ _ _ _ _ _ hrec hother
  exfalso
  have hne : ({ r1.2 with halfmove := r1.2.halfmove + 1 } : State) ≠ r1.2 := by
    intro h
    have := congrArg State.halfmove h
    simp at this
  have := hother _ hne
  have hk : Wee.hash art.keys.keys ({ r1.2 with halfmove := r1.2.halfmove + 1 } : State) =
      Wee.hash art.keys.keys r1.2 := rfl
  rw [hk, hrec] at this
  cases this

/-! ## 6. non-vacuity: a concrete root satisfying all hypotheses, and the theorems instantiated on it -/

/-- `k1n5/PpP5/PPP5/8/8/6p1/6Pp/7K w - - 0 1`: White's only legal moves are `a6xb7#` and `c6xb7#` (no sliders on the
board, so the kernel can run the move generator); the reachable tree is the root and the two mated positions -/
def compRoot : State :=
  { pieces := { wk := 0x80, wp := 0x0005070000004000, bk := 0x0100000000000000, bn := 0x0400000000000000,
                bp := 0x0002000000408000 },
    turn := .white, castleW := .noRights, castleB := .noRights, ep := none, halfmove := 0, fullmove := 1 }

/-- a small key table: side to move (1 / 2) and "white pawn on a6" (4); all other keys 0 -/
def compKeys : KeyTable :=
  { turn := #[1, 2], piece := ((List.range 1024).map fun i => if i = 641 then (4 : UInt64) else 0).toArray,
    castle := #[], epFile := #[] }

/-- the two legal moves with their successors -/
def compA : Move × State := (legalMoves compRoot).getD 0 default
def compC : Move × State := (legalMoves compRoot).getD 1 default

set_option maxRecDepth 1000000 in
theorem compRoot_facts :
    LegalPos compRoot = true ∧ DisjointBoard compRoot.pieces ∧ MaterialBounded compRoot ∧
    forcedMate 1 compRoot = true ∧ legalMoves compRoot = [compA, compC] ∧
    (∀ r ∈ [compA, compC], legalMoves r.2 = [] ∧ r.2.isCheck = true ∧ MaterialBounded r.2) ∧
    hash compKeys.keys compRoot = 5 ∧ hash compKeys.keys compA.2 = 2 ∧ hash compKeys.keys compC.2 = 6 := by
  refine ⟨by decide +kernel, by decide +kernel, by unfold MaterialBounded; decide +kernel, by decide +kernel,
    by decide +kernel, ?_, by decide +kernel, by decide +kernel, by decide +kernel⟩
  intro r hr
  rcases List.mem_cons.1 hr with h | h
  · subst h
    exact ⟨by decide +kernel, by decide +kernel, by unfold MaterialBounded; decide +kernel⟩
  · rw [List.mem_singleton.1 h]
    exact ⟨by decide +kernel, by decide +kernel, by unfold MaterialBounded; decide +kernel⟩

theorem compRoot_reach (s : State) (h : Reachable compRoot s) : s = compRoot ∨ s = compA.2 ∨ s = compC.2 := by
  obtain ⟨_, _, _, _, hlm, hch, _⟩ := compRoot_facts
  induction h with
  | refl => exact Or.inl rfl
  | step r _ hr ih =>
    rcases ih with h | h | h
    · rw [h, hlm] at hr
      rcases List.mem_cons.1 hr with h' | h'
      · exact Or.inr (Or.inl (by rw [h']))
      · exact Or.inr (Or.inr (by rw [List.mem_singleton.1 h']))
    · rw [h, (hch compA List.mem_cons_self).1] at hr; exact nomatch hr
    · rw [h, (hch compC (List.mem_cons_of_mem _ List.mem_cons_self)).1] at hr; exact nomatch hr

/-- positions of the reachable tree with the same key are the same position -/
theorem compRoot_inj (s s' : State) (hs : Reachable compRoot s) (hs' : Reachable compRoot s')
    (hk : hash compKeys.keys s = hash compKeys.keys s') : s = s' := by
  obtain ⟨_, _, _, _, _, _, k0, k1, k2⟩ := compRoot_facts
  rcases compRoot_reach s hs with h | h | h <;> rcases compRoot_reach s' hs' with h' | h' | h' <;>
    subst h <;> subst h' <;> first | rfl | (rw [k0, k1] at hk; exact absurd hk (by decide)) |
      (rw [k0, k2] at hk; exact absurd hk (by decide)) | (rw [k1, k0] at hk; exact absurd hk (by decide)) |
      (rw [k1, k2] at hk; exact absurd hk (by decide)) | (rw [k2, k0] at hk; exact absurd hk (by decide)) |
      (rw [k2, k1] at hk; exact absurd hk (by decide))

/-- all hypotheses of `C06_complete_one_worker` about the position and the keys hold for `compRoot` / `compKeys` -/
theorem compRoot_hyps :
    LegalPos compRoot = true ∧ DisjointBoard compRoot.pieces ∧ TreeBounded compRoot ∧
    CollisionFree compKeys.keys (Reachable compRoot) ∧ CollisionFreeN compKeys.keys (Reachable compRoot) ∧
    forcedMate 1 compRoot = true := by
  obtain ⟨f1, f2, f3, f4, _, hch, _⟩ := compRoot_facts
  refine ⟨f1, f2, fun s hs => ?_, fun s s' hs hs' hk => ?_, fun s s' hs hs' hk n => ?_, f4⟩
  · rcases compRoot_reach s hs with h | h | h
    · rw [h]; exact f3
    · rw [h]; exact (hch compA List.mem_cons_self).2.2
    · rw [h]; exact (hch compC (List.mem_cons_of_mem _ List.mem_cons_self)).2.2
  · rw [compRoot_inj s s' hs hs' hk]
    exact ⟨id, fun r hr => ⟨r, hr, rfl, id⟩⟩
  · rw [compRoot_inj s s' hs hs' hk]
    exact ⟨rfl, rfl⟩

/-- **`C06_complete_one_worker` instantiated**: for every table geometry, generator state and depth limit `d ≥ 1` the
search of `compRoot` from fresh memory does not panic and ends with a winning report whose first move mates -/
example (nT nB : Nat) (hT : 0 < nT) (hB : 0 < nB) (rng0 : Rng.ChaCha8) (d : Nat) (hd : 1 ≤ d) :
    let out := iterate compRoot rng0 (some d) { keys := compKeys, tt := TT.Access.new nT nB, history := [] }
      (fun _ => 1) Option.none
    out.panic = Option.none ∧
    ∃ ev line, (bestReports out.events).getLast? = some (ev, line) ∧ Ev.posInf ≤ ev ∧
      ∃ r ∈ legalMoves compRoot, line.head? = some r.1 ∧ Lost r.2 :=
  C06_complete_one_worker compRoot 1 d compKeys nT nB rng0 64 compRoot_hyps.1 compRoot_hyps.2.1 compRoot_hyps.2.2.1
    compRoot_hyps.2.2.2.1 compRoot_hyps.2.2.2.2.1 hT hB compRoot_hyps.2.2.2.2.2 hd

/-- **`C06_complete_some_report_any_workers` instantiated** (e.g. three workers in every iteration) -/
example (nT nB : Nat) (hT : 0 < nT) (hB : 0 < nB) (rng0 : Rng.ChaCha8) (d : Nat) (hd : 1 ≤ d) :
    let out := iterate compRoot rng0 (some d) { keys := compKeys, tt := TT.Access.new nT nB, history := [] }
      (fun _ => 3) Option.none
    out.panic = Option.none ∧ ∃ ev line, (bestReports out.events).getLast? = some (ev, line) ∧ Ev.posInf ≤ ev :=
  C06_complete_some_report_any_workers compRoot 1 d compKeys nT nB rng0 (fun _ => 3) 64 compRoot_hyps.1
    compRoot_hyps.2.1 compRoot_hyps.2.2.1 compRoot_hyps.2.2.2.1 compRoot_hyps.2.2.2.2.1 hT hB compRoot_hyps.2.2.2.2.2 hd
    (fun _ => by decide)

/-- **`C17_win_two_moves` instantiated**: the position after `a6xb7#` is recorded in the history (key 2), the other
mating move `c6xb7#` leads to an unrecorded position (key 6): the search reports a winning line that does not start
with `a6xb7`.  Hypotheses `hrec`, `hfree`, `hwin`, `CollH` are all satisfied. -/
example (nT nB : Nat) (hT : 0 < nT) (hB : 0 < nB) (rng0 : Rng.ChaCha8) (d : Nat) (hd : 1 ≤ d) :
    let out := iterate compRoot rng0 (some d) { keys := compKeys, tt := TT.Access.new nT nB, history := [2] }
      (fun _ => 1) Option.none
    ∃ ev line, (bestReports out.events).getLast? = some (ev, line) ∧ Ev.posInf ≤ ev ∧ line.head? ≠ some compA.1 ∧
      ∃ r ∈ legalMoves compRoot, line.head? = some r.1 ∧ Lost r.2 := by
  obtain ⟨_, _, _, _, hlm, hch, k0, k1, k2⟩ := compRoot_facts
  obtain ⟨h1, h2, h3, h4, _, _⟩ := compRoot_hyps
  refine C17_win_two_moves compRoot 0 d compA compC compKeys [2] nT nB rng0 64 h1 h2 h3 h4 ?_ hT hB
    (by rw [hlm]; exact List.mem_cons_self) (by rw [hlm]; exact List.mem_cons_of_mem _ List.mem_cons_self)
    (by rw [k1]; decide) (by rw [k0, k2]; decide) ?_ hd
  · intro s s' hs hs' hk n _
    rw [compRoot_inj s s' hs hs' hk]
    exact ⟨rfl, rfl⟩
  · rw [liH.eq_1]
    unfold isMated
    rw [(hch compC (List.mem_cons_of_mem _ List.mem_cons_self)).1,
      (hch compC (List.mem_cons_of_mem _ List.mem_cons_self)).2.1]
    rfl

/-- the node-level hypotheses are satisfiable: the root call of the first iteration on `compRoot` with fresh memory
(domain = the reachable tree, history = the root's key, bound `B = 1`) -/
example : Domain compKeys.keys (Reachable compRoot) ∧
    CollH compKeys.keys [hash compKeys.keys compRoot] (Reachable compRoot) 1 ∧
    CompleteTT compKeys.keys [hash compKeys.keys compRoot] (Reachable compRoot) 1 (TT.Access.new 2 4) ∧
    fmH compKeys.keys [hash compKeys.keys compRoot] 1 compRoot = true ∧ PrioOK (rootArgs compRoot 1 Option.none) := by
  obtain ⟨h1, h2, h3, h4, _, _⟩ := compRoot_hyps
  refine ⟨Domain.ofRoot h1 h2 h3 h4, fun s s' hs hs' hk n _ => ?_, fun s e _ hf => ?_, by decide +kernel,
    fun m hm => nomatch hm⟩
  · rw [compRoot_inj s s' hs hs' hk]; exact ⟨rfl, rfl⟩
  · rw [TT.Access.new_find (by decide) (by decide)] at hf; cases hf

end Wee.C06
