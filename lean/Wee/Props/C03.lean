import Wee.Proofs.SearchLemmas
import Wee.Proofs.SearchReport
import Wee.Props.C15
import Wee.Props.C05
/-!
# C03 — search only ever reports legal moves and legal lines

Rust: `weechess-engine/src/searcher.rs` (`analyze_iterative`, `analyze_recursive`,
`TranspositionTableAccess::iter_moves`, `TranspositionTableMoveIterator::next`), `weechess-core/src/hasher.rs`
(`ZobristHasher::hash`), `weechess-core/src/movegen.rs` (`PseudoLegalMove::try_as_legal_move`).
Model: `Wee/Model/Search.lean` (`searchNode`, `childLoop`, `walkLine`, `runWorker`, `runWorkers`, `iterStep`,
`iterLoop`, `iterate`), `Wee/Model/TT.lean`, `Wee/Model/Hash.lean`.  Helper lemmas: `Wee/Proofs/SearchLemmas.lean`.

## Vocabulary (defined in `Wee/Proofs/SearchLemmas.lean`, namespace `Wee.Search`)

* `LegalIn s mv` — `mv` is one of the moves `MoveGenerator::compute_legal_moves` lists for `s`
  (`∃ r ∈ legalMoves s, r.1 = mv`).  By C01 this is, for a legal position, a legal move of the rules
  (`C03_line_rules` below makes the link explicit).
* `LineLegal s line` — the first move is `LegalIn s`, the next one is `LegalIn` the listed successor, ….
* `Region R` — a set of positions the searches stay in: legal positions without stacked pieces, closed
  under listed legal moves.  Examples: all legal positions (`Region.legal`), everything reachable from a
  set of legal roots (`Region.reach`).
* `Graded G`, `upTo G D` — the depth-graded refinement: `G n` are the positions `n` plies below a root
  (`Plies Roots n`), a legal move leads from grade `n` to grade `n + 1`; `upTo G D` are the grades `≤ D`.  A search
  with depth limit `D` consults the table only for positions of `upTo G D` (quiescence goes deeper but never
  touches the table; check extensions do not add table-consulting plies), so the `…_bounded` theorems need the
  hypotheses below only there.  Each theorem comes in the readable closed-region form and in the `_bounded` form;
  the closed form is the instance `G := fun _ => R`.
* `CollisionFree K R` — two positions of `R` with the same hash have the same legal moves
  (`∀ s s' ∈ R, hash K s = hash K s' → ∀ mv, LegalIn s mv → LegalIn s' mv`).  This is the exact content of
  "up to 64-bit chance" in the property.  **Why it is relative to `R`.**  Quantified over *all* values of type
  `State` it is unsatisfiable by counting (more than `2^64` legal positions with pairwise different move lists,
  64-bit hashes), so an unrestricted hypothesis would make every theorem below vacuous; and the stronger form
  "equal hashes ⇒ equal `legalMoves`" is false for every key table even on tiny regions, because the successors
  listed in `legalMoves` carry the move counters, which are not hashed.  The hypothesis says: *among the
  positions these searches can reach* no two positions with different legal moves share a hash.  It is
  satisfiable (every hasher that is injective on `R`; concrete instance at the end of this file) and it is
  exactly what the property exempts.  For the region of ALL positions reachable from the starting position
  (≈ 10^44 ≫ 2^64) it fails for every 64-bit hasher for the same counting reason — that is why the `_bounded`
  forms matter: they ask for collision freedom only among the positions within the depth limit of the roots
  actually searched (at most about `35^D`, below `2^64` for the depths an engine reaches).  On the pinned tree the real hasher violated it deterministically (F1:
  castling rights / en-passant state not hashed), which is how the illegal `bestmove e1g1` arose.
* `TTInv K R tt` — every entry `tt.find k = some e` has `e.mv` legal in every position of `R` whose hash is `k`.
* `TTWf tt` — the table has the shape of a reachable table (`TT.AInv`: `nT ≥ 1` sub-tables of `nB ≥ 1` buckets of
  `bucketSize` slots, no key twice in a bucket, …), so that the C15 lemmas about `find` after `insert` apply.
* `TInv K R tt := TTWf tt ∧ TTInv K R tt`.
* `Keeps I Q x` — the computation `x : M α` keeps the table invariant `I` from every state and for every outcome.

## Structure (A–D of DESIGN §C03)

* A+B `C03_inserts_keep_inv` (via the generic `C03_search_keeps_any_invariant`), `C03_TTInv_insert`,
  `C03_interleaving`;
* C `C03_walk_legal`;
* composition `C03_iterate_inv`, `C03_reported_lines_legal`, `C03_session` (histories of searches),
  `C03_line_rules` (link to the rules of chess); depth-graded forms `C03_walk_legal_bounded`,
  `C03_inserts_keep_inv_bounded`, `C03_reported_lines_legal_bounded`, `C03_session_bounded`;
* D `C03_report_statement` (full statement), `C03_at_least_one_report_partial` (= D′ of DESIGN: proved under the
  explicit hypothesis `FirstRootEntryKept`), `C03_at_least_one_report_of_eval_bound` (D proved for one worker,
  fresh table, no cancellation from the explicit bound `EvalBelowMate` on the static evaluation) and
  `C03_report_statement_of_eval_bound` (the full statement follows from that bound for the legal positions —
  the bound itself, a fact about the soft-float evaluator, is the one thing left open).
-/
namespace Wee
open Wee.Search
open Wee.C10 (DisjointBoard)

/-! ## C: the walked line -/

/-- **C03_walk_legal** (C).  `TranspositionTableAccess::iter_moves` rebuilds the principal line by repeatedly
looking up the hash of the current position and applying the stored move with `by_performing_move`, without
any legality check.  If the table satisfies `TTInv`, the line it produces from any position of the region is a
legal line, whatever its length bound `n`: each move is in the legal-move list of the position where it is
played, and the walk continues from the listed successor (`by_performing_move` of a listed move is the listed
successor, `C02_listed_successor`). -/
theorem C03_walk_legal {K : Keys} {R : State → Prop} {tt : TT.Access} (hR : Region R) (hinv : TTInv K R tt)
    (n : Nat) (s : State) (hs : R s) : LineLegal s (walkLine K tt n s) :=
  walkLine_legal hR hinv n s hs

/-! ## A + B: the table invariant is kept by every write of the search -/

/-- a fresh table satisfies the invariant (nothing is stored) -/
theorem C03_TTInv_new (K : Keys) (R : State → Prop) {nT nB : Nat} (hT : 0 < nT) (hB : 0 < nB) :
    TInv K R (TT.Access.new nT nB) :=
  ⟨TTWf.new hT hB, TTInv_new K R hT hB⟩

/-- **C03_TTInv_insert.**  ANY single insert, by anybody, of an entry whose move is legal in a position `s ∈ R`,
under the key `hash K s`, keeps the invariant — from every table state satisfying it (full buckets, displacement
of another key, overwrite of the same key included: by C15 `find` afterwards returns the new entry for that
key and, for every other key, its previous entry or nothing).  Because the hypothesis is only the invariant of the
table state *at the moment of the insert*, this is the single-step fact that makes every interleaving of atomic
table operations of any number of workers keep the invariant (`C03_interleaving`). -/
theorem C03_TTInv_insert {K : Keys} {R : State → Prop} {tt : TT.Access} (hcf : CollisionFree K R)
    (h : TInv K R tt) (s : State) (hs : R s) (m : Move) (hm : LegalIn s m) (e : TT.Entry) (he : e.mv = m.toNat) :
    TInv K R (tt.insert (hash K s).toNat e) :=
  ⟨h.1.insert _ _, TTInv_insert hcf h.1 h.2 s hs m hm e he⟩

/-- an insert of the kind the search performs: key = hash of a position of the region, move legal there -/
def LegalInsert (K : Keys) (R : State → Prop) (k : Nat) (e : TT.Entry) : Prop :=
  ∃ s m, R s ∧ k = (hash K s).toNat ∧ LegalIn s m ∧ e.mv = m.toNat

/-- **C03_interleaving.**  Let `ops` be any sequence of atomic table operations (`TT.Op`: finds and inserts, in
the order in which they held the sub-table lock — the linearisation of C15) in which every insert is a
`LegalInsert`.  Started from a table satisfying the invariant, the table after `ops` satisfies it.  The inserts
of several workers, of an earlier search and of the current one, may be interleaved in any way. -/
theorem C03_interleaving {K : Keys} {R : State → Prop} (hcf : CollisionFree K R) (ops : List TT.Op) :
    ∀ (tt : TT.Access), TInv K R tt → (∀ k e, TT.Op.insert k e ∈ ops → LegalInsert K R k e) →
      TInv K R (TT.run tt ops) := by
  induction ops with
  | nil => intro tt h _; exact h
  | cons op rest ih =>
    intro tt h hops
    have hrest : ∀ k e, TT.Op.insert k e ∈ rest → LegalInsert K R k e :=
      fun k e hm => hops k e (List.mem_cons_of_mem _ hm)
    cases op with
    | find k => exact ih tt h hrest
    | insert k e =>
      obtain ⟨s, m, hs, hk, hm, he⟩ := hops k e List.mem_cons_self
      subst hk
      exact ih _ (C03_TTInv_insert hcf h s hs m hm e he) hrest

/-- **Generic state-invariant theorem** (the induction principle for the monadic recursion).  Let `I` be any
property of the shared table that is kept by every insert, under the key of a position `s ∈ R`, of an entry
whose move is legal in `s`.  Then `analyze_recursive` started at a position of `R`, with a prioritized move that
is absent or legal there, keeps `I`: for every remaining depth, window, extension count, history, cancellation
instant, and from every state (table contents satisfying `I`, rng state, node and poll counters); whatever
it returns (`Ok`, `Err(SearchInterrupt)`, a panic).  Nothing is assumed about the answers of `find`. -/
theorem C03_search_keeps_any_invariant {I : TT.Access → Prop} {R : State → Prop} (hR : Region R) (ctx : Ctx)
    (hins : ∀ s, R s → InsOK I ctx.keys s) (rem : Nat) (a : NodeArgs) (ha : R a.s)
    (hprio : ∀ m, a.prioritized = some m → LegalIn a.s m) (st : St) (hst : I st.tt) :
    I (runM (searchNode ctx rem a) st).2.tt :=
  (searchNode_keeps hR ctx hins rem a ha hprio st hst).1

/-- **C03_writes_are_legal_inserts** (A: "every insert a worker performs is `(hash K q, e)` with `e.move` legal in
`q`").  From ANY table whatsoever (no invariant and no collision freedom assumed — so whatever the reads
return), for every remaining depth, window, rng state, counters, history and cancellation instant, and whatever
the outcome: the table in which `analyze_recursive` ends is the initial table after a sequence of
`LegalInsert`s.  (Instance of the generic theorem with the strongest invariant.) -/
theorem C03_writes_are_legal_inserts {R : State → Prop} (hR : Region R) (ctx : Ctx) (rem : Nat) (a : NodeArgs)
    (ha : R a.s) (hprio : ∀ m, a.prioritized = some m → LegalIn a.s m) (st : St) :
    ∃ ops : List TT.Op, (∀ op ∈ ops, ∃ k e, op = TT.Op.insert k e ∧ LegalInsert ctx.keys R k e) ∧
      (runM (searchNode ctx rem a) st).2.tt = TT.run st.tt ops := by
  refine C03_search_keeps_any_invariant
    (I := fun tt => ∃ ops : List TT.Op, (∀ op ∈ ops, ∃ k e, op = TT.Op.insert k e ∧ LegalInsert ctx.keys R k e) ∧
      tt = TT.run st.tt ops) hR ctx ?_ rem a ha hprio st ⟨[], fun _ h => (by cases h), rfl⟩
  intro s hs tt m e ⟨ops, hops, htt⟩ hm he
  refine ⟨ops ++ [TT.Op.insert (hash ctx.keys s).toNat e], ?_, ?_⟩
  · intro op hop
    rcases List.mem_append.1 hop with h | h
    · exact hops op h
    · rw [List.mem_singleton] at h
      exact ⟨_, _, h, s, m, hs, rfl, hm, he⟩
  · rw [TT.run_snoc, htt]; rfl

/-- **C03_inserts_keep_inv** (A + B).  For every context `ctx` (keys, history of earlier positions, cancellation
instant) whose keys are collision-free on the region, every remaining depth `rem`, every argument record `a`
(position in the region; window, depths, extension arbitrary; prioritized move absent or legal in `a.s`) and
every state `st` (rng, counters, table) whose table satisfies `TTWf` and `TTInv`: the state in which
`analyze_recursive` ends — normally, by the interrupt, or by a panic — again satisfies `TTWf` and `TTInv`.
The only table writes are the two `insert`s of `analyze_recursive`; both store, under the hash of the node's
position, a move that `try_as_legal_move` accepted: for a generated pseudo-legal move that is a listed legal
move; for the unchecked prioritized move it is one because the move was legal to begin with (hypothesis; it is
the head of a walked line, see `C03_iterate_inv`). -/
theorem C03_inserts_keep_inv {R : State → Prop} (hR : Region R) (ctx : Ctx) (hcf : CollisionFree ctx.keys R)
    (rem : Nat) (a : NodeArgs) (ha : R a.s)
    (hprio : a.prioritized = Option.none ∨ ∃ m, a.prioritized = some m ∧ LegalIn a.s m)
    (st : St) (hwf : TTWf st.tt) (hinv : TTInv ctx.keys R st.tt) :
    TTWf (runM (searchNode ctx rem a) st).2.tt ∧ TTInv ctx.keys R (runM (searchNode ctx rem a) st).2.tt := by
  refine C03_search_keeps_any_invariant (I := TInv ctx.keys R) hR ctx (insOK_TInv hcf) rem a ha ?_ st ⟨hwf, hinv⟩
  intro m hm
  rcases hprio with h | ⟨m', h, hl⟩
  · rw [h] at hm; cases hm
  · rw [h] at hm; cases hm; exact hl

/-- the same for one worker's run of one iteration (`runWorker` is `searchNode` on the root arguments), in the
depth-graded form: root of grade 0, search depth `≤ D`, hypotheses on the grades `≤ D` only -/
theorem C03_worker_keeps_inv {G : Nat → State → Prop} (hG : Graded G) (D : Nat) (ctx : Ctx)
    (hcf : CollisionFree ctx.keys (upTo G D)) (root : State) (hroot : G 0 root) (searchDepth : Nat)
    (hsd : searchDepth ≤ D) (best : Option Move) (hbest : ∀ m, best = some m → LegalIn root m)
    (tt : TT.Access) (rng : Rng.ChaCha8) (polls : Nat) (h : TInv ctx.keys (upTo G D) tt) :
    TInv ctx.keys (upTo G D) (runWorker ctx root searchDepth best tt rng polls).2.tt :=
  runWorker_keeps hG D ctx hcf root hroot searchDepth hsd best hbest tt rng polls h

/-! ## composition: the iteration driver -/

/-- **C03_iterate_inv.**  The invariant of the deepening loop (`IterInv`: table invariant; the remembered best
move is absent or legal in the root; every `BestMove` reported so far carries a non-empty legal line) is kept by
one iteration with any number of workers (`iterStep`), by the loop (`iterLoop`), and `iterate` hands back an
artifact with the same keys whose table satisfies the invariant — so the next search may reuse it
(`C03_artifact_inv`).  Stated in the depth-graded form (`Graded G`, root of grade 0, iterations `depth < D`); for a
region `R` take `G := fun _ => R` (`Region.graded`, `upTo_const`).

*Several workers.*  `runWorkers` runs the workers of an iteration one after the other, which is one admissible
schedule of the real threads.  The proof does not use this: the theorem about one worker
(`C03_search_keeps_any_invariant`) quantifies over every table state satisfying the invariant at every one of
its steps and uses nothing about what `find` returns, and the invariant is stable under every legal insert by
anybody (`C03_TTInv_insert`, `C03_interleaving`).  Hence, under the atomicity of the `RwLock`-guarded table
operations (C15), every interleaving of the workers' table operations keeps the invariant: in rely/guarantee
terms each worker relies on and guarantees exactly "every step keeps `TInv`". -/
theorem C03_iterate_inv {G : Nat → State → Prop} (hG : Graded G) (D : Nat) (ctx : Ctx)
    (hcf : CollisionFree ctx.keys (upTo G D)) (root : State) (hroot : G 0 root) (rootHash : UInt64) :
    (∀ workers depth st, depth + 1 ≤ D → IterInv ctx.keys (upTo G D) root st →
      IterInv ctx.keys (upTo G D) root (iterStep ctx root rootHash workers depth st)) ∧
    (∀ workersOf n depth st, depth + n ≤ D → IterInv ctx.keys (upTo G D) root st →
      IterInv ctx.keys (upTo G D) root (iterLoop ctx root rootHash workersOf n depth st)) :=
  ⟨fun workers depth st hd h => iterStep_inv hG D ctx hcf root hroot rootHash workers depth hd st h,
   fun workersOf n depth st hd h => iterLoop_inv hG D ctx hcf root hroot rootHash workersOf n depth st hd h⟩

/-- `iterate` returns the keys it was given and a table satisfying the invariant -/
theorem C03_artifact_inv {R : State → Prop} (hR : Region R) (root : State) (hroot : R root) (art : Artifact)
    (hcf : CollisionFree art.keys.keys R) (htt : TInv art.keys.keys R art.tt)
    (rng0 : Rng.ChaCha8) (maxDepth : Option Nat) (workersOf : Nat → Nat) (cancelAt : Option Nat) (fuelDepth : Nat) :
    (iterate root rng0 maxDepth art workersOf cancelAt fuelDepth).artifact.keys = art.keys ∧
    TInv art.keys.keys R (iterate root rng0 maxDepth art workersOf cancelAt fuelDepth).artifact.tt :=
  let h := iterate_inv hR root hroot art hcf htt rng0 maxDepth workersOf cancelAt fuelDepth
  ⟨h.1, h.2.1⟩

/-- **C03_reported_lines_legal.**  Every `StatusEvent::BestMove { line, .. }` that `analyze_iterative` emits
while searching `root` carries a non-empty line that is legal from `root` (first move legal in `root`, every
following move legal in the position reached so far) — for every random seed `rng0`, every depth limit
(`maxDepth`, `fuelDepth` for the unbounded case), every number of workers per iteration `workersOf`, every
cancellation instant `cancelAt`, and every incoming artifact (keys, table contents, history) whose table
satisfies the invariant — in particular a fresh table (`C03_TTInv_new`) and every table left by earlier searches
of any positions of the region (`C03_artifact_inv`, `C03_session`).  Hypotheses: the region is closed and
contains `root`; the keys are collision-free on it.  Both kinds of report are covered: the one after a completed
iteration and the one after an interrupt. -/
theorem C03_reported_lines_legal {R : State → Prop} (hR : Region R) (root : State) (hroot : R root)
    (art : Artifact) (hcf : CollisionFree art.keys.keys R) (htt : TInv art.keys.keys R art.tt)
    (rng0 : Rng.ChaCha8) (maxDepth : Option Nat) (workersOf : Nat → Nat) (cancelAt : Option Nat) (fuelDepth : Nat)
    (ev : Eval) (line : List Move)
    (hev : Event.best ev line ∈ (iterate root rng0 maxDepth art workersOf cancelAt fuelDepth).events) :
    line ≠ [] ∧ LineLegal root line :=
  (iterate_inv hR root hroot art hcf htt rng0 maxDepth workersOf cancelAt fuelDepth).2.2 ev line hev

/-! ## histories: any sequence of searches sharing one artifact -/

/-- one `go` request: position, seed, depth limit, worker counts, cancellation instant -/
structure SearchReq where
  root : State
  rng0 : Rng.ChaCha8
  maxDepth : Option Nat
  workersOf : Nat → Nat
  cancelAt : Option Nat
  fuelDepth : Nat

/-- run the requests one after the other, each on the artifact the previous one returned; collect
`(root, events)` -/
def session : Artifact → List SearchReq → List (State × List Event)
  | _, [] => []
  | art, q :: qs =>
    let out := iterate q.root q.rng0 q.maxDepth art q.workersOf q.cancelAt q.fuelDepth
    (q.root, out.events) :: session out.artifact qs

/-- **C03_session** (the quantifier over histories).  Any number of searches of any positions of the region, with
any parameters, run one after the other on the artifact handed on from one to the next — starting from a
table satisfying the invariant, e.g. a fresh one: every best line reported by every one of these searches is
non-empty and legal from the position that search was asked about.  (Positions that differ only in castling
rights or en-passant state are different positions of `R`; they may share a hash only if they have the same
legal moves — that is `CollisionFree`.) -/
theorem C03_session {R : State → Prop} (hR : Region R) (qs : List SearchReq) :
    ∀ (art : Artifact), CollisionFree art.keys.keys R → TInv art.keys.keys R art.tt → (∀ q ∈ qs, R q.root) →
      ∀ p ∈ session art qs, ∀ ev line, Event.best ev line ∈ p.2 → line ≠ [] ∧ LineLegal p.1 line := by
  induction qs with
  | nil => intro art _ _ _ p hp; cases hp
  | cons q qs ih =>
    intro art hcf htt hroots p hp ev line hev
    have hq := hroots q List.mem_cons_self
    have hi := iterate_inv hR q.root hq art hcf htt q.rng0 q.maxDepth q.workersOf q.cancelAt q.fuelDepth
    rcases List.mem_cons.1 hp with rfl | hp
    · exact hi.2.2 ev line hev
    · refine ih _ ?_ ?_ (fun q' hq' => hroots q' (List.mem_cons_of_mem _ hq')) p hp ev line hev
      · rw [hi.1]; exact hcf
      · rw [hi.1]; exact hi.2.1

theorem iterLimit_le (root : State) (maxDepth : Option Nat) (fuelDepth : Nat) :
    iterLimit root maxDepth fuelDepth ≤ maxDepth.getD fuelDepth := by
  unfold iterLimit
  split
  · exact Nat.zero_le _
  · cases maxDepth <;> exact Nat.le_refl _

/-! ## the same with hypotheses on the positions within the search depth only -/

/-- **C03_walk_legal_bounded.**  As `C03_walk_legal`, for a depth-graded family: a walk of at most `n` moves from a
position of grade `k` with `k + n ≤ D + 1` only consults entries of positions of grade `≤ D`; if the table
satisfies `TTInv` for those, the line is legal. -/
theorem C03_walk_legal_bounded {K : Keys} {G : Nat → State → Prop} {tt : TT.Access} (hG : Graded G) (D : Nat)
    (hinv : TTInv K (upTo G D) tt) (n : Nat) (s : State) (k : Nat) (hs : G k s) (hk : k + n ≤ D + 1) :
    LineLegal s (walkLine K tt n s) :=
  walkLine_legal_graded hG D hinv n s k hs hk

/-- **Generic state-invariant theorem, depth-graded**: `analyze_recursive` with remaining depth `rem` from a
position of grade `k`, `k + rem ≤ D`, keeps every table property that is kept by legal inserts at positions of
grade `≤ D`. -/
theorem C03_search_keeps_any_invariant_bounded {I : TT.Access → Prop} {G : Nat → State → Prop} (hG : Graded G)
    (D : Nat) (ctx : Ctx) (hins : ∀ s, upTo G D s → InsOK I ctx.keys s) (rem : Nat) (a : NodeArgs) (k : Nat)
    (ha : G k a.s) (hk : k + rem ≤ D) (hprio : ∀ m, a.prioritized = some m → LegalIn a.s m) (st : St)
    (hst : I st.tt) : I (runM (searchNode ctx rem a) st).2.tt :=
  (searchNode_keeps_graded hG D ctx hins rem a k ha hk hprio st hst).1

/-- **C03_inserts_keep_inv_bounded.**  As `C03_inserts_keep_inv` with collision freedom and `TTInv` required only
for the positions of grade `≤ D`, for a call with `k + rem ≤ D`. -/
theorem C03_inserts_keep_inv_bounded {G : Nat → State → Prop} (hG : Graded G) (D : Nat) (ctx : Ctx)
    (hcf : CollisionFree ctx.keys (upTo G D)) (rem : Nat) (a : NodeArgs) (k : Nat) (ha : G k a.s) (hk : k + rem ≤ D)
    (hprio : a.prioritized = Option.none ∨ ∃ m, a.prioritized = some m ∧ LegalIn a.s m)
    (st : St) (hwf : TTWf st.tt) (hinv : TTInv ctx.keys (upTo G D) st.tt) :
    TTWf (runM (searchNode ctx rem a) st).2.tt ∧ TTInv ctx.keys (upTo G D) (runM (searchNode ctx rem a) st).2.tt := by
  refine C03_search_keeps_any_invariant_bounded (I := TInv ctx.keys (upTo G D)) hG D ctx (insOK_TInv hcf) rem a k ha hk
    ?_ st ⟨hwf, hinv⟩
  intro m hm
  rcases hprio with h | ⟨m', h, hl⟩
  · rw [h] at hm; cases hm
  · rw [h] at hm; cases hm; exact hl

/-- **C03_reported_lines_legal_bounded.**  The conclusion of `C03_reported_lines_legal` — every reported best line
is non-empty and legal from the root, for every seed, worker counts, cancellation instant, incoming table — from
hypotheses that concern only the positions within `D` plies of the roots, where `D` bounds the depth limit of
the search (`maxDepth`, or `fuelDepth` when there is none): `G` is any depth-graded family with the root in grade
0 (e.g. `Plies Roots`: the positions exactly `n` legal moves below a root of this or an earlier search); the keys
are collision-free on `upTo G D`; the incoming table satisfies the invariant for `upTo G D`.  The artifact handed
back satisfies it again. -/
theorem C03_reported_lines_legal_bounded {G : Nat → State → Prop} (hG : Graded G) (D : Nat) (root : State)
    (hroot : G 0 root) (art : Artifact) (hcf : CollisionFree art.keys.keys (upTo G D))
    (htt : TInv art.keys.keys (upTo G D) art.tt)
    (rng0 : Rng.ChaCha8) (maxDepth : Option Nat) (workersOf : Nat → Nat) (cancelAt : Option Nat) (fuelDepth : Nat)
    (hD : maxDepth.getD fuelDepth ≤ D) :
    (iterate root rng0 maxDepth art workersOf cancelAt fuelDepth).artifact.keys = art.keys ∧
    TInv art.keys.keys (upTo G D) (iterate root rng0 maxDepth art workersOf cancelAt fuelDepth).artifact.tt ∧
    ∀ ev line, Event.best ev line ∈ (iterate root rng0 maxDepth art workersOf cancelAt fuelDepth).events →
      line ≠ [] ∧ LineLegal root line :=
  iterate_inv_graded hG D root hroot art hcf htt rng0 maxDepth workersOf cancelAt fuelDepth
    (Nat.le_trans (iterLimit_le root maxDepth fuelDepth) hD)

/-- **C03_session_bounded** (histories, depth-graded): any number of searches, of roots of grade 0, each with a
depth limit `≤ D`, sharing the artifact: every reported best line is non-empty and legal. -/
theorem C03_session_bounded {G : Nat → State → Prop} (hG : Graded G) (D : Nat) (qs : List SearchReq) :
    ∀ (art : Artifact), CollisionFree art.keys.keys (upTo G D) → TInv art.keys.keys (upTo G D) art.tt →
      (∀ q ∈ qs, G 0 q.root ∧ q.maxDepth.getD q.fuelDepth ≤ D) →
      ∀ p ∈ session art qs, ∀ ev line, Event.best ev line ∈ p.2 → line ≠ [] ∧ LineLegal p.1 line := by
  induction qs with
  | nil => intro art _ _ _ p hp; cases hp
  | cons q qs ih =>
    intro art hcf htt hroots p hp ev line hev
    obtain ⟨hq, hqd⟩ := hroots q List.mem_cons_self
    have hi := C03_reported_lines_legal_bounded hG D q.root hq art hcf htt q.rng0 q.maxDepth q.workersOf q.cancelAt
      q.fuelDepth hqd
    rcases List.mem_cons.1 hp with rfl | hp
    · exact hi.2.2 ev line hev
    · refine ih _ ?_ ?_ (fun q' hq' => hroots q' (List.mem_cons_of_mem _ hq')) p hp ev line hev
      · rw [hi.1]; exact hcf
      · rw [hi.1]; exact hi.2.1

/-! ## link to the rules of chess -/

/-- a line of rule-level moves, each legal by the rules in the position reached so far -/
def SpecLineLegal : Spec.Pos → List Spec.SMove → Prop
  | _, [] => True
  | P, m :: ms => m ∈ Spec.legalMoves P ∧ SpecLineLegal (Spec.applyMove P m) ms

/-- **C03_line_rules.**  A line that is `LineLegal` from a legal position (no stacked pieces) is a legal line of
chess: every packed move, read through all its accessors (C20), is a rule-level move, the first is legal by the
rules in the mailbox reading of `s`, each following one is legal in the position the rules give after the moves
before it (C01 + C02). -/
theorem C03_line_rules : ∀ (line : List Move) (s : State), LegalPos s = true → DisjointBoard s.pieces →
    LineLegal s line → ∃ sms : List Spec.SMove, line.map toSpecMove = sms.map some ∧ SpecLineLegal (abs s) sms := by
  intro line
  induction line with
  | nil => intro s _ _ _; exact ⟨[], rfl, trivial⟩
  | cons m ms ih =>
    intro s hl hd ⟨r, hr, hrm, hrest⟩
    obtain ⟨sm, h1, h2, h3, h4, h5⟩ := (C01_legal_results s hl hd).2 r hr
    obtain ⟨sms, h6, h7⟩ := ih r.2 h5 h4 hrest
    refine ⟨sm :: sms, ?_, h2, ?_⟩
    · simp only [List.map_cons, ← hrm, h1, h6]
    · rw [← h3]; exact h7

/-! ## D: at least one report -/

/-- **Full statement of D** (open only in the evaluation bound, see `C03_report_statement_of_eval_bound`).  One worker per iteration, fresh table of any shape, a root (in a region on
which the keys are collision-free) with at least one legal move, no cancellation, depth limit `d ≥ 1`, any
seed, any history: if the search does not panic, at least one `BestMove` is reported. -/
def C03_report_statement : Prop :=
  ∀ (R : State → Prop), Region R → ∀ (root : State), R root → legalMoves root ≠ [] →
  ∀ (keys : KeyTable) (history : List UInt64) (nT nB : Nat), 0 < nT → 0 < nB → CollisionFree keys.keys R →
  ∀ (rng0 : Rng.ChaCha8) (d : Nat), 1 ≤ d →
    let out := iterate root rng0 (some d) { keys := keys, tt := TT.Access.new nT nB, history := history } (fun _ => 1) Option.none
    out.panic = Option.none → ∃ ev line, Event.best ev line ∈ out.events

/-- **C03_at_least_one_report_partial** (= D′ of DESIGN, first iteration).  For ANY incoming table satisfying the
invariant, any worker counts, seed, cancellation instant, and a depth limit ≥ 1: if the root has a legal move and
`FirstRootEntryKept` holds — the workers of the first iteration end without panic or interrupt and the root's
entry is in the table when the line is read back — then a `BestMove` with a non-empty legal line is reported.
(`FirstRootEntryKept` is a hypothesis the proof forces for re-used memory and several workers: the root can hold
an old lower-bound entry that raises alpha so that nothing is re-inserted while inserts into its full bucket
displace it; another worker's insert can displace the root entry after its last write.  For one worker and
fresh memory it is derived below.) -/
theorem C03_at_least_one_report_partial {R : State → Prop} (hR : Region R) (root : State) (hroot : R root)
    (art : Artifact) (hcf : CollisionFree art.keys.keys R) (htt : TInv art.keys.keys R art.tt)
    (rng0 : Rng.ChaCha8) (maxDepth : Option Nat) (workersOf : Nat → Nat) (cancelAt : Option Nat) (fuelDepth : Nat)
    (hmoves : legalMoves root ≠ [])
    (hlimit : 1 ≤ (match maxDepth with | some d => d | Option.none => fuelDepth))
    (hkept : FirstRootEntryKept root rng0 art workersOf cancelAt) :
    ∃ ev line, Event.best ev line ∈ (iterate root rng0 maxDepth art workersOf cancelAt fuelDepth).events ∧
      line ≠ [] ∧ LineLegal root line := by
  obtain ⟨ev, line, h⟩ := first_iteration_reports hR root hroot art hcf htt rng0 maxDepth workersOf cancelAt
    fuelDepth hmoves hlimit hkept
  exact ⟨ev, line, h, C03_reported_lines_legal hR root hroot art hcf htt rng0 maxDepth workersOf cancelAt fuelDepth ev line h⟩

theorem EvalBelowMate.mono {R R' : State → Prop} (h : ∀ s, R s → R' s) (hE : EvalBelowMate R') : EvalBelowMate R :=
  fun s hs => hE s (h s hs)

/-- **C03_at_least_one_report_of_eval_bound** (D for one worker in the first iteration, fresh memory, no
cancellation).  Let static evaluations of the positions of the region, at depths `1 ≤ depth < 2^31`, be strictly
inside `(-mate_in_ply(0), mate_in_ply(0))` (`EvalBelowMate`; true of every mate and stalemate score by C05, it
is a bound on the heuristic score).  Then for a root with a legal move, a fresh table of any shape, any key
table that is collision-free on the region, any history, seed, depth limit `d ≥ 1` and any worker counts for the
later iterations: if the search does not panic, it reports a `BestMove` with a non-empty legal line.
Proof (`Wee/Proofs/SearchReport.lean`): the first iteration is a two-level search, executed symbolically.  Every
child goes to quiescence with a window inside `[-mate0, mate0]` and returns a value strictly inside
(`quiesce_bound`), so the first legal move raises alpha, no cut-off happens at the root (`beta = mate0`), nothing
is written before the root's own insert, which is the last write (`find_insert_self` of C15); the node counter
has grown, so the "no legal move" exit is not taken; quiescence cannot be interrupted (`quiesce_error`). -/
theorem C03_at_least_one_report_of_eval_bound {R : State → Prop} (hR : Region R) (hE : EvalBelowMate R)
    (root : State) (hroot : R root) (hmoves : legalMoves root ≠ [])
    (keys : KeyTable) (history : List UInt64) (nT nB : Nat) (hT : 0 < nT) (hB : 0 < nB)
    (hcf : CollisionFree keys.keys R) (rng0 : Rng.ChaCha8) (d : Nat) (hd : 1 ≤ d) (workersOf : Nat → Nat)
    (h1 : workersOf 0 = 1) (fuelDepth : Nat)
    (hnp : (iterate root rng0 (some d) { keys := keys, tt := TT.Access.new nT nB, history := history } workersOf
      Option.none fuelDepth).panic = Option.none) :
    ∃ ev line, Event.best ev line ∈ (iterate root rng0 (some d)
        { keys := keys, tt := TT.Access.new nT nB, history := history } workersOf Option.none fuelDepth).events ∧
      line ≠ [] ∧ LineLegal root line := by
  have hfw := first_panic_reported root rng0 (some d) { keys := keys, tt := TT.Access.new nT nB, history := history }
    workersOf Option.none fuelDepth hmoves hd hnp
  have hkept := first_root_entry_kept hR hE root hroot hmoves
    { keys := keys, tt := TT.Access.new nT nB, history := history } (TTWf.new hT hB)
    (fun k => TT.Access.new_find hT hB k) rng0 workersOf h1 hfw
  have hcf' : CollisionFree
      ({ keys := keys, tt := TT.Access.new nT nB, history := history } : Artifact).keys.keys R := hcf
  have htt : TInv ({ keys := keys, tt := TT.Access.new nT nB, history := history } : Artifact).keys.keys R
      ({ keys := keys, tt := TT.Access.new nT nB, history := history } : Artifact).tt := C03_TTInv_new keys.keys R hT hB
  exact C03_at_least_one_report_partial hR root hroot
    { keys := keys, tt := TT.Access.new nT nB, history := history } hcf' htt rng0 (some d) workersOf
    Option.none fuelDepth hmoves hd hkept

/-- **D reduced to the evaluation bound**: `C03_report_statement` holds if the static evaluation of every legal
position (placement without overlaps) is strictly inside the mate window.  What is missing for the
unconditional statement is exactly this bound on `evaluate`'s heuristic branch (soft-float arithmetic; C05 has
`|score| ≤ |material| + positional`, and 9 queens, 2 rooks, 2 bishops, 2 knights against a bare king give
10400 + positional against `mate_in_ply(0)` = 11000) and panic freedom (C04) in place of the hypothesis
`out.panic = none`. -/
theorem C03_report_statement_of_eval_bound
    (hE : EvalBelowMate (fun s => LegalPos s = true ∧ DisjointBoard s.pieces)) : C03_report_statement := by
  intro R hR root hroot hmoves keys history nT nB hT hB hcf rng0 d hd out hnp
  obtain ⟨ev, line, h, _⟩ := C03_at_least_one_report_of_eval_bound hR (EvalBelowMate.mono hR.good hE) root hroot hmoves keys history
    nT nB hT hB hcf rng0 d hd (fun _ => 1) rfl 64 hnp
  exact ⟨ev, line, h⟩

/-! ## non-vacuity: a concrete region, key table, artifact and search -/

/-- White Kh1, Pg2, Pa6, Pc6; Black Ka8, Pa7, Pg3, Ph2; White to move.  White's only legal move is c6-c7 -/
def c03Root : State :=
  { pieces := { wk := 0x80, wp := 0x0000050000004000, bk := 0x0100000000000000, bp := 0x0001000000408000 }
    turn := .white, castleW := .noRights, castleB := .noRights, ep := Option.none, halfmove := 0, fullmove := 1 }
def c03Move : Move := Move.byMoving .white .pawn 42 50
/-- … after which Black is stalemated -/
def c03Succ : State :=
  { pieces := { wk := 0x80, wp := 0x0004010000004000, bk := 0x0100000000000000, bp := 0x0001000000408000 }
    turn := .black, castleW := .noRights, castleB := .noRights, ep := Option.none, halfmove := 0, fullmove := 1 }

set_option maxRecDepth 1000000 in
theorem c03_moves_root : legalMoves c03Root = [(c03Move, c03Succ)] := by decide +kernel
set_option maxRecDepth 1000000 in
theorem c03_moves_succ : legalMoves c03Succ = [] := by decide +kernel
set_option maxRecDepth 1000000 in
theorem c03_legal_root : LegalPos c03Root = true := by decide +kernel
set_option maxRecDepth 1000000 in
theorem c03_legal_succ : LegalPos c03Succ = true := by decide +kernel

def c03R (s : State) : Prop := s = c03Root ∨ s = c03Succ

theorem c03_region : Region c03R := by
  refine ⟨?_, ?_⟩
  · rintro s (rfl | rfl)
    · exact ⟨c03_legal_root, by decide⟩
    · exact ⟨c03_legal_succ, by decide⟩
  · rintro s (rfl | rfl) r hr
    · rw [c03_moves_root, List.mem_singleton] at hr; subst hr; exact Or.inr rfl
    · rw [c03_moves_succ] at hr; cases hr

/-- a toy key table: only the side to move is hashed -/
def c03KeyTable : KeyTable := { turn := #[0, 1], piece := #[], castle := #[], epFile := #[] }

set_option maxRecDepth 1000000 in
theorem c03_hash_root : hash c03KeyTable.keys c03Root = 0 := by decide +kernel
set_option maxRecDepth 1000000 in
theorem c03_hash_succ : hash c03KeyTable.keys c03Succ = 1 := by decide +kernel

theorem c03_collisionFree : CollisionFree c03KeyTable.keys c03R := by
  rintro s s' (rfl | rfl) (rfl | rfl) hh mv hmv
  · exact hmv
  · rw [c03_hash_root, c03_hash_succ] at hh; cases hh
  · rw [c03_hash_root, c03_hash_succ] at hh; cases hh
  · exact hmv

/-- an artifact with a fresh 2 × 4 table and these keys -/
def c03Art : Artifact := { keys := c03KeyTable, tt := TT.Access.new 2 4, history := [] }

example : Region c03R := c03_region
example : CollisionFree c03Art.keys.keys c03R := c03_collisionFree
example : TInv c03Art.keys.keys c03R c03Art.tt := C03_TTInv_new _ _ (by decide) (by decide)
example : legalMoves c03Root ≠ [] := by rw [c03_moves_root]; exact List.cons_ne_nil _ _

/-- `C03_reported_lines_legal` instantiated: all hypotheses discharged for the example, for every seed, depth
limit, worker-count function and cancellation instant -/
example (rng0 : Rng.ChaCha8) (maxDepth : Option Nat) (workersOf : Nat → Nat) (cancelAt : Option Nat) (fuelDepth : Nat)
    (ev : Eval) (line : List Move)
    (h : Event.best ev line ∈ (iterate c03Root rng0 maxDepth c03Art workersOf cancelAt fuelDepth).events) :
    line ≠ [] ∧ LineLegal c03Root line :=
  C03_reported_lines_legal c03_region c03Root (Or.inl rfl) c03Art c03_collisionFree
    (C03_TTInv_new _ _ (by decide) (by decide)) rng0 maxDepth workersOf cancelAt fuelDepth ev line h

/-- the only legal line of the example -/
example : LineLegal c03Root [c03Move] :=
  ⟨(c03Move, c03Succ), by rw [c03_moves_root]; exact List.mem_singleton.2 rfl, rfl, trivial⟩
theorem c03_legalIn : LegalIn c03Root c03Move :=
  ⟨(c03Move, c03Succ), by rw [c03_moves_root]; exact List.mem_singleton.2 rfl, rfl⟩

/-- … read by the rules of chess (`C03_line_rules` instantiated) -/
example : ∃ sms : List Spec.SMove, [c03Move].map toSpecMove = sms.map some ∧ SpecLineLegal (abs c03Root) sms :=
  C03_line_rules [c03Move] c03Root c03_legal_root (by decide)
    ⟨(c03Move, c03Succ), by rw [c03_moves_root]; exact List.mem_singleton.2 rfl, rfl, trivial⟩

/-- a non-empty table satisfying the invariant (hypotheses of `C03_inserts_keep_inv`, `C03_walk_legal`): the root's
entry as the search stores it -/
def c03Entry : TT.Entry := { kind := 0, mv := c03Move.toNat, depth := 0, maxDepth := 1, eval := 0 }
def c03Table : TT.Access := (TT.Access.new 2 4).insert (hash c03KeyTable.keys c03Root).toNat c03Entry

theorem c03_table_inv : TInv c03KeyTable.keys c03R c03Table :=
  C03_TTInv_insert c03_collisionFree (C03_TTInv_new _ _ (by decide) (by decide)) c03Root (Or.inl rfl) c03Move
    c03_legalIn c03Entry rfl

/-- the walk on it returns the legal line (kernel evaluation of the model, independent of the theorems) -/
example : walkLine c03KeyTable.keys c03Table 5 c03Root = [c03Move] := by decide +kernel

/-- the hypotheses of `C03_inserts_keep_inv` with a prioritized move and a non-empty table -/
example (history : List UInt64) (cancelAt : Option Nat) (rem : Nat) (rng : Rng.ChaCha8) (nodes polls : Nat) :
    TTInv c03KeyTable.keys c03R
      (runM (searchNode { keys := c03KeyTable.keys, history := history, cancelAt := cancelAt } rem
        (rootArgs c03Root rem (some c03Move))) { tt := c03Table, rng := rng, nodes := nodes, polls := polls }).2.tt := by
  have ha : c03R (rootArgs c03Root rem (some c03Move)).s := Or.inl rfl
  have hp : (rootArgs c03Root rem (some c03Move)).prioritized = Option.none ∨
      ∃ m, (rootArgs c03Root rem (some c03Move)).prioritized = some m ∧
        LegalIn (rootArgs c03Root rem (some c03Move)).s m := Or.inr ⟨c03Move, rfl, c03_legalIn⟩
  exact (C03_inserts_keep_inv c03_region { keys := c03KeyTable.keys, history := history, cancelAt := cancelAt }
    c03_collisionFree rem (rootArgs c03Root rem (some c03Move)) ha hp
    { tt := c03Table, rng := rng, nodes := nodes, polls := polls } c03_table_inv.1 c03_table_inv.2).2

/-- `C03_interleaving`: a sequence of operations whose inserts are legal inserts -/
example : ∀ k e, TT.Op.insert k e ∈ [TT.Op.find 3, .insert (hash c03KeyTable.keys c03Root).toNat c03Entry, .find 0] →
    LegalInsert c03KeyTable.keys c03R k e := by
  intro k e h
  simp only [List.mem_cons, reduceCtorEq, TT.Op.insert.injEq, List.not_mem_nil, or_false, false_or] at h
  obtain ⟨rfl, rfl⟩ := h
  exact ⟨c03Root, c03Move, Or.inl rfl, rfl, c03_legalIn, rfl⟩

/-- `C03_session`: two searches of the example position sharing the artifact, different parameters -/
example : ∀ p ∈ session c03Art
      [{ root := c03Root, rng0 := Rng.seedFromU64 1, maxDepth := some 3, workersOf := fun _ => 1, cancelAt := Option.none, fuelDepth := 64 },
       { root := c03Root, rng0 := Rng.seedFromU64 2, maxDepth := Option.none, workersOf := fun d => d + 2, cancelAt := some 1, fuelDepth := 5 }],
    ∀ ev line, Event.best ev line ∈ p.2 → line ≠ [] ∧ LineLegal p.1 line :=
  C03_session c03_region _ c03Art c03_collisionFree (C03_TTInv_new _ _ (by decide) (by decide))
    (by intro q hq; simp only [List.mem_cons, List.not_mem_nil, or_false] at hq; rcases hq with rfl | rfl <;> exact Or.inl rfl)

/-! ### the hypothesis `CollisionFree` is needed

With keys that hash nothing, the root and its successor collide.  The table that holds only the root's (legal)
entry then yields a walked line whose second move is illegal — the stored move of the root is replayed in the
successor, where `by_performing_move` happily moves the pawn again.  This is the mechanism of defect F1. -/

def c03ZeroKeys : KeyTable := { turn := #[], piece := #[], castle := #[], epFile := #[] }

set_option maxRecDepth 1000000 in
example : hash c03ZeroKeys.keys c03Root = hash c03ZeroKeys.keys c03Succ := by decide +kernel

theorem c03_not_legalIn_succ (mv : Move) : ¬ LegalIn c03Succ mv := by
  rintro ⟨r, hr, _⟩; rw [c03_moves_succ] at hr; cases hr

set_option maxRecDepth 1000000 in
example : ¬ CollisionFree c03ZeroKeys.keys c03R := fun h =>
  c03_not_legalIn_succ c03Move (h c03Root c03Succ (Or.inl rfl) (Or.inr rfl) (by decide +kernel) c03Move c03_legalIn)

set_option maxRecDepth 1000000 in
/-- the illegal line, computed: the root's move twice -/
theorem c03_bad_walk : (walkLine c03ZeroKeys.keys
    ((TT.Access.new 2 4).insert (hash c03ZeroKeys.keys c03Root).toNat c03Entry) 2 c03Root).take 2 = [c03Move, c03Move] := by
  decide +kernel

example : ¬ LineLegal c03Root [c03Move, c03Move] := by
  rintro ⟨r, hr, _, r', hr', _⟩
  rw [c03_moves_root, List.mem_singleton] at hr
  subst hr
  rw [c03_moves_succ] at hr'
  cases hr'


/-! ### D on the example -/

set_option maxRecDepth 1000000 in
theorem c03_khm_root : kingHasMove c03Root = some false := by decide +kernel
set_option maxRecDepth 1000000 in
theorem c03_khm_succ : kingHasMove c03Succ = some false := by decide +kernel
set_option maxRecDepth 1000000 in
theorem c03_check_succ : c03Succ.isCheck = false := by decide +kernel
set_option maxRecDepth 1000000 in
theorem c03_lm_root : legalMoves? c03Root = some [(c03Move, c03Succ)] := by decide +kernel
set_option maxRecDepth 1000000 in
theorem c03_lm_succ : legalMoves? c03Succ = some [] := by decide +kernel
set_option maxRecDepth 1000000 in
theorem c03_h_w : evalHeuristic (Variation.of c03Root) .white = -20 := by decide +kernel
set_option maxRecDepth 1000000 in
theorem c03_h_b : evalHeuristic (Variation.of c03Root) .black = 20 := by decide +kernel
theorem M0_eq : M0 = 11000 := by decide

theorem c03_evalBelowMate : EvalBelowMate c03R := by
  rintro s (rfl | rfl) p depth v _ _ hev
  · rw [C05.C05_nonterminal_branch c03Root p depth _ _ c03_lm_root (by rw [c03_khm_root]; exact fun h => nomatch h)] at hev
    cases p
    · rw [c03_h_w] at hev; cases hev; rw [M0_eq]; decide
    · rw [c03_h_b] at hev; cases hev; rw [M0_eq]; decide
  · rw [C05.C05_stalemate_closed c03Succ p depth (by decide) c03_lm_succ c03_check_succ
      (by rw [c03_khm_succ]; exact fun h => nomatch h)] at hev
    cases hev; rw [M0_eq]; decide

/-- `C03_at_least_one_report_of_eval_bound` instantiated: all hypotheses but "no panic" discharged; for every seed,
depth limit ≥ 1, history and table shape the search of the example reports a legal line -/
example (rng0 : Rng.ChaCha8) (d : Nat) (hd : 1 ≤ d) (history : List UInt64) (nT nB : Nat) (hT : 0 < nT) (hB : 0 < nB)
    (hnp : (iterate c03Root rng0 (some d) { keys := c03KeyTable, tt := TT.Access.new nT nB, history := history }
      (fun _ => 1) Option.none 64).panic = Option.none) :
    ∃ ev line, Event.best ev line ∈ (iterate c03Root rng0 (some d)
        { keys := c03KeyTable, tt := TT.Access.new nT nB, history := history } (fun _ => 1) Option.none 64).events ∧
      line ≠ [] ∧ LineLegal c03Root line :=
  C03_at_least_one_report_of_eval_bound c03_region c03_evalBelowMate c03Root (Or.inl rfl)
    (by rw [c03_moves_root]; exact List.cons_ne_nil _ _) c03KeyTable history nT nB hT hB c03_collisionFree rng0 d hd
    (fun _ => 1) rfl 64 hnp

/-! ### the depth-graded hypotheses on the example -/

/-- the graded family generated by the example root: its only positions are the root and its successor -/
theorem c03_plies_sub : ∀ n s, Plies (fun s => s = c03Root) n s → c03R s := by
  intro n s h
  induction h with
  | root s h0 => exact Or.inl h0
  | step n s r _ hr ih =>
    rcases ih with rfl | rfl
    · rw [c03_moves_root, List.mem_singleton] at hr; subst hr; exact Or.inr rfl
    · rw [c03_moves_succ] at hr; cases hr

theorem c03_graded : Graded (Plies (fun s => s = c03Root)) :=
  Graded.plies _ (fun s h => by subst h; exact ⟨c03_legal_root, by decide⟩)

/-- `C03_reported_lines_legal_bounded` instantiated with `G := Plies {root}` and `D := 3` -/
example (rng0 : Rng.ChaCha8) (workersOf : Nat → Nat) (cancelAt : Option Nat) (ev : Eval) (line : List Move)
    (h : Event.best ev line ∈ (iterate c03Root rng0 (some 3) c03Art workersOf cancelAt).events) :
    line ≠ [] ∧ LineLegal c03Root line :=
  (C03_reported_lines_legal_bounded c03_graded 3 c03Root (Plies.root _ rfl) c03Art
    (c03_collisionFree.congr (fun s ⟨n, _, hs⟩ => c03_plies_sub n s hs))
    ((C03_TTInv_new c03KeyTable.keys c03R (by decide) (by decide)).congr (fun s ⟨n, _, hs⟩ => c03_plies_sub n s hs))
    rng0 (some 3) workersOf cancelAt 64 (Nat.le_refl _)).2.2 ev line h

end Wee
