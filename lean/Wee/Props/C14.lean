import Wee.Proofs.UciLemmas
/-!
# C14 — malformed text never crashes the parsers or the UCI loop

Rust: `weechess-core/src/notation.rs` (`mod fen`, `mod san`), `weechess-core/src/board.rs`
(`Board::try_parse`), `weechess-engine/src/uci.rs` (`Client::exec`).
Model: `Wee/Model/Fen.lean` (`parseFen`, `parseFenChars`, `parseBoardCells`, `Res`), `Wee/Model/San.lean`
(`parseSan`, `parseUciMoveToken`, `sliceBytes`, `parseSquare`, `performQueries`), `Wee/Model/Uci.lean`
(`splitAsciiWs`, `parseGoArgs`, `positionCmd`, `step`, `run`).

The models carry every panicking operation of the Rust code explicitly (`Res.panic`, outer
`Option.none`): the `u8` cursor addition of `Board::try_parse` (a panic with overflow checks before
the repair of F5, `checked_add` since), `Square::try_from`, the byte-range slices `&m[0..2]`,
`&m[2..4]` of the UCI move tokens (`m.get(..)` since the repair of F4), number parsing, and the
`unwrap`s of the move generator reached through `State::by_performing_moves`.
"Never panics" is therefore a theorem about these transcriptions, not a consequence of Lean
functions being total.  Termination ("never hangs") is by structural recursion of every function
of the three model files.

## Where the only remaining condition comes from

The one place of the command loop where a panic value can still flow is `position … moves …`:
`by_performing_moves` runs the move generator on the base position, and the generator contains
`unwrap`s (`Square::offset`, `piece_at`, make-move inside `try_as_legal_move`).  C01 proves these
never fire on a *legal* position without overlapping bitboards, and C02 that accepted moves stay
inside that set.  Hence:

* `C14_uci`, `C14_run_total` — the form asked for: under `∀ st qs, performQueries st qs ≠ none`.
  This hypothesis quantifies over *every* `State` value (also bit patterns that are no positions) and
  is **not known to be satisfiable**; it is kept because it makes visible that nothing else is needed.
* `C14_uci_local` — the hypothesis is needed only for the base position of that very command.
* `C14_uci_legal`, `C14_run_legal` — hypothesis discharged by C01/C02 when every base position set
  by a `position` command is `LegalPos ∧ DisjointBoard` (`LegalBase`); always true for `startpos`
  (`C14_position_startpos`), and for `fen …` when the FEN reads as such a position (`C14_position_fen`).
  A syntactically valid FEN of an *illegal* position (no king, side not to move in check, …) followed
  by `moves …` is outside these theorems: there the generator's `unwrap`s are not covered by C01.
* `C14_uci_unconditional` — every line that is not a `position` command: no hypothesis at all.
-/
namespace Wee
open Wee.C10 (DisjointBoard)

/-- the board-field parser (`Board::try_parse`) never panics, for any input, cursor and build profile -/
theorem parseBoardCells_ne_panic (checked : Bool) (cs : List Char) :
    ∀ (idx : Nat) (cells : List (Option (Color × Piece))), parseBoardCells checked cs idx cells ≠ .panic :=
  parseBoardCells_ne_panic' checked cs

/-- **C14_fen**: reading an arbitrary string as FEN returns a position or an error, never a panic,
in both build profiles (`checked` = overflow checks on) -/
theorem C14_fen (checked : Bool) (s : String) : parseFen checked s ≠ .panic :=
  parseFenChars_ne_panic checked s.toList

/-- **C14_san**: `San::try_from_notation` is modelled by a total function into `Option`; the Rust
function contains no panicking operation (`peek`/`next` on `Chars`, `match` on characters), so its
model has no panic value at all — the statement is that every input gives `Err` or a query
(a totality remark; the content is that `parseSanChars` is defined by structural case analysis, with
no recursion, so it also cannot hang) -/
theorem C14_san (s : String) : parseSan s = Option.none ∨ ∃ q, parseSan s = some q := by
  cases h : parseSan s with
  | none => exact Or.inl rfl
  | some q => exact Or.inr ⟨q, rfl⟩

/-- **C14_uci_token**: a UCI move token of any shape (too short, too long, multi-byte characters at
any byte offset) is accepted or rejected, never a slice panic (outer `none`) -/
theorem C14_uci_token (m : String) : parseUciMoveToken m ≠ Option.none :=
  parseUciMoveToken_ne_none m

/-- `State::by_performing_moves` cannot panic from a legal position without overlaps, whatever the
queries (C01: the generator does not panic there; C02: accepted queries lead to legal positions) -/
theorem C14_queries_legal (st : State) (hl : LegalPos st = true) (hd : DisjointBoard st.pieces)
    (qs : List MoveQuery) : performQueries st qs ≠ Option.none :=
  performQueries_total_of_legal qs st hl hd

example : LegalPos startState = true ∧ DisjointBoard startState.pieces :=
  ⟨startState_legal, startState_disjoint⟩

namespace Uci

/-- the `position` arm: the base-position part (startpos / fen … / anything else) and the token
parsing cannot panic; only `by_performing_moves` could -/
theorem C14_position_base (s : Sess) (args : List String) :
    (∀ st (qs : List MoveQuery), performQueries st qs ≠ Option.none) → positionCmd s args ≠ Option.none :=
  fun hq => positionCmd_ne_none s args (fun st _ qs => hq st qs)

/-- the same, with the hypothesis only for the base position this command sets: the tokens before
`moves` (`args.takeWhile (· != "moves")`) are `startpos …` (→ `startState`) or `fen F…` with
`parseFen false (join F) = .ok st` (`posBase_some`) -/
theorem C14_position_local (s : Sess) (args : List String)
    (hq : ∀ st, posBase (args.takeWhile (· != "moves")) = .inl (some st) →
      ∀ qs, performQueries st qs ≠ Option.none) : positionCmd s args ≠ Option.none := by
  apply positionCmd_ne_none
  rw [splitMoves_eq]
  exact hq

/-- `position startpos <anything>`: never a panic, whatever follows (garbage before `moves`, tokens
of any shape, illegal moves) -/
theorem C14_position_startpos (s : Sess) (rest : List String) :
    positionCmd s ("startpos" :: rest) ≠ Option.none := by
  apply C14_position_local
  intro st h qs
  rcases posBase_some _ st h with ⟨_, _, rfl⟩ | ⟨r, hr, _⟩
  · exact C14_queries_legal _ startState_legal startState_disjoint qs
  · rw [List.takeWhile_cons, if_pos (by decide)] at hr
    simp only [List.cons.injEq] at hr
    exact absurd hr.1 (by decide)

/-- `position fen F… <anything>` where the FEN tokens, if they parse at all, give a legal position
without overlaps: never a panic -/
theorem C14_position_fen (s : Sess) (rest : List String)
    (hfen : ∀ st, parseFen false (" ".intercalate (rest.takeWhile (· != "moves"))) = .ok st →
      LegalPos st = true ∧ DisjointBoard st.pieces) :
    positionCmd s ("fen" :: rest) ≠ Option.none := by
  apply C14_position_local
  intro st h qs
  rw [List.takeWhile_cons, if_pos (by decide)] at h
  rcases posBase_some _ st h with ⟨_, hr, _⟩ | ⟨r, hr, hp⟩
  · simp only [List.cons.injEq] at hr
    exact absurd hr.1 (by decide)
  · simp only [List.cons.injEq, true_and] at hr
    subst hr
    obtain ⟨hl, hd⟩ := hfen st hp
    exact C14_queries_legal st hl hd qs

/-- the hypothesis of `C14_position_fen` holds for `4k3/8/8/8/8/8/4P3/4K3 w - - 0 1` followed by any
tokens (here: a truncated token, an illegal move) -/
example (s : Sess) :
    positionCmd s ("fen" :: (kpkFen ++ ["moves", "e2", "e2e5", "é2e4"])) ≠ Option.none := by
  apply C14_position_fen
  intro st h
  have ht : (kpkFen ++ ["moves", "e2", "e2e5", "é2e4"]).takeWhile (· != "moves") = kpkFen := by decide
  rw [ht, kpk_parse] at h
  cases h
  exact kpk_legal

/-- **C14_uci**: every input line leaves the loop running (`step ≠ none`), given that
`by_performing_moves` does not panic (see the header for the status of this hypothesis) -/
theorem C14_uci (hasBook : State → Bool) (s : Sess) (line : String)
    (hq : ∀ st (qs : List MoveQuery), performQueries st qs ≠ Option.none) :
    step hasBook s line ≠ Option.none :=
  step_ne_none hasBook s line (fun _ _ st _ qs => hq st qs)

/-- the hypothesis is needed only if the line is a `position` command, and then only for the base
position it sets -/
theorem C14_uci_local (hasBook : State → Bool) (s : Sess) (line : String)
    (hq : ∀ args, splitAsciiWs line = "position" :: args →
      ∀ st, posBase (args.takeWhile (· != "moves")) = .inl (some st) → ∀ qs, performQueries st qs ≠ Option.none) :
    step hasBook s line ≠ Option.none := by
  apply step_ne_none
  intro args h
  rw [splitMoves_eq]
  exact hq args h

/-- lines that are not `position` commands need no hypothesis at all: unknown commands, the empty
line, `go` with bad numbers, non-ASCII text … -/
theorem C14_uci_unconditional (hasBook : State → Bool) (s : Sess) (line : String)
    (h : ∀ args, splitAsciiWs line ≠ "position" :: args) : step hasBook s line ≠ Option.none :=
  step_ne_none hasBook s line (fun args heq => absurd heq (h args))

/-- every `position` command in this line sets, if any, a legal base position without overlaps -/
def LegalBase (line : String) : Prop :=
  ∀ args, splitAsciiWs line = "position" :: args →
    ∀ st, posBase (args.takeWhile (· != "moves")) = .inl (some st) → LegalPos st = true ∧ DisjointBoard st.pieces

/-- **C14_uci_legal**: hypothesis of `C14_uci` discharged through C01/C02 for lines whose base position
(if the line sets one) is legal; the move tokens after `moves` are arbitrary -/
theorem C14_uci_legal (hasBook : State → Bool) (s : Sess) (line : String) (h : LegalBase line) :
    step hasBook s line ≠ Option.none :=
  C14_uci_local hasBook s line (fun args ha st hst qs =>
    C14_queries_legal st (h args ha st hst).1 (h args ha st hst).2 qs)

/-- a line that is not a `position` command, or is `position startpos …`, satisfies `LegalBase` -/
theorem LegalBase_of_not_position (line : String) (h : ∀ args, splitAsciiWs line ≠ "position" :: args) :
    LegalBase line := fun args ha => absurd ha (h args)

theorem LegalBase_startpos (line : String) (rest : List String)
    (h : splitAsciiWs line = "position" :: "startpos" :: rest) : LegalBase line := by
  intro args ha st hst
  rw [h] at ha
  simp only [List.cons.injEq, true_and] at ha
  subst ha
  rcases posBase_some _ st hst with ⟨_, _, rfl⟩ | ⟨r, hr, _⟩
  · exact ⟨startState_legal, startState_disjoint⟩
  · rw [List.takeWhile_cons, if_pos (by decide)] at hr
    simp only [List.cons.injEq] at hr
    exact absurd hr.1 (by decide)

/-- non-vacuity of `LegalBase`: a `position startpos` line with a truncated token, a multi-byte
token and an illegal move — the line that killed the process before the repair of F4 -/
example : LegalBase "position startpos moves e2 é2e4 e2e5" :=
  LegalBase_startpos _ ["moves", "e2", "é2e4", "e2e5"] (by decide)

example : LegalBase "go depth 99999999999999999999999 movetime x" :=
  LegalBase_of_not_position _ (fun args h => by
    have : splitAsciiWs "go depth 99999999999999999999999 movetime x" =
      ["go", "depth", "99999999999999999999999", "movetime", "x"] := by decide
    rw [this] at h; simp at h)

/-- **C14_isready**: `isready` is answered whatever the state — in particular after any line that
was survived, the process still answers `isready` -/
theorem C14_isready (hasBook : State → Bool) (s : Sess) :
    step hasBook s "isready" = some (s, [Out.line "readyok"], false) := by
  have h : splitAsciiWs "isready" = ["isready"] := by decide
  unfold step
  rw [h]
  simp

/-- **C14_run_total**: a whole input (any list of lines, then EOF) never panics, under the hypothesis
of `C14_uci` -/
theorem C14_run_total (hasBook : State → Bool) (s : Sess) (lines : List String)
    (hq : ∀ st (qs : List MoveQuery), performQueries st qs ≠ Option.none) :
    run hasBook s lines ≠ Option.none :=
  run_ne_none hasBook lines (fun line _ s => C14_uci hasBook s line hq) s

/-- **C14_run_legal**: a whole input never panics if every `position` line in it sets a legal base
position; no other condition on any line -/
theorem C14_run_legal (hasBook : State → Bool) (s : Sess) (lines : List String)
    (h : ∀ line ∈ lines, LegalBase line) : run hasBook s lines ≠ Option.none :=
  run_ne_none hasBook lines (fun line hl s => C14_uci_legal hasBook s line (h line hl)) s

/-- input without any `position` line: unconditional -/
theorem C14_run_unconditional (hasBook : State → Bool) (s : Sess) (lines : List String)
    (h : ∀ line ∈ lines, ∀ args, splitAsciiWs line ≠ "position" :: args) :
    run hasBook s lines ≠ Option.none :=
  C14_run_legal hasBook s lines (fun line hl => LegalBase_of_not_position line (h line hl))

/-- the FEN that panicked in the checked profile before the repair of F5 is now an error -/
example : parseFen true ("8/8/8/8/8/8/8/" ++ String.ofList (List.replicate 32 '8') ++ " w - - 0 1") = .err := by
  decide
/-- the token of F4 is rejected, not a slice panic -/
example : parseUciMoveToken "e2" = some Option.none := by decide
/-- a two-byte character straddling byte offset 2: rejected (`m.get(0..2)` is `None`) -/
example : parseUciMoveToken "é2e4" = some Option.none := by decide

end Uci
end Wee
