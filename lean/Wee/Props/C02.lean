import Wee.Proofs.ApplyGen
/-!
# C02 — applying a move yields the correct successor position

Rust: `weechess-core/src/state.rs` (`State::by_performing_move`, `State::by_performing_moves`),
`weechess-core/src/moves.rs` (`MoveQuery::test`, `MoveSet::filter`).
Model: `Wee/Model/Board.lean` (`performMove`), `Wee/Model/San.lean` (`performQuery`, `performQueries`).
Rules: `Wee/Spec/Chess.lean` (`Spec.applyMove`), abstraction `Wee/Spec/Abs.lean` (`abs`, `toSpecMove`).

## How the property is cut

The full target `C02_apply_statement` quantifies over the moves *produced by the generator*.  That
every generated move is a well-formed description of a rule-level move is the generator
characterisation (C01).  Everything that is make-move itself is proved here from **explicit,
checkable hypotheses about one move**, with no reference to the generator:

* `MoveFits s mv sm` (`Wee/Proofs/ApplyLemmas.lean`): the packed move `mv` describes the rule-level
  move `sm` in `s` — getters read `sm`; codes valid; mover on `sm.src`; destination empty / enemy
  piece of the captured kind (never a king) / en-passant geometry; promotion = pawn reaching the last
  rank; castling = king home, rook on corner, rook landing square empty; double-step flag ⇔ pawn
  advancing two ranks; placement without overlaps.
* `RightsSound s`: a held castling right implies king and rook on their home squares (the clause of
  `LegalPos`; `C02_rightsSound_of_legal`).

`C02_apply_fits` : under these, `performMove` returns `Ok(next)` and `abs next = Spec.applyMove (abs s) sm`
(all nine fields).  `C02_disjoint_preserved` : the hypotheses on the position carry over to `next`,
hence along every move sequence (`C02_apply_seq`).  `C02_apply_partial` : the full statement follows
once C01 supplies `MoveFits` for generated moves.

Vocabulary defined in the proof files: `MoveFits`, `RightsSound`, `CodesOk`, `coordQuery`,
`CoordsDetermine`; `Wee.C10.DisjointBoard` from C10.
-/
namespace Wee
open Wee.C02
open Wee.C10 (DisjointBoard)

/-! ## scalar fields (each needs only the part of `MoveFits` it uses) -/

/-- **Side to move.** If `by_performing_move` returns `Ok(next)` for a move of the side to move,
then `next` has the other side to move, as the rules say.  Hypotheses: only that `sm` is a move of
the side to move. -/
theorem C02_turn (s next : State) (mv : Move) (sm : Spec.SMove) (hcol : sm.color = absColor s.turn)
    (hnext : performMove s mv = some (.ok next)) :
    (abs next).turn = (Spec.applyMove (abs s) sm).turn ∧ next.turn = s.turn.opp := by
  obtain ⟨p, map, _, _, rfl⟩ := performMove_ok_inv hnext
  exact ⟨turn_agree hcol p map, rfl⟩

/-- **Clocks.** The halfmove clock of `next` is 0 after a pawn move or a capture and one more than
before otherwise; the fullmove number is incremented exactly after Black's move — both equal to the
rule-level values.  Hypotheses: `mv` reads as `sm` (`toSpecMove`), `sm` is a move of the side to move. -/
theorem C02_clocks (s next : State) (mv : Move) (sm : Spec.SMove) (hspec : toSpecMove mv = some sm)
    (hcol : sm.color = absColor s.turn) (hnext : performMove s mv = some (.ok next)) :
    (abs next).halfmove = (Spec.applyMove (abs s) sm).halfmove ∧
    (abs next).fullmove = (Spec.applyMove (abs s) sm).fullmove ∧
    next.halfmove = (if sm.kind = Spec.Kind.pawn ∨ sm.capture.isSome then 0 else clockSucc s.halfmove) ∧
    next.fullmove = (if s.turn = Color.black then clockSucc s.fullmove else s.fullmove) := by
  obtain ⟨p, map, hp, hc, rfl⟩ := performMove_ok_inv hnext
  have h1 := halfmove_agree (s := s) hspec hc p hp map
  have h2 := fullmove_agree (mv := mv) hcol p map
  refine ⟨h1, h2, ?_, ?_⟩
  · have : (finish s mv p map).halfmove = (Spec.applyMove (abs s) sm).halfmove := h1
    rw [this]
    show (if (sm.kind == Spec.Kind.pawn || sm.capture.isSome) then 0 else Spec.clockSucc s.halfmove) = _
    by_cases hk : sm.kind = Spec.Kind.pawn <;> cases hcap : sm.capture.isSome <;> simp [hk] <;> rfl
  · show (if s.turn == Color.black then clockSucc s.fullmove else s.fullmove) = _
    cases s.turn <;> rfl

/-- `clockSucc` is `+ 1` for every counter below `2^64 - 1` and stops there (`usize::saturating_add`, since the
repair of F9: on the pinned tree `+ 1` panicked in builds with overflow checks and wrapped to 0 without) -/
theorem clockSucc_exact {n : Nat} (h : n + 1 < 2^64) : clockSucc n = n + 1 := by unfold clockSucc; rw [if_pos h]
theorem clockSucc_sat {n : Nat} (h : ¬ n + 1 < 2^64) : clockSucc n = n := by unfold clockSucc; rw [if_neg h]
theorem clockSucc_lt {n : Nat} (h : n < 2^64) : clockSucc n < 2^64 := by unfold clockSucc; split <;> omega

/-- **Clocks, in the property's own words**: for counters that a 64-bit FEN reader can hold and that are not at
the very top of the range, the halfmove clock is exactly one more than before (or 0 after a pawn move or capture)
and the fullmove number exactly one more after Black's move. -/
theorem C02_clocks_exact (s next : State) (mv : Move) (sm : Spec.SMove) (hspec : toSpecMove mv = some sm)
    (hcol : sm.color = absColor s.turn) (hnext : performMove s mv = some (.ok next))
    (hh : s.halfmove + 1 < 2^64) (hf : s.fullmove + 1 < 2^64) :
    next.halfmove = (if sm.kind = Spec.Kind.pawn ∨ sm.capture.isSome then 0 else s.halfmove + 1) ∧
    next.fullmove = (if s.turn = Color.black then s.fullmove + 1 else s.fullmove) := by
  have h := C02_clocks s next mv sm hspec hcol hnext
  rw [clockSucc_exact hh, clockSucc_exact hf] at h
  exact ⟨h.2.2.1, h.2.2.2⟩

/-- counters stay representable: the successor of a state with 64-bit counters has 64-bit counters (no wrap, no
panic — the content of the F9 repair at the model level) -/
theorem C02_clocks_fit (s next : State) (mv : Move) (sm : Spec.SMove) (hspec : toSpecMove mv = some sm)
    (hcol : sm.color = absColor s.turn) (hnext : performMove s mv = some (.ok next))
    (hh : s.halfmove < 2^64) (hf : s.fullmove < 2^64) : next.halfmove < 2^64 ∧ next.fullmove < 2^64 := by
  have h := C02_clocks s next mv sm hspec hcol hnext
  rw [h.2.2.1, h.2.2.2]
  constructor
  · split
    · decide
    · exact clockSucc_lt hh
  · split
    · exact clockSucc_lt hf
    · exact hf

/-- **En-passant target.** `next.ep` is the square passed over exactly after a double pawn step, and
`None` otherwise.  Hypotheses: `mv` reads as `sm`, squares on the board, and the double-step flag is
only set for a two-rank advance (`dst = src ± 16` in the mover's direction). -/
theorem C02_ep (s next : State) (mv : Move) (sm : Spec.SMove) (hspec : toSpecMove mv = some sm)
    (hcol : sm.color = absColor s.turn) (hs : sm.src < 64) (hd : sm.dst < 64)
    (hdbl : sm.dbl = true → (sm.dst : Int) = (sm.src : Int) + 16 * sm.color.fwd)
    (hnext : performMove s mv = some (.ok next)) :
    (abs next).ep = (Spec.applyMove (abs s) sm).ep ∧
    next.ep = (if sm.dbl then some ((sm.src + sm.dst) / 2) else Option.none) := by
  obtain ⟨p, map, _, _, rfl⟩ := performMove_ok_inv hnext
  have := ep_agree hspec hcol hs hd hdbl p map
  exact ⟨this, this⟩

/-- **Castling rights.** The engine recomputes each right as "old right, the mover's king did not
move, and the rook is still on its corner"; the rules say "lost when the king moves or a rook leaves
or is captured on its corner".  Given `RightsSound s` the four flags agree. -/
theorem C02_rights (s next : State) (mv : Move) (sm : Spec.SMove) (h : MoveFits s mv sm) (hrs : RightsSound s)
    (hnext : performMove s mv = some (.ok next)) :
    (abs next).wk = (Spec.applyMove (abs s) sm).wk ∧ (abs next).wq = (Spec.applyMove (abs s) sm).wq ∧
    (abs next).bk = (Spec.applyMove (abs s) sm).bk ∧ (abs next).bq = (Spec.applyMove (abs s) sm).bq := by
  obtain ⟨p, hm, hk⟩ := fits_model h
  obtain ⟨map, hpm, hr⟩ := perform_repr hm
  rw [hpm] at hnext
  simp only [Option.some.injEq, Except.ok.injEq] at hnext
  subst hnext
  exact rights_agree h hm hk hrs hr

/-- **Piece placement**, all move kinds (quiet move, capture, en passant with the victim removed from
the square beside the origin, promotion with the pawn replaced — also when capturing —, castling on
either side with the rook relocated): the 64 mailbox cells of `next` are the 64 cells the rules give. -/
theorem C02_placement (s next : State) (mv : Move) (sm : Spec.SMove) (h : MoveFits s mv sm)
    (hnext : performMove s mv = some (.ok next)) :
    (abs next).cells = (Spec.applyMove (abs s) sm).cells := by
  obtain ⟨p, hm, hk⟩ := fits_model h
  obtain ⟨map, hpm, hr⟩ := perform_repr hm
  rw [hpm] at hnext
  simp only [Option.some.injEq, Except.ok.injEq] at hnext
  subst hnext
  exact cells_agree h hm hk hr

/-- `by_performing_move` cannot fail (no `IllegalEnPassant`, no `unwrap` panic) on a move that fits. -/
theorem C02_succeeds (s : State) (mv : Move) (sm : Spec.SMove) (h : MoveFits s mv sm) :
    ∃ next, performMove s mv = some (.ok next) := by
  obtain ⟨p, hm, _⟩ := fits_model h
  obtain ⟨map, hpm, _⟩ := perform_repr hm
  exact ⟨_, hpm⟩

/-! ## the whole successor -/

/-- **C02, one move, from explicit hypotheses.**  If `mv` fits `sm` in `s` and the held rights of `s`
are sound, `State::by_performing_move(s, mv)` returns `Ok(next)` and the mailbox reading of `next` is
exactly the position the rules of chess give: placement (victim removed, rook relocated, pawn
replaced), side to move, the four castling rights, en-passant target, halfmove clock, fullmove number. -/
theorem C02_apply_fits (s : State) (mv : Move) (sm : Spec.SMove) (h : MoveFits s mv sm) (hrs : RightsSound s) :
    ∃ next, performMove s mv = some (.ok next) ∧ abs next = Spec.applyMove (abs s) sm := by
  obtain ⟨p, hm, hk⟩ := fits_model h
  obtain ⟨map, hpm, hr⟩ := perform_repr hm
  exact ⟨_, hpm, abs_finish h hm hk hrs hr⟩

/-- **The invariants travel.**  The successor of a fitting move again has a placement without
overlaps and sound rights — so `C02_apply_fits` applies again to the successor (of a successor …). -/
theorem C02_disjoint_preserved (s next : State) (mv : Move) (sm : Spec.SMove) (h : MoveFits s mv sm)
    (hrs : RightsSound s) (hnext : performMove s mv = some (.ok next)) :
    DisjointBoard next.pieces ∧ RightsSound next := by
  obtain ⟨p, hm, hk⟩ := fits_model h
  obtain ⟨map, hpm, hr⟩ := perform_repr hm
  rw [hpm] at hnext
  simp only [Option.some.injEq, Except.ok.injEq] at hnext
  subst hnext
  exact ⟨disjoint_of_repr hr, rightsSound_finish hm hrs hr⟩

/-- `RightsSound` is the castling clause of `LegalPos` (for a placement without overlaps). -/
theorem C02_rightsSound_of_legal (s : State) (hl : LegalPos s = true) (hd : DisjointBoard s.pieces) :
    RightsSound s := rightsSound_of_legal hl hd

/-! ## move sequences -/

/-- apply packed moves one after the other (`by_performing_move` folded; first failure wins) -/
def performMoveSeq (s : State) : List Move → Option (Except MoveErr State)
  | [] => some (.ok s)
  | mv :: mvs =>
    match performMove s mv with
    | some (.ok s') => performMoveSeq s' mvs
    | r => r

/-- each move of the sequence fits the position reached by the moves before it -/
def FitsSeq (s : State) : List (Move × Spec.SMove) → Prop
  | [] => True
  | (mv, sm) :: l => MoveFits s mv sm ∧ ∀ next, performMove s mv = some (.ok next) → FitsSeq next l

/-- **C02 along every finite move sequence.**  Starting from a position with sound rights, if every
move fits the position it is played in, the engine's successive successors exist and the final one
reads as the rule-level position obtained by applying the rule-level moves in order; the invariants
hold again at the end. -/
theorem C02_apply_seq (l : List (Move × Spec.SMove)) : ∀ (s : State), RightsSound s → FitsSeq s l →
    ∃ final, performMoveSeq s (l.map (·.1)) = some (.ok final) ∧
      abs final = (l.map (·.2)).foldl Spec.applyMove (abs s) ∧
      RightsSound final ∧ (l ≠ [] → DisjointBoard final.pieces) := by
  induction l with
  | nil => intro s hrs _; exact ⟨s, rfl, rfl, hrs, fun h => absurd rfl h⟩
  | cons x l ih =>
    intro s hrs hf
    obtain ⟨mv, sm⟩ := x
    obtain ⟨hfit, hrest⟩ := hf
    obtain ⟨next, hnext, habs⟩ := C02_apply_fits s mv sm hfit hrs
    obtain ⟨hd', hrs'⟩ := C02_disjoint_preserved s next mv sm hfit hrs hnext
    obtain ⟨final, h1, h2, h3, h4⟩ := ih next hrs' (hrest next hnext)
    refine ⟨final, ?_, ?_, h3, fun _ => ?_⟩
    · simp only [List.map_cons, performMoveSeq, hnext]; exact h1
    · simp only [List.map_cons, List.foldl_cons]; rw [← habs]; exact h2
    · cases l with
      | nil =>
        simp only [List.map_nil, performMoveSeq, Option.some.injEq, Except.ok.injEq] at h1
        subst h1; exact hd'
      | cons y l' => exact h4 (by simp)

/-! ## the full statement and its reduction to C01 -/

/-- every move the generator lists for a legal position (with a placement without overlaps) is a
well-formed description of some rule-level move — the part of C01 that C02 needs -/
def GeneratedMovesFit : Prop :=
  ∀ s : State, LegalPos s = true → DisjointBoard s.pieces →
    ∀ r ∈ legalMoves s, ∃ sm, MoveFits s r.1 sm

/-- **Full statement of C02 (apply).**  For every legal position and every entry `(move, next)` of
the engine's legal-move list, `move` reads as a rule-level move and `next` reads as the rule-level
successor. -/
def C02_apply_statement : Prop :=
  ∀ s : State, LegalPos s = true → DisjointBoard s.pieces →
    ∀ r ∈ legalMoves s, ∃ sm, toSpecMove r.1 = some sm ∧ abs r.2 = Spec.applyMove (abs s) sm

/-- **Proved part**: the full statement holds as soon as generated moves fit (`GeneratedMovesFit`,
to be supplied by the generator characterisation C01).  Missing for the unconditional statement:
exactly `GeneratedMovesFit`; nothing about make-move itself is left open.  Also shown: the stored
successor of every list entry is `by_performing_move` of its move, and the successor again has a
placement without overlaps and sound rights. -/
theorem C02_apply_partial (hgen : GeneratedMovesFit) : C02_apply_statement := by
  intro s hl hd r hr
  obtain ⟨sm, hfit⟩ := hgen s hl hd r hr
  have hrs := rightsSound_of_legal hl hd
  obtain ⟨next, hnext, habs⟩ := C02_apply_fits s r.1 sm hfit hrs
  have := mem_legalMoves hr
  rw [hnext] at this
  simp only [Option.some.injEq, Except.ok.injEq] at this
  subst this
  exact ⟨sm, hfit.spec, habs⟩

/-- every entry `(move, next)` of the legal-move list satisfies `next = by_performing_move(move)` (no
hypothesis on the position) -/
theorem C02_listed_successor (s : State) (r : Move × State) (hr : r ∈ legalMoves s) :
    performMove s r.1 = some (.ok r.2) := mem_legalMoves hr

/-! ## selecting a move by coordinates (`by_performing_moves`) -/

/-- **Resolution of one query** (`State::by_performing_moves` for one `MoveQuery`): with `ms` the
legal-move list of `s`,
* exactly one entry matches → the result is `by_performing_move` of that entry's move, which is
  `Ok` of the successor stored in the entry;
* no entry matches → `Err(UnknownMove)`;
* two or more match → `Err(AmbiguousMove)`.
In the error cases nothing but the error is returned (`State` is immutable; the caller's position is
unchanged). -/
theorem C02_coords (s : State) (q : MoveQuery) (ms : List (Move × State)) (hms : legalMoves? s = some ms) :
    (∀ r, ms.filter (fun r => q.test r.1) = [r] → performQuery s q = some (.ok r.2)) ∧
    (ms.filter (fun r => q.test r.1) = [] → performQuery s q = some (.error .unknown)) ∧
    (2 ≤ (ms.filter (fun r => q.test r.1)).length → performQuery s q = some (.error .ambiguous)) := by
  refine ⟨?_, ?_, ?_⟩
  · intro r hf
    have hmem : r ∈ ms := by
      have : r ∈ ms.filter (fun r => q.test r.1) := by rw [hf]; exact List.mem_singleton.2 rfl
      exact (List.mem_filter.1 this).1
    unfold performQuery
    simp only [hms, hf]
    exact (mem_legalMoves? hms hmem).1
  · intro hf
    unfold performQuery
    simp only [hms, hf]
  · intro hlen
    unfold performQuery
    simp only [hms]
    generalize ms.filter (fun r => q.test r.1) = F at hlen
    match F, hlen with
    | [], h => simp at h
    | [_], h => simp at h
    | _ :: _ :: _, _ => rfl

/-- the generator panicking (`legalMoves? = none`) is the only way `performQuery` has no result -/
theorem C02_coords_total (s : State) (q : MoveQuery) (ms : List (Move × State)) (hms : legalMoves? s = some ms) :
    ∃ r, performQuery s q = some r := by
  obtain ⟨h1, h2, h3⟩ := C02_coords s q ms hms
  match hm : ms.filter (fun r => q.test r.1) with
  | [] => exact ⟨_, h2 hm⟩
  | [r] => exact ⟨_, h1 r hm⟩
  | a :: b :: t => exact ⟨_, h3 (by rw [hm]; simp)⟩

/-- **A rejected query stops the sequence**: if the queries `qs₁` lead from `s` to `s₁` and the next
query is rejected there (unknown / ambiguous), `by_performing_moves` returns exactly that error — no
partially updated position is returned. -/
theorem C02_coords_reject (s s₁ : State) (qs₁ qs₂ : List MoveQuery) (q : MoveQuery) (e : MoveErr)
    (h₁ : performQueries s qs₁ = some (.ok s₁)) (hq : performQuery s₁ q = some (.error e)) :
    performQueries s (qs₁ ++ q :: qs₂) = some (.error e) := by
  rw [performQueries_append qs₁ s s₁ _ h₁]
  exact performQueries_error s₁ q qs₂ e hq

/-- accepted queries compose: the sequence is the successor of a successor … -/
theorem C02_coords_step (s s' : State) (q : MoveQuery) (qs : List MoveQuery)
    (hq : performQuery s q = some (.ok s')) : performQueries s (q :: qs) = performQueries s' qs :=
  performQueries_ok s s' q qs hq

/-- what a coordinate query tests: origin, destination, and — if a letter was given — that the letter
is the promotion piece, or (the resolver's leniency) the moving piece itself when the move is not a
promotion -/
theorem C02_coordQuery_test (o d : Nat) (pr : Option Piece) (m : Move) :
    (coordQuery o d pr).test m = true ↔
      Move.origin m = o ∧ Move.dest m = d ∧ ∀ X, pr = some X → X = (Move.promotion m).getD (Move.piece m) :=
  coordQuery_test o d pr m

/-- **At most one match for coordinates.**  Let `L` be a move list in which (origin, destination,
promotion) determine the entry (`CoordsDetermine`).  For the coordinate query `(o, d, pr)`: if no
entry from `o` to `d` is a promotion (letter or not — the lenient case is included), or all of them
are promotions and a letter is given, then at most one entry matches; so the query is never
`AmbiguousMove`. -/
theorem C02_coords_unique (L : List (Move × State)) (o d : Nat) (pr : Option Piece) (hdet : CoordsDetermine L)
    (hcase : (∀ r ∈ L, Move.origin r.1 = o → Move.dest r.1 = d → Move.promotion r.1 = Option.none) ∨
      (pr.isSome = true ∧ ∀ r ∈ L, Move.origin r.1 = o → Move.dest r.1 = d → (Move.promotion r.1).isSome = true)) :
    (L.filter fun r => (coordQuery o d pr).test r.1).length ≤ 1 :=
  coords_unique L o d pr hdet hcase

/-- consequence for the engine: under the conditions of `C02_coords_unique` on the legal-move list,
a coordinate query either applies the one matching legal move (result = its stored successor) or is
rejected as `UnknownMove`; never `AmbiguousMove`. -/
theorem C02_coords_resolve (s : State) (ms : List (Move × State)) (hms : legalMoves? s = some ms)
    (o d : Nat) (pr : Option Piece) (hdet : CoordsDetermine ms)
    (hcase : (∀ r ∈ ms, Move.origin r.1 = o → Move.dest r.1 = d → Move.promotion r.1 = Option.none) ∨
      (pr.isSome = true ∧ ∀ r ∈ ms, Move.origin r.1 = o → Move.dest r.1 = d → (Move.promotion r.1).isSome = true)) :
    (∃ r ∈ ms, Move.origin r.1 = o ∧ Move.dest r.1 = d ∧ performQuery s (coordQuery o d pr) = some (.ok r.2)) ∨
    ((∀ r ∈ ms, (coordQuery o d pr).test r.1 = false) ∧
      performQuery s (coordQuery o d pr) = some (.error .unknown)) := by
  obtain ⟨h1, h2, _⟩ := C02_coords s (coordQuery o d pr) ms hms
  have hlen := coords_unique ms o d pr hdet hcase
  match hm : ms.filter (fun r => (coordQuery o d pr).test r.1) with
  | [] =>
    right
    refine ⟨?_, h2 hm⟩
    intro r hr
    cases ht : (coordQuery o d pr).test r.1 with
    | false => rfl
    | true =>
      have : r ∈ ms.filter (fun r => (coordQuery o d pr).test r.1) := List.mem_filter.2 ⟨hr, ht⟩
      rw [hm] at this; cases this
  | [r] =>
    left
    have hmem : r ∈ ms.filter (fun r => (coordQuery o d pr).test r.1) := by rw [hm]; exact List.mem_singleton.2 rfl
    obtain ⟨hr, ht⟩ := List.mem_filter.1 hmem
    obtain ⟨a, b, _⟩ := (coordQuery_test o d pr r.1).1 ht
    exact ⟨r, hr, a, b, h1 r hm⟩
  | a :: b :: t => rw [hm] at hlen; simp at hlen

/-! ## non-vacuity: the hypotheses are satisfiable, the engine's successor is the expected one -/

/-- the standard starting position as a literal (no FEN parser involved) -/
def c02Start : State :=
  { pieces :=
      { wp := 0x000000000000FF00, wn := 0x0000000000000042, wb := 0x0000000000000024,
        wr := 0x0000000000000081, wq := 0x0000000000000008, wk := 0x0000000000000010,
        bp := 0x00FF000000000000, bn := 0x4200000000000000, bb := 0x2400000000000000,
        br := 0x8100000000000000, bq := 0x0800000000000000, bk := 0x1000000000000000 }
    turn := .white, castleW := .both, castleB := .both, ep := Option.none, halfmove := 0, fullmove := 1 }

def e2e4 : Move := Move.byMoving .white .pawn 12 28
def e2e4s : Spec.SMove := { color := .white, kind := .pawn, src := 12, dst := 28, dbl := true }

/-- 1. e4 from the starting position fits -/
theorem fits_e2e4 : MoveFits c02Start e2e4 e2e4s :=
  { spec := by decide, codes := by decide, disjoint := by decide +kernel, color := rfl
    src_lt := by decide, dst_lt := by decide
    mover := by decide +kernel
    quiet := fun _ => ⟨rfl, by decide +kernel⟩
    capture := fun k h => by cases h
    enPassant := fun h => by cases h
    promo := fun k h => by cases h
    castle := fun b h => by cases h
    dbl := by decide }

theorem rightsSound_start : RightsSound c02Start :=
  ⟨by decide +kernel, by decide +kernel, by decide +kernel, by decide +kernel⟩

example : LegalPos c02Start = true := by decide +kernel

/-- the hypotheses of `C02_apply_fits`, `C02_disjoint_preserved`, `C02_rights`, `C02_placement`,
`C02_turn`, `C02_clocks`, `C02_ep` are satisfied by 1. e4 in the starting position; the successor has
ep target e3, Black to move, clocks 0 / 1 -/
example : ∃ next, performMove c02Start e2e4 = some (.ok next) ∧
    abs next = Spec.applyMove (abs c02Start) e2e4s :=
  C02_apply_fits _ _ _ fits_e2e4 rightsSound_start

example : performMove c02Start e2e4 = some (.ok
    { pieces := { c02Start.pieces with wp := 0x000000001000EF00 }
      turn := .black, castleW := .both, castleB := .both, ep := some 20, halfmove := 0, fullmove := 1 }) := by rfl

example : FitsSeq c02Start [(e2e4, e2e4s)] :=
  ⟨fits_e2e4, fun _ _ => trivial⟩

/-! ### en passant: white pawn e5 takes d6, black pawn d5 disappears -/

def epState : State :=
  { pieces := { wp := 0x1000000000, wk := 0x10, bp := 0x800000000, bk := 0x1000000000000000 }
    turn := .white, castleW := .noRights, castleB := .noRights, ep := some 43, halfmove := 3, fullmove := 10 }
def epMove : Move := Move.byEnPassant .white .pawn 36 43
def epSMove : Spec.SMove :=
  { color := .white, kind := .pawn, src := 36, dst := 43, capture := some .pawn, ep := true }

theorem fits_ep : MoveFits epState epMove epSMove :=
  { spec := by decide, codes := by decide, disjoint := by decide +kernel, color := rfl
    src_lt := by decide, dst_lt := by decide
    mover := by decide +kernel
    quiet := fun h => by cases h
    capture := fun k _ h => by cases h
    enPassant := fun _ => ⟨rfl, rfl, rfl, rfl, by decide +kernel, rfl, by decide, by decide +kernel⟩
    promo := fun k h => by cases h
    castle := fun b h => by cases h
    dbl := by decide }

example : performMove epState epMove = some (.ok
    { pieces := { wp := 0x80000000000, wk := 0x10, bp := 0, bk := 0x1000000000000000 }
      turn := .black, castleW := .noRights, castleB := .noRights, ep := Option.none, halfmove := 0, fullmove := 10 }) := by rfl

/-! ### castling: white O-O (rook h1 → f1, both white rights lost), black O-O-O -/

def castleState : State :=
  { pieces := { wk := 0x10, wr := 0x81, bk := 0x1000000000000000, br := 0x8100000000000000 }
    turn := .white, castleW := .both, castleB := .both, ep := Option.none, halfmove := 7, fullmove := 20 }
def castleMove : Move := Move.byCastling .white .king
def castleSMove : Spec.SMove := { color := .white, kind := .king, src := 4, dst := 6, castle := some true }

theorem fits_castle : MoveFits castleState castleMove castleSMove :=
  { spec := by decide, codes := by decide, disjoint := by decide +kernel, color := rfl
    src_lt := by decide, dst_lt := by decide
    mover := by decide +kernel
    quiet := fun _ => ⟨rfl, by decide +kernel⟩
    capture := fun k h => by cases h
    enPassant := fun h => by cases h
    promo := fun k h => by cases h
    castle := fun b h => by
      cases h
      exact ⟨rfl, rfl, rfl, rfl, by decide +kernel, by decide +kernel⟩
    dbl := by decide }

example : RightsSound castleState :=
  ⟨by decide +kernel, by decide +kernel, by decide +kernel, by decide +kernel⟩

example : performMove castleState castleMove = some (.ok
    { pieces := { wk := 0x40, wr := 0x21, bk := 0x1000000000000000, br := 0x8100000000000000 }
      turn := .black, castleW := .noRights, castleB := .both, ep := Option.none, halfmove := 8, fullmove := 20 }) := by rfl

example : performMove { castleState with turn := .black } (Move.byCastling .black .queen) = some (.ok
    { pieces := { wk := 0x10, wr := 0x81, bk := 0x0400000000000000, br := 0x8800000000000000 }
      turn := .white, castleW := .both, castleB := .noRights, ep := Option.none, halfmove := 8, fullmove := 21 }) := by rfl

/-! ### promotion with capture: g7×h8=Q takes the rook on its corner, Black's king-side right is lost -/

def promoState : State :=
  { pieces := { wp := 0x0040000000000000, wk := 0x10, bk := 0x1000000000000000, br := 0x8000000000000000 }
    turn := .white, castleW := .noRights, castleB := ⟨true, false⟩, ep := Option.none, halfmove := 5, fullmove := 30 }
def promoMove : Move := Move.byCapturePromoting .white .pawn 54 63 .rook .queen
def promoSMove : Spec.SMove :=
  { color := .white, kind := .pawn, src := 54, dst := 63, capture := some .rook, promo := some .queen }

theorem fits_promo : MoveFits promoState promoMove promoSMove :=
  { spec := by decide, codes := by decide, disjoint := by decide +kernel, color := rfl
    src_lt := by decide, dst_lt := by decide
    mover := by decide +kernel
    quiet := fun h => by cases h
    capture := fun k h _ => by cases h; exact ⟨by decide +kernel, by decide⟩
    enPassant := fun h => by cases h
    promo := fun k h => by cases h; exact ⟨rfl, rfl, by decide⟩
    castle := fun b h => by cases h
    dbl := by decide }

example : RightsSound promoState :=
  ⟨by decide +kernel, by decide +kernel, by decide +kernel, by decide +kernel⟩

example : performMove promoState promoMove = some (.ok
    { pieces := { wp := 0, wq := 0x8000000000000000, wk := 0x10, bk := 0x1000000000000000, br := 0 }
      turn := .black, castleW := .noRights, castleB := .noRights, ep := Option.none, halfmove := 0, fullmove := 30 }) := by rfl

/-! ### coordinates -/

/-- two pawn moves from e2: the coordinates e2e4 pick exactly the double step; e2e5 matches nothing -/
def coordsL : List (Move × State) :=
  [(Move.byMoving .white .pawn 12 20, c02Start), (e2e4, c02Start)]

example : CoordsDetermine coordsL := by unfold CoordsDetermine; decide
example : (coordsL.filter fun r => (coordQuery 12 28 Option.none).test r.1) = [(e2e4, c02Start)] := by decide
example : (coordsL.filter fun r => (coordQuery 12 36 Option.none).test r.1) = [] := by decide

/-- the four promotions g7-g8: with the letter the match is unique (`C02_coords_unique`, second case);
without a letter all four match (this is the excluded case: the resolver answers `AmbiguousMove`) -/
def promoL : List (Move × State) :=
  [(Move.byPromoting .white .pawn 54 62 .queen, c02Start), (Move.byPromoting .white .pawn 54 62 .rook, c02Start),
   (Move.byPromoting .white .pawn 54 62 .bishop, c02Start), (Move.byPromoting .white .pawn 54 62 .knight, c02Start)]

example : CoordsDetermine promoL := by unfold CoordsDetermine; decide
example : (pr : Option Piece) → pr = some Piece.rook →
    (promoL.filter fun r => (coordQuery 54 62 pr).test r.1).length ≤ 1 := fun pr h =>
  C02_coords_unique promoL 54 62 pr (by unfold CoordsDetermine; decide) (Or.inr ⟨by rw [h]; rfl, by decide⟩)
example : (promoL.filter fun r => (coordQuery 54 62 (some Piece.rook)).test r.1) =
    [(Move.byPromoting .white .pawn 54 62 .rook, c02Start)] := by decide
example : (promoL.filter fun r => (coordQuery 54 62 Option.none).test r.1).length = 4 := by decide

/-- the resolver's leniency: a redundant letter equal to the moving piece still matches a
non-promotion (`g1f3n` selects Ng1-f3) -/
example : (coordQuery 6 21 (some Piece.knight)).test (Move.byMoving .white .knight 6 21) = true := by decide

end Wee
