import Wee.Proofs.EvalBound
import Wee.Props.C05
import Wee.Props.C06Complete
/-!
# C05 closed: the non-terminal clause with a constant material bound; C06's `TreeBounded` from the root

Rust: `weechess-engine/src/eval/mod.rs` (`Evaluator::evaluate`, the weighted sum over `EVALUATORS`),
`eval/evaluate_piece_worths.rs`, `evaluate_piece_squares.rs`, `evaluate_force_king_to_edge.rs`,
`evaluate_bad_pawns.rs`.  Model: `Wee/Model/Eval.lean`.  Lemmas: `Wee/Proofs/EvalBound.lean`.

## Goal A — `C05_nonterminal`

`Wee/Props/C05.lean` left `C05_nonterminal_statement` open: *a position with one king and at most 16 men a side,
a legal move and `|material| < 9000` never gets a terminal (mate) score*.  The term-by-term bound of
`C05_heuristic_bound` cannot give it (the positional terms alone can exceed 1000); the bound has to couple
position and material:

* `C05_positional_bound` — `|score - 0.95·material| ≤ 1450` for every position with one king and at most 16 men a
  side, *without* any hypothesis on the material.  Each own man is worth at most `0.05·worth + 0.8·max(table)`
  (`≤ 49`, a queen), each enemy man at most `-0.05·worth + 0.8·max(-table)` (`≤ 25`, a knight in the corner); what
  the kings, king-to-the-edge and the pawn structure add is controlled through the end-game weight, which is a
  function of `k = 6·pawns + 16·queens + occupied squares` (`Wee.squares_kingedge`: weight `> 0` iff `k < 160`).
* `C05_nonterminal : C05_nonterminal_statement` — the full statement, threshold 9000 as in DESIGN.md:
  `0.95·8999 + 1450 < 10000`.

The evaluator is NOT bounded by any constant without the material hypothesis (`C05_unbounded_example`: ten queens).
-/
namespace Wee.C05
open Gen

/-- `men s c` (`Wee/Proofs/EvalBound.lean`) is the count used in `C05_nonterminal_statement` -/
example (s : State) (c : Color) : men s c = (Piece.all.map (pieceCount s c)).sum := rfl

/-- **C05_positional_bound.**  One king and at most 16 men a side ⇒ from either perspective the heuristic score
differs from 95 % of the material difference by at most 1450 centipawns:
`19·material - 29000 ≤ 20·score ≤ 19·material + 29000`.
No hypothesis on the material, on legality or on overlaps; all `f32` roundings and `as i32` truncations of the Rust
code are accounted for (`Ev.mulF_mkRat_bounds`, `psq_core`, the kernel-checked table `egwK_tab` of the end-game
weight). -/
theorem C05_positional_bound (s : State) (c : Color) (hk : OneKingEach s) (hmen : ∀ c, men s c ≤ 16) :
    19 * materialDiff s c - 29000 ≤ 20 * evalHeuristic (Variation.of s) c ∧
    20 * evalHeuristic (Variation.of s) c ≤ 19 * materialDiff s c + 29000 := by
  have h1 := evalHeuristic_coupled s c hk hmen
  have h2 := evalHeuristic_coupled s c.opp hk hmen
  have h3 := evalHeuristic_neg (Variation.of s) (egw_bounded s) c
  rw [opp_opp] at h2
  unfold materialDiff
  constructor <;> eomega

/-- the heuristic score of a position with `|material| < 9000` is strictly inside `(-10000, 10000)` -/
theorem C05_heuristic_lt (s : State) (c : Color) (hk : OneKingEach s) (hmen : ∀ c, men s c ≤ 16)
    (hm : (materialDiff s c).natAbs < 9000) :
    -10000 < evalHeuristic (Variation.of s) c ∧ evalHeuristic (Variation.of s) c < 10000 := by
  have := C05_positional_bound s c hk hmen
  constructor <;> eomega

theorem kingHasMove_ne_none (s : State) (hk : OneKingEach s) : kingHasMove s ≠ none := by
  unfold kingHasMove
  cases hf : firstOne (s.pieces.get s.turn .king) with
  | some k => simp
  | none =>
    have h0 := (firstOne_eq_none _).1 hf
    have := hk s.turn
    rw [h0, popcount_zero] at this
    cases this

/-- **C05_nonterminal** — the full statement of `Wee/Props/C05.lean`, threshold 9000: a position with exactly one
king and at most 16 men a side, at least one legal move (`compute_legal_moves` non-empty) and a piece-worth
difference below 90 pawns is scored by the heuristic sum, and that score is never terminal
(`-POS_INF < score < POS_INF`), from either perspective, at every depth. -/
theorem C05_nonterminal : C05_nonterminal_statement := by
  intro s c d hk hmen ⟨m, ms, hm⟩ hmat
  refine ⟨_, C05_nonterminal_branch s c d m ms hm (kingHasMove_ne_none s hk), ?_⟩
  have h := C05_heuristic_lt s c hk hmen hmat
  have hp : Ev.posInf = 10000 := rfl
  have hn : Ev.negInf = -10000 := rfl
  unfold Ev.isTerminal
  rw [hp, hn]
  simp only [Bool.or_eq_false_iff, decide_eq_false_iff_not]
  constructor <;> eomega

/-! ### non-vacuity: nine queens, a rook and a bishop against a bare king (material 8950) -/

/-- `8/1R6/2QB4/2Q1QQ2/2Q1QQ2/2Q1Q3/8/3k2K1 w - - 0 1`: White has 9 queens, a rook and a bishop (8950), none of
them attacking the black king on d1; White is to move and not in check, so `evaluate` takes the shortcut branch -/
def queensS : State :=
  { pieces := { wk := 0x40, wq := 0x43434140000, wb := 0x80000000000, wr := 0x2000000000000, bk := 0x8 },
    turn := .white, castleW := .noRights, castleB := .noRights, ep := none, halfmove := 0, fullmove := 1 }

/-- a legal position without overlaps that is not in check and whose `king_has_move` shortcut fires has a legal move -/
theorem has_move_of_shortcut (s : State) (hl : LegalPos s = true) (hd : C10.DisjointBoard s.pieces)
    (hc : s.isCheck = false) (hk : kingHasMove s = some true) : ∃ m ms, legalMoves? s = some (m :: ms) := by
  obtain ⟨_, L, _, hL, _⟩ := legalMoves_spec C02.applyCorrect s hl hd
  cases L with
  | nil => exact absurd hL (C05_shortcut_sound s hd hc hk)
  | cons m ms => exact ⟨m, ms, hL⟩

/-- all hypotheses of `C05_nonterminal_statement` hold for `queensS`; its score is 9063 (material 8950) -/
example : OneKingEach queensS ∧ (∀ c, men queensS c ≤ 16) ∧ (∃ m ms, legalMoves? queensS = some (m :: ms)) ∧
    (materialDiff queensS .white).natAbs < 9000 ∧ materialDiff queensS .white = 8950 ∧
    evaluate queensS .white 0 = some 9063 ∧ evaluate queensS .black 0 = some (-9063) := by
  refine ⟨fun c => by cases c <;> decide +kernel, fun c => by cases c <;> decide +kernel,
    has_move_of_shortcut queensS (by decide +kernel) (by decide +kernel) (by decide +kernel) (by decide +kernel),
    by decide +kernel, by decide +kernel, by decide +kernel, by decide +kernel⟩

/-- `8/8/2Q1QQ2/2Q1QQ2/2Q1QQ2/2Q1Q3/8/3k2K1 w - - 0 1`: eleven queens against a bare king -/
def elevenQ : State :=
  { pieces := { wk := 0x40, wq := 0x343434140000, bk := 0x8 },
    turn := .white, castleW := .noRights, castleB := .noRights, ep := none, halfmove := 0, fullmove := 1 }

/-- **the material hypothesis cannot be dropped**: eleven queens against a bare king (one king and 12 men a side at
most, White to move with a legal move, not mate) is scored `10020 ≥ POS_INF`, a "mate" score.  (Known limit of the
evaluator recorded in DESIGN.md §6 C05; material 9900.) -/
theorem C05_unbounded_example : OneKingEach elevenQ ∧ (∀ c, men elevenQ c ≤ 16) ∧
    (∃ m ms, legalMoves? elevenQ = some (m :: ms)) ∧ materialDiff elevenQ .white = 9900 ∧
    evaluate elevenQ .white 0 = some 10020 ∧ Ev.isTerminal 10020 = true := by
  refine ⟨fun c => by cases c <;> decide +kernel, fun c => by cases c <;> decide +kernel,
    has_move_of_shortcut elevenQ (by decide +kernel) (by decide +kernel) (by decide +kernel) (by decide +kernel),
    by decide +kernel, by decide +kernel, by decide +kernel⟩

end Wee.C05
