import Wee.Proofs.EvalBound
import Wee.Props.C05
import Wee.Props.C06Complete
/-!
# C05 closed: the non-terminal clause with a constant material bound; C06's `TreeBounded` from the root

Rust: `weechess-engine/src/eval/mod.rs` (`Evaluator::evaluate`, the weighted sum over `EVALUATORS`),
`eval/evaluate_piece_worths.rs`, `evaluate_piece_squares.rs`, `evaluate_force_king_to_edge.rs`,
`evaluate_bad_pawns.rs`.  Model: `Wee/Model/Eval.lean`.  Lemmas: `Wee/Proofs/EvalBound.lean`.

## Goal A — `C05_nonterminal`

`Wee/Props/C05.lean` left `C05_nonterminal_statement` open: *a position with one king and at most 16 men a side,
a legal move and `|material| < 9000` never gets a terminal (mate) score*.  The term-by-term bound of
`C05_heuristic_bound` cannot give it (the positional terms alone can exceed 1000); the bound has to couple
position and material:

* `C05_positional_bound` — `|score - 0.95·material| ≤ 1450` for every position with one king and at most 16 men a
  side, *without* any hypothesis on the material.  Each own man is worth at most `0.05·worth + 0.8·max(table)`
  (`≤ 49`, a queen), each enemy man at most `-0.05·worth + 0.8·max(-table)` (`≤ 25`, a knight in the corner); what
  the kings, king-to-the-edge and the pawn structure add is controlled through the end-game weight, which is a
  function of `k = 6·pawns + 16·queens + occupied squares` (`Wee.squares_kingedge`: weight `> 0` iff `k < 160`).
* `C05_nonterminal : C05_nonterminal_statement` — the full statement, threshold 9000 as in DESIGN.md:
  `0.95·8999 + 1450 < 10000`.

Before the repair of defect F10 the material hypothesis could not be dropped (`C05_unbounded_example`: eleven queens
against a bare king, a position with 107 legal moves, heuristic sum 10020 — then also the value of `evaluate`, replayed on
the real evaluator through the harness, `eval w 0 <fen>` = 10020).  Since the repair (`eval.clamp(NEG_INF + 1, POS_INF - 1)`
on the heuristic result) `evaluate` returns 9999 there (`C05_unbounded_example_repaired`) and the clause holds for every
position (`C05_nonterminal_all`, `C05_all` in `Wee/Props/Clamped.lean`); `C05_nonterminal` remains true as stated and now
also says that on its domain the clamp is the identity.
The constant 1450 is not sharp: maximising the same per-kind bounds over all piece counts numerically gives 1412.

## Goal B — `TreeBounded_of_potential`

`TreeBounded root` (every position reachable by legal moves satisfies `MaterialBounded`, i.e. the term-by-term bound
`|Δworths| + |Δsquares| + |Δking-edge| + |Δpawns| < 10000` with all weights 1) is a hypothesis of every C06 / C17
theorem of the development before the repair of F10 (now REDUNDANT there: the `_all` theorems of
`Wee/Props/Clamped.lean` drop it; the results of this section stay true and are kept).  It follows from a condition
decidable on the root alone:

* `RootBounded s` := each side has at most 16 men and a promotion potential
  `phi s c = 900·pawns + 300·knights + 350·bishops + 500·rooks + 900·queens < 9000`;
* `C05_potential_monotone` — `phi` and the number of men of either side never increase along a listed legal move
  (`C02.stateW_succ_le`, from the square-by-square successor placement `C02.expectedF` of C02);
* `MaterialBounded_of_potential`, `TreeBounded_of_potential`, and the corollaries `C06_sound_fresh_of_potential`,
  `C06_complete_one_worker_of_potential`, `C06_complete_some_report_any_workers_of_potential`, `C17_win_of_potential`.

"At most 16 men a side" is part of the root condition because `LegalPos` does not bound the number of men (a FEN may
hold 29 knights of one colour, potential 8700), and the per-kind table extremes then exceed the budget.
-/
namespace Wee.C05
open Gen

/-- `men s c` (`Wee/Proofs/EvalBound.lean`) is the count used in `C05_nonterminal_statement` -/
example (s : State) (c : Color) : men s c = (Piece.all.map (pieceCount s c)).sum := rfl

/-- **C05_positional_bound.**  One king and at most 16 men a side ⇒ from either perspective the heuristic score
differs from 95 % of the material difference by at most 1450 centipawns:
`19·material - 29000 ≤ 20·score ≤ 19·material + 29000`.
No hypothesis on the material, on legality or on overlaps; all `f32` roundings and `as i32` truncations of the Rust
code are accounted for (`Ev.mulF_mkRat_bounds`, `psq_core`, the kernel-checked table `egwK_tab` of the end-game
weight). -/
theorem C05_positional_bound (s : State) (c : Color) (hk : OneKingEach s) (hmen : ∀ c, men s c ≤ 16) :
    19 * materialDiff s c - 29000 ≤ 20 * evalHeuristic (Variation.of s) c ∧
    20 * evalHeuristic (Variation.of s) c ≤ 19 * materialDiff s c + 29000 := by
  have h1 := evalHeuristic_coupled s c hk hmen
  have h2 := evalHeuristic_coupled s c.opp hk hmen
  have h3 := evalHeuristic_neg (Variation.of s) (egw_bounded s) c
  rw [opp_opp] at h2
  unfold materialDiff
  constructor <;> eomega

/-- the heuristic score of a position with `|material| < 9000` is strictly inside `(-10000, 10000)` -/
theorem C05_heuristic_lt (s : State) (c : Color) (hk : OneKingEach s) (hmen : ∀ c, men s c ≤ 16)
    (hm : (materialDiff s c).natAbs < 9000) :
    -10000 < evalHeuristic (Variation.of s) c ∧ evalHeuristic (Variation.of s) c < 10000 := by
  have := C05_positional_bound s c hk hmen
  constructor <;> eomega

theorem kingHasMove_ne_none (s : State) (hk : OneKingEach s) : kingHasMove s ≠ none := by
  unfold kingHasMove
  cases hf : firstOne (s.pieces.get s.turn .king) with
  | some k => simp
  | none =>
    have h0 := (firstOne_eq_none _).1 hf
    have := hk s.turn
    rw [h0, popcount_zero] at this
    cases this

/-- **C05_nonterminal** — the full statement of `Wee/Props/C05.lean`, threshold 9000: a position with exactly one
king and at most 16 men a side, at least one legal move (`compute_legal_moves` non-empty) and a piece-worth
difference below 90 pawns is scored by the heuristic sum, and that score is never terminal
(`-POS_INF < score < POS_INF`), from either perspective, at every depth. -/
theorem C05_nonterminal : C05_nonterminal_statement := by
  intro s c d hk hmen ⟨m, ms, hm⟩ hmat
  refine ⟨_, C05_nonterminal_branch s c d m ms hm (kingHasMove_ne_none s hk), ?_⟩
  have h := C05_heuristic_lt s c hk hmen hmat
  rw [clampHeuristic_id h.1 h.2]
  have hp : Ev.posInf = 10000 := rfl
  have hn : Ev.negInf = -10000 := rfl
  unfold Ev.isTerminal
  rw [hp, hn]
  simp only [Bool.or_eq_false_iff, decide_eq_false_iff_not]
  constructor <;> eomega

/-! ### non-vacuity: nine queens, a rook and a bishop against a bare king (material 8950) -/

/-- `8/1R6/2QB4/2Q1QQ2/2Q1QQ2/2Q1Q3/8/3k2K1 w - - 0 1`: White has 9 queens, a rook and a bishop (8950), none of
them attacking the black king on d1; White is to move and not in check, so `evaluate` takes the shortcut branch -/
def queensS : State :=
  { pieces := { wk := 0x40, wq := 0x43434140000, wb := 0x80000000000, wr := 0x2000000000000, bk := 0x8 },
    turn := .white, castleW := .noRights, castleB := .noRights, ep := none, halfmove := 0, fullmove := 1 }

/-- a legal position without overlaps that is not in check and whose `king_has_move` shortcut fires has a legal move -/
theorem has_move_of_shortcut (s : State) (hl : LegalPos s = true) (hd : C10.DisjointBoard s.pieces)
    (hc : s.isCheck = false) (hk : kingHasMove s = some true) : ∃ m ms, legalMoves? s = some (m :: ms) := by
  obtain ⟨_, L, _, hL, _⟩ := legalMoves_spec C02.applyCorrect s hl hd
  cases L with
  | nil => exact absurd hL (C05_shortcut_sound s hd hc hk)
  | cons m ms => exact ⟨m, ms, hL⟩

/-- all hypotheses of `C05_nonterminal_statement` hold for `queensS`; its score is 9063 (material 8950) -/
example : OneKingEach queensS ∧ (∀ c, men queensS c ≤ 16) ∧ (∃ m ms, legalMoves? queensS = some (m :: ms)) ∧
    (materialDiff queensS .white).natAbs < 9000 ∧ materialDiff queensS .white = 8950 ∧
    evaluate queensS .white 0 = some 9063 ∧ evaluate queensS .black 0 = some (-9063) := by
  refine ⟨fun c => by cases c <;> decide +kernel, fun c => by cases c <;> decide +kernel,
    has_move_of_shortcut queensS (by decide +kernel) (by decide +kernel) (by decide +kernel) (by decide +kernel),
    by decide +kernel, by decide +kernel, by decide +kernel, by decide +kernel⟩

/-- `8/8/2Q1QQ2/2Q1QQ2/2Q1QQ2/2Q1Q3/8/3k2K1 w - - 0 1`: eleven queens against a bare king -/
def elevenQ : State :=
  { pieces := { wk := 0x40, wq := 0x343434140000, bk := 0x8 },
    turn := .white, castleW := .noRights, castleB := .noRights, ep := none, halfmove := 0, fullmove := 1 }

/-- **the material hypothesis cannot be dropped from the bound on the HEURISTIC SUM**: eleven queens against a bare
king (one king and 12 men a side at most, White to move with a legal move, not mate) has the weighted sum
`10020 ≥ POS_INF`, which looks like a "mate" score.  Before the repair of defect F10 this was also the value of
`evaluate` (the theorem then read `evaluate elevenQ .white 0 = some 10020`; material 9900; DESIGN.md §6 C05).
Since the repair `Evaluator::evaluate` clamps the heuristic result: see `C05_unbounded_example_repaired`. -/
theorem C05_unbounded_example : OneKingEach elevenQ ∧ (∀ c, men elevenQ c ≤ 16) ∧
    (∃ m ms, legalMoves? elevenQ = some (m :: ms)) ∧ materialDiff elevenQ .white = 9900 ∧
    evalHeuristic (Variation.of elevenQ) .white = 10020 ∧ Ev.isTerminal 10020 = true := by
  refine ⟨fun c => by cases c <;> decide +kernel, fun c => by cases c <;> decide +kernel,
    has_move_of_shortcut elevenQ (by decide +kernel) (by decide +kernel) (by decide +kernel) (by decide +kernel),
    by decide +kernel, by decide +kernel, by decide +kernel⟩

/-- **after the repair of F10** the same position evaluates to `POS_INF - 1 = 9999` / `NEG_INF + 1 = -9999`, which
is not a terminal score: the clause "others never as mate" of C05 now holds for it (and for every position, see
`C05_all` in `Wee/Props/Clamped.lean`). -/
theorem C05_unbounded_example_repaired :
    evaluate elevenQ .white 0 = some 9999 ∧ evaluate elevenQ .black 0 = some (-9999) ∧
    Ev.isTerminal 9999 = false ∧ Ev.isTerminal (-9999) = false := by
  refine ⟨by decide +kernel, by decide +kernel, by decide +kernel, by decide +kernel⟩

end Wee.C05

/-! ## Goal B — `TreeBounded` from a decidable condition on the root -/
namespace Wee.C06
open Wee Wee.Search Wee.Outcome
open Wee.C10 (DisjointBoard)

/-- the weights of the promotion potential: every pawn may become a queen -/
def potentialWeight : Piece → Nat
  | .pawn => 900 | .knight => 300 | .bishop => 350 | .rook => 500 | .queen => 900 | .king => 0 | .none => 0

/-- **The root condition.**  `RootBounded s`: each side has at most 16 men and a promotion potential
`phi s c = 900·pawns + 300·knights + 350·bishops + 500·rooks + 900·queens` below 9000 — at most "nine queens' worth"
counting every pawn as a queen.  Decidable on the position alone (`decide +kernel`). -/
def RootBounded (s : State) : Prop := (∀ c, men s c ≤ 16) ∧ (∀ c, phi s c < 9000)

instance (s : State) : Decidable (RootBounded s) := by
  unfold RootBounded
  have : ∀ (P : Color → Prop) [∀ c, Decidable (P c)], Decidable (∀ c, P c) := fun P _ =>
    decidable_of_iff (P .white ∧ P .black) ⟨fun h c => by cases c <;> simp [h.1, h.2], fun h => ⟨h _, h _⟩⟩
  infer_instance

theorem phi_eq_stateW (s : State) (c : Color) : phi s c = C02.stateW potentialWeight s c := by
  unfold phi C02.stateW C02.wsum pieceCount; simp only [potentialWeight]; omega

theorem men_eq_stateW (s : State) (c : Color) : men s c = C02.stateW (fun _ => 1) s c := by
  rw [men_eq]; unfold C02.stateW C02.wsum pieceCount; simp only []; omega

/-- **Φ and the number of men do not increase along legal moves**, for either side: a capture removes a man,
castling relocates one, a promotion replaces a pawn (900) by a piece worth at most 900. -/
theorem C05_potential_monotone (s : State) (hl : LegalPos s = true) (hd : DisjointBoard s.pieces)
    (r : Move × State) (hr : r ∈ legalMoves s) (c : Color) :
    phi r.2 c ≤ phi s c ∧ men r.2 c ≤ men s c := by
  rw [phi_eq_stateW, phi_eq_stateW, men_eq_stateW, men_eq_stateW]
  exact ⟨C02.stateW_succ_le potentialWeight (fun q => by cases q <;> decide) s hl hd r hr c,
    C02.stateW_succ_le (fun _ => 1) (fun _ => Nat.le_refl _) s hl hd r hr c⟩

/-- the root condition, legality and "no overlaps" travel along every listed legal move -/
theorem RootBounded.step {s : State} (hl : LegalPos s = true) (hd : DisjointBoard s.pieces) (hb : RootBounded s)
    {r : Move × State} (hr : r ∈ legalMoves s) :
    LegalPos r.2 = true ∧ DisjointBoard r.2.pieces ∧ RootBounded r.2 := by
  refine ⟨C02_closed s hl hd r hr, (C02_successor_invariants s hl hd r hr).1, fun c => ?_, fun c => ?_⟩
  · exact Nat.le_trans (C05_potential_monotone s hl hd r hr c).2 (hb.1 c)
  · exact Nat.lt_of_le_of_lt (C05_potential_monotone s hl hd r hr c).1 (hb.2 c)

/-- a legal position without overlaps that meets the root condition satisfies the term-by-term material bound of
`C05_nonterminal_partial` (`MaterialBounded`, the hypothesis of `static_ok`) -/
theorem MaterialBounded_of_potential (s : State) (hl : LegalPos s = true) (hd : DisjointBoard s.pieces)
    (hb : RootBounded s) : MaterialBounded s := by
  unfold MaterialBounded C05.materialDiff C05.positionalDiff
  exact termwise_lt_of_potential s s.turn (C02.oneKingEach_of_legal s hl hd) hb.1 hb.2

/-- **TreeBounded_of_potential.**  `TreeBounded root` — the hypothesis of every C06 / C17 theorem that every position
reachable from the root by legal moves satisfies the material bound — follows from a condition on the root alone:
legal, no overlaps, at most 16 men a side and a promotion potential below 9000 for both sides.
(The start position does NOT satisfy it, and rightly so: nine queens are reachable from it, and with them the
evaluator's heuristic sum leaves `(-10000, 10000)`, see `C05.C05_unbounded_example`.) -/
theorem TreeBounded_of_potential (root : State) (hl : LegalPos root = true) (hd : DisjointBoard root.pieces)
    (hb : RootBounded root) : TreeBounded root := by
  intro s' hs'
  suffices h : LegalPos s' = true ∧ DisjointBoard s'.pieces ∧ RootBounded s' from
    MaterialBounded_of_potential s' h.1 h.2.1 h.2.2
  induction hs' with
  | refl => exact ⟨hl, hd, hb⟩
  | step r _ hr ih => exact RootBounded.step ih.1 ih.2.1 ih.2.2 hr

/-! ### examples: KQK and KRRK roots satisfy the root condition, the start position does not -/

/-- `k7/8/1K6/8/8/8/7Q/8 w - - 0 1` -/
def kqkRoot : State :=
  { pieces := { wk := 0x0000020000000000, wq := 0x8000, bk := 0x0100000000000000 },
    turn := .white, castleW := .noRights, castleB := .noRights, ep := none, halfmove := 0, fullmove := 1 }

/-- `7k/8/8/8/8/8/8/KRR5 w - - 0 1` -/
def krrkRoot : State :=
  { pieces := { wk := 0x1, wr := 0x6, bk := 0x8000000000000000 },
    turn := .white, castleW := .noRights, castleB := .noRights, ep := none, halfmove := 0, fullmove := 1 }

/-- every hypothesis of `TreeBounded_of_potential` is decided by the kernel on the root alone -/
example : LegalPos kqkRoot = true ∧ DisjointBoard kqkRoot.pieces ∧ RootBounded kqkRoot ∧ TreeBounded kqkRoot :=
  ⟨by decide +kernel, by decide +kernel, by decide +kernel,
    TreeBounded_of_potential kqkRoot (by decide +kernel) (by decide +kernel) (by decide +kernel)⟩

example : LegalPos krrkRoot = true ∧ DisjointBoard krrkRoot.pieces ∧ RootBounded krrkRoot ∧ TreeBounded krrkRoot :=
  ⟨by decide +kernel, by decide +kernel, by decide +kernel,
    TreeBounded_of_potential krrkRoot (by decide +kernel) (by decide +kernel) (by decide +kernel)⟩

/-- the pawn-rich mate position of `C06Complete.lean` meets it too (potential 6·900 = 5400 / 3·900 + 300 = 3000) -/
example : LegalPos compRoot = true ∧ DisjointBoard compRoot.pieces ∧ RootBounded compRoot :=
  ⟨by decide +kernel, by decide +kernel, by decide +kernel⟩

/-- the start position does NOT meet the root condition: its potential is `8·900 + 2·300 + 2·350 + 2·500 + 900 = 10400`
a side (nine queens are reachable) -/
example : ¬ RootBounded c02Start ∧ phi c02Start .white = 10400 ∧ phi c02Start .black = 10400 :=
  ⟨by decide +kernel, by decide +kernel, by decide +kernel⟩

/-! ### C06 / C17 with the root condition in place of `TreeBounded` -/

/-- **C06_sound_fresh_of_potential.**  `C06_sound_fresh` with `TreeBounded root` replaced by the decidable root
condition `RootBounded root`: every report with a winning terminal evaluation is a true forced mate, and with one
worker per iteration the reported first move keeps it. -/
theorem C06_sound_fresh_of_potential (root : State) (hl : LegalPos root = true) (hd : DisjointBoard root.pieces)
    (hb : RootBounded root) (keys : KeyTable) (hcf : CollisionFree keys.keys (Reachable root))
    (nT nB : Nat) (hT : 0 < nT) (hB : 0 < nB) (history : List UInt64)
    (rng0 : Rng.ChaCha8) (maxDepth : Option Nat) (workersOf : Nat → Nat) (cancelAt : Option Nat) (fuelDepth : Nat) :
    let out := iterate root rng0 maxDepth { keys := keys, tt := TT.Access.new nT nB, history := history }
      workersOf cancelAt fuelDepth
    (∀ ev ∈ out.events, ClaimTrue root ev) ∧ ((∀ d, workersOf d = 1) → ∀ ev ∈ out.events, MoveKeeps root ev) :=
  C06_sound_fresh root hl hd (TreeBounded_of_potential root hl hd hb) keys hcf nT nB hT hB history rng0 maxDepth
    workersOf cancelAt fuelDepth

/-- **C06_complete_one_worker_of_potential.**  `C06_complete_one_worker` with the root condition. -/
theorem C06_complete_one_worker_of_potential (root : State) (n d : Nat) (keys : KeyTable) (nT nB : Nat)
    (rng0 : Rng.ChaCha8) (fuelDepth : Nat)
    (hl : LegalPos root = true) (hdj : DisjointBoard root.pieces) (hb : RootBounded root)
    (hcf : CollisionFree keys.keys (Reachable root)) (hcfn : CollisionFreeN keys.keys (Reachable root))
    (hT : 0 < nT) (hB : 0 < nB) (hw : forcedMate n root = true) (hnd : n ≤ d) :
    let out := iterate root rng0 (some d) { keys := keys, tt := TT.Access.new nT nB, history := [] } (fun _ => 1)
      Option.none fuelDepth
    out.panic = Option.none ∧
    ∃ ev line, (bestReports out.events).getLast? = some (ev, line) ∧ Ev.posInf ≤ ev ∧
      ∃ r ∈ legalMoves root, line.head? = some r.1 ∧ Lost r.2 :=
  C06_complete_one_worker root n d keys nT nB rng0 fuelDepth hl hdj (TreeBounded_of_potential root hl hdj hb)
    hcf hcfn hT hB hw hnd

/-- **C06_complete_some_report_any_workers_of_potential.** -/
theorem C06_complete_some_report_any_workers_of_potential (root : State) (n d : Nat) (keys : KeyTable) (nT nB : Nat)
    (rng0 : Rng.ChaCha8) (workersOf : Nat → Nat) (fuelDepth : Nat)
    (hl : LegalPos root = true) (hdj : DisjointBoard root.pieces) (hb : RootBounded root)
    (hcf : CollisionFree keys.keys (Reachable root)) (hcfn : CollisionFreeN keys.keys (Reachable root))
    (hT : 0 < nT) (hB : 0 < nB) (hw : forcedMate n root = true) (hnd : n ≤ d) (hwk : ∀ k, 0 < workersOf k) :
    let out := iterate root rng0 (some d) { keys := keys, tt := TT.Access.new nT nB, history := [] } workersOf
      Option.none fuelDepth
    out.panic = Option.none ∧
    ∃ ev line, (bestReports out.events).getLast? = some (ev, line) ∧ Ev.posInf ≤ ev :=
  C06_complete_some_report_any_workers root n d keys nT nB rng0 workersOf fuelDepth hl hdj
    (TreeBounded_of_potential root hl hdj hb) hcf hcfn hT hB hw hnd hwk

/-- **C17_win_of_potential.**  `C17_win` with the root condition. -/
theorem C17_win_of_potential (root : State) (n d : Nat) (keys : KeyTable) (history : List UInt64) (nT nB : Nat)
    (rng0 : Rng.ChaCha8) (fuelDepth : Nat)
    (hl : LegalPos root = true) (hdj : DisjointBoard root.pieces) (hb : RootBounded root)
    (hcf : CollisionFree keys.keys (Reachable root))
    (hcoll : CollH keys.keys (hash keys.keys root :: history) (Reachable root) n)
    (hT : 0 < nT) (hB : 0 < nB) (hw : fmH keys.keys (hash keys.keys root :: history) n root = true) (hnd : n ≤ d) :
    let out := iterate root rng0 (some d) { keys := keys, tt := TT.Access.new nT nB, history := history } (fun _ => 1)
      Option.none fuelDepth
    out.panic = Option.none ∧
    ∃ ev line, (bestReports out.events).getLast? = some (ev, line) ∧ Ev.posInf ≤ ev ∧
      ∃ r ∈ legalMoves root, line.head? = some r.1 ∧ Lost r.2 ∧
        (hash keys.keys root :: history).contains (hash keys.keys r.2) = false :=
  C17_win root n d keys history nT nB rng0 fuelDepth hl hdj (TreeBounded_of_potential root hl hdj hb)
    hcf hcoll hT hB hw hnd

/-! ### non-vacuity of the corollaries and of the monotonicity lemma on `compRoot` -/

/-- all hypotheses of `C06_complete_one_worker_of_potential` hold for `compRoot` / `compKeys`; the `TreeBounded`
hypothesis of the original is now the kernel-decided root condition -/
example (nT nB : Nat) (hT : 0 < nT) (hB : 0 < nB) (rng0 : Rng.ChaCha8) (d : Nat) (hd : 1 ≤ d) :
    let out := iterate compRoot rng0 (some d) { keys := compKeys, tt := TT.Access.new nT nB, history := [] }
      (fun _ => 1) Option.none 64
    out.panic = Option.none ∧
    ∃ ev line, (bestReports out.events).getLast? = some (ev, line) ∧ Ev.posInf ≤ ev ∧
      ∃ r ∈ legalMoves compRoot, line.head? = some r.1 ∧ Lost r.2 :=
  C06_complete_one_worker_of_potential compRoot 1 d compKeys nT nB rng0 64 compRoot_hyps.1 compRoot_hyps.2.1
    (by decide +kernel) compRoot_hyps.2.2.2.1 compRoot_hyps.2.2.2.2.1 hT hB compRoot_hyps.2.2.2.2.2 hd

set_option maxRecDepth 1000000 in
/-- `a6xb7#` removes a black pawn: Black's potential drops by 900, White's stays (`C05_potential_monotone` is an
equality or a strict drop, never an increase) -/
example : compA ∈ legalMoves compRoot ∧ phi compRoot .black = 3000 ∧ phi compA.2 .black = 2100 ∧
    phi compRoot .white = 5400 ∧ phi compA.2 .white = 5400 := by
  refine ⟨?_, by decide +kernel, by decide +kernel, by decide +kernel, by decide +kernel⟩
  rw [compRoot_facts.2.2.2.2.1]; exact List.mem_cons_self

end Wee.C06
