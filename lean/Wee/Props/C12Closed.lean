import Wee.Proofs.WfMoves
import Wee.Props.C07
/-!
# C12 closed (and with it C07_position): legal move lists are well-formed

`Wee/Props/C12.lean` proves that move text resolves to exactly the intended move for every move list
`L` with `WFMoves L`, and leaves open that the lists `compute_legal_moves` returns are of that kind
(`C12_wf_statement`).  This file proves it from C01 (`C01_moves`, `C01_legal_results`: the generated
list read through the accessors is a duplicate-free permutation of the legal moves of the rules) and
from the shape of the rules' own generator (`Wee/Proofs/WfMoves.lean`: in `Spec.pseudoMoves P` every
attribute of a move is a function of kind, origin, destination and promotion; capture-ness and
promotion-ness are functions of kind and destination; one piece per origin; one king; one castling
move per side).

* `C12_wf` — `WFMoves ((legalMoves s).map (·.1))` for every legal position `s` whose bitboards do not
  overlap.  The side condition `DisjointBoard s.pieces` is the one of C01/C02 (it holds for the start
  position, for every parsed FEN and for every successor).  It cannot be dropped:
  `C12_wf_statement_false` refutes the statement of `C12.lean` that has only `LegalPos s`
  (a knight and a pawn stacked on c3 read as a legal position, but both move from c3).
* `C12_unique_legal`, `C12_unique_rules`, `C12_lan_legal`, `C12_negative_legal`,
  `C12_negative_castle_legal` — the C12 theorems for `L := (legalMoves s).map (·.1)` with no
  well-formedness hypothesis and with the SAN writer reading the rules' list `Spec.legalMoves (abs s)`.
* `C07_position` — the full statement `C07_position_statement` of `Wee/Props/C07.lean`, and the
  closed forms of the other `position` theorems that carried a `WFLine` hypothesis.
-/
namespace Wee.SanP
open Wee
open Wee.C10 (DisjointBoard)

/-! ## 1. well-formedness of generated legal-move lists -/

/-- **C12_wf.**  For every legal position (`LegalPos`: one king each, side not to move not in check,
no pawns on the back ranks, castling rights only with king and rook at home, sane en-passant target)
whose bitboards do not overlap, the moves returned by `MoveGenerator::compute_legal_moves`, read
through the `Move` accessors, form a well-formed list: every move is accessor-consistent (valid piece
code, capture code `< 7`, promotion ∈ {none, Q, R, B, N}, only pawns promote, castling moves are king
moves); a move is determined by (piece, origin, destination, promotion); capture-ness and
promotion-ness are functions of (piece, destination); one piece per origin; all king moves share an
origin; at most one castling move per side. -/
theorem C12_wf (s : State) (hl : LegalPos s = true) (hd : DisjointBoard s.pieces) :
    WFMoves ((legalMoves s).map (·.1)) :=
  WfM.wfMoves_legal s hl hd

/-- the fields one by one -/
theorem C12_wf_acc (s : State) (hl : LegalPos s = true) (hd : DisjointBoard s.pieces) :
    ∀ m ∈ (legalMoves s).map (·.1), AccOK m := WfM.wf_acc s hl hd

theorem C12_wf_inj (s : State) (hl : LegalPos s = true) (hd : DisjointBoard s.pieces) :
    ∀ m ∈ (legalMoves s).map (·.1), ∀ m' ∈ (legalMoves s).map (·.1),
      Move.piece m = Move.piece m' → Move.origin m = Move.origin m' →
      Move.dest m = Move.dest m' → Move.promotion m = Move.promotion m' → m = m' := WfM.wf_inj s hl hd

/-- the statement of `C12.lean` with the side condition of C01/C02 -/
def C12_wf_closed_statement : Prop :=
  ∀ s : State, LegalPos s = true → DisjointBoard s.pieces → WFMoves ((legalMoves s).map (·.1))

theorem C12_wf_closed : C12_wf_closed_statement := C12_wf

/-- White Ke1, Black Ke8, and a white knight AND a white pawn both on c3 (the bitboards overlap).
`abs` reads one piece on c3, so this is a `LegalPos`; the generator moves both pieces. -/
def stacked : State :=
  { pieces := { wk := 0x10, wn := 0x40000, wp := 0x40000, bk := 0x1000000000000000 }
    turn := .white, castleW := .noRights, castleB := .noRights, ep := Option.none, halfmove := 0, fullmove := 1 }

set_option maxRecDepth 1000000 in
theorem stacked_legal : LegalPos stacked = true := by decide +kernel

set_option maxRecDepth 1000000 in
theorem stacked_not_wf : ¬ WFMoves ((legalMoves stacked).map (·.1)) := by decide +kernel

/-- **`DisjointBoard` is necessary**: the statement of `C12.lean` (`LegalPos` only) is false. -/
theorem C12_wf_statement_false : ¬ C12_wf_statement :=
  fun h => stacked_not_wf (h stacked stacked_legal)

/-- the hypotheses of `C12_wf` are satisfiable (18 moves, promotions, en passant): -/
example : WFMoves ((legalMoves C01_example).map (·.1)) :=
  C12_wf C01_example (by decide +kernel) (by decide)

/-! ## 2. move text in legal positions -/

/-- the generated list has no duplicates -/
theorem C12_nodup_legal (s : State) (hl : LegalPos s = true) (hd : DisjointBoard s.pieces) :
    ((legalMoves s).map (·.1)).Nodup := WfM.nodup_legal s hl hd

/-- **C12_unique_legal.**  `s` a legal position (no overlaps), `m` one of the moves
`compute_legal_moves` returns, `sm` its reading through the accessors.  Every SAN spelling `t` that
the independent writer `Spec.spellings` produces for `sm` **from the rules' own legal-move list of
`abs s`** (every admissible disambiguation, `x`, `=Q`/`Q`, optional `+`/`#`, `O-O`, `O-O-O`) is
accepted by `San::try_from_notation`, and the resulting query matches `m` and no other generated
move; `MoveSet::filter` returns exactly `[m]`. -/
theorem C12_unique_legal (s : State) (hl : LegalPos s = true) (hd : DisjointBoard s.pieces)
    (m : Move) (hm : m ∈ (legalMoves s).map (·.1)) (sm : Spec.SMove) (hsm : toSpecMove m = some sm)
    (t : String) (ht : t ∈ Spec.spellings (abs s) sm) :
    ∃ q, parseSan t = some q ∧ (∀ m' ∈ (legalMoves s).map (·.1), (q.test m' = true ↔ m' = m)) ∧
      ((legalMoves s).map (·.1)).filter q.test = [m] := by
  rw [spellings_eq, ← WfM.spellingsIn_perm (WfM.filterMap_perm s hl hd)] at ht
  obtain ⟨q, hq, hsel⟩ := C12_unique _ (C12_wf s hl hd) m hm sm hsm _ (checkMark_cases _ _) t ht
  exact ⟨q, hq, hsel, C12_unique_filter _ (C12_nodup_legal s hl hd) m hm q hsel⟩

/-- **C12_unique_rules**, from the side of the rules: every legal move `sm` of the rules in `abs s`
is the reading of exactly one generated move `m`, and every spelling of `sm` resolves to `m`. -/
theorem C12_unique_rules (s : State) (hl : LegalPos s = true) (hd : DisjointBoard s.pieces)
    (sm : Spec.SMove) (hsm : sm ∈ Spec.legalMoves (abs s)) :
    ∃ m ∈ (legalMoves s).map (·.1), toSpecMove m = some sm ∧
      (∀ m' ∈ (legalMoves s).map (·.1), toSpecMove m' = some sm → m' = m) ∧
      ∀ t ∈ Spec.spellings (abs s) sm, ∃ q, parseSan t = some q ∧
        ((legalMoves s).map (·.1)).filter q.test = [m] := by
  obtain ⟨m, hm, e⟩ := WfM.exists_packed s hl hd sm hsm
  refine ⟨m, hm, e, fun m' hm' e' => WfM.toSpec_inj s hl hd m' hm' m hm (e'.trans e.symm), fun t ht => ?_⟩
  obtain ⟨q, hq, _, hf⟩ := C12_unique_legal s hl hd m hm sm e t ht
  exact ⟨q, hq, hf⟩

/-- **C12_lan_legal.**  The coordinate text `Lan::into_notation` writes for a generated legal move is
accepted by the UCI token parser, and the query selects that move and no other generated move. -/
theorem C12_lan_legal (s : State) (hl : LegalPos s = true) (hd : DisjointBoard s.pieces)
    (m : Move) (hm : m ∈ (legalMoves s).map (·.1)) :
    ∃ q, parseUciMoveToken (Move.lan m) = some (some q) ∧
      (∀ m' ∈ (legalMoves s).map (·.1), (q.test m' = true ↔ m' = m)) ∧
      ((legalMoves s).map (·.1)).filter q.test = [m] := by
  obtain ⟨q, hq, hsel⟩ := C12_lan _ (C12_wf s hl hd) m hm
  exact ⟨q, hq, hsel, C12_unique_filter _ (C12_nodup_legal s hl hd) m hm q hsel⟩

/-- **C12_negative_legal.**  A non-castling move that is pseudo-legal by the rules in `abs s` but
leaves the own king attacked (`Spec.illegalPseudo`): its fully disambiguated spelling parses and the
query matches NO generated move (`by_performing_moves` answers `Unknown`). -/
theorem C12_negative_legal (s : State) (hl : LegalPos s = true) (hd : DisjointBoard s.pieces)
    (sm : Spec.SMove) (hill : sm ∈ Spec.illegalPseudo (abs s)) (hnc : sm.castle = Option.none)
    (mark : String) (hmark : mark = "" ∨ mark = "+" ∨ mark = "#") :
    ∃ q, parseSan (Spec.fullSpelling sm ++ mark) = some q ∧
      ∀ m' ∈ (legalMoves s).map (·.1), q.test m' = false :=
  C12_negative _ (C12_wf s hl hd) sm (WfM.illegal_not_listed s hl hd sm hill)
    (WfM.negOK_pseudo s hl hd sm (List.mem_filter.1 hill).1 hnc) mark hmark

/-- **castling that the rules do not allow**: if no legal move of the rules in `abs s` castles on the
given side (no right, pieces in between, king in check, crossing or landing on an attacked square),
`O-O` / `O-O-O` parses and the query matches NO generated move. -/
theorem C12_negative_castle_legal (s : State) (hl : LegalPos s = true) (hd : DisjointBoard s.pieces)
    (kingSide : Bool) (hno : ∀ sm ∈ Spec.legalMoves (abs s), sm.castle ≠ some kingSide)
    (mark : String) (hmark : mark = "" ∨ mark = "+" ∨ mark = "#") :
    ∃ q, parseSan ((if kingSide then "O-O" else "O-O-O") ++ mark) = some q ∧
      ∀ m' ∈ (legalMoves s).map (·.1), q.test m' = false := by
  have key : ∀ sd : Side, (sd == Side.king) = kingSide →
      ∀ m' ∈ (legalMoves s).map (·.1), Move.isCastle m' sd = false := by
    intro sd hsd m' hm'
    cases ht : Move.isCastle m' sd with
    | false => rfl
    | true =>
      exfalso
      obtain ⟨sm', hsm', hleg, _, _⟩ := WfM.mem_data s hl hd m' hm'
      obtain ⟨_, _, _, _, _, b6⟩ := WfM.spec_fields hsm'
      have h1 : Move.castleSide m' = some sd := eq_of_beq ht
      exact hno sm' hleg (by rw [b6, h1]; simp [hsd])
  cases kingSide with
  | true =>
    refine ⟨_, (parse_castle mark hmark).1, fun m' hm' => ?_⟩
    rw [test_castle]; exact key .king rfl m' hm'
  | false =>
    refine ⟨_, (parse_castle mark hmark).2, fun m' hm' => ?_⟩
    rw [test_castle]; exact key .queen rfl m' hm'

/-! ### non-vacuity -/

/-- `4k3/8/8/8/4r3/8/4N3/4K3 w - - 0 1` (the position of `pinMoves`): the knight on e2 is pinned -/
def pinState : State :=
  { pieces := { wk := 0x10, wn := 0x1000, bk := 0x1000000000000000, br := 0x10000000 }
    turn := .white, castleW := .noRights, castleB := .noRights, ep := Option.none, halfmove := 0, fullmove := 1 }

set_option maxRecDepth 1000000 in
theorem pinState_ok : LegalPos pinState = true ∧ DisjointBoard pinState.pieces := by decide +kernel

set_option maxRecDepth 1000000 in
/-- the pinned knight's move `Ne2-c3` is an illegal pseudo-legal move of the rules there -/
theorem nc3_illegal : nc3 ∈ Spec.illegalPseudo (abs pinState) := by decide +kernel

/-- so `Ne2c3` matches no generated move of that position -/
example : ∃ q, parseSan (Spec.fullSpelling nc3 ++ "") = some q ∧
    ∀ m' ∈ (legalMoves pinState).map (·.1), q.test m' = false :=
  C12_negative_legal pinState pinState_ok.1 pinState_ok.2 nc3 nc3_illegal rfl "" (Or.inl rfl)

set_option maxRecDepth 1000000 in
/-- no castling in `C01_example` (no rights): `O-O` matches nothing there -/
example : ∃ q, parseSan ("O-O" ++ "") = some q ∧ ∀ m' ∈ (legalMoves C01_example).map (·.1), q.test m' = false :=
  C12_negative_castle_legal C01_example (by decide +kernel) (by decide) true (by decide +kernel) "" (Or.inl rfl)

set_option maxRecDepth 1000000 in
/-- hypotheses of `C12_unique_legal` / `C12_lan_legal` on `C01_example`: the en-passant capture
`exd6` (packed move read back as a rule move, spelled by the writer) -/
example : ∃ m ∈ (legalMoves C01_example).map (·.1), ∃ sm, toSpecMove m = some sm ∧ sm.ep = true ∧
    "exd6" ∈ Spec.spellings (abs C01_example) sm := by decide +kernel

end Wee.SanP

namespace Wee.Uci
open Wee
open Wee.C10 (DisjointBoard)

/-! ## 3. C07_position without the well-formedness hypothesis -/

/-- along every line of legal moves from a legal position the move lists are well-formed -/
theorem wfLine_legal (l : List (Move × State)) :
    ∀ s : State, LegalPos s = true → DisjointBoard s.pieces → LegalLine s l → WFLine s l := by
  induction l with
  | nil => intro _ _ _ _; trivial
  | cons r rs ih =>
    intro s hl hd hline
    exact ⟨SanP.C12_wf s hl hd,
      ih r.2 (C02_closed s hl hd r hline.1) (C02_successor_invariants s hl hd r hline.1).1 hline.2⟩

/-- **C07_position** (full statement of `Wee/Props/C07.lean`).  `position <base> moves m₁ … mₖ`, where
the base tokens set a legal position `base` without overlaps (`startpos`, or a FEN that parses to such
a position) and the `mᵢ` are the coordinate texts of successively legal moves: the session position
becomes the end of the line — by `C07_position_rules` the position the rules of chess define — and
nothing is printed. -/
theorem C07_position : C07_position_statement :=
  fun s pre hpre base hbase hl hd l hline =>
    C07_position_generic s pre hpre base hbase hl hd l hline (wfLine_legal l base hl hd hline)

/-- `position startpos moves m₁ … mₖ` for every line of legal moves from the start position -/
theorem C07_position_startpos_closed (s : Sess) (l : List (Move × State)) (hline : LegalLine startState l) :
    positionCmd s ("startpos" :: "moves" :: l.map (fun r => Move.lan r.1)) =
      some ({ s with pos := lineEnd startState l }, []) :=
  C07_position_startpos s l hline (wfLine_legal l startState startState_legal startState_disjoint hline)

/-- `position fen F₁ … F₆ moves m₁ … mₖ` -/
theorem C07_position_fen_closed (s : Sess) (F : List String) (hnm : ∀ t ∈ F, t ≠ "moves") (s0 : State)
    (hF : parseFen false (" ".intercalate F) = .ok s0)
    (hl : LegalPos s0 = true) (hd : DisjointBoard s0.pieces)
    (l : List (Move × State)) (hline : LegalLine s0 l) :
    positionCmd s ("fen" :: F ++ "moves" :: l.map (fun r => Move.lan r.1)) =
      some ({ s with pos := lineEnd s0 l }, []) :=
  C07_position_fen s F hnm s0 hF hl hd l hline (wfLine_legal l s0 hl hd hline)

/-- a legal line, then a well-formed token that matches no legal move: `info string invalid move`,
session position = base position -/
theorem C07_position_invalid_after_line_closed (s : Sess) (pre : List String) (hpre : ∀ t ∈ pre, t ≠ "moves")
    (base : State) (hbase : posBase pre = .inl (some base))
    (hl : LegalPos base = true) (hd : DisjointBoard base.pieces)
    (l : List (Move × State)) (hline : LegalLine base l)
    (t : String) (q : MoveQuery) (ht : parseUciMoveToken t = some (some q))
    (hno : (legalMoves (lineEnd base l)).filter (fun r => q.test r.1) = [])
    (rest : List String) (qsr : List MoveQuery)
    (hrest : rest.map parseUciMoveToken = qsr.map (fun q => some (some q))) :
    positionCmd s (pre ++ "moves" :: (l.map (fun r => Move.lan r.1) ++ t :: rest)) =
      some ({ s with pos := base }, [Out.line "info string invalid move"]) :=
  C07_position_invalid_after_line s pre hpre base hbase hl hd l hline (wfLine_legal l base hl hd hline)
    t q ht hno rest qsr hrest

/-- the hypotheses are satisfiable: the king-and-pawn line of `Wee/Props/C07.lean` -/
example (s : Sess) :
    positionCmd s ("fen" :: kpkFen ++ "moves" :: kpkLine.map (fun r => Move.lan r.1)) =
      some ({ s with pos := lineEnd kpk kpkLine }, []) :=
  C07_position_fen_closed s kpkFen (by decide) kpk kpk_parse kpk_legal.1 kpk_legal.2 kpkLine kpk_line

end Wee.Uci
