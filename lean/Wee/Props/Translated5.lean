import Wee.Props.C15
import Wee.Proofs.TTFnsBridge
import Wee.Proofs.SearchFnsBridge
/-!
# C15 restated for the table operations TRANSLATED FROM THE RUST SOURCE TEXT

`tools/rs2lean_tt.py` regenerates `TranspositionTableAccess.insert` / `find` (and the bucket and sub-table functions below them) from the text
of `searcher.rs` on every run, the `RwLock` read as the atomic application of the sub-table method.  A sequence of such operations, run through
the generated functions, is a `run` of the model (`genRun_accessOf`), so C15's "a lookup returns nothing or the most recent entry stored under
exactly that key" holds for what the source text computes.
-/
namespace Wee
open Wee.GenFns Wee.TT

/-- an operation on the Rust-side table: an insert of a Rust-side entry under a 64-bit key, or a lookup -/
inductive GenOp
  | insert (k : UInt64) (e : TranspositionEntry)
  | find (k : UInt64)

/-- the model operation it stands for -/
def GenOp.toOp : GenOp → Op
  | .insert k e => .insert k.toNat (entryOf e)
  | .find k => .find k.toNat

/-- the operations run one after the other through the functions generated from the source text (`none` = some insert panicked) -/
def genRun (a : TranspositionTableAccess) : List GenOp → Option TranspositionTableAccess
  | [] => some a
  | .insert k e :: rest => (TranspositionTableAccess.insert a k e).bind fun a' => genRun a' rest
  | .find _ :: rest => genRun a rest

theorem genRun_accessOf (ops : List GenOp) : ∀ (a a' : TranspositionTableAccess), AccessWF a → genRun a ops = some a' →
    accessOf a' = run (accessOf a) (ops.map GenOp.toOp) ∧ AccessWF a' := by
  induction ops with
  | nil =>
    intro a a' w h
    simp only [genRun, Option.some.injEq] at h
    subst h
    exact ⟨rfl, w⟩
  | cons op rest ih =>
    intro a a' w h
    cases op with
    | find k =>
      simp only [genRun] at h
      obtain ⟨h1, h2⟩ := ih a a' w h
      exact ⟨by simpa [run, step, GenOp.toOp] using h1, h2⟩
    | insert k e =>
      simp only [genRun] at h
      cases hi : TranspositionTableAccess.insert a k e with
      | none => rw [hi] at h; cases h
      | some a1 =>
        rw [hi] at h
        obtain ⟨e1, w1⟩ := TranspositionTableAccess.insert_some a a1 k e w hi
        obtain ⟨h1, h2⟩ := ih a1 a' w1 h
        refine ⟨?_, h2⟩
        rw [h1, e1]
        simp [run, step, GenOp.toOp]

/-- **C15 (lookup) for the translated table**: start from the fresh table of `tables` sub-tables with `buckets` buckets each (as
`with_tables` / `with_bucket_count` build it), run any sequence of inserts and lookups through the generated functions; then the generated
`find` under any key returns — without panicking — either nothing or the most recent entry inserted under exactly that key. -/
theorem C15_translated_find (tables : Nat) (buckets : UInt64) (hT : 0 < tables) (hT' : tables < 2 ^ 64)
    (hB : 0 < buckets.toNat) (hB' : buckets.toNat * Gen.bucketSize < 2 ^ 64)
    (ops : List GenOp) (a : TranspositionTableAccess)
    (h : genRun ⟨Array.replicate tables (TranspositionTable.with_bucket_count buckets)⟩ ops = some a) (k : UInt64) :
    ∃ r, TranspositionTableAccess.find a k = some r ∧
      (r.map entryOf = none ∨ r.map entryOf = latest (ops.map GenOp.toOp) k.toNat) := by
  have w0 : AccessWF ⟨Array.replicate tables (TranspositionTable.with_bucket_count buckets)⟩ := by
    refine ⟨by simpa using hT, by simpa using hT', ?_⟩
    intro t ht
    simp only [Array.toList_replicate, List.mem_replicate] at ht
    rw [ht.2]
    exact TranspositionTable.with_bucket_count_wf buckets hB hB'
  obtain ⟨e, w⟩ := genRun_accessOf ops _ a w0 h
  obtain ⟨r, hr, hr'⟩ := TranspositionTableAccess.find_eq a k w
  refine ⟨r, hr, ?_⟩
  rw [hr', e, accessOf_replicate]
  exact C15_find tables buckets.toNat hT hB (ops.map GenOp.toOp) k.toNat

end Wee
