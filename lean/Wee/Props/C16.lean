import Wee.Proofs.BookLemmas
import Wee.Proofs.SanLemmas
import Wee.Props.C08
/-!
# C16 — the opening book offers exactly the recorded, legal moves

Rust: `weechess-engine/build.rs` (`generate_book_data`: every file of `book/`,
`trim().split("\n\n").map(trim_start).filter(starts_with("1."))`, `parse_movetext(..).take(BOOK_DEPTH)`,
`book.append(hash, &[mov])`), `weechess-core/src/book.rs` (`Book`, `BookParser::parse_movetext`),
`weechess-engine/src/book.rs` (`OpeningBook::lookup`), `weechess-core/src/hasher.rs`.
Model: `Wee/Model/Book.lean` (`gamesOfFile`, `moveTokens`, `stepToken`, `scanMoves`, `playMovetext`,
`append`, `buildBook`, `lookup`).

All theorems are generic in the key table `K` (any seed) and in the corpus (any list of games /
files); the concrete `book/` directory is handled by the correspondence check (`tools/c16.py`:
model book = spec book = real embedded book on all 4948 positions).

* `C16_build` — what `lookup` answers after `buildBook`: exactly the moves recorded (within the
  first `BOOK_DEPTH` plies of some game) from positions with the same hash; the build succeeds iff no
  game has an unreadable token in its first `BOOK_DEPTH` move strings; order of games/files is
  irrelevant; the answer has no duplicates and is never an empty set.
* `C16_exact` — if no recorded position collides with `p` under `K` (C08: `hash` equal ⇒ `key` equal),
  the answer is exactly the set of moves recorded from positions with the rule-relevant key of `p`
  (placement, side to move, castling rights, availability+file of an en-passant capture).
* `C16_legal` — every offered move is a legal move in `p` (member of the engine's own
  `compute_legal_moves(p)` and, read through its accessors, a legal move of the rules of chess),
  whatever history led to `p`: the recorded move was found among the legal moves of the recorded
  position, and legal moves are a function of the key (`C16_legal_moves_of_key`).
-/
namespace Wee.Book
open Wee
open Wee.C10 (DisjointBoard)

/-! ## vocabulary -/

/-- `Recorded games q m`: some game of the corpus, replayed by `parse_movetext`, is in position `q` within its first
`BOOK_DEPTH` plies and continues with `m` (`m` = first legal move passing the SAN query of the token) -/
def Recorded (games : List String) (q : State) (m : Move) : Prop :=
  ∃ g ∈ games, ∃ l, playMovetext g = .ok l ∧ (q, m) ∈ l

/-- `Offers K b p m`: `OpeningBook::lookup(p)` returns a set containing `m` -/
def Offers (K : Keys) (b : Table) (p : State) (m : Move) : Prop :=
  ∃ ms, lookup K b p = some ms ∧ m ∈ ms

/-- no position recorded in the corpus collides with `p` without having the key of `p` (the converse always
holds, `C08_equal_key`).  Follows from xor-independence of the key table (`C16_collisionFree_of_independent`). -/
def CollisionFree (K : Keys) (games : List String) (p : State) : Prop :=
  ∀ q m, Recorded games q m → hash K q = hash K p → key q = key p

/-! ## what "recorded" means, spelled out -/

/-- the recorded pairs of a game are the pairs `(position, move)` of its replay from the initial position over the
first `BOOK_DEPTH` move strings (`Plays`: each step is `stepToken` = SAN parse + FIRST match in generation order) -/
theorem C16_recorded_iff (games : List String) (q : State) (m : Move) :
    Recorded games q m ↔ ∃ g ∈ games, ∃ l, Plays startState (bookTokens g) l ∧ (q, m) ∈ l := by
  unfold Recorded playMovetext
  constructor
  · rintro ⟨g, hg, l, hl, hm⟩; exact ⟨g, hg, l, (playTokens_ok_iff _ _).1 hl, hm⟩
  · rintro ⟨g, hg, l, hl, hm⟩; exact ⟨g, hg, l, (playTokens_ok_iff _ _).2 hl, hm⟩

/-- `playMovetext` is literally `parse_movetext(..).take(BOOK_DEPTH).collect::<Result<Vec<_>,_>>()` (the model
applies `take` to the token list because the iterator is lazy) -/
theorem C16_play_is_take_collect (movetext : String) :
    playMovetext movetext = collect ((parseMovetext movetext).take Gen.bookDepth) :=
  playMovetext_eq movetext

/-- a recorded pair sits at a ply `i < BOOK_DEPTH` of its game -/
theorem C16_recorded_depth (games : List String) (q : State) (m : Move) (h : Recorded games q m) :
    ∃ g ∈ games, ∃ l i, playMovetext g = .ok l ∧ i < Gen.bookDepth ∧ l[i]? = some (q, m) := by
  obtain ⟨g, hg, l, hl, hm⟩ := h
  obtain ⟨i, hi, he⟩ := List.mem_iff_getElem.1 hm
  refine ⟨g, hg, l, i, hl, ?_, by rw [List.getElem?_eq_getElem hi, he]⟩
  have h1 := ((playTokens_ok_iff _ _).1 hl).length
  have h2 := length_bookTokens g
  omega

/-- the recorded move is the FIRST legal move (generation order of `compute_legal_moves`) that passes the query
parsed from a token of the game -/
theorem C16_recorded_first_match (games : List String) (q : State) (m : Move) (h : Recorded games q m) :
    ∃ g ∈ games, ∃ t ∈ bookTokens g, ∃ qr, parseSanChars t = some qr ∧
      ((legalMoves q).find? (fun r => qr.test r.1)).map (·.1) = some m := by
  obtain ⟨g, hg, l, hl, hm⟩ := h
  obtain ⟨t, ht, qr, hp, hf⟩ := ((playTokens_ok_iff _ _).1 hl).first_match hm
  exact ⟨g, hg, t, ht, qr, hp, hf⟩

/-- first match = the only match whenever the SAN text is unambiguous (C12: a SAN spelling written by the rules
matches exactly one legal move, `C12_unique_filter`) -/
theorem C16_first_match_unique (L : List (Move × State)) (f : Move × State → Bool) (r : Move × State)
    (h : L.filter f = [r]) : L.find? f = some r := by
  induction L with
  | nil => cases h
  | cons a L ih =>
    rw [List.filter_cons] at h
    by_cases ha : f a = true
    · rw [if_pos ha] at h
      rw [List.find?_cons, ha]
      rw [(List.cons.inj h).1]
    · rw [if_neg ha] at h
      simp only [Bool.not_eq_true] at ha
      rw [List.find?_cons, ha]
      exact ih h

/-! ## C16_build -/

/-- the build succeeds exactly when every game is readable over its first `BOOK_DEPTH` move strings (otherwise
`generate_book_data().unwrap()` panics and there is no binary) -/
theorem C16_build_succeeds (K : Keys) (games : List String) :
    (∃ t, buildBookGames K games = .ok t) ↔ ∀ g ∈ games, ∃ l, playMovetext g = .ok l := by
  unfold buildBookGames
  constructor
  · rintro ⟨t, ht⟩ g hg
    exact (buildFromPlayed_ok K _ ∅ t ht).1 _ (List.mem_map.2 ⟨g, hg, rfl⟩)
  · intro h
    apply buildFromPlayed_isOk
    intro p hp
    obtain ⟨g, hg, rfl⟩ := List.mem_map.1 hp
    exact h g hg

/-- **C16_build.**  For ANY list of games and ANY key table: after a successful build, `lookup(p)` contains `m`
iff `m` was recorded — within the first `BOOK_DEPTH` plies of some game — from a position `q` whose hash
equals the hash of `p`. -/
theorem C16_build (K : Keys) (games : List String) (t : Table) (ht : buildBookGames K games = .ok t)
    (p : State) (m : Move) :
    Offers K t p m ↔ ∃ q, Recorded games q m ∧ hash K q = hash K p := by
  unfold Offers
  rw [mem_lookup]
  unfold buildBookGames at ht
  rw [(buildFromPlayed_ok K _ ∅ t ht).2, movesAt_empty]
  unfold Recorded
  constructor
  · rintro (h | ⟨l, hl, q, hq, hh⟩)
    · cases h
    · obtain ⟨g, hg, e⟩ := List.mem_map.1 hl
      exact ⟨q, ⟨g, hg, l, e, hq⟩, hh⟩
  · rintro ⟨q, ⟨g, hg, l, e, hq⟩, hh⟩
    exact Or.inr ⟨l, List.mem_map.2 ⟨g, hg, e⟩, q, hq, hh⟩

/-- the same for the files of the book directory (`generate_book_data`) -/
theorem C16_build_files (K : Keys) (files : List String) (t : Table) (ht : buildBook K files = .ok t)
    (p : State) (m : Move) :
    Offers K t p m ↔ ∃ q, Recorded (files.flatMap gamesOfFile) q m ∧ hash K q = hash K p :=
  C16_build K _ t ht p m

/-- `lookup` answers `None` exactly for positions whose hash was never recorded -/
theorem C16_none (K : Keys) (games : List String) (t : Table) (ht : buildBookGames K games = .ok t) (p : State) :
    lookup K t p = Option.none ↔ ¬ ∃ q m, Recorded games q m ∧ hash K q = hash K p := by
  rw [lookup_eq_none]
  constructor
  · intro h ⟨q, m, hr, hh⟩
    have := (mem_lookup K t p m).1 ((C16_build K games t ht p m).2 ⟨q, hr, hh⟩)
    rw [h] at this; cases this
  · intro h
    cases hm : movesAt t (hash K p) with
    | nil => rfl
    | cons m rest =>
      exfalso
      have : m ∈ movesAt t (hash K p) := by rw [hm]; simp
      obtain ⟨q, hr, hh⟩ := (C16_build K games t ht p m).1 ((mem_lookup K t p m).2 this)
      exact h ⟨q, m, hr, hh⟩

/-- the answer is a set: no move is listed twice (`HashSet<Move>`), and it is never empty -/
theorem C16_answer_is_set (K : Keys) (games : List String) (t : Table) (ht : buildBookGames K games = .ok t)
    (p : State) (ms : List Move) (h : lookup K t p = some ms) : ms.Nodup ∧ ms ≠ [] := by
  obtain ⟨e, hne⟩ := lookup_eq_some K t p ms h
  refine ⟨?_, hne⟩
  rw [e]
  unfold buildBookGames at ht
  exact buildFromPlayed_nodup K _ ∅ t ht _ (by rw [movesAt_empty]; exact List.nodup_nil)

/-- the order of the games (hence of the files: `read_dir` order is unspecified) does not matter -/
theorem C16_order_irrelevant (K : Keys) (games games' : List String) (hperm : games.Perm games')
    (t t' : Table) (ht : buildBookGames K games = .ok t) (ht' : buildBookGames K games' = .ok t')
    (p : State) (m : Move) : Offers K t p m ↔ Offers K t' p m := by
  rw [C16_build K games t ht, C16_build K games' t' ht']
  apply exists_congr; intro q
  apply and_congr_left; intro _
  unfold Recorded
  constructor
  · rintro ⟨g, hg, r⟩; exact ⟨g, hperm.mem_iff.1 hg, r⟩
  · rintro ⟨g, hg, r⟩; exact ⟨g, hperm.mem_iff.2 hg, r⟩

/-- …and a permuted corpus builds iff the original does -/
theorem C16_order_irrelevant_succeeds (K : Keys) (games games' : List String) (hperm : games.Perm games') :
    (∃ t, buildBookGames K games = .ok t) ↔ ∃ t', buildBookGames K games' = .ok t' := by
  rw [C16_build_succeeds, C16_build_succeeds]
  constructor
  · intro h g hg; exact h g (hperm.mem_iff.2 hg)
  · intro h g hg; exact h g (hperm.mem_iff.1 hg)

/-! ## C16_exact -/

/-- **C16_exact.**  If no recorded position collides with `p`, the book offers for `p` exactly the moves recorded
from positions with the same rule-relevant key as `p` (same placement, side to move, castling rights and
available en-passant capture) — in particular the same set for `p` reached by any move order, with any clocks. -/
theorem C16_exact (K : Keys) (games : List String) (t : Table) (ht : buildBookGames K games = .ok t)
    (p : State) (hK : CollisionFree K games p) (m : Move) :
    Offers K t p m ↔ ∃ q, Recorded games q m ∧ key q = key p := by
  rw [C16_build K games t ht]
  constructor
  · rintro ⟨q, hr, hh⟩; exact ⟨q, hr, hK q m hr hh⟩
  · rintro ⟨q, hr, hk⟩; exact ⟨q, hr, C08_equal_key K q p hk⟩

/-- `CollisionFree` from the hypothesis of `C08_hash_eq_iff_key_eq`: the key table is xor-independent on a set of
atoms that contains the atoms in which `p` differs from the recorded positions -/
theorem C16_collisionFree_of_independent (K : Keys) (U : Atom → Prop) (hK : K.IndependentOn U)
    (games : List String) (p : State)
    (hU : ∀ q m, Recorded games q m → ∀ a ∈ symmDiff (atoms q) (atoms p), U a) :
    CollisionFree K games p :=
  fun q m hr hh => (C08_hash_eq_iff_key_eq K U hK q p (hU q m hr)).1 hh

/-- a position of the book is offered every move recorded for it — no hypothesis on `K` -/
theorem C16_offers_recorded (K : Keys) (games : List String) (t : Table) (ht : buildBookGames K games = .ok t)
    (q : State) (m : Move) (h : Recorded games q m) : Offers K t q m :=
  (C16_build K games t ht q m).2 ⟨q, h, rfl⟩

/-- …and so is every position with the same key (other clocks, other history, an en-passant target nobody can
capture on) -/
theorem C16_offers_same_key (K : Keys) (games : List String) (t : Table) (ht : buildBookGames K games = .ok t)
    (q p : State) (m : Move) (h : Recorded games q m) (hk : key q = key p) : Offers K t p m :=
  (C16_build K games t ht p m).2 ⟨q, h, C08_equal_key K q p hk⟩

/-! ## C16_legal -/

/-- every game starts from a legal position; so every recorded position is a legal position without stacked pieces
and every recorded move reads — through all its accessors — as a legal move of the rules of chess there -/
theorem C16_recorded_legal (games : List String) (q : State) (m : Move) (h : Recorded games q m) :
    LegalPos q = true ∧ DisjointBoard q.pieces ∧ m ∈ (legalMoves q).map (·.1) ∧
      ∃ sm, toSpecMove m = some sm ∧ sm ∈ Spec.legalMoves (abs q) := by
  obtain ⟨g, _, l, hl, hm⟩ := h
  have hp := (playTokens_ok_iff _ _).1 hl
  obtain ⟨h1, h2, h3⟩ := hp.legalPos startState_legalPos startState_disjoint hm
  exact ⟨h1, h2, hp.legal hm, h3⟩

/-- the model's `panic` error (an `unwrap` inside `compute_legal_moves`) cannot occur while a game is replayed -/
theorem C16_no_panic (s : State) (hl : LegalPos s = true) (hd : DisjointBoard s.pieces) (t : List Char) :
    stepToken s t ≠ .error .panic := stepToken_ne_panic s hl hd t

/-- **legal moves are a function of the key.**  `key q = key p` (and en-passant targets, if any, on the rank the
side to move implies — true of every `LegalPos`) ⇒ `compute_legal_moves` lists the same moves in the same order:
neither the clocks nor an en-passant target without capturer are read. -/
theorem C16_legal_moves_of_key (q p : State) (hk : key q = key p) (hq : EpOK q) (hp : EpOK p) :
    (legalMoves q).map (·.1) = (legalMoves p).map (·.1) :=
  legalMoves_congr_key q p hk hq hp

/-- special case: all five hashed components literally equal (`SameKey` of C08), no side condition -/
theorem C16_legal_same_ep (q p : State) (h : SameKey q p) :
    (legalMoves q).map (·.1) = (legalMoves p).map (·.1) :=
  legalMoves_congr_fields q p h.1 h.2.1 h.2.2.1 h.2.2.2.1 h.2.2.2.2

/-- **C16_legal.**  Whatever history led to the legal position `p`: every move the book offers for `p` is one of the
legal moves of `p` (an element of `compute_legal_moves(p)`), provided no recorded position collides with `p`. -/
theorem C16_legal (K : Keys) (games : List String) (t : Table) (ht : buildBookGames K games = .ok t)
    (p : State) (hp : LegalPos p = true) (hK : CollisionFree K games p) (m : Move) (h : Offers K t p m) :
    m ∈ (legalMoves p).map (·.1) := by
  obtain ⟨q, hr, hk⟩ := (C16_exact K games t ht p hK m).1 h
  obtain ⟨hql, _, hmem, _⟩ := C16_recorded_legal games q m hr
  rw [← C16_legal_moves_of_key q p hk (EpOK_of_legalPos q hql) (EpOK_of_legalPos p hp)]
  exact hmem

/-- …and, read through all its accessors, a legal move of the rules of chess in `p` (C01) -/
theorem C16_legal_rules (K : Keys) (games : List String) (t : Table) (ht : buildBookGames K games = .ok t)
    (p : State) (hp : LegalPos p = true) (hd : DisjointBoard p.pieces) (hK : CollisionFree K games p)
    (m : Move) (h : Offers K t p m) :
    ∃ sm, toSpecMove m = some sm ∧ sm ∈ Spec.legalMoves (abs p) := by
  obtain ⟨r, hr, e⟩ := List.mem_map.1 (C16_legal K games t ht p hp hK m h)
  obtain ⟨sm, h1, h2, _⟩ := (C01_legal_results p hp hd).2 r hr
  exact ⟨sm, e ▸ h1, h2⟩

/-- without any hypothesis on `K`: a collision is the only way to be offered an illegal move — an offered move is
legal in some recorded position with the same HASH -/
theorem C16_legal_up_to_collision (K : Keys) (games : List String) (t : Table) (ht : buildBookGames K games = .ok t)
    (p : State) (m : Move) (h : Offers K t p m) :
    ∃ q, hash K q = hash K p ∧ LegalPos q = true ∧ m ∈ (legalMoves q).map (·.1) := by
  obtain ⟨q, hr, hh⟩ := (C16_build K games t ht p m).1 h
  obtain ⟨hql, _, hmem, _⟩ := C16_recorded_legal games q m hr
  exact ⟨q, hh, hql, hmem⟩

/-! ## non-vacuity

### text handling (kernel-evaluated) -/

/-- two games; the second one sits behind THREE newlines (a missing tag line) like the four games of
`Gibraltar2019.txt` that the build script used to drop (F7) -/
def toyFile : String :=
  "[Event \"toy\"]\n[Result \"1-0\"]\n\n1. e4 e5 2. Nf3 1-0\n\n[Event \"toy\"]\n\n\n1.d4 d5 2.c4 1/2-1/2\n"

set_option maxRecDepth 1000000 in
example : gamesOfFile toyFile = ["1. e4 e5 2. Nf3 1-0", "1.d4 d5 2.c4 1/2-1/2"] := by decide +kernel

set_option maxRecDepth 1000000 in
/-- result tokens and move numbers are dropped, `1.d4` ↦ `d4`, `3...Nf6` ↦ `..Nf6` (everything after the FIRST dot),
and only the first `BOOK_DEPTH` = 10 move strings are kept -/
example : bookTokens "1.d4 d5 2. c4 1/2-1/2 3...Nf6 a b c d e f g h" =
    ["d4", "d5", "c4", "..Nf6", "a", "b", "c", "d", "e", "f"].map String.toList := by decide +kernel

/-! ### the whole pipeline on the toy file, evaluated (keys drawn from the ChaCha8 model, seed 0) -/

def toyKeysOfSeed (seed : UInt64) : Keys := (KeyTable.ofRng (Rng.seedFromU64 seed)).1.keys

/-- the answers of the toy book for a list of FENs, as sorted LAN strings (`none` = `lookup` returned `None`);
the book is built once -/
def toyAnswers (fens : List String) : List (Option (List String)) :=
  match buildBook (toyKeysOfSeed 0) [toyFile] with
  | .ok t => fens.map fun fen =>
    match parseFen true fen with
    | .ok s => (lookup (toyKeysOfSeed 0) t s).map fun ms => (ms.map Move.lan).mergeSort (· ≤ ·)
    | _ => some ["<bad fen>"]
  | .error _ => [some ["<build error>"]]

#guard toyAnswers [
    -- the initial position: the first moves of both games …
    "rnbqkbnr/pppppppp/8/8/8/8/PPPPPPPP/RNBQKBNR w KQkq - 0 1",
    -- … whatever the clocks
    "rnbqkbnr/pppppppp/8/8/8/8/PPPPPPPP/RNBQKBNR w KQkq - 31 77",
    -- after 1. e4 (en-passant target e3 that nobody can capture on: same key with and without it)
    "rnbqkbnr/pppppppp/8/8/4P3/8/PPPP1PPP/RNBQKBNR b KQkq e3 0 1",
    "rnbqkbnr/pppppppp/8/8/4P3/8/PPPP1PPP/RNBQKBNR b KQkq - 0 1",
    -- after 1. d4 d5 (the game behind three newlines)
    "rnbqkbnr/ppp1pppp/8/3p4/3P4/8/PPP1PPPP/RNBQKBNR w KQkq d6 0 2",
    -- same placement, other side to move / other castling rights: not in the book
    "rnbqkbnr/pppppppp/8/8/8/8/PPPPPPPP/RNBQKBNR b KQkq - 0 1",
    "rnbqkbnr/pppppppp/8/8/8/8/PPPPPPPP/RNBQKBNR w KQk - 0 1",
    -- the third ply of the first game is recorded, the position after it is not
    "rnbqkbnr/pppp1ppp/8/4p3/4P3/8/PPPP1PPP/RNBQKBNR w KQkq e6 0 2",
    "rnbqkbnr/pppp1ppp/8/4p3/4P3/5N2/PPPP1PPP/RNBQKB1R b KQkq - 1 2"] =
  [some ["d2d4", "e2e4"], some ["d2d4", "e2e4"], some ["e7e5"], some ["e7e5"], some ["c2c4"],
   Option.none, Option.none, some ["g1f3"], Option.none]

-- an unreadable / unmatched token inside the first ten move strings fails the build
#guard (match buildBook (toyKeysOfSeed 0) ["1. e4 Nf9 1-0"] with | .error (.invalidMoveStr "Nf9") => true | _ => false)
#guard (match buildBook (toyKeysOfSeed 0) ["1. e4 Nf3 1-0"] with | .error (.unknownMove "Nf3") => true | _ => false)

/-! ### a two-game corpus, proved (no evaluation of the magic tables: the moves come from C01/C12)

`["1. e4 1-0", "1.d4 1/2-1/2"]`: for EVERY key table the build succeeds, and every position with the key of the
initial position — any clocks, any history — is offered exactly two moves, which read as e2–e4 and d2–d4 and are legal
there.  All hypotheses of `C16_build`, `C16_exact`, `C16_legal` are instantiated. -/

def toyGames : List String := ["1. e4 1-0", "1.d4 1/2-1/2"]

def e2e4 : Spec.SMove := { color := .white, kind := .pawn, src := 12, dst := 28, dbl := true }
def d2d4 : Spec.SMove := { color := .white, kind := .pawn, src := 11, dst := 27, dbl := true }

/-- a one-ply game whose only move string is a pawn move to `dst`: it is readable, and the recorded move — the FIRST
legal move passing the query — reads as the one legal pawn move of the rules to that square -/
theorem toy_play (g : String) (tok : List Char) (q : MoveQuery) (sm0 : Spec.SMove) (dst : Nat)
    (htok : bookTokens g = [tok]) (hparse : parseSanChars tok = some q)
    (hq : ∀ m, q.test m = true ↔ Move.piece m = .pawn ∧ Move.dest m = dst)
    (hmem : sm0 ∈ Spec.legalMoves (abs startState)) (hkind : sm0.kind = .pawn) (hdst : sm0.dst = dst)
    (huniq : ∀ sm ∈ Spec.legalMoves (abs startState), sm.kind = .pawn → sm.dst = dst → sm = sm0) :
    ∃ m, playMovetext g = .ok [(startState, m)] ∧ toSpecMove m = some sm0 := by
  obtain ⟨⟨L, hL⟩, hres⟩ := C01_legal_results startState startState_legalPos startState_disjoint
  have hLe : legalMoves startState = L := by unfold legalMoves; rw [hL]; rfl
  -- some legal move passes the query …
  have hperm := (C01_moves startState startState_legalPos startState_disjoint).1
  have hin : some sm0 ∈ (legalMoves startState).map (toSpecMove ∘ (·.1)) :=
    hperm.mem_iff.2 (List.mem_map.2 ⟨sm0, hmem, rfl⟩)
  obtain ⟨r0, hr0, hr0s⟩ := List.mem_map.1 hin
  have hr0s' : toSpecMove r0.1 = some sm0 := hr0s
  have ht0 : q.test r0.1 = true := by
    obtain ⟨hp, he⟩ := (SanP.toSpecMove_eq_some r0.1 sm0).1 hr0s'
    rw [hq]
    refine ⟨by rw [hp, hkind]; rfl, ?_⟩
    have := congrArg Spec.SMove.dst he
    rw [hdst] at this
    exact this.symm
  -- … so the first match exists
  rw [hLe] at hr0
  have hsome : (L.find? (fun r => q.test r.1)).isSome = true := by
    rw [List.find?_isSome]; exact ⟨r0, hr0, ht0⟩
  obtain ⟨r, hr⟩ := Option.isSome_iff_exists.1 hsome
  have hrt : q.test r.1 = true := by simpa using List.find?_some hr
  have hrm : r ∈ legalMoves startState := by rw [hLe]; exact List.mem_of_find?_eq_some hr
  have hstep : stepToken startState tok = .ok (r.1, r.2) :=
    (stepToken_ok_iff startState r.2 tok r.1).2 ⟨q, L, hparse, hL, hr⟩
  have hsingle : collect (scanMoves startState [tok]) = .ok [(startState, r.1)] := by
    simp only [scanMoves, hstep, collect]
  refine ⟨r.1, (congrArg playTokens htok).trans hsingle, ?_⟩
  -- and it reads as the unique rule-level move
  obtain ⟨sm, h1, h2, _⟩ := hres r hrm
  obtain ⟨hp, he⟩ := (SanP.toSpecMove_eq_some r.1 sm).1 h1
  obtain ⟨hpawn, hd⟩ := (hq r.1).1 hrt
  have hk : sm.kind = .pawn := by
    rw [hpawn] at hp
    cases hsk : sm.kind <;> rw [hsk] at hp <;> first | rfl | cases hp
  have hd' : sm.dst = dst := by rw [he]; exact hd
  rw [h1, huniq sm h2 hk hd']

theorem pawnQuery_test (rank file : Nat) (hf : file < 8) (m : Move) :
    ({ piece := some .pawn, destRank := some rank, destFile := some file } : MoveQuery).test m = true ↔
      Move.piece m = .pawn ∧ Move.dest m = rank * 8 + file := by
  have hd : (rank = Move.dest m / 8 ∧ file = Move.dest m % 8) ↔ Move.dest m = rank * 8 + file := by omega
  rw [← hd]
  unfold MoveQuery.test rankOf fileOf
  simp only [Option.map_some, Option.map_none, Option.getD_some, Option.getD_none, Bool.and_true,
    Bool.and_eq_true, beq_iff_eq]
  constructor
  · rintro ⟨⟨h1, h2⟩, h3⟩; exact ⟨h1.symm, h2, h3⟩
  · rintro ⟨h1, h2, h3⟩; exact ⟨⟨h1.symm, h2⟩, h3⟩

set_option maxRecDepth 1000000 in
theorem toy_e4 : ∃ m, playMovetext "1. e4 1-0" = .ok [(startState, m)] ∧ toSpecMove m = some e2e4 :=
  toy_play "1. e4 1-0" "e4".toList { piece := some .pawn, destRank := some 3, destFile := some 4 } e2e4 28
    (by decide +kernel) (by decide +kernel) (pawnQuery_test 3 4 (by decide))
    (by decide +kernel) rfl rfl (by decide +kernel)

set_option maxRecDepth 1000000 in
theorem toy_d4 : ∃ m, playMovetext "1.d4 1/2-1/2" = .ok [(startState, m)] ∧ toSpecMove m = some d2d4 :=
  toy_play "1.d4 1/2-1/2" "d4".toList { piece := some .pawn, destRank := some 3, destFile := some 3 } d2d4 27
    (by decide +kernel) (by decide +kernel) (pawnQuery_test 3 3 (by decide))
    (by decide +kernel) rfl rfl (by decide +kernel)

/-- **the toy book, for every key table.**  The build succeeds; the two recorded moves read as e2–e4 and d2–d4; for every
position `p` with the key of the initial position (any clocks, with or without a useless en-passant target) the book
offers exactly these two, and both are legal moves of `p` (if `p` is a legal position). -/
theorem toy_book (K : Keys) :
    ∃ t me md, buildBookGames K toyGames = .ok t ∧ toSpecMove me = some e2e4 ∧ toSpecMove md = some d2d4 ∧
      ∀ p, key p = key startState →
        (∀ m, Offers K t p m ↔ m = me ∨ m = md) ∧
        (LegalPos p = true → me ∈ (legalMoves p).map (·.1) ∧ md ∈ (legalMoves p).map (·.1)) := by
  obtain ⟨me, hpe, hse⟩ := toy_e4
  obtain ⟨md, hpd, hsd⟩ := toy_d4
  -- hypothesis of `C16_build`: the build succeeds
  obtain ⟨t, ht⟩ := (C16_build_succeeds K toyGames).2 (by
    intro g hg
    simp only [toyGames, List.mem_cons, List.not_mem_nil, or_false] at hg
    rcases hg with rfl | rfl
    · exact ⟨_, hpe⟩
    · exact ⟨_, hpd⟩)
  -- what is recorded
  have hrec : ∀ q m, Recorded toyGames q m ↔ q = startState ∧ (m = me ∨ m = md) := by
    intro q m
    unfold Recorded
    simp only [toyGames, List.mem_cons, List.not_mem_nil, or_false]
    constructor
    · rintro ⟨g, rfl | rfl, l, hl, hm⟩
      · rw [hpe] at hl; cases hl
        simp only [List.mem_cons, Prod.mk.injEq, List.not_mem_nil, or_false] at hm
        exact ⟨hm.1, Or.inl hm.2⟩
      · rw [hpd] at hl; cases hl
        simp only [List.mem_cons, Prod.mk.injEq, List.not_mem_nil, or_false] at hm
        exact ⟨hm.1, Or.inr hm.2⟩
    · rintro ⟨rfl, rfl | rfl⟩
      · exact ⟨_, Or.inl rfl, _, hpe, by simp⟩
      · exact ⟨_, Or.inr rfl, _, hpd, by simp⟩
  refine ⟨t, me, md, ht, hse, hsd, fun p hk => ?_⟩
  -- hypothesis of `C16_exact` / `C16_legal`: no collision (here: the only recorded position has the key of `p`)
  have hcf : CollisionFree K toyGames p := fun q m hr _ => by rw [((hrec q m).1 hr).1, hk]
  have hoff : ∀ m, Offers K t p m ↔ m = me ∨ m = md := by
    intro m
    rw [C16_exact K toyGames t ht p hcf m]
    constructor
    · rintro ⟨q, hr, _⟩; exact ((hrec q m).1 hr).2
    · intro hm; exact ⟨startState, (hrec _ _).2 ⟨rfl, hm⟩, hk.symm⟩
  refine ⟨hoff, fun hl => ⟨?_, ?_⟩⟩
  · exact C16_legal K toyGames t ht p hl hcf me ((hoff me).2 (Or.inl rfl))
  · exact C16_legal K toyGames t ht p hl hcf md ((hoff md).2 (Or.inr rfl))

/-- the hypotheses `EpOK` of `C16_legal_moves_of_key` hold for every legal position, e.g. the initial one -/
example : EpOK startState := EpOK_of_legalPos startState startState_legalPos

/-- `CollisionFree` is implied by the independence hypothesis of C08 (satisfiable: `toyKeys_independent`) -/
example (games : List String) (p : State)
    (hU : ∀ q m, Recorded games q m → ∀ a ∈ symmDiff (atoms q) (atoms p), toyU a) :
    CollisionFree toyKeys games p :=
  C16_collisionFree_of_independent toyKeys toyU toyKeys_independent games p hU

/-- `EpOK` cannot be dropped from `C16_legal_moves_of_key`: two (ill-formed) states with the same key — kings, white
pawns c2 and e5, White to move, "en-passant target" d3 resp. d6, both "capturable" on the d-file — have different
legal moves.  No legal position has an en-passant target on rank 3 with White to move. -/
def epOdd (t : Nat) : State :=
  { pieces := { wk := 0x10, bk := 0x1000000000000000, wp := 0x1000000400 }, turn := .white,
    castleW := .noRights, castleB := .noRights, ep := some t, halfmove := 0, fullmove := 1 }

set_option maxRecDepth 1000000 in
example : key (epOdd 19) = key (epOdd 43) ∧
    (legalMoves (epOdd 19)).map (·.1) ≠ (legalMoves (epOdd 43)).map (·.1) := by decide +kernel

end Wee.Book
