import Wee.Proofs.SearchCtl
/-!
# C19 — a search is reproducible from its seed

Rust: `weechess-engine/src/searcher.rs` — `Searcher::analyze` (`RandomNumberGenerator::seed_from_u64(rng_seed)`),
`analyze_iterative` (`ZobristHasher::with(&mut rng)` when there is no previous artifact, `ChaCha8Rng::seed_from_u64(rng.gen())`
per worker and iteration), `analyze_recursive` (`rng.gen_range(-10..=10)` inside `sort_by_cached_key`).
Model: `Wee/Model/Search.lean` (`iterate`, `drawSeeds`, `jitter`), `Wee/Model/Rng.lean`, `Wee/Model/Hash.lean`.

In the model a search **is a function** `iterate root rng0 maxDepth art workersOf cancelAt fuelDepth : Outcome`
of its arguments: there is no clock, no OS randomness, no hashed-container iteration order in it.  The theorems
below are therefore immediate (`rfl` / congruence) — they only spell out *which* arguments a fresh one-worker search
has: the position, the seed, the depth limit (and the table shape, which the public entry point fixes).
The assurance for the Rust code is the exact correspondence tie (DESIGN §C19): the executable model predicts the full
`StatusEvent` sequence (lines, evaluations, node counts) of the real engine for every tested (position, seed, depth),
which an implementation with a hidden source of nondeterminism could not match run after run; the theorem says the
prediction itself is unique.

The only places where the generator state is consumed are `drawSeeds` (one `u64` per worker and iteration) and
`jitter` (one `gen_range` per pseudo-legal move of an expanded node with ≥ 2 moves): `C19_seeds`, `C19_sort_rng_only`.
-/
namespace Wee.SearchCtl
open Wee Wee.Search

/-- `verif::artifact_new(seed, tables, buckets)`: hasher keys drawn from a generator seeded with `seed`, empty
table, empty history -/
def freshArtifact (seed : UInt64) (tables buckets : Nat) : Artifact :=
  { keys := (KeyTable.ofRng (Rng.seedFromU64 seed)).1, tt := TT.Access.new tables buckets, history := [] }

/-- `verif::analyze_sync(state, seed, max_depth, Some(artifact_new(seed, ..)), Some(1), cancel_at_poll, ..)`:
the search generator is seeded again with `seed` -/
def searchHook (root : State) (seed : UInt64) (maxDepth : Option Nat) (tables buckets : Nat)
    (cancelAt : Option Nat) (fuelDepth : Nat := 64) : Outcome :=
  iterate root (Rng.seedFromU64 seed) maxDepth (freshArtifact seed tables buckets) (fun _ => 1) cancelAt fuelDepth

/-- `Searcher::analyze(state, seed, evaluator, max_depth, None)` restricted to one worker: the hasher keys are the
first draws of the generator and the search continues with the same generator (`ZobristHasher::with(&mut rng)`) -/
def searchPublic (root : State) (seed : UInt64) (maxDepth : Option Nat) (tables buckets : Nat)
    (cancelAt : Option Nat) (fuelDepth : Nat := 64) : Outcome :=
  iterate root (KeyTable.ofRng (Rng.seedFromU64 seed)).2 maxDepth (freshArtifact seed tables buckets) (fun _ => 1)
    cancelAt fuelDepth

/-- **C19_function.**  Two searches of the same position with the same seed, the same depth limit, a fresh search
memory (of the same shape) and a single worker report exactly the same sequence of events — best lines,
evaluations, progress records with node counts, saturation warning — end in the same artifact and the same
panic status.  Immediate: the model search is a function of these arguments (see the header for what carries the
assurance). -/
theorem C19_function (root₁ root₂ : State) (seed₁ seed₂ : UInt64) (maxDepth₁ maxDepth₂ : Option Nat)
    (tables buckets : Nat) (cancelAt : Option Nat) (fuelDepth : Nat)
    (hroot : root₁ = root₂) (hseed : seed₁ = seed₂) (hdepth : maxDepth₁ = maxDepth₂) :
    (searchHook root₁ seed₁ maxDepth₁ tables buckets cancelAt fuelDepth).events =
      (searchHook root₂ seed₂ maxDepth₂ tables buckets cancelAt fuelDepth).events ∧
    (searchHook root₁ seed₁ maxDepth₁ tables buckets cancelAt fuelDepth).artifact =
      (searchHook root₂ seed₂ maxDepth₂ tables buckets cancelAt fuelDepth).artifact ∧
    (searchHook root₁ seed₁ maxDepth₁ tables buckets cancelAt fuelDepth).panic =
      (searchHook root₂ seed₂ maxDepth₂ tables buckets cancelAt fuelDepth).panic := by
  subst hroot hseed hdepth
  exact ⟨rfl, rfl, rfl⟩

/-- the same for the public entry point (generator shared between hasher and search) -/
theorem C19_function_public (root₁ root₂ : State) (seed₁ seed₂ : UInt64) (maxDepth₁ maxDepth₂ : Option Nat)
    (tables buckets : Nat) (cancelAt : Option Nat) (fuelDepth : Nat)
    (hroot : root₁ = root₂) (hseed : seed₁ = seed₂) (hdepth : maxDepth₁ = maxDepth₂) :
    searchPublic root₁ seed₁ maxDepth₁ tables buckets cancelAt fuelDepth =
      searchPublic root₂ seed₂ maxDepth₂ tables buckets cancelAt fuelDepth := by
  subst hroot hseed hdepth
  rfl

/-- the general form: *whatever* the memory and the worker schedule, the outcome is determined by the arguments
of `iterate` (so a re-run on a copy of the same artifact reproduces the run) -/
theorem C19_function_general (root : State) (rng₁ rng₂ : Rng.ChaCha8) (maxDepth : Option Nat) (art₁ art₂ : Artifact)
    (workersOf : Nat → Nat) (cancelAt : Option Nat) (fuelDepth : Nat) (hr : rng₁ = rng₂) (ha : art₁ = art₂) :
    iterate root rng₁ maxDepth art₁ workersOf cancelAt fuelDepth =
      iterate root rng₂ maxDepth art₂ workersOf cancelAt fuelDepth := by
  subst hr ha; rfl

/-- with a depth limit the model's iteration fuel (which stands for `usize::MAX`) plays no role -/
theorem C19_fuel_irrelevant (root : State) (rng0 : Rng.ChaCha8) (d : Nat) (art : Artifact)
    (workersOf : Nat → Nat) (cancelAt : Option Nat) (f₁ f₂ : Nat) :
    iterate root rng0 (some d) art workersOf cancelAt f₁ = iterate root rng0 (some d) art workersOf cancelAt f₂ := rfl

/-- the hypotheses of `C19_function` are satisfiable (trivially: any position and seed) -/
example : (default : State) = default ∧ (7 : UInt64) = 7 ∧ (some 3 : Option Nat) = some 3 := ⟨rfl, rfl, rfl⟩

/-- **C19_seeds.**  With one worker, iteration `d` seeds its worker with the next `u64` of the search generator
(`ChaCha8Rng::seed_from_u64(rng.gen())`), and that is all the iteration loop takes from it. -/
theorem C19_seeds (r : Rng.ChaCha8) :
    drawSeeds 1 r = ([(Rng.nextU64 r).1], (Rng.nextU64 r).2) := rfl

/-- **C19_sort_rng_only.**  Ordering the moves of a node cannot fail, returns a permutation of the pseudo-legal
moves and changes nothing of the worker state but the generator (no table access, no counter). -/
theorem C19_sort_rng_only (s : State) (xs : List Move) (st : St) :
    ∃ ys r, (sortByCachedKey xs fun mv => do let j ← jitter; pure (estimate s mv + j)).run.run st =
      (.ok ys, { st with rng := r }) ∧ ys.Perm xs :=
  sort_rngOnly s xs st

/-- with fewer than two moves the generator is not touched at all (`sort_by_cached_key` computes no key) -/
theorem C19_sort_short (s : State) (xs : List Move) (st : St) (h : xs.length < 2) :
    (sortByCachedKey xs fun mv => do let j ← jitter; pure (estimate s mv + j)).run.run st = (.ok xs, st) := by
  unfold sortByCachedKey
  simp only [h, ↓reduceIte]
  rfl

/-- one `gen_range(-10..=10)` per key -/
theorem C19_jitter (st : St) :
    jitter.run.run st =
      (.ok (Rng.genRangeI32 Gen.jitterLo Gen.jitterHi st.rng).1,
       { st with rng := (Rng.genRangeI32 Gen.jitterLo Gen.jitterHi st.rng).2 }) :=
  jitter_run st

end Wee.SearchCtl
